#!/bin/bash
# try_all.sh <patch file> — runs EVERY registered quick check against a scratch worktree of /repo with the patch applied
# (scratch copy of /verif); prints one line per check. For behaviour-preserving refactorings every check should stay quiet.
patch=$(readlink -f "$1"); tag=$$
wt=/tmp/all-wt-$tag; vc=/tmp/all-verif-$tag
git -C /repo worktree add --detach $wt HEAD >/dev/null 2>&1 || exit 2
if ! git -C $wt apply "$patch"; then echo "PATCH DOES NOT APPLY"; git -C /repo worktree remove --force $wt; exit 2; fi
# the COMMITTED /verif (other sessions may be editing the working tree), plus the build cache
mkdir -p $vc; git -C /verif archive HEAD | tar -x -C $vc; rsync -a --exclude run /verif/.work/ $vc/.work/ 2>/dev/null; mkdir -p $vc/replays
ids=$(python3 -c "import json;print(' '.join(c['property_id'] for c in json.load(open('/verif/MANIFEST.json'))['checks']))")
for id in $ids; do
  out=$(cd $vc && VERIF_REPO=$wt VERIF_WORK=$vc/.work timeout 1800 bin/check $id --tier quick 2>&1 | grep -E '^VIOLATION|^\[check\]|^KNOWN' | grep -v KNOWN | head -2 | tr '\n' ' ')
  echo "$id: ${out:-<no output>}"
  case "$out" in *VIOLATION*) for f in $(ls -t $vc/replays/$id-* 2>/dev/null | head -1); do python3 - "$f" <<'PY'
import json,sys
d=json.load(open(sys.argv[1]))
for k in ("kind","what","oracle","first_difference"):
    if k in d: print("     ",k,":",json.dumps(d[k])[:300])
for t in d.get("theorems",[])[:2]: print("      theorem:",t.get("name"),t.get("output","")[-200:].replace("\n"," "))
PY
  done;; esac
done
git -C /repo worktree remove --force $wt; rm -rf $vc

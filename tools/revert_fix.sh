#!/bin/bash
# revert_fix.sh <NNNN> <Cxx> — re-introduces the defect repaired by fix NNNN (reverse diff of the fix commit in /repo,
# found by the subject of design-notes/candidate-fixes/NNNN-*.patch), runs the property's check against that tree and
# records the outcome in seeded/revert-NNNN-Cxx/.
n=$1; pid=$2
pf=$(ls /verif/design-notes/candidate-fixes/$n-*.patch | head -1)
subj=$(grep -m1 '^Subject:' $pf | sed 's/^Subject: \(\[PATCH[^]]*\] \)\?//')
sha=$(git -C /repo log --format='%h %s' | grep -F "$(echo "$subj" | cut -c1-50)" | head -1 | cut -d' ' -f1)
[ -z "$sha" ] && { echo "fix commit for $n not found"; exit 2; }
out=/verif/seeded/revert-$n-$pid; mkdir -p $out
git -C /repo diff $sha $sha~1 > $out/patch.diff
/verif/tools/try_mutant.sh $pid $out/patch.diff > /tmp/revert-$n-$pid.log 2>&1
viol=$(grep -m1 '^VIOLATION' /tmp/revert-$n-$pid.log)
python3 - "$n" "$pid" "$sha" "$subj" "$viol" "$out" <<'PY'
import json,sys,re
n,pid,sha,subj,viol,out=sys.argv[1:7]
log=open("/tmp/revert-%s-%s.log"%(n,pid)).read()
meta={"property":pid,"patch":"reverse diff of /repo commit %s (%s), i.e. design-notes/candidate-fixes/%s-*.patch reverted"%(sha,subj,n),
 "needs":"the defect the fix repaired (see known_findings.json, fixed entry for commit %s)"%sha,
 "ran":"tools/revert_fix.sh %s %s (= tools/try_mutant.sh: scratch worktree of /repo HEAD with the reverse diff applied, bin/check %s --tier quick from a scratch copy of /verif with VERIF_REPO=<worktree>)"%(n,pid,pid),
 "result":viol.replace("/tmp/","") if viol else "MISSED (no VIOLATION line)",
 "oracle_verdicts":sorted(set(re.findall(r"oracle : (.*)",log)))[:5],"replay_kinds":sorted(set(re.findall(r"kind : (.*)",log))),
 "caught_by":"bin/check %s"%pid,"caught":bool(viol)}
json.dump(meta,open(out+"/meta.json","w"),indent=1)
print("revert",n,pid,"caught" if viol else "MISSED",meta["oracle_verdicts"][:2])
PY

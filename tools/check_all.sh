#!/bin/bash
# check_all.sh [tier] — every registered check once on /repo, one line each.
cd "$(dirname "$0")/.."
tier=${1:-quick}
ids=$(python3 -c "import json;print(' '.join(c['property_id'] for c in json.load(open('MANIFEST.json'))['checks']))")
for id in $ids; do
  t0=$(date +%s); out=$(bin/check $id --tier $tier 2>&1 | grep -E '^VIOLATION|^\[check\]|^KNOWN-FINDING' | tr '\n' ' ' | cut -c1-260); t1=$(date +%s)
  echo "$id ($((t1-t0))s): $out"
done

#!/bin/bash
# try_mutant.sh <property id> <patch file> [tier]  — applies the patch to a scratch worktree of /repo, runs the
# property's check from a scratch copy of /verif against it, prints the outcome, removes both.
pid=$1; patch=$(readlink -f "$2"); tier=${3:-quick}
tag=$$
wt=/tmp/mut-wt-$tag; vc=/tmp/mut-verif-$tag
git -C /repo worktree add --detach $wt HEAD >/dev/null 2>&1 || { echo "worktree failed"; exit 2; }
if ! git -C $wt apply "$patch"; then echo "PATCH DOES NOT APPLY"; git -C /repo worktree remove --force $wt; exit 2; fi
rsync -a --exclude .git --exclude '.work/run' --exclude replays /verif/ $vc/
mkdir -p $vc/replays
( cd $vc && VERIF_REPO=$wt VERIF_WORK=$vc/.work timeout 1800 bin/check $pid --tier $tier 2>&1 | tail -8; echo "exit=$?" )
for f in $vc/replays/*.json; do [ -f "$f" ] && { echo "--- $(basename $f)"; python3 - "$f" <<'PY'
import json,sys
d=json.load(open(sys.argv[1]))
for k in ("kind","what","oracle","pretty","first_difference","theorems","note"):
    if k in d:
        v=json.dumps(d[k]); print(" ",k,":",v[:700])
PY
}; done
git -C /repo worktree remove --force $wt
rm -rf $vc

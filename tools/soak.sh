#!/bin/bash
# soak.sh <rounds> [tier] — setup, then every registered quick check <rounds> times with different seeds; prints every
# non-quiet run. Used to look for flaky alarms on the unchanged tree (run from a snapshot with `vp run`).
cd "$(dirname "$0")/.."
rounds=${1:-3}; tier=${2:-quick}
bin/setup > soak-setup.log 2>&1
ids=$(python3 -c "import json;print(' '.join(c['property_id'] for c in json.load(open('MANIFEST.json'))['checks']))")
for r in $(seq 1 $rounds); do
  for id in $ids; do
    t0=$(date +%s)
    VERIF_SEED=$((r*1000+7)) bin/check $id --tier $tier > soak-$id-$r.log 2>&1; rc=$?
    t1=$(date +%s)
    viol=$(grep -c '^VIOLATION' soak-$id-$r.log)
    echo "round=$r id=$id rc=$rc violations=$viol wall=$((t1-t0))s"
    if [ $rc -ne 0 ] || [ $viol -ne 0 ]; then grep '^VIOLATION' soak-$id-$r.log; ls replays | tail -3; fi
  done
done
echo SOAK-DONE

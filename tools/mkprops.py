#!/usr/bin/env python3
"""mkprops.py <ProofsFile.v> <Cxx> name[:"doc"] ...  — writes coq/Props/Cxx/<name>.v for each named theorem of the
proofs file, repeating its statement verbatim (so the property file can be read on its own) and closing it by
`exact`. The imports of the proofs file are reused."""
import os, re, sys
ROOT = os.path.dirname(os.path.dirname(os.path.abspath(__file__)))
src, pid, names = sys.argv[1], sys.argv[2], sys.argv[3:]
text = open(os.path.join(ROOT, "coq", src)).read()
mod = "IV." + src[:-2].replace("/", ".")
imports = [l for l in text.split("\n") if l.startswith("From ") and "Require" in l]
outdir = os.path.join(ROOT, "coq", "Props", pid)
os.makedirs(outdir, exist_ok=True)
for n in names:
    doc = ""
    if ":" in n:
        n, doc = n.split(":", 1)
    m = re.search(r"(?:Theorem|Lemma)\s+%s\b(.*?)\nProof\." % re.escape(n), text, re.S)
    if not m:
        sys.exit("no theorem %s in %s" % (n, src))
    stmt = m.group(1).rstrip()
    assert stmt.endswith("."), stmt
    short = mod.split(".")[-1]
    body = "(** %s — %s%s *)\n%s\nFrom IV Require Import %s.\nTheorem %s%s\nProof. first [exact %s.%s | intros; apply %s.%s]. Qed.\nPrint Assumptions %s.\n" % (
        pid, n, (": " + doc) if doc else "", "\n".join(imports), src[:-2].replace("/", "."), n, stmt, short, n, short, n, n)
    with open(os.path.join(outdir, n + ".v"), "w") as f:
        f.write(body)
    print("wrote", pid, n)

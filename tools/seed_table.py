#!/usr/bin/env python3
"""Prints the markdown table 'which check catches which seeded change' from seeded/*/meta.json."""
import glob, json, os
rows = []
for d in sorted(glob.glob(os.path.join(os.path.dirname(os.path.dirname(os.path.abspath(__file__))), "seeded", "*"))):
    mp = os.path.join(d, "meta.json")
    if not os.path.exists(mp):
        continue
    m = json.load(open(mp))
    name = os.path.basename(d)
    prop = m.get("property", "?")
    what = (m.get("summary") or m.get("patch") or m.get("what") or "").replace("\n", " ").replace("|", "/")
    needs = (m.get("needs") or "").replace("\n", " ").replace("|", "/")
    res = m.get("check_result") or m.get("result") or ""
    if isinstance(res, dict):
        res = json.dumps(res)
    caught = m.get("caught")
    if caught is None:
        caught = "VIOLATION" in str(res)
    verdicts = m.get("oracle_verdicts") or []
    v = "; ".join(str(x).strip('"') for x in verdicts[:2])
    if not v and "no-failing-input-found" in str(res):
        v = "(no-failing-input-found: " + ", ".join(m.get("replay_kinds", m.get("replay_files", []))[:2]) + ")"
    status = "caught" if caught else "MISSED"
    if m.get("obsolete_after_fix"):
        # the change relied on a defect that has since been repaired in /repo: it no longer breaks the property
        status = "no longer a breaking change (after fix " + str(m["obsolete_after_fix"]).split(":")[0].split(" - ")[0][:24] + "); " + ("caught while it was" if caught else "missed while it was")
    rows.append((name, prop, m.get("checked_with", m.get("caught_by", "bin/check " + prop)), status, v[:110], what[:160], needs[:140]))
print("| seeded change | property | check | result | oracle verdict / replay | what was changed | needs to manifest |")
print("|---|---|---|---|---|---|---|")
for r in rows:
    print("| " + " | ".join(str(x) for x in r) + " |")

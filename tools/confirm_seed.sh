#!/bin/bash
# confirm_seed.sh <ID> <k> [check-property]  — independently confirms seeded change /tmp/seedout/<ID>/m<k>.diff:
# (1) demo passes on the unchanged tree, (2) patch applies, builds, whole suite passes, (3) demo fails with it,
# (4) runs the property's check against it. Keeps it as /verif/seeded/<ID>-m<k>/ with meta.json.
ID=$1; k=$2; CHK=${3:-$ID}
case "$k" in [0-9]*) L=m$k;; *) L=$k;; esac
src=/tmp/seedout/$ID; out=/verif/seeded/$ID-$L
export GOFLAGS=-mod=mod GOPROXY=off GOSUMDB=off GOTOOLCHAIN=local
wt=/tmp/confirm-wt-$ID-$k
git -C /repo worktree add --detach $wt HEAD >/dev/null 2>&1 || exit 2
demo=$(ls $src/${L}_demo/*_test.go | head -1)
pkgdir=$(grep -o '\(pkg\|cmd\)/[a-z0-9/]*' $src/${L}_demo/README | head -1); pkgdir=${pkgdir%/}
runpat=$(grep -o '\-run [A-Za-z0-9_]*' $src/${L}_demo/README | head -1 | cut -d' ' -f2)
TAGS=""; grep -q -- '-tags verif' $src/${L}_demo/README && TAGS="-tags verif"
cp $demo $wt/$pkgdir/
( cd $wt && go test $TAGS -vet=off -count=1 -run "$runpat" ./$pkgdir/ > /tmp/confirm-$ID-$k.without 2>&1 ); r_without=$?
if ! git -C $wt apply $src/$L.diff; then echo "patch does not apply"; git -C /repo worktree remove --force $wt; exit 2; fi
( cd $wt && go build ./... > /tmp/confirm-$ID-$k.build 2>&1 ); r_build=$?
( cd $wt && go test $TAGS -vet=off -count=1 -run "$runpat" ./$pkgdir/ > /tmp/confirm-$ID-$k.with 2>&1 ); r_with=$?
rm $wt/$pkgdir/$(basename $demo)
# the integration tests bind fixed ports (2500, 9000): one suite at a time
( cd $wt && flock /tmp/confirm-suite.lock go test -vet=off -count=1 ./... > /tmp/confirm-$ID-$k.suite 2>&1 ); r_suite=$?
if [ $r_suite -ne 0 ] && grep -q "address already in use" /tmp/confirm-$ID-$k.suite; then
  sleep 5; ( cd $wt && flock /tmp/confirm-suite.lock go test -vet=off -count=1 ./... > /tmp/confirm-$ID-$k.suite 2>&1 ); r_suite=$?
fi
git -C /repo worktree remove --force $wt
echo "demo without change rc=$r_without (want 0); build rc=$r_build (want 0); demo with change rc=$r_with (want !=0); suite with change rc=$r_suite (want 0)"
if [ $r_without -ne 0 ] || [ $r_build -ne 0 ] || [ $r_with -eq 0 ] || [ $r_suite -ne 0 ]; then echo "NOT CONFIRMED"; tail -5 /tmp/confirm-$ID-$k.suite; exit 1; fi
/verif/tools/try_mutant.sh $CHK $src/$L.diff > /tmp/confirm-$ID-$k.check 2>&1
viol=$(grep -m1 '^VIOLATION' /tmp/confirm-$ID-$k.check)
mkdir -p $out/demo
cp $src/$L.diff $out/patch.diff; cp -r $src/${L}_demo/* $out/demo/; cp $src/$L.json $out/seeder.json
python3 - "$ID" "$k" "$CHK" "$viol" "$out" <<'PY'
import json,sys,re
ID,k,CHK,viol,out=sys.argv[1:6]
seed=json.load(open(out+"/seeder.json"))
chk=open("/tmp/confirm-%s-%s.check"%(ID,k)).read()
oracle=re.findall(r"oracle : (.*)",chk)
kinds=re.findall(r"^--- (\S+)",chk,re.M)
meta={"property":ID,"checked_with":CHK,"summary":seed.get("summary"),"why_it_breaks":seed.get("why_it_breaks"),"needs":seed.get("needs"),
 "confirmed":{"demo_passes_without_change":True,"builds_with_change":True,"suite_passes_with_change":True,"demo_fails_with_change":True},
 "ran":"tools/confirm_seed.sh %s %s %s (scratch worktree of /repo HEAD; demo before/after; go build ./...; go test ./...; tools/try_mutant.sh = bin/check %s --tier quick on a scratch copy of /verif with VERIF_REPO=<worktree>)"%(ID,k,CHK,CHK),
 "check_result":viol.replace("/tmp/","") if viol else "MISSED (no VIOLATION line)","replay_files":kinds,"oracle_verdicts":sorted(set(oracle))[:5],
 "caught":bool(viol)}
json.dump(meta,open(out+"/meta.json","w"),indent=1)
print("kept",out,"caught" if viol else "MISSED")
PY

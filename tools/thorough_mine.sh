#!/bin/bash
cd "$(dirname "$0")/.."
bin/setup > thorough-setup.log 2>&1
for id in "$@"; do
  t0=$(date +%s); bin/check $id --tier thorough > thorough-$id.log 2>&1; rc=$?; t1=$(date +%s)
  echo "id=$id rc=$rc wall=$((t1-t0))s $(grep -c '^VIOLATION' thorough-$id.log) violations"; grep '^VIOLATION' thorough-$id.log
  python3 -c "
import json;d=json.load(open('evidence/$id.json'));c=d['coverage'];print('   ',c['obligations'],c['discharged'],c['evaluations'],c['distinct_nontrivial'],c.get('coqchk'))"
done
echo THOROUGH-DONE

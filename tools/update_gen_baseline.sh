#!/bin/bash
# Copies the freshly generated coq/Gen/*.v (from the unchanged /repo) to coq/GenBaseline/ (committed): the fallback
# pins uses when a generator can no longer read the source, so that the model still runs and can search for a failing input.
cd "$(dirname "$0")/.."
mkdir -p coq/GenBaseline
for f in coq/Gen/*.v; do cp "$f" coq/GenBaseline/$(basename "$f").txt 2>/dev/null; done
# stored with .txt suffix so that they are not part of the Coq project
ls coq/GenBaseline

(** Bytes and byte strings as used by every model: a byte is an [N], a string a list of them. *)
From Coq Require Export List NArith ZArith Bool Lia.
Export ListNotations.
Open Scope N_scope.

Definition byte := N.
Definition str := list N.

(** Anchor for the OCaml runners: makes every extracted module contain nat, N, Z, positive. *)
Definition conv_anchor (a : nat) (b : N) (c : Z) : nat * N * Z := (a, b, c).

Definition is_upper (c : N) : bool := (65 <=? c) && (c <=? 90).
Definition is_lower (c : N) : bool := (97 <=? c) && (c <=? 122).
Definition is_digit (c : N) : bool := (48 <=? c) && (c <=? 57).
Definition is_alpha (c : N) : bool := is_upper c || is_lower c.

(** ASCII lower/upper-casing of one byte (what Go's strings.ToLower/ToUpper do to an
    ASCII-only string; non-ASCII strings are outside the models that use these). *)
Definition lower_b (c : N) : N := if is_upper c then c + 32 else c.
Definition upper_b (c : N) : N := if is_lower c then c - 32 else c.
Definition lower (s : str) : str := map lower_b s.
Definition upper (s : str) : str := map upper_b s.

Definition is_ascii (s : str) : bool := forallb (fun c => c <? 128) s.

Fixpoint str_eqb (a b : str) : bool :=
  match a, b with
  | [], [] => true
  | x :: a', y :: b' => (x =? y) && str_eqb a' b'
  | _, _ => false
  end.

Definition mem_str (x : str) (l : list str) : bool := existsb (str_eqb x) l.

Fixpoint mem_b (c : N) (s : str) : bool :=
  match s with [] => false | x :: s' => (x =? c) || mem_b c s' end.

(** Split at every occurrence of a separator byte (Go's strings.Split for a 1-byte sep). *)
Fixpoint split_on (sep : N) (s : str) : list str :=
  match s with
  | [] => [[]]
  | c :: s' =>
      match split_on sep s' with
      | [] => [[c]]   (* unreachable: split_on never returns [] *)
      | w :: ws => if c =? sep then [] :: w :: ws else (c :: w) :: ws
      end
  end.

Fixpoint has_prefix (p s : str) : bool :=
  match p, s with
  | [], _ => true
  | x :: p', y :: s' => (x =? y) && has_prefix p' s'
  | _ :: _, [] => false
  end.

(** Index of the first occurrence of a byte. *)
Fixpoint index_of (c : N) (s : str) : option nat :=
  match s with
  | [] => None
  | x :: s' => if x =? c then Some O else option_map S (index_of c s')
  end.

Definition byte_range : list N := map N.of_nat (seq 0 256).

(** An interpreter for the RE2 programs Go's regexp/syntax compiles the repository's patterns
    to (emitted by go/cmd/pins into Gen/SmtpRegex.v): leftmost-first semantics as implemented by
    Go's backtracker - explicit job stack, priority to the first branch of an alternation, a
    visited set over (pc, position) that is kept from one start position to the next - over
    runes decoded from UTF-8 exactly as Go does (an invalid byte is U+FFFD of width 1).
    Fuelled and total: running out of fuel and unsupported instructions are explicit results.
    No proofs here. *)
From IV Require Import Base.Bytes.
From Coq Require Import FSets.FMapPositive.

Inductive inst :=
  | IAlt (x y : nat)
  | ICap (slot next : nat)
  | IEmpty (flags next : nat)        (* syntax.EmptyOp bits: 1 ^(?m) 2 $(?m) 4 \A 8 \z 16 \b 32 \B *)
  | IMatch
  | IFail
  | INop (next : nat)
  | IRune (ranges : list (N * N)) (next : nat).

Record program := { p_insts : list inst; p_start : nat; p_ncap : nat }.

(** utf8.DecodeRune on the head of a byte string: rune, width, rest. *)
Definition is_cont (b : N) : bool := (128 <=? b) && (b <=? 191).
Definition rune_error : N := 65533.
Definition decode_rune (s : str) : option (N * N * str) :=
  match s with
  | [] => None
  | b0 :: s1 =>
      let bad := Some (rune_error, 1, s1) in
      if b0 <? 128 then Some (b0, 1, s1)
      else if (194 <=? b0) && (b0 <=? 223) then
        match s1 with
        | b1 :: s2 => if is_cont b1 then Some ((b0 - 192) * 64 + (b1 - 128), 2, s2) else bad
        | _ => bad
        end
      else if (224 <=? b0) && (b0 <=? 239) then
        match s1 with
        | b1 :: b2 :: s3 =>
            let lo := if b0 =? 224 then 160 else 128 in
            let hi := if b0 =? 237 then 159 else 191 in
            if (lo <=? b1) && (b1 <=? hi) && is_cont b2
            then Some ((b0 - 224) * 4096 + (b1 - 128) * 64 + (b2 - 128), 3, s3) else bad
        | _ => bad
        end
      else if (240 <=? b0) && (b0 <=? 244) then
        match s1 with
        | b1 :: b2 :: b3 :: s4 =>
            let lo := if b0 =? 240 then 144 else 128 in
            let hi := if b0 =? 244 then 143 else 191 in
            if (lo <=? b1) && (b1 <=? hi) && is_cont b2 && is_cont b3
            then Some ((b0 - 240) * 262144 + (b1 - 128) * 4096 + (b2 - 128) * 64 + (b3 - 128), 4, s4) else bad
        | _ => bad
        end
      else bad
  end.

Fixpoint in_ranges (r : N) (rs : list (N * N)) : bool :=
  match rs with
  | [] => false
  | (lo, hi) :: rs' => ((lo <=? r) && (r <=? hi)) || in_ranges r rs'
  end.

Definition caps := list (option N).
Record job := { j_pc : nat; j_pos : N; j_rest : str; j_prev : option N; j_caps : caps }.

Fixpoint set_nth {A} (n : nat) (x : A) (l : list A) : list A :=
  match n, l with
  | O, _ :: l' => x :: l'
  | S n', y :: l' => y :: set_nth n' x l'
  | _, [] => []
  end.

Inductive mres := MFound (c : caps) | MNone | MFuel | MUnsupported.

Definition next_rune (s : str) : option N :=
  match decode_rune s with Some (r, _, _) => Some r | None => None end.

(** Some true / Some false: the assertion holds / fails; None: not supported (\b, \B). *)
Definition empty_ok (flags : nat) (j : job) : option bool :=
  if Nat.leb 16 flags then None
  else
    let bt := Nat.testbit flags 2 in  (* \A *)
    let et := Nat.testbit flags 3 in  (* \z *)
    let bl := Nat.testbit flags 0 in
    let el := Nat.testbit flags 1 in
    Some ((negb bt || (j_pos j =? 0))
          && (negb et || match j_rest j with [] => true | _ => false end)
          && (negb bl || match j_prev j with None => true | Some p => p =? 10 end)
          && (negb el || match next_rune (j_rest j) with None => true | Some c => c =? 10 end)).

Definition with_pc (j : job) (pc : nat) : job :=
  {| j_pc := pc; j_pos := j_pos j; j_rest := j_rest j; j_prev := j_prev j; j_caps := j_caps j |}.

Fixpoint bt (fuel : nat) (prog : program) (n1 : N) (stack : list job) (vis : PositiveMap.t unit)
  : mres * PositiveMap.t unit :=
  match fuel with
  | O => (MFuel, vis)
  | S f =>
      match stack with
      | [] => (MNone, vis)
      | j :: st =>
          let key := N.succ_pos (N.of_nat (j_pc j) * n1 + j_pos j) in
          match PositiveMap.find key vis with
          | Some _ => bt f prog n1 st vis
          | None =>
              let vis' := PositiveMap.add key tt vis in
              match nth_error (p_insts prog) (j_pc j) with
              | None => bt f prog n1 st vis'
              | Some IFail => bt f prog n1 st vis'
              | Some IMatch => (MFound (set_nth 1 (Some (j_pos j)) (j_caps j)), vis')
              | Some (INop nx) => bt f prog n1 (with_pc j nx :: st) vis'
              | Some (IAlt x y) => bt f prog n1 (with_pc j x :: with_pc j y :: st) vis'
              | Some (ICap k nx) =>
                  bt f prog n1 ({| j_pc := nx; j_pos := j_pos j; j_rest := j_rest j; j_prev := j_prev j;
                                   j_caps := set_nth k (Some (j_pos j)) (j_caps j) |} :: st) vis'
              | Some (IEmpty fl nx) =>
                  match empty_ok fl j with
                  | None => (MUnsupported, vis')
                  | Some true => bt f prog n1 (with_pc j nx :: st) vis'
                  | Some false => bt f prog n1 st vis'
                  end
              | Some (IRune rs nx) =>
                  match decode_rune (j_rest j) with
                  | Some (r, w, rest') =>
                      if in_ranges r rs
                      then bt f prog n1 ({| j_pc := nx; j_pos := j_pos j + w; j_rest := rest';
                                            j_prev := Some r; j_caps := j_caps j |} :: st) vis'
                      else bt f prog n1 st vis'
                  | None => bt f prog n1 st vis'
                  end
              end
          end
      end
  end.

Definition budget (prog : program) (n : N) : nat :=
  N.to_nat (3 * N.of_nat (length (p_insts prog)) * (n + 1) + 3).

(** Leftmost match at or after the current position: try every start in order (by rune),
    carrying the visited set along, as Go's backtracker does. [starts] is structural fuel. *)
Fixpoint search (starts : nat) (prog : program) (n1 : N) (pos : N) (rest : str) (prev : option N)
    (vis : PositiveMap.t unit) : mres :=
  match starts with
  | O => MFuel
  | S k =>
      let j := {| j_pc := p_start prog; j_pos := pos; j_rest := rest; j_prev := prev;
                  j_caps := set_nth 0 (Some pos) (repeat None (p_ncap prog)) |} in
      match bt (budget prog n1) prog n1 [j] vis with
      | (MNone, vis') =>
          match decode_rune rest with
          | Some (r, w, rest') => search k prog n1 (pos + w) rest' (Some r) vis'
          | None => MNone
          end
      | (res, _) => res
      end
  end.

Definition len_N (s : str) : N := N.of_nat (length s).

(** regexp.FindStringSubmatchIndex: the capture slots of the leftmost-first match. *)
Definition find (prog : program) (s : str) : mres :=
  search (S (length s)) prog (len_N s + 1) 0 s None (PositiveMap.empty unit).

(** s[a:b] *)
Definition slice (s : str) (a b : N) : str := firstn (N.to_nat (b - a)) (skipn (N.to_nat a) s).
Definition group (s : str) (c : caps) (k : nat) : str :=
  match nth (2 * k) c None, nth (2 * k + 1) c None with
  | Some a, Some b => slice s a b
  | _, _ => []
  end.

(** regexp.FindAllStringSubmatchIndex for patterns that never match the empty string
    (an empty match is reported as unsupported): successive non-overlapping matches.
    Offsets are relative to the whole string. *)
Fixpoint find_all_from (rounds : nat) (prog : program) (s : str) (n1 : N) (pos : N) (rest : str) (prev : option N)
  : option (list caps) :=
  match rounds with
  | O => None
  | S k =>
      match search (S (length rest)) prog n1 pos rest prev (PositiveMap.empty unit) with
      | MNone => Some []
      | MFound c =>
          match nth 0 c None, nth 1 c None with
          | Some a, Some b =>
              if b <=? a then None
              else
                let rest' := skipn (N.to_nat (b - pos)) rest in
                (* the previous rune only matters for line/word assertions, which find_all's users do not have *)
                match find_all_from k prog s n1 b rest' (Some 0) with
                | Some l => Some (c :: l)
                | None => None
                end
          | _, _ => None
          end
      | _ => None
      end
  end.
Definition find_all (prog : program) (s : str) : option (list caps) :=
  find_all_from (S (length s)) prog s (len_N s + 1) 0 s None.

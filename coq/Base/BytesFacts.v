(** Facts about [Base.Bytes]. *)
From IV Require Import Base.Bytes.

Lemma str_eqb_eq a b : str_eqb a b = true <-> a = b.
Proof.
  revert b; induction a as [|x a IH]; intros [|y b]; simpl; split; intros H; try congruence; try reflexivity.
  - apply andb_true_iff in H as [H1 H2]. apply N.eqb_eq in H1. apply IH in H2. subst; reflexivity.
  - inversion H; subst. rewrite N.eqb_refl. simpl. apply IH. reflexivity.
Qed.

Lemma str_eqb_refl a : str_eqb a a = true.
Proof. apply str_eqb_eq; reflexivity. Qed.

Lemma mem_str_In x l : mem_str x l = true <-> In x l.
Proof.
  unfold mem_str. rewrite existsb_exists. split.
  - intros [y [Hy He]]. apply str_eqb_eq in He. subst. exact Hy.
  - intros H. exists x. split; [exact H | apply str_eqb_refl].
Qed.

Lemma mem_b_In c s : mem_b c s = true <-> In c s.
Proof.
  induction s as [|x s IH]; simpl.
  - split; [discriminate | tauto].
  - rewrite orb_true_iff, N.eqb_eq, IH. tauto.
Qed.

Lemma in_byte_range c : c < 256 -> In c byte_range.
Proof.
  intros H. unfold byte_range. apply in_map_iff. exists (N.to_nat c). split.
  - apply N2Nat.id.
  - apply in_seq. lia.
Qed.

(** Lifting a finite sweep over the 256 byte values to a universally quantified fact. *)
Lemma byte_sweep (P : N -> bool) :
  forallb P byte_range = true -> forall c, c < 256 -> P c = true.
Proof.
  intros H c Hc. rewrite forallb_forall in H. apply H. apply in_byte_range. exact Hc.
Qed.

Lemma lower_b_idem c : lower_b (lower_b c) = lower_b c.
Proof.
  unfold lower_b, is_upper.
  destruct ((65 <=? c) && (c <=? 90)) eqn:E.
  - apply andb_true_iff in E as [E1 E2]. apply N.leb_le in E1, E2.
    destruct ((65 <=? c + 32) && (c + 32 <=? 90)) eqn:E'; [|reflexivity].
    apply andb_true_iff in E' as [_ E4]. apply N.leb_le in E4. lia.
  - rewrite E. reflexivity.
Qed.

Lemma lower_idem s : lower (lower s) = lower s.
Proof. unfold lower. rewrite map_map. apply map_ext. apply lower_b_idem. Qed.

Lemma lower_length s : length (lower s) = length s.
Proof. apply map_length. Qed.

Lemma lower_app a b : lower (a ++ b) = lower a ++ lower b.
Proof. apply map_app. Qed.

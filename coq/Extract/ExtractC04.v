From Coq Require Import Extraction ExtrOcamlBasic.
From IV Require Import Base.Bytes Model.Addr Model.IpLit Model.AddrSpec.
Extraction Language OCaml.
Extraction "c04_model.ml" conv_anchor parse_email parse_email_validated parse_mailbox_name validate_domain
  canonical_domain extract_mailbox new_recipient read_name read_sites pop3_user_flow mailbox_for_address_is_extract
  case_variant plain lower ip_inner is_bracketed go_parse_ip ordinary_name.

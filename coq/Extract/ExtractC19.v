From Coq Require Import Extraction ExtrOcamlBasic.
From IV Require Import Base.Bytes Model.Lifecycle Model.LifecycleAsm.
Extraction Language OCaml.
Extraction "c19_model.ml" conv_anchor ldrive loracle rsteps rinit boot_pinned.

From Coq Require Import Extraction ExtrOcamlBasic.
From IV Require Import Base.Bytes Model.FileDisk Model.FileDiskCodec Model.FileDiskVisit.
Extraction Language OCaml.
Extraction "c11_model.ml" conv_anchor steps result_of exec view visit crash_disk run run' lookup
  children enc_index dec_index evict_count read_index cvisit.

From Coq Require Import Extraction ExtrOcamlBasic.
From IV Require Import Base.Bytes Model.Hub Model.HubFed.
Extraction Language OCaml.
Extraction "c15_model.ml" conv_anchor drive_pinned oracle_pinned pinned_cfg expected strip spec_history
  fed_drive_pinned asm_first asm_late.

From Coq Require Import Extraction ExtrOcamlBasic.
From IV Require Import Base.Bytes Model.StoreSpec Model.StoreSpecImpl Model.MemStore Model.FileStore Model.Events.
Extraction Language OCaml.
Extraction "c07_model.ml" conv_anchor spec_init run_spec run_mem run_file trace_of sbd_scan sbd_ok count_stored count_deleted xbroker_log xsbd_ok gen_loop gen_fuel final_spec spec_visit run_file_segs run_spec_segs file_init.

From Coq Require Import Extraction ExtrOcamlBasic.
From IV Require Import Base.Bytes Model.Policy.
Extraction Language OCaml.
Extraction "c05_model.ml" conv_anchor match_wild globb load_cfg raw_cfg should_accept should_store
  should_accept_origin accept_spec store_spec origin_spec.

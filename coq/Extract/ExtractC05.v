From Coq Require Import Extraction ExtrOcamlBasic.
From IV Require Import Base.Bytes Model.Policy Model.Smtp Model.Dot Model.SmtpWire Model.SmtpAddr Model.SmtpMailParse Model.Hooks Gen.ConfigPins.
Extraction Language OCaml.
Extraction "c05_model.ml" conv_anchor match_wild globb load_cfg raw_cfg should_accept should_store
  should_accept_origin accept_spec store_spec origin_spec
  run_bytes run_bytes_tls run_net run_net_w replies_of attach dialogue seq_ok reply_ok size_ok accept_ok
  entitled store_after store_after_cap stored_source deliveries_of first_code init rcpt_of origin_of mail_facts_of size_seen_ok plain_mail_ok broker_emit table_listener session_answer chain_add chain_emit deny_line smtp_domain_default.

From Coq Require Import Extraction ExtrOcamlBasic.
From IV Require Import Base.Bytes Model.StoreSpec Model.Retention Model.RetentionLoop.
Extraction Language OCaml.
Extraction "c12_model.ml" conv_anchor spec_init exec_spec expired snapshot scan do_scan sys_init replay run start loop spec_visit linit lev_step loop_step settle lrun deliver_op.

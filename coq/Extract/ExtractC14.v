From Coq Require Import Extraction ExtrOcamlBasic.
From IV Require Import Base.Bytes Model.StoreSpec Model.Rest.
Extraction Language OCaml.
Extraction "c14_model.ml" conv_anchor spec_init hstep hspec req_path serve spec_serve client_do spec_cop
  client_wire client_uri spec_visit id_of_k handle_of_id has_html base_of_config render jheader_of jmessage_of juimessage_of qescape.

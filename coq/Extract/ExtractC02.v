From Coq Require Import Extraction ExtrOcamlBasic.
From IV Require Import Base.Bytes Model.Dot.
Extraction Language OCaml.
Extraction "c02_model.ml" conv_anchor dec wire joined_lf lines_of enc lf_norm stored_source.

From Coq Require Import Extraction ExtrOcamlBasic.
From IV Require Import Base.Bytes Model.Sanitize Model.SanitizePolicy Model.SanitizeTag.
Extraction Language OCaml.
Extraction "c18_model.ml" conv_anchor sanitize_style decls_ok decl_head_ok style_tag_filter
  text_to_html matches_plain text_spec hrefs_of allowed go_lower escape_std
  html_model bm_tokens otoken_inert tag_inert urlinfo_sound scan_start_tag h_tok_style_check.

From Coq Require Import Extraction ExtrOcamlBasic.
From IV Require Import Base.Bytes Model.Conc Model.ConcMem Model.ConcFile Model.ConcEnfSpec.
Extraction Language OCaml.
Extraction "c09_model.ml" conv_anchor seq_exec seq_run sget
  init_sys enf0 step setpc drive all_done enabled results s_boxes s_thr s_enf s_log is_idle
  finit fwith_ops fstep fsetpc fdrive fall_done fenabled fresults f_idx f_thr f_mbd f_l1 f_l2 pick
  q0 qstep qchoices qdrive q_store.

From Coq Require Import Extraction ExtrOcamlBasic.
From IV Require Import Base.Bytes Model.Pop3Wire Model.Pop3 Model.Pop3Net Model.Pop3Tls.
Extraction Language OCaml.
Extraction "c13_model.ml" conv_anchor deliver expand run init_world oracle dump_box parse_line
  pop3_send pop3_send_top pop3_client_decode scan_lines crlf_join top_spec run_bytes feed frev wstep get_box remove_msg run_stream read_lines run_net tsessions.

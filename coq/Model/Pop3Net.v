(** The connection as the POP3 session's reader sees it (pkg/server/pop3/handler.go:
    readLine = SetReadDeadline + bufio.Reader.ReadString('\n'); the error branch of the
    command loop in startSession).

    The client's bytes arrive in chunks; between two chunks the client pauses for longer than
    the configured idle timeout, so that exactly one read fails with a timeout there; after
    the last chunk the connection ends by EOF, by silence (every further read times out) or
    by a read error.  What bufio and the session make of this:
    - a complete line is buffered: ReadString returns it, the command is handled;
    - bytes without LF are buffered (or nothing) and the connection has no more for now:
      bufio asks the connection, the read fails; ReadString returns the partial line TOGETHER
      WITH the error and forgets both; readLine drops the partial line ([return "", err]);
    - io.EOF: no reply, the loop ends;
    - a timeout: "-ERR Idle timeout, bye bye", the loop ends;
    - any other error: "-ERR Connection error, sorry", the loop ends;
    in EVERY state, and none of these branches calls processDeletes: the session is over
    without entering UPDATE.  (The two error replies differ only in their text; both are the
    event [EReadErr] of Model/Pop3.v.)  No proofs in this file. *)
From IV Require Import Base.Bytes Model.Pop3Wire Model.Pop3.
Open Scope N_scope.

Inductive fin_kind := FEof | FIdle | FErr.
Record reader := { cur : str; later : list str; fin : fin_kind }.

Definition end_event (f : fin_kind) : event :=
  match f with FEof => EEof | FIdle => EReadErr | FErr => EReadErr end.

(** The first complete line (with its LF) of the buffered bytes, and what follows it. *)
Fixpoint cut_line (w : str) : option (str * str) :=
  match w with
  | [] => None
  | c :: w' =>
      if c =? LF then Some ([c], w')
      else match cut_line w' with
           | Some (l, r) => Some (c :: l, r)
           | None => None
           end
  end.

(** One [readLine] of the session. *)
Definition next_event_net (r : reader) : event * reader :=
  match cut_line (cur r) with
  | Some (l, rest) => (ELine l, {| cur := rest; later := later r; fin := fin r |})
  | None =>
      match later r with
      | w' :: ws => (EReadErr, {| cur := w'; later := ws; fin := fin r |})   (* the pause: a timeout *)
      | [] => (end_event (fin r), {| cur := []; later := []; fin := fin r |})
      end
  end.

(** The command loop over a connection: the world it ends in and the events it consumed. *)
Fixpoint run_reader (fuel : nat) (fl : flavour) (w : world) (r : reader) : world * list event :=
  match fuel with
  | O => (w, [])
  | S f =>
      if is_open w then
        let (e, r') := next_event_net r in
        let (w', evs) := run_reader f fl (wstep fl w e) r' in
        (w', e :: evs)
      else (w, [])
  end.

Definition total_len (ws : list str) : nat := fold_right (fun w n => (length w + n)%nat) 0%nat ws.

(** Fuel: every event but the last consumes a byte or a chunk boundary. *)
Definition run_net (fl : flavour) (st : store) (chunks : list str) (f : fin_kind) : world * list event :=
  run_reader (total_len chunks + length chunks + 2) fl (init_world st)
             {| cur := hd [] chunks; later := tl chunks; fin := f |}.

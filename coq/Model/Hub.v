(** Model of inbucket's message hub and of the real WebSocket listeners attached to it
    (pkg/msghub/hub.go; pkg/rest/socketv1_controller.go, socketv2_controller.go), as coded
    after the repairs 0013 (relay with history 0), 0014 (ops after shutdown are ignored) and
    0015 (sync.Once + done channel in the listeners).

    The hub is an actor: every public method enqueues a closure on a FIFO channel of capacity
    [opcap]; one goroutine pops and runs them. A broadcast (Dispatch / Delete) calls every
    registered listener in turn, a join (AddListener) replays the history ring to the new
    listener.  The model makes the unit of hub progress ONE listener call (a [delivery]),
    because that is where the hub can block: a real listener's [enqueue] waits for room in its
    bounded queue unless the listener has been closed.

    Everything that other goroutines do — clients enqueueing ops, the socket writer taking an
    event, the socket reader closing the listener, cancellation — is an [action]; a schedule is
    a list of actions.  No proofs in this file. *)
From IV Require Import Base.Bytes Gen.HubPins.
Local Open Scope nat_scope.

(** * Events *)

Definition msg := (str * str)%type.   (* mailbox, id *)

Definition msg_eqb (a b : msg) : bool := str_eqb (fst a) (fst b) && str_eqb (snd a) (snd b).

Inductive ev := Stored (m : msg) | Deleted (m : msg).

Definition ev_msg (e : ev) : msg := match e with Stored m => m | Deleted m => m end.

Definition ev_eqb (a b : ev) : bool :=
  match a, b with
  | Stored x, Stored y => msg_eqb x y
  | Deleted x, Deleted y => msg_eqb x y
  | _, _ => false
  end.

(** * History ring (container/ring of length N; [hub.history] points at the oldest slot)

    The list is the ring read from the write pointer on, i.e. oldest slot first. A deleted
    message leaves a hole ([None]); holes are not refilled, they age out like messages. *)

Definition ring_init (n : nat) : list (option msg) := repeat None n.

(** Dispatch: [h.history.Value = msg; h.history = h.history.Next()] — overwrite the oldest
    slot, which then becomes the newest. [ring.New(0)] is nil: nothing is kept. *)
Definition ring_push (r : list (option msg)) (m : msg) : list (option msg) :=
  match r with
  | [] => []
  | _ :: t => t ++ [Some m]
  end.

(** Delete: [p := h.history; for { look at p.Next(); p = p.Next(); if p == end break }] — the
    walk starts at the slot AFTER the oldest one and reaches the oldest slot last; it blanks
    the first slot it meets that holds this mailbox+id.  (The order only matters when the same
    id is retained twice.) *)
Fixpoint del_first (r : list (option msg)) (m : msg) : option (list (option msg)) :=
  match r with
  | [] => None
  | Some x :: t =>
      if msg_eqb x m then Some (None :: t)
      else match del_first t m with Some t' => Some (Some x :: t') | None => None end
  | None :: t => match del_first t m with Some t' => Some (None :: t') | None => None end
  end.

Definition ring_del (r : list (option msg)) (m : msg) : list (option msg) :=
  match r with
  | [] => []
  | h :: t =>
      match del_first t m with
      | Some t' => h :: t'
      | None => match del_first [h] m with Some h' => h' ++ t | None => r end
      end
  end.

(** [history.Do]: the non-nil values, oldest first. *)
Fixpoint ring_live (r : list (option msg)) : list msg :=
  match r with
  | [] => []
  | Some m :: t => m :: ring_live t
  | None :: t => ring_live t
  end.

(** * Listeners *)

(** [V1]/[V2]: the real socket listeners. [Mock]: the abstract [Listener] contract — a
    listener that records what it is given and, optionally, starts returning an error. *)
Inductive lkind := V1 | V2 | Mock.

Record lst := mkL {
  lk : lkind;
  lf : str;               (* mailbox filter, [] = all mailboxes *)
  lq : list ev;           (* queue between hub and socket writer, oldest first (Mock: its record) *)
  lout : list ev;         (* what the socket writer has taken so far, in order *)
  lclosed : bool;         (* [done] is closed *)
  lrm : bool;             (* Close has closed [done] but its RemoveListener is not enqueued yet *)
  lfail : option nat;     (* Mock only: calls that still succeed before it returns errors *)
  lerred : bool           (* it has returned an error to the hub *)
}.

Definition new_lst (k : lkind) (f : str) (fail : option nat) : lst :=
  mkL k f [] [] false false fail false.

Definition filter_ok (f mb : str) : bool :=
  match f with [] => true | _ => str_eqb f mb end.

(** Does a call of Receive/Delete reach the listener's [enqueue]?  v1 ignores deletes, both
    real listeners ignore foreign mailboxes — in those cases the call returns nil at once,
    whatever the state of the listener. *)
Definition wants (k : lkind) (f : str) (e : ev) : bool :=
  match k with
  | Mock => true
  | V1 => match e with Stored m => filter_ok f (fst m) | Deleted _ => false end
  | V2 => filter_ok f (fst (ev_msg e))
  end.

Definition l_push (s : lst) (e : ev) : lst :=
  mkL (lk s) (lf s) (lq s ++ [e]) (lout s) (lclosed s) (lrm s) (lfail s) (lerred s).
Definition l_set_fail (s : lst) (f : option nat) : lst :=
  mkL (lk s) (lf s) (lq s) (lout s) (lclosed s) (lrm s) f (lerred s).
Definition l_set_erred (s : lst) : lst :=
  mkL (lk s) (lf s) (lq s) (lout s) (lclosed s) (lrm s) (lfail s) true.
Definition l_close (s : lst) : lst :=
  mkL (lk s) (lf s) (lq s) (lout s) true true (lfail s) (lerred s).
Definition l_rm_done (s : lst) : lst :=
  mkL (lk s) (lf s) (lq s) (lout s) (lclosed s) false (lfail s) (lerred s).
Definition l_take (s : lst) : option lst :=
  match lq s with
  | [] => None
  | e :: q => Some (mkL (lk s) (lf s) q (lout s ++ [e]) (lclosed s) (lrm s) (lfail s) (lerred s))
  end.

Record cfg := mkCfg { qcap1 : nat; qcap2 : nat; opcap : nat }.

Definition cap_of (c : cfg) (k : lkind) : nat :=
  match k with V1 => qcap1 c | V2 => qcap2 c | Mock => 0 end.

(** One listener call by the hub goroutine.  [None]: the hub goroutine is blocked in the
    listener's [enqueue] (queue full, [done] open).  [Some (s', err)]: the call returned.
    [choice] resolves Go's [select] when both the send and [<-done] are ready (closed
    listener with room): [true] = the done branch. *)
Definition deliver (c : cfg) (choice : bool) (s : lst) (e : ev) : option (lst * bool) :=
  if negb (wants (lk s) (lf s) e) then Some (s, false) else
  match lk s with
  | Mock =>
      match lfail s with
      | Some 0 => Some (l_set_erred s, true)
      | Some (S n) => Some (l_push (l_set_fail s (Some n)) e, false)
      | None => Some (l_push s e, false)
      end
  | k =>
      if lclosed s then
        if choice || (cap_of c k <=? length (lq s)) then Some (l_set_erred s, true)
        else Some (l_push s e, false)
      else if length (lq s) <? cap_of c k then Some (l_push s e, false)
      else None
  end.

(** * Hub *)

Inductive op :=
| ODispatch (m : msg)
| ODelete (m : msg)
| OAdd (l : nat)
| ORemove (l : nat)
| OSync (tok : nat).

Record delivery := mkD {
  d_ev : ev;
  d_to : nat;
  d_drop : bool     (* broadcast: an error unregisters the listener; replay: errors are ignored *)
}.

Record hub := mkH {
  ring : list (option msg);
  regs : list nat;              (* the [listeners] map, as a duplicate-free list *)
  ls : list (nat * lst);        (* every listener ever constructed, by identity *)
  opq : list op;                (* [opChan] *)
  work : list delivery;         (* listener calls left in the op being run *)
  synced : list nat;            (* Sync ops that have run *)
  stopped : bool;               (* [done] of the hub is closed, its goroutine has returned *)
  hlog : list op                (* ghost: the ops the hub goroutine has started, in order *)
}.

Definition hub_init (n : nat) : hub := mkH (ring_init n) [] [] [] [] [] false [].

Fixpoint find_l (l : nat) (xs : list (nat * lst)) : option lst :=
  match xs with
  | [] => None
  | (k, s) :: t => if Nat.eqb k l then Some s else find_l l t
  end.

Fixpoint upd_l (l : nat) (s : lst) (xs : list (nat * lst)) : list (nat * lst) :=
  match xs with
  | [] => []
  | (k, x) :: t => if Nat.eqb k l then (k, s) :: t else (k, x) :: upd_l l s t
  end.

Fixpoint rm_nat (l : nat) (xs : list nat) : list nat :=
  match xs with
  | [] => []
  | k :: t => if Nat.eqb k l then rm_nat l t else k :: rm_nat l t
  end.

Fixpoint mem_nat (l : nat) (xs : list nat) : bool :=
  match xs with [] => false | k :: t => Nat.eqb k l || mem_nat l t end.

Definition add_nat (l : nat) (xs : list nat) : list nat :=
  if mem_nat l xs then xs else xs ++ [l].

Definition set_ls (h : hub) (x : list (nat * lst)) : hub :=
  mkH (ring h) (regs h) x (opq h) (work h) (synced h) (stopped h) (hlog h).
Definition set_opq (h : hub) (q : list op) : hub :=
  mkH (ring h) (regs h) (ls h) q (work h) (synced h) (stopped h) (hlog h).

(** Running one popped op up to its first listener call. The iteration order of the Go map
    is not modelled as a choice: the calls of one broadcast touch disjoint listeners, so their
    order is unobservable unless the hub blocks in the middle (see Proofs/HubOrder). *)
Definition exec_op (o : op) (h : hub) : hub :=
  match o with
  | ODispatch m =>
      mkH (ring_push (ring h) m) (regs h) (ls h) (opq h)
          (map (fun l => mkD (Stored m) l true) (regs h)) (synced h) (stopped h) (hlog h)
  | ODelete m =>
      mkH (ring_del (ring h) m) (regs h) (ls h) (opq h)
          (map (fun l => mkD (Deleted m) l true) (regs h)) (synced h) (stopped h) (hlog h)
  | OAdd l =>
      mkH (ring h) (add_nat l (regs h)) (ls h) (opq h)
          (map (fun m => mkD (Stored m) l false) (ring_live (ring h))) (synced h) (stopped h) (hlog h)
  | ORemove l =>
      mkH (ring h) (rm_nat l (regs h)) (ls h) (opq h) [] (synced h) (stopped h) (hlog h)
  | OSync t =>
      mkH (ring h) (regs h) (ls h) (opq h) [] (t :: synced h) (stopped h) (hlog h)
  end.

(** One step of the hub goroutine. [None]: it cannot move (idle, blocked in a listener, or
    gone). *)
Definition hub_step (c : cfg) (choice : bool) (h : hub) : option hub :=
  if stopped h then None else
  match work h with
  | d :: w =>
      match find_l (d_to d) (ls h) with
      | None => Some (mkH (ring h) (regs h) (ls h) (opq h) w (synced h) (stopped h) (hlog h))
      | Some s =>
          match deliver c choice s (d_ev d) with
          | None => None
          | Some (s', err) =>
              Some (mkH (ring h)
                        (if err && d_drop d then rm_nat (d_to d) (regs h) else regs h)
                        (upd_l (d_to d) s' (ls h)) (opq h) w (synced h) (stopped h) (hlog h))
          end
      end
  | [] =>
      match opq h with
      | [] => None
      | o :: q =>
          Some (exec_op o (mkH (ring h) (regs h) (ls h) q [] (synced h) (stopped h) (hlog h ++ [o])))
      end
  end.

(** [hub.enqueue]: [select { case opChan <- op: case <-done: }]. After shutdown the op is
    dropped (it may also land in the queue, where nobody reads it: unobservable). [None]: the
    caller blocks because the queue is full. *)
Definition enq (c : cfg) (o : op) (h : hub) : option hub :=
  if stopped h then Some h
  else if length (opq h) <? opcap c then Some (set_opq h (opq h ++ [o]))
  else None.

Inductive action :=
| AEnq (o : op)                                   (* Dispatch / Delete / RemoveListener / Sync *)
| ANew (l : nat) (k : lkind) (f : str) (fail : option nat)   (* constructor + AddListener *)
| AClose (l : nat)                                (* once.Do: close(done) ... *)
| ARm (l : nat)                                   (* ... then hub.RemoveListener(ml) *)
| ATake (l : nat)                                 (* the socket writer receives from the queue *)
| AHub (choice : bool)                            (* the hub goroutine moves *)
| AStop.                                          (* Start sees ctx.Done() at its select *)

Definition is_add (o : op) : bool := match o with OAdd _ => true | _ => false end.

Definition step (c : cfg) (h : hub) (a : action) : option hub :=
  match a with
  | AEnq o => if is_add o then None else enq c o h
  | ANew l k f fail =>
      match find_l l (ls h) with
      | Some _ => None
      | None => enq c (OAdd l) (set_ls h (ls h ++ [(l, new_lst k f fail)]))
      end
  | AClose l =>
      match find_l l (ls h) with
      | None => None
      | Some s => if lclosed s then Some h else Some (set_ls h (upd_l l (l_close s) (ls h)))
      end
  | ARm l =>
      match find_l l (ls h) with
      | None => None
      | Some s =>
          if lrm s then enq c (ORemove l) (set_ls h (upd_l l (l_rm_done s) (ls h))) else None
      end
  | ATake l =>
      match find_l l (ls h) with
      | None => None
      | Some s => match l_take s with
                  | None => None
                  | Some s' => Some (set_ls h (upd_l l s' (ls h)))
                  end
      end
  | AHub ch => hub_step c ch h
  | AStop =>
      match work h with
      | [] => Some (mkH (ring h) (regs h) (ls h) (opq h) [] (synced h) true (hlog h))
      | _ => None
      end
  end.

Fixpoint run (c : cfg) (h : hub) (acts : list action) : option hub :=
  match acts with
  | [] => Some h
  | a :: t => match step c h a with None => None | Some h' => run c h' t end
  end.

(** * Specification side (independent of the machine above) *)

Definition ev_of_op (o : op) : list ev :=
  match o with ODispatch m => [Stored m] | ODelete m => [Deleted m] | _ => [] end.

(** What the history holds after a sequence of hub ops, said directly: of the last [n]
    dispatched messages, those not deleted since (a delete marks every retained copy). *)
Fixpoint mark_deleted (m : msg) (xs : list (msg * bool)) : list (msg * bool) :=
  match xs with
  | [] => []
  | (x, d) :: t => (x, d || msg_eqb x m) :: mark_deleted m t
  end.

Definition lastn {A} (n : nat) (xs : list A) : list A := skipn (length xs - n) xs.

Fixpoint dispatched (ops : list op) (acc : list (msg * bool)) : list (msg * bool) :=
  match ops with
  | [] => acc
  | ODispatch m :: t => dispatched t (acc ++ [(m, false)])
  | ODelete m :: t => dispatched t (mark_deleted m acc)
  | _ :: t => dispatched t acc
  end.

Definition spec_history (n : nat) (ops : list op) : list msg :=
  map fst (filter (fun x => negb (snd x)) (lastn n (dispatched ops []))).

(** The ring after a sequence of hub ops (the operational reading used by [expected]). *)
Fixpoint ring_after (r : list (option msg)) (ops : list op) : list (option msg) :=
  match ops with
  | [] => r
  | ODispatch m :: t => ring_after (ring_push r m) t
  | ODelete m :: t => ring_after (ring_del r m) t
  | _ :: t => ring_after r t
  end.

(** The stream a listener [l] is entitled to, accumulated as the hub runs its ops: nothing
    before its join; at its (first) join the live part of the history, oldest first; then every
    event broadcast while it is registered. [v_ring] is the history as it stands. *)
Record view := mkV { v_ring : list (option msg); v_es : list ev; v_joined : bool; v_reg : bool }.

Definition view_step (l : nat) (v : view) (o : op) : view :=
  match o with
  | ODispatch m =>
      mkV (ring_push (v_ring v) m) (if v_reg v then v_es v ++ [Stored m] else v_es v) (v_joined v) (v_reg v)
  | ODelete m =>
      mkV (ring_del (v_ring v) m) (if v_reg v then v_es v ++ [Deleted m] else v_es v) (v_joined v) (v_reg v)
  | OAdd k =>
      if Nat.eqb k l && negb (v_joined v)
      then mkV (v_ring v) (map Stored (ring_live (v_ring v))) true true
      else v
  | ORemove k => if Nat.eqb k l then mkV (v_ring v) (v_es v) (v_joined v) false else v
  | OSync _ => v
  end.

Definition view_of (n : nat) (l : nat) (ops : list op) : view :=
  fold_left (view_step l) ops (mkV (ring_init n) [] false false).

(** … through its filter. *)
Definition expected (n : nat) (k : lkind) (f : str) (l : nat) (ops : list op) : list ev :=
  filter (wants k f) (v_es (view_of n l ops)).

(** * The driver-level reading used by the correspondence check

    The Go driver performs [dop]s from one goroutine.  It brings the hub to rest (Sync with a
    deadline) before every step that touches a listener directly, unless the hub is parked at
    the gate (a harness listener that holds the hub goroutine inside the broadcast of a gate
    message), in which case the ops submitted meanwhile stay queued. *)

Inductive dop :=
| DNew (l : nat) (k : lkind) (f : str) (fail : option nat)
| DDispatch (m : msg)
| DDelete (m : msg)
| DRemove (l : nat)
| DClose (l : nat)
| DTake (l : nat) (n : nat)
| DSync
| DGate
| DUngate.

Inductive obs :=
| ONone
| OStuck                      (* a submitting call (Dispatch, Delete, constructor) did not return in time *)
| OSynced (blocked : bool)
| OEv (pre_blocked : bool) (es : list ev).

Definition gate_mb : str := [122%N; 122%N; 45%N; 103%N; 97%N; 116%N; 101%N].   (* "zz-gate" *)
Definition gate_msg : msg := (gate_mb, [103%N]).
Definition is_gate (e : ev) : bool := str_eqb (fst (ev_msg e)) gate_mb.
Definition strip (es : list ev) : list ev := filter (fun e => negb (is_gate e)) es.

Fixpoint settle (fuel : nat) (c : cfg) (h : hub) : hub :=
  match fuel with
  | 0 => h
  | S f => match hub_step c true h with None => h | Some h' => settle f c h' end
  end.

Definition idle (h : hub) : bool :=
  match work h, opq h with [], [] => true | _, _ => false end.

Definition settle_fuel (h : hub) : nat :=
  (length (opq h) + 2) * (length (ls h) + length (ring h) + 3) + length (work h) + 2.

(** Take queued events until [n] non-gate ones have been taken or the queue is empty. *)
Fixpoint take_n (fuel n : nat) (s : lst) : lst :=
  match fuel, n with
  | 0, _ => s
  | _, 0 => s
  | S fu, S n' =>
      match lq s with
      | [] => s
      | e :: _ =>
          match l_take s with
          | None => s
          | Some s' => take_n fu (if is_gate e then n else n') s'
          end
      end
  end.

Record dstate := mkDS { dh : hub; gated : bool }.

Definition rest (c : cfg) (d : dstate) : dstate * bool :=
  if gated d then (d, false)
  else let h := settle (settle_fuel (dh d)) c (dh d) in (mkDS h false, negb (idle h)).

(** A submitting call that finds the op queue full waits until the hub goroutine, which runs
    concurrently, has popped an op — unless the hub is parked or blocked, in which case the
    call is stuck (the generator never produces that; the step is then skipped). *)
Definition try_step (c : cfg) (d : dstate) (a : action) : dstate :=
  match step c (dh d) a with
  | Some h => mkDS h (gated d)
  | None =>
      let d' := fst (rest c d) in
      match step c (dh d') a with Some h => mkDS h (gated d') | None => d' end
  end.

Definition dstep (c : cfg) (d : dstate) (o : dop) : dstate * obs :=
  match o with
  | DNew l k f fail => (try_step c d (ANew l k f fail), ONone)
  | DDispatch m => (try_step c d (AEnq (ODispatch m)), ONone)
  | DDelete m => (try_step c d (AEnq (ODelete m)), ONone)
  | DRemove l => (try_step c d (AEnq (ORemove l)), ONone)
  | DSync =>
      if gated d then (d, OSynced true)
      else let (d', b) := rest c d in (d', OSynced b)
  | DGate =>
      let (d', b) := rest c d in
      if b then (d', OSynced true)
      else (mkDS (dh (try_step c d' (AEnq (ODispatch gate_msg)))) true, OSynced false)
  | DUngate => (mkDS (dh d) false, ONone)
  | DTake l n =>
      let (d', b) := rest c d in
      match find_l l (ls (dh d')) with
      | None => (d', ONone)
      | Some s =>
          if lclosed s then (d', ONone) else
          let s' := take_n (length (lq s)) (if gated d then length (lq s) else n) s in
          (mkDS (set_ls (dh d') (upd_l l s' (ls (dh d')))) (gated d'),
           OEv b (strip (skipn (length (lout s)) (lout s'))))
      end
  | DClose l =>
      let (d', b) := rest c d in
      match find_l l (ls (dh d')) with
      | None => (d', ONone)
      | Some s =>
          if lclosed s then (d', ONone) else
          (try_step c (try_step c d' (AClose l)) (ARm l), OEv b [])
      end
  end.

Fixpoint dsteps (c : cfg) (d : dstate) (ops : list dop) : dstate * list obs :=
  match ops with
  | [] => (d, [])
  | o :: t =>
      let (d1, x) := dstep c d o in
      let (d2, xs) := dsteps c d1 t in
      (d2, x :: xs)
  end.

(** End of a case: final rest, then every listener's remaining queue (Mock: its record). For a
    closed listener this is what was buffered for it when it was closed: nobody reads its queue
    after the close (its socket writer is gone), and the harness only looks at it now. *)
Definition final_obs (h : hub) (b : bool) : list obs :=
  map (fun p : nat * lst => let (_, s) := p in OEv b (strip (lq s))) (ls h).

Definition drive (c : cfg) (n : nat) (ops : list dop) : list obs :=
  let (d, xs) := dsteps c (mkDS (hub_init n) false) ops in
  let (d', b) := rest c (mkDS (dh d) false) in
  xs ++ [OSynced b] ++ final_obs (dh d') b.

(** * The property oracle: the specification evaluated on what the implementation showed *)

Inductive verdict :=
| VOk
| VShape                      (* observation list does not fit the ops *)
| VStream (l : nat)           (* listener l saw a missing / duplicated / reordered / foreign event *)
| VIncomplete (l : nat)       (* a healthy listener did not get everything although the hub is at rest *)
| VBlockedSlow                (* hub blocked while an open listener had a full queue: the known finding *)
| VBlocked.                   (* hub blocked and no open listener's queue can be full *)

Fixpoint ev_prefix (a b : list ev) : bool :=
  match a, b with
  | [], _ => true
  | x :: a', y :: b' => ev_eqb x y && ev_prefix a' b'
  | _ :: _, [] => false
  end.

Fixpoint ev_list_eqb (a b : list ev) : bool :=
  match a, b with
  | [], [] => true
  | x :: a', y :: b' => ev_eqb x y && ev_list_eqb a' b'
  | _, _ => false
  end.

Record linfo := mkLI { li_id : nat; li_k : lkind; li_f : str; li_fail : option nat;
                       li_seen : list ev;      (* observed so far, gate events stripped *)
                       li_lb : list ev;        (* closed listener: what it must at least have been handed when it was closed *)
                       li_closed : bool }.

Definition hub_op_of (o : dop) : list op :=
  match o with
  | DNew l _ _ _ => [OAdd l]
  | DDispatch m => [ODispatch m]
  | DDelete m => [ODelete m]
  | DRemove l => [ORemove l]
  | DClose l => [ORemove l]
  | DGate => [ODispatch gate_msg]
  | _ => []
  end.

(** What listener [i] is entitled to after the hub has run [ops]; a Mock that starts failing
    after [f] calls keeps exactly the first [f]. *)
Definition entitled (n : nat) (i : linfo) (ops : list op) : list ev :=
  let es := expected n (li_k i) (li_f i) (li_id i) ops in
  match li_k i, li_fail i with
  | Mock, Some f => firstn f es
  | _, _ => es
  end.

Fixpoint find_li (l : nat) (xs : list linfo) : option linfo :=
  match xs with
  | [] => None
  | i :: t => if Nat.eqb (li_id i) l then Some i else find_li l t
  end.

Fixpoint upd_li (i : linfo) (xs : list linfo) : list linfo :=
  match xs with
  | [] => []
  | j :: t => if Nat.eqb (li_id j) (li_id i) then i :: t else j :: upd_li i t
  end.

(** Is there an open real listener whose entitlement exceeds what was taken from it by at
    least its queue capacity?  (Then its queue is full and the hub waits for it.) *)
Definition slow_exists (c : cfg) (n : nat) (ops : list op) (lis : list linfo) : bool :=
  existsb (fun i =>
    match li_k i with
    | Mock => false
    | k => negb (li_closed i) &&
           (cap_of c k + length (li_seen i) <=? length (strip (entitled n i ops)))
    end) lis.

Definition blocked_verdict (c : cfg) (n : nat) (ops : list op) (lis : list linfo) : verdict :=
  if slow_exists c n ops lis then VBlockedSlow else VBlocked.

Definition worse (a b : verdict) : verdict :=
  match a with
  | VOk => b
  | VBlockedSlow => match b with VOk => a | _ => b end
  | _ => a
  end.

(** Scan ops and observations in lockstep. [pre]: hub ops submitted so far; [lb]: hub ops that
    are certainly done (everything before the gate while gated, else [pre]). *)
Fixpoint oracle_go (c : cfg) (n : nat) (ops : list dop) (os : list obs)
         (pre lb : list op) (g : bool) (lis : list linfo) (acc : verdict)
  : verdict * list op * list linfo * list obs :=
  match ops with
  | [] => (acc, pre, lis, os)
  | o :: t =>
      match os with
      | [] => (VShape, pre, lis, [])
      | x :: os' =>
          let pre' := pre ++ hub_op_of o in
          match o, x with
          | DNew l k f fail, ONone =>
              oracle_go c n t os' pre' (if g then lb else pre') g
                        (lis ++ [mkLI l k f fail [] [] false]) acc
          | DSync, OSynced b =>
              let acc' := if b then worse acc (blocked_verdict c n pre lis) else acc in
              oracle_go c n t os' pre' (if g then lb else pre') g lis acc'
          | DGate, OSynced b =>
              if b then oracle_go c n t os' pre lb g lis (worse acc (blocked_verdict c n pre lis))
              else oracle_go c n t os' pre' pre true lis acc
          | DUngate, ONone => oracle_go c n t os' pre' lb false lis acc
          | DTake l _, OEv b es | DClose l, OEv b es =>
              match find_li l lis with
              | None => (VShape, pre, lis, os')
              | Some i =>
                  let seen := li_seen i ++ es in
                  let ent := strip (entitled n i pre) in
                  let closing := match o with DClose _ => true | _ => false end in
                  let lbv := if closing && negb b then strip (entitled n i (if g then lb else pre)) else li_lb i in
                  let i' := mkLI (li_id i) (li_k i) (li_f i) (li_fail i) seen lbv (li_closed i || closing) in
                  let acc1 := if b then worse acc (blocked_verdict c n pre lis) else acc in
                  let acc2 := if ev_prefix seen ent then acc1 else worse acc1 (VStream l) in
                  oracle_go c n t os' pre' (if g then lb else pre') g (upd_li i' lis) acc2
              end
          | DTake _ _, ONone | DClose _, ONone
          | DDispatch _, ONone | DDelete _, ONone | DRemove _, ONone =>
              oracle_go c n t os' pre' (if g then lb else pre') g lis acc
          | DDispatch _, OStuck | DDelete _, OStuck | DRemove _, OStuck | DNew _ _ _ _, OStuck =>
              (* the op queue is full and the hub does not move: the hub is blocked *)
              oracle_go c n t os' pre' (if g then lb else pre') g lis (worse acc (blocked_verdict c n pre lis))
          | _, _ => (VShape, pre, lis, os')
          end
      end
  end.

Fixpoint oracle_final (n : nat) (pre : list op) (b : bool) (lis : list linfo) (os : list obs) (acc : verdict) : verdict :=
  match lis, os with
  | [], [] => acc
  | i :: lis', x :: os' =>
      match x with
      | OEv _ es =>
          let seen := li_seen i ++ es in
          let ent := strip (entitled n i pre) in
          let acc1 := if ev_prefix seen ent then acc else worse acc (VStream (li_id i)) in
          let acc2 :=
            if li_closed i then
              (if ev_prefix (li_lb i) seen then acc1 else worse acc1 (VIncomplete (li_id i)))
            else if negb b && negb (ev_list_eqb seen ent) && ev_prefix seen ent
                 then worse acc1 (VIncomplete (li_id i)) else acc1 in
          oracle_final n pre b lis' os' acc2
      | _ => VShape
      end
  | _, _ => VShape
  end.

Definition oracle (c : cfg) (n : nat) (ops : list dop) (os : list obs) : verdict :=
  match oracle_go c n ops os [] [] false [] VOk with
  | (VShape, _, _, _) => VShape
  | (acc, pre, lis, OSynced b :: os') =>
      let acc' := if b then worse acc (blocked_verdict c n pre lis) else acc in
      oracle_final n pre b lis os' acc'
  | _ => VShape
  end.

(** The capacities the source declares (regenerated from /repo on every run). *)
Definition pinned_cfg : cfg := mkCfg v1_queue_cap v2_queue_cap op_chan_len.
Definition drive_pinned := drive pinned_cfg.
Definition oracle_pinned := oracle pinned_cfg.

(** Wire format of the multi-line POP3 replies that carry a message
    (pkg/server/pop3/handler.go: lineScanner, sendMessage, sendMessageTop, send) and of an
    RFC 1939 client reading them back.  Used by C13 (RETR/TOP bodies) and cited by C02
    ([pop3_roundtrip]).  The line reader is the repaired one (bufio.Reader.ReadString, no
    line-length limit).  No proofs in this file. *)
From IV Require Import Base.Bytes.

Definition CR : N := 13.
Definition LF : N := 10.
Definition DOT : N := 46.
Definition CRLF : str := [CR; LF].

(** ** Server side *)

(** The pieces [ReadString('\n')] returns, without their LF; a final piece that is not
    LF-terminated is returned as well unless it is empty ([lineScanner.Scan]: at EOF
    [line == ""] ends the loop). *)
Fixpoint lines_lf (s : str) : list str :=
  match s with
  | [] => []
  | c :: s' =>
      if c =? LF then [] :: lines_lf s'
      else match lines_lf s' with
           | [] => [[c]]
           | l :: ls => (c :: l) :: ls
           end
  end.

(** [strings.TrimSuffix(line, "\r")]: at most one trailing CR goes. *)
Fixpoint trim_cr (l : str) : str :=
  match l with
  | [] => []
  | c :: l' =>
      match l' with
      | [] => if c =? CR then [] else [c]
      | _ :: _ => c :: trim_cr l'
      end
  end.

(** The lines [lineScanner] yields for a message source. *)
Definition scan_lines (src : str) : list str := map trim_cr (lines_lf src).

(** "Lines starting with . must be prefixed with another ." *)
Definition stuff (l : str) : str :=
  match l with
  | c :: _ => if c =? DOT then DOT :: l else l
  | [] => l
  end.

(** [send] appends CRLF to every line; the reply ends with a lone dot. *)
Definition wire_lines (ls : list str) : str := concat (map (fun l => l ++ CRLF) ls).
Definition wire_of (ls : list str) : str := wire_lines ls ++ DOT :: CRLF.

(** Body of the RETR reply (everything after the "+OK n bytes follows" line). *)
Definition pop3_send (src : str) : str := wire_of (map stuff (scan_lines src)).

(** The loop of [sendMessageTop] over the (already stuffed) lines: all header lines up to
    and including the first empty one, then at most [n] further lines. *)
Fixpoint top_sel (inBody : bool) (n : N) (ls : list str) : list str :=
  match ls with
  | [] => []
  | l :: ls' =>
      if inBody then
        (if n <? 1 then [] else l :: top_sel true (n - 1) ls')
      else
        l :: top_sel (match l with [] => true | _ => false end) n ls'
  end.

(** Body of the TOP reply. *)
Definition pop3_send_top (src : str) (n : N) : str :=
  wire_of (top_sel false n (map stuff (scan_lines src))).

(** ** Client side (specification of an RFC 1939 reader) *)

Definition unstuff (l : str) : str :=
  match l with
  | c :: l' => if c =? DOT then l' else l
  | [] => l
  end.

(** Linear-time reversal ([List.rev] is quadratic once extracted). *)
Definition frev {A : Type} (l : list A) : list A := rev_append l [].

(** Reads lines up to LF, drops the CR before it, stops at the lone dot; returns the
    un-stuffed lines and the unread rest of the stream; [None] when the stream ends before
    the terminator.  [cur] is the current line reversed, [acc] the lines so far reversed. *)
Fixpoint cdec (cur : str) (acc : list str) (w : str) : option (list str * str) :=
  match w with
  | [] => None
  | c :: w' =>
      if c =? LF then
        let l := trim_cr (frev cur) in
        if str_eqb l [DOT] then Some (frev acc, w')
        else cdec [] (unstuff l :: acc) w'
      else cdec (c :: cur) acc w'
  end.

Definition pop3_client_lines (w : str) : option (list str * str) := cdec [] [] w.

(** The message as the client reassembles it: every line terminated by CRLF. *)
Definition crlf_join (ls : list str) : str := wire_lines ls.

Definition pop3_client_decode (w : str) : option str :=
  match pop3_client_lines w with
  | Some (ls, _) => Some (crlf_join ls)
  | None => None
  end.

(** What TOP n is entitled to show, as a specification over the message's lines: the
    header block including the separating empty line, then the first [n] body lines. *)
Fixpoint header_block (ls : list str) : list str * list str :=
  match ls with
  | [] => ([], [])
  | l :: ls' =>
      match l with
      | [] => ([l], ls')
      | _ :: _ => let (h, b) := header_block ls' in (l :: h, b)
      end
  end.

(** [firstn] with a binary count (TOP's line count can be 2^31-1). *)
Fixpoint firstn_N {A : Type} (n : N) (l : list A) : list A :=
  match l with
  | [] => []
  | x :: l' => if n =? 0 then [] else x :: firstn_N (N.pred n) l'
  end.

Definition top_spec (ls : list str) (n : N) : list str :=
  let (h, b) := header_block ls in h ++ firstn_N n b.

(** ** The whole RETR / TOP reply as bytes on the stream

    [send] writes the status line "+OK <text>" CRLF first; [text] is whatever the handler
    formats ("<size> bytes follows" / "Top of message follows").  The client reads the status
    line, sees +OK, and reads the multi-line block up to the terminator; what follows the
    terminator on the stream (the reply to a pipelined command) is left unread. *)
Definition ok_prefix : str := [43; 79; 75].   (* "+OK" *)

Definition retr_reply (text src : str) : str := ok_prefix ++ text ++ CRLF ++ pop3_send src.
Definition top_reply (text src : str) (n : N) : str := ok_prefix ++ text ++ CRLF ++ pop3_send_top src n.

(** One line off the stream, without its LF. *)
Fixpoint take_line (w : str) : option (str * str) :=
  match w with
  | [] => None
  | c :: w' =>
      if c =? LF then Some ([], w')
      else match take_line w' with
           | Some (l, r) => Some (c :: l, r)
           | None => None
           end
  end.

(** Status line, un-stuffed lines of the block, unread rest of the stream. *)
Definition client_read_multi (w : str) : option (str * list str * str) :=
  match take_line w with
  | None => None
  | Some (l, w1) =>
      let st := trim_cr l in
      if has_prefix ok_prefix st then
        match pop3_client_lines w1 with
        | Some (ls, rest) => Some (st, ls, rest)
        | None => None
        end
      else None
  end.

(** The message up to line-ending normalisation: every line ends in CRLF. *)
Definition pop3_norm (src : str) : str := crlf_join (scan_lines src).

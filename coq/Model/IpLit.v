(** Model of [fun s => net.ParseIP(s) != nil] (Go 1.23: net.ParseIP = netip.ParseAddr without
    a zone): which strings are IPv4 / IPv6 literals. Transcribed from net/netip/netip.go
    (ParseAddr, parseIPv4Fields, parseIPv6); only acceptance is modelled, not the address
    value. Executable, no proofs. Cross-checked against the real net.ParseIP on every literal
    body of every correspondence case and on the dedicated "ip" stream. *)
From IV Require Import Base.Bytes.

Definition is_hex (c : N) : bool :=
  is_digit c || ((97 <=? c) && (c <=? 102)) || ((65 <=? c) && (c <=? 70)).

(** parseIPv4Fields over the whole of [s]. [first]: i == 0; [prev_dot]: s[i-1] == '.';
    [val], [pos], [diglen] as in the source. *)
Fixpoint v4 (s : str) (first prev_dot : bool) (val pos diglen : N) : bool :=
  match s with
  | [] => negb (pos <? 3)
  | c :: t =>
      if is_digit c then
        if (diglen =? 1) && (val =? 0) then false
        else let val' := val * 10 + (c - 48) in
             if 255 <? val' then false else v4 t false false val' pos (diglen + 1)
      else if c =? 46 then
        if first || (match t with [] => true | _ :: _ => false end) || prev_dot then false
        else if pos =? 3 then false
        else v4 t false true 0 (pos + 1) 0
      else false
  end.

Definition ipv4_ok (s : str) : bool := v4 s true false 0 0 0.

(** number of leading hex digits *)
Fixpoint hexrun (s : str) : nat :=
  match s with
  | c :: t => if is_hex c then S (hexrun t) else O
  | [] => O
  end.

(** after the loop: the whole string must be used; fewer than 16 bytes need an ellipsis, and
    with 16 bytes an ellipsis is not allowed *)
Definition v6end (s : str) (i : N) (ell : bool) : bool :=
  match s with
  | _ :: _ => false
  | [] => if i <? 16 then ell else negb ell
  end.

(** the loop of parseIPv6: [i] bytes filled so far, [ell]: an ellipsis was seen *)
Fixpoint v6loop (fuel : nat) (s : str) (i : N) (ell : bool) : bool :=
  match fuel with
  | O => false
  | S f =>
      if 16 <=? i then v6end s i ell
      else
        let off := hexrun s in
        if Nat.ltb 4 off || Nat.eqb off 0 then false
        else match skipn off s with
             | [] => v6end [] (i + 2) ell
             | c :: r1 =>
                 if c =? 46 then
                   (* embedded IPv4: parsed from the start of this group to the end *)
                   if negb ell && negb (i =? 12) then false
                   else if 16 <? i + 4 then false
                   else ipv4_ok s && v6end [] (i + 4) ell
                 else if negb (c =? 58) then false
                 else match r1 with
                      | [] => false
                      | c2 :: r2 =>
                          if c2 =? 58 then
                            if ell then false
                            else match r2 with
                                 | [] => v6end [] (i + 2) true
                                 | _ :: _ => v6loop f r2 (i + 2) true
                                 end
                          else v6loop f r1 (i + 2) ell
                      end
             end
  end.

Definition ipv6_ok (s : str) : bool :=
  if mem_b 37 s then false   (* a zone: net.ParseIP refuses it *)
  else match s with
       | c1 :: c2 :: t =>
           if (c1 =? 58) && (c2 =? 58) then
             match t with [] => true | _ :: _ => v6loop (S (length t)) t 0 true end
           else v6loop (S (length s)) s 0 false
       | _ => v6loop (S (length s)) s 0 false
       end.

(** ParseAddr: the first of '.', ':', '%' decides *)
Fixpoint first_sep (s : str) : N :=
  match s with
  | [] => 0
  | c :: t => if c =? 46 then 46 else if c =? 58 then 58 else if c =? 37 then 37 else first_sep t
  end.

Definition go_parse_ip (s : str) : bool :=
  let k := first_sep s in
  if k =? 46 then ipv4_ok s
  else if k =? 58 then ipv6_ok s
  else false.

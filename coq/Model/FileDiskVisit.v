(** VisitMailboxes interleaved with one mutating operation of another goroutine (fix 0012: a directory
    that was listed but is gone when it is read is skipped, not an error).

    The walk reads directories at its yield points (file.visit.l1 / l2 / l3 / mbox, one before each
    read); before each read the other operation may advance by any number of its file-system steps:
    the schedule gives that number per read. Directory reads take no lock; the per-mailbox read lock of
    getMessages is not modelled, i.e. the walk may even see the mailbox in the middle of the operation
    (more interleavings than the code allows). No proofs in this file. *)
From IV Require Import Base.Bytes Model.FileDisk.
From Coq Require Import List NArith Bool.
Import ListNotations.

(** remaining steps of the operation, current disk, schedule *)
Definition wstate := (list fsstep * disk * list nat)%type.

Definition w_disk (w : wstate) : disk := snd (fst w).

Definition advance (w : wstate) : wstate :=
  match w with
  | (ss, d, []) => (ss, d, [])
  | (ss, d, n :: r) => (skipn n ss, run' (firstn n ss) d, r)
  end.

Section Visit.
  Variable dec : str -> option index.
  (** [tolerant = true] is the code after fix 0012; [false] the code before it (ENOENT aborts the walk) *)
  Variable tolerant : bool.

  Definition amsgs := list (str * meta * option str).

  Fixpoint cv_mboxes (names : list str) (w : wstate) : option (list amsgs) * wstate :=
    match names with
    | [] => (Some [], w)
    | n3 :: r =>
        let w1 := advance w in
        match view dec (w_disk w1) n3 with
        | None => (None, w1)
        | Some v =>
            match cv_mboxes r w1 with
            | (None, w2) => (None, w2)
            | (Some vs, w2) => (Some (v :: vs), w2)
            end
        end
    end.

  Fixpoint cv_l2 (n1 : str) (names : list str) (w : wstate) : option (list amsgs) * wstate :=
    match names with
    | [] => (Some [], w)
    | n2 :: r =>
        let w1 := advance w in
        match lookup (w_disk w1) [n1; n2] with
        | None => if tolerant then cv_l2 n1 r w1 else (None, w1)
        | Some (File _) => (None, w1)
        | Some Dir =>
            match cv_mboxes (children [n1; n2] (w_disk w1)) w1 with
            | (None, w2) => (None, w2)
            | (Some a, w2) =>
                match cv_l2 n1 r w2 with
                | (None, w3) => (None, w3)
                | (Some b, w3) => (Some (a ++ b), w3)
                end
            end
        end
    end.

  Fixpoint cv_l1 (names : list str) (w : wstate) : option (list amsgs) * wstate :=
    match names with
    | [] => (Some [], w)
    | n1 :: r =>
        let w1 := advance w in
        match lookup (w_disk w1) [n1] with
        | None => if tolerant then cv_l1 r w1 else (None, w1)
        | Some (File _) => (None, w1)
        | Some Dir =>
            match cv_l2 n1 (children [n1] (w_disk w1)) w1 with
            | (None, w2) => (None, w2)
            | (Some a, w2) =>
                match cv_l1 r w2 with
                | (None, w3) => (None, w3)
                | (Some b, w3) => (Some (a ++ b), w3)
                end
            end
        end
    end.

  (** [None] = VisitMailboxes returns an error *)
  Definition cvisit (w : wstate) : option (list amsgs) * wstate :=
    let w1 := advance w in cv_l1 (children [] (w_disk w1)) w1.
End Visit.

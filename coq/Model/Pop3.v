(** Model of inbucket's POP3 session (pkg/server/pop3/handler.go: startSession's command
    loop, parseCmd, authorizationHandler, transactionHandler, loadMailbox, retainAll,
    processDeletes; pkg/server/pop3/listener.go only supplies the WaitGroup) over an
    abstract message store (storage.Store: GetMessages, RemoveMessage, AddMessage,
    PurgeMessages as the mem and the file store implement them).

    Two levels: parsed commands ([cmd], theorems) and the byte-level front end
    ([parse_line], [expand]) so raw client bytes can be replayed.  What the code does, not
    what it should do: USER is taken verbatim, a deleted message can still be RETRieved,
    RETR of a message whose file has gone answers "+OK" followed by an unterminated "-ERR".
    Every slice access of the Go code ([retain[i]], [messages[n-1]]) is an [option] here;
    [None] becomes the reply [BPanic].  No proofs in this file. *)
From IV Require Import Base.Bytes Model.Pop3Wire Gen.Pop3Consts.
Open Scope N_scope.

(** * The store, as far as POP3 sees it *)

Record smsg := { sid : str; ssrc : str }.
(** [mnext] numbers the deliveries to a mailbox; the harness uses it as the message handle. *)
Record mbox := { mnext : N; mmsgs : list smsg }.
Definition store := list (str * mbox).

Definition empty_box : mbox := {| mnext := 0; mmsgs := [] |}.

Fixpoint get_box (st : store) (name : str) : mbox :=
  match st with
  | [] => empty_box
  | (n, b) :: st' => if str_eqb n name then b else get_box st' name
  end.

Fixpoint has_box (st : store) (name : str) : bool :=
  match st with
  | [] => false
  | (n, _) :: st' => str_eqb n name || has_box st' name
  end.

Fixpoint upd_box (st : store) (name : str) (f : mbox -> mbox) : store :=
  match st with
  | [] => []
  | (n, b) :: st' => if str_eqb n name then (n, f b) :: st' else (n, b) :: upd_box st' name f
  end.

Definition id_neqb (id : str) (m : smsg) : bool := negb (str_eqb (sid m) id).

(** [Store.RemoveMessage]: a missing message is an error the session only logs. *)
Definition remove_msg (st : store) (name id : str) : store :=
  upd_box st name (fun b => {| mnext := mnext b; mmsgs := filter (id_neqb id) (mmsgs b) |}).

Definition purge_box (st : store) (name : str) : store :=
  upd_box st name (fun b => {| mnext := mnext b; mmsgs := [] |}).

(** [Store.AddMessage]: appended to the mailbox, fresh id. *)
Definition deliver (st : store) (name src : str) : store :=
  if has_box st name then
    upd_box st name (fun b => {| mnext := mnext b + 1;
                                 mmsgs := mmsgs b ++ [{| sid := [mnext b]; ssrc := src |}] |})
  else st ++ [(name, {| mnext := 1; mmsgs := [{| sid := [0]; ssrc := src |}] |})].

Fixpoint lenN {A : Type} (l : list A) : N :=
  match l with [] => 0 | _ :: l' => N.succ (lenN l') end.

Definition has_msg (st : store) (name id : str) : bool :=
  existsb (fun m => str_eqb (sid m) id) (mmsgs (get_box st name)).

(** The two back ends differ in one respect that a session can observe: a mem-store message
    keeps its bytes after it has been removed from the mailbox, a file-store message is
    read from its file when [Source()] is called. *)
Inductive flavour := Mem | File.

(** * Session state *)

(** One entry of [Session.messages]. *)
Record snap := { p_id : str; p_size : N; p_src : str }.

Definition snap_of (m : smsg) : snap :=
  {| p_id := sid m; p_size := lenN (ssrc m); p_src := ssrc m |}.

(** [Store.GetMessages]. *)
Definition load (st : store) (name : str) : list snap := map snap_of (mmsgs (get_box st name)).

Inductive pstate := Auth | Trans | Closed.

Record sess := {
  s_state : pstate;
  s_user : str;
  s_msgs : list snap;       (* Session.messages *)
  s_retain : list bool;     (* Session.retain *)
  s_count : Z               (* Session.msgCount *)
}.

Definition init_sess : sess :=
  {| s_state := Auth; s_user := []; s_msgs := []; s_retain := []; s_count := 0%Z |}.

(** * Commands *)

Inductive cname :=
  QUIT | STAT | LIST | RETR | DELE | NOOP | RSET | TOP | UIDL | USER | PASS | APOP | STLS
  | OTHER.  (* in the table but in no switch: falls to the default branch of the handlers *)

Inductive cmd :=
  | CCapa                                   (* answered in every state *)
  | CEmpty                                  (* empty command word: "-ERR Speak up" *)
  | CUnknown                                (* not in the command table *)
  | CCmd (c : cname) (args : list str).

Definition w_CAPA : str := [67; 65; 80; 65].
Definition name_table : list (str * cname) :=
  [([81; 85; 73; 84], QUIT); ([83; 84; 65; 84], STAT); ([76; 73; 83; 84], LIST);
   ([82; 69; 84; 82], RETR); ([68; 69; 76; 69], DELE); ([78; 79; 79; 80], NOOP);
   ([82; 83; 69; 84], RSET); ([84; 79; 80], TOP); ([85; 73; 68; 76], UIDL);
   ([85; 83; 69; 82], USER); ([80; 65; 83; 83], PASS); ([65; 80; 79; 80], APOP);
   ([83; 84; 76; 83], STLS)].

Fixpoint name_of (w : str) (t : list (str * cname)) : cname :=
  match t with
  | [] => OTHER
  | (n, c) :: t' => if str_eqb n w then c else name_of w t'
  end.

(** The commands each handler's [switch cmd] names; every other command of the table falls
    to its default branch (out of sequence).  Pinned against the source by
    Props/C13/command_table_pinned.v (Gen/Pop3Consts.v). *)
Definition in_auth_switch (c : cname) : bool :=
  match c with QUIT | STLS | USER | PASS | APOP => true | _ => false end.
Definition in_trans_switch (c : cname) : bool :=
  match c with STAT | LIST | UIDL | DELE | RETR | TOP | QUIT | NOOP | RSET => true | _ => false end.

(** The order of the tests in startSession: CAPA, empty word, command table. *)
Definition classify (word : str) (args : list str) : cmd :=
  if str_eqb word w_CAPA then CCapa
  else match word with
       | [] => CEmpty
       | _ :: _ => if mem_str word pop3_commands then CCmd (name_of word name_table) args
                   else CUnknown
       end.

(** ** Byte-level front end *)

(** [strings.ToUpper] as far as equality with an ASCII command name goes: ASCII letters
    are upper-cased; the only non-ASCII runes whose upper case is ASCII are U+0131 (C4 B1,
    to I) and U+017F (C5 BF, to S); every other byte >= 0x80 stays >= 0x80 (Go may
    rewrite it, but never to ASCII), so the word cannot equal a command name. *)
Fixpoint go_upper (w : str) : str :=
  match w with
  | [] => []
  | c :: w' =>
      match w' with
      | d :: w'' =>
          if (c =? 196) && (d =? 177) then 73 :: go_upper w''
          else if (c =? 197) && (d =? 191) then 83 :: go_upper w''
          else upper_b c :: go_upper w'
      | [] => [upper_b c]
      end
  end.

(** [strings.TrimRight(line, "\r\n")]: every trailing CR and LF goes. *)
Fixpoint trim_right_crlf (l : str) : str :=
  match l with
  | [] => []
  | c :: l' =>
      match trim_right_crlf l' with
      | [] => if (c =? CR) || (c =? LF) then [] else [c]
      | t => c :: t
      end
  end.

(** [parseCmd] + the classification of startSession. *)
Definition parse_line (line : str) : cmd :=
  match trim_right_crlf line with
  | [] => CEmpty
  | l => match split_on 32 l with
         | [] => CEmpty   (* unreachable *)
         | w :: args => classify (go_upper w) args
         end
  end.

(** [strconv.ParseInt(s, 10, 32)]: optional sign, at least one digit, digits only,
    value in [-2^31, 2^31-1]; any error is [None]. *)
Definition digits_val (ds : str) : N := fold_left (fun a d => a * 10 + (d - 48)) ds 0.

Definition parse_int32 (s : str) : option Z :=
  match s with
  | [] => None
  | c :: r =>
      let neg := c =? 45 in
      let ds := if (c =? 43) || (c =? 45) then r else s in
      match ds with
      | [] => None
      | _ :: _ =>
          if forallb is_digit ds then
            let v := digits_val ds in
            if neg then (if v <=? 2147483648 then Some (- Z.of_N v)%Z else None)
            else (if v <=? 2147483647 then Some (Z.of_N v) else None)
          else None
      end
  end.

(** * Replies, structurally *)

Inductive body :=
  | BNone                              (* single-line reply *)
  | BList (rows : list (N * N))        (* LIST: number, size; terminated *)
  | BUidl (rows : list (N * str))      (* UIDL: number, id; terminated *)
  | BWire (w : str)                    (* RETR/TOP: the bytes after the status line, terminated *)
  | BCapa                              (* capability list, terminated *)
  | BFail                              (* "+OK ..." followed by a lone "-ERR ..." line, no terminator *)
  | BPanic                             (* index out of range: the process dies *)
  | BRaw (w : str).                    (* never produced by the model: bytes after the status line
                                          that have no structural reading (oracle input only) *)

Record reply := { r_ok : bool; r_nums : list Z; r_id : option str; r_body : body }.

Definition mk (ok : bool) (nums : list Z) : reply :=
  {| r_ok := ok; r_nums := nums; r_id := None; r_body := BNone |}.
Definition r_plus : reply := mk true [].
Definition r_minus : reply := mk false [].
Definition r_panic : reply := {| r_ok := false; r_nums := []; r_id := None; r_body := BPanic |}.
Definition with_body (r : reply) (b : body) : reply :=
  {| r_ok := r_ok r; r_nums := r_nums r; r_id := r_id r; r_body := b |}.

(** * Handlers *)

Definition set_state (s : sess) (p : pstate) : sess :=
  {| s_state := p; s_user := s_user s; s_msgs := s_msgs s; s_retain := s_retain s; s_count := s_count s |}.
Definition set_user (s : sess) (u : str) : sess :=
  {| s_state := s_state s; s_user := u; s_msgs := s_msgs s; s_retain := s_retain s; s_count := s_count s |}.

(** [retainAll]. *)
Definition retain_all (s : sess) : sess :=
  {| s_state := s_state s; s_user := s_user s; s_msgs := s_msgs s;
     s_retain := map (fun _ => true) (s_msgs s); s_count := Z.of_N (lenN (s_msgs s)) |}.

(** [loadMailbox] followed by the reply and [enterState(TRANSACTION)]. *)
Definition login (st : store) (s : sess) (u : str) : sess * reply :=
  let s1 := retain_all {| s_state := s_state s; s_user := u; s_msgs := load st u;
                          s_retain := s_retain s; s_count := s_count s |} in
  (set_state s1 Trans, mk true [s_count s1]).

Definition auth_handler (st : store) (s : sess) (c : cname) (args : list str) : sess * reply :=
  match c with
  | QUIT => (set_state s Closed, r_plus)
  | STLS => (s, r_minus)                        (* TLS is not configured in the harness *)
  | USER => match args with
            | a :: _ => (set_user s a, r_plus)
            | [] => (s, r_minus)
            end
  | PASS => match s_user s with
            | [] => (s, r_minus)
            | _ :: _ => login st s (s_user s)
            end
  | APOP => match args with
            | [a; _] => login st s a
            | _ => (s, r_minus)
            end
  | _ => (s, r_minus)
  end.

(** The argument checks shared by LIST n, UIDL n, DELE, RETR, TOP: not an integer, < 1,
    > len(messages), in this order; the result is the 0-based index. *)
Definition msg_index (s : sess) (a : str) : option nat :=
  match parse_int32 a with
  | None => None
  | Some z =>
      if (z <? 1)%Z then None
      else if (Z.of_N (lenN (s_msgs s)) <? z)%Z then None
      else Some (Z.to_nat (z - 1))
  end.

(** The STAT loop: [for i, msg := range s.messages { if s.retain[i] {...} }]. *)
Fixpoint stat_loop (ms : list snap) (rt : list bool) (cnt sz : N) : option (N * N) :=
  match ms with
  | [] => Some (cnt, sz)
  | m :: ms' =>
      match rt with
      | [] => None
      | r :: rt' => if r then stat_loop ms' rt' (cnt + 1) (sz + p_size m)
                    else stat_loop ms' rt' cnt sz
      end
  end.

(** The LIST / UIDL loops; [i] is the message number of the head. *)
Fixpoint rows_loop {A : Type} (f : snap -> A) (i : N) (ms : list snap) (rt : list bool)
  : option (list (N * A)) :=
  match ms with
  | [] => Some []
  | m :: ms' =>
      match rt with
      | [] => None
      | r :: rt' =>
          match rows_loop f (i + 1) ms' rt' with
          | None => None
          | Some rows => Some (if r then (i, f m) :: rows else rows)
          end
      end
  end.

Fixpoint set_nth (n : nat) (v : bool) (l : list bool) : list bool :=
  match n, l with
  | O, _ :: l' => v :: l'
  | S n', x :: l' => x :: set_nth n' v l'
  | _, [] => []
  end.

(** [processDeletes]. *)
Fixpoint process_deletes (user : str) (ms : list snap) (rt : list bool) (st : store) : option store :=
  match ms with
  | [] => Some st
  | m :: ms' =>
      match rt with
      | [] => None
      | r :: rt' => process_deletes user ms' rt' (if r then st else remove_msg st user (p_id m))
      end
  end.

(** [Message.Source()]. *)
Definition source_of (fl : flavour) (st : store) (user : str) (p : snap) : option str :=
  match fl with
  | Mem => Some (p_src p)
  | File => if has_msg st user (p_id p) then Some (p_src p) else None
  end.

Definition one_arg_reply (s : sess) (a : str) (payload : nat -> snap -> reply) : reply :=
  match msg_index s a with
  | None => r_minus
  | Some i =>
      match nth_error (s_retain s) i with
      | None => r_panic
      | Some false => r_minus                  (* "You deleted message n" *)
      | Some true =>
          match nth_error (s_msgs s) i with
          | None => r_panic
          | Some m => payload i m
          end
      end
  end.

Definition num_of (i : nat) : Z := Z.of_nat i + 1.

Definition trans_handler (fl : flavour) (st : store) (s : sess) (c : cname) (args : list str)
  : sess * reply * store :=
  match c with
  | STAT =>
      match args with
      | [] => match stat_loop (s_msgs s) (s_retain s) 0 0 with
              | None => (s, r_panic, st)
              | Some (cnt, sz) => (s, mk true [Z.of_N cnt; Z.of_N sz], st)
              end
      | _ :: _ => (s, r_minus, st)
      end
  | LIST =>
      match args with
      | [] => match rows_loop p_size 1 (s_msgs s) (s_retain s) with
              | None => (s, r_panic, st)
              | Some rows => (s, with_body (mk true [s_count s]) (BList rows), st)
              end
      | [a] => (s, one_arg_reply s a (fun i m => mk true [num_of i; Z.of_N (p_size m)]), st)
      | _ => (s, r_minus, st)
      end
  | UIDL =>
      match args with
      | [] => match rows_loop p_id 1 (s_msgs s) (s_retain s) with
              | None => (s, r_panic, st)
              | Some rows => (s, with_body (mk true [s_count s]) (BUidl rows), st)
              end
      | [a] => (s, one_arg_reply s a (fun i m =>
                  {| r_ok := true; r_nums := [num_of i]; r_id := Some (p_id m); r_body := BNone |}), st)
      | _ => (s, r_minus, st)
      end
  | DELE =>
      match args with
      | [a] =>
          match msg_index s a with
          | None => (s, r_minus, st)
          | Some i =>
              match nth_error (s_retain s) i with
              | None => (s, r_panic, st)
              | Some true =>
                  ({| s_state := s_state s; s_user := s_user s; s_msgs := s_msgs s;
                      s_retain := set_nth i false (s_retain s); s_count := (s_count s - 1)%Z |},
                   mk true [num_of i], st)
              | Some false => (s, r_minus, st)
              end
          end
      | _ => (s, r_minus, st)
      end
  | RETR =>
      match args with
      | [a] =>
          match msg_index s a with
          | None => (s, r_minus, st)
          | Some i =>
              match nth_error (s_msgs s) i with
              | None => (s, r_panic, st)
              | Some m =>
                  (s, with_body (mk true [Z.of_N (p_size m)])
                        match source_of fl st (s_user s) m with
                        | Some src => BWire (pop3_send src)
                        | None => BFail
                        end, st)
              end
          end
      | _ => (s, r_minus, st)
      end
  | TOP =>
      match args with
      | [a; b] =>
          match msg_index s a with
          | None => (s, r_minus, st)
          | Some i =>
              match parse_int32 b with
              | None => (s, r_minus, st)
              | Some k =>
                  if (k <? 0)%Z then (s, r_minus, st)
                  else match nth_error (s_msgs s) i with
                       | None => (s, r_panic, st)
                       | Some m =>
                           (s, with_body r_plus
                                 match source_of fl st (s_user s) m with
                                 | Some src => BWire (pop3_send_top src (Z.to_N k))
                                 | None => BFail
                                 end, st)
                       end
              end
          end
      | _ => (s, r_minus, st)
      end
  | QUIT =>
      match process_deletes (s_user s) (s_msgs s) (s_retain s) st with
      | None => (s, r_panic, st)
      | Some st' => (set_state s Closed, r_plus, st')
      end
  | NOOP => (s, r_plus, st)
  | RSET => (retain_all s, r_plus, st)
  | _ => (s, r_minus, st)            (* USER PASS APOP STLS: out of sequence *)
  end.

Definition is_panic (r : reply) : bool :=
  match r_body r with BPanic => true | _ => false end.

(** One iteration of the command loop for a session that is still open. *)
Definition step (fl : flavour) (st : store) (s : sess) (c : cmd) : sess * reply * store :=
  match c with
  | CCapa => (s, with_body r_plus BCapa, st)
  | CEmpty => (s, r_minus, st)
  | CUnknown => (s, r_minus, st)
  | CCmd n args =>
      match s_state s with
      | Auth => let (s', r) := auth_handler st s n args in (s', r, st)
      | Trans =>
          match trans_handler fl st s n args with
          | (s', r, st') => if is_panic r then (set_state s' Closed, r, st') else (s', r, st')
          end
      | Closed => (s, r_minus, st)    (* not reachable: the loop has ended *)
      end
  end.

(** * The world: one session, the store, and everybody else *)

Inductive event :=
  | ECmd (c : cmd)               (* a command line, parsed *)
  | ELine (line : str)           (* a command line as ReadString returns it *)
  | EDeliver (name src : str)    (* somebody's mail arrives *)
  | ERemove (name id : str)      (* another client deletes a message *)
  | EPurge (name : str)          (* another client empties a mailbox *)
  | EWriteBreak                  (* from now on every write to the client fails *)
  | EEof                         (* the client's side of the connection is gone *)
  | EReadErr.                    (* reading fails otherwise (idle timeout, reset): "-ERR", end *)

Record world := {
  w_store : store;
  w_sess : sess;
  w_wfail : bool;
  w_out : list reply            (* replies that reached the client, oldest first *)
}.

Definition init_world (st : store) : world :=
  {| w_store := st; w_sess := init_sess; w_wfail := false; w_out := [r_plus] |}.

Definition is_open (w : world) : bool :=
  match s_state (w_sess w) with Closed => false | _ => true end.

Definition do_cmd (fl : flavour) (w : world) (c : cmd) : world :=
  if is_open w then
    match step fl (w_store w) (w_sess w) c with
    | (s', r, st') =>
        if w_wfail w then
          (* the reply is lost, sendError ends the loop after this command *)
          {| w_store := st'; w_sess := set_state s' Closed; w_wfail := true; w_out := w_out w |}
        else
          {| w_store := st'; w_sess := s'; w_wfail := false; w_out := w_out w ++ [r] |}
    end
  else w.

Definition with_store (w : world) (st : store) : world :=
  {| w_store := st; w_sess := w_sess w; w_wfail := w_wfail w; w_out := w_out w |}.

Definition wstep (fl : flavour) (w : world) (e : event) : world :=
  match e with
  | ECmd c => do_cmd fl w c
  | ELine l => do_cmd fl w (parse_line l)
  | EDeliver n src => with_store w (deliver (w_store w) n src)
  | ERemove n id => with_store w (remove_msg (w_store w) n id)
  | EPurge n => with_store w (purge_box (w_store w) n)
  | EWriteBreak =>
      {| w_store := w_store w; w_sess := w_sess w; w_wfail := true; w_out := w_out w |}
  | EEof =>
      {| w_store := w_store w; w_sess := set_state (w_sess w) Closed; w_wfail := w_wfail w;
         w_out := w_out w |}
  | EReadErr =>
      if is_open w then
        {| w_store := w_store w; w_sess := set_state (w_sess w) Closed; w_wfail := w_wfail w;
           w_out := if w_wfail w then w_out w else w_out w ++ [r_minus] |}
      else w
  end.

Definition run (fl : flavour) (w : world) (evs : list event) : world :=
  fold_left (wstep fl) evs w.

(** What everybody else does to the store. *)
Definition ext_step (st : store) (e : event) : store :=
  match e with
  | EDeliver n src => deliver st n src
  | ERemove n id => remove_msg st n id
  | EPurge n => purge_box st n
  | _ => st
  end.

(** ** Byte stream to lines *)

(** Byte-level histories: client bytes arrive in arbitrary chunks.  A line is handed to the
    command loop when its LF arrives; what is pending at EOF is dropped (ReadString returns
    the error). *)
Inductive bevent :=
  | BBytes (b : str)
  | BOther (e : event).

(** Complete lines (with their LF) in [pend ++ b], and the unterminated rest. *)
Fixpoint feed (cur : str) (b : str) : list str * str :=
  match b with
  | [] => ([], frev cur)
  | c :: b' =>
      if c =? LF then let (ls, p) := feed [] b' in (frev (c :: cur) :: ls, p)
      else feed (c :: cur) b'
  end.

Fixpoint expand (pend : str) (bes : list bevent) : list event :=
  match bes with
  | [] => []
  | BBytes b :: bes' =>
      let (ls, p) := feed (frev pend) b in map ELine ls ++ expand p bes'
  | BOther e :: bes' => e :: expand pend bes'
  end.

Definition run_bytes (fl : flavour) (st : store) (bes : list bevent) : world :=
  run fl (init_world st) (expand [] bes ++ [EEof]).

(** The session on one raw client byte stream, then EOF (the analogue of SmtpWire.run_bytes):
    [read_lines] is the sequence of [ReadString('\n')] results - every complete line with
    its LF; the unterminated rest is what ReadString returns together with io.EOF and the
    loop throws away. *)
Definition read_lines (w : str) : list str := fst (feed [] w).
Definition run_stream (fl : flavour) (st : store) (w : str) : world :=
  run fl (init_world st) (map ELine (read_lines w) ++ [EEof]).

(** * Specification side: what the property demands, evaluated on observed replies *)

(** The abstract session of the property text: the snapshot taken at login (ids and sizes
    as the store had them), the set of marked message numbers, nothing else. *)
Record spec_state := {
  sp_phase : pstate;
  sp_user : str;
  sp_pending_user : str;          (* name given by USER *)
  sp_snap : list smsg;            (* mailbox content at login *)
  sp_marked : list nat            (* 0-based indices marked deleted *)
}.

Definition spec_init : spec_state :=
  {| sp_phase := Auth; sp_user := []; sp_pending_user := []; sp_snap := []; sp_marked := [] |}.

Definition marked (sp : spec_state) (i : nat) : bool := existsb (Nat.eqb i) (sp_marked sp).

Fixpoint spec_rows {A : Type} (f : smsg -> A) (sp : spec_state) (i : nat) (ms : list smsg)
  : list (N * A) :=
  match ms with
  | [] => []
  | m :: ms' =>
      if marked sp i then spec_rows f sp (S i) ms'
      else (N.of_nat (S i), f m) :: spec_rows f sp (S i) ms'
  end.

Definition spec_size (m : smsg) : N := lenN (ssrc m).

Definition spec_list (sp : spec_state) : list (N * N) := spec_rows spec_size sp 0 (sp_snap sp).
Definition spec_uidl (sp : spec_state) : list (N * str) := spec_rows sid sp 0 (sp_snap sp).

(** A valid, unmarked message number. *)
Definition spec_index (sp : spec_state) (a : str) (allow_marked : bool) : option (nat * smsg) :=
  match parse_int32 a with
  | None => None
  | Some z =>
      if (z <? 1)%Z then None
      else if (Z.of_N (lenN (sp_snap sp)) <? z)%Z then None
      else match nth_error (sp_snap sp) (Z.to_nat (z - 1)) with
           | None => None
           | Some m => if marked sp (Z.to_nat (z - 1)) && negb allow_marked then None
                       else Some (Z.to_nat (z - 1), m)
           end
  end.

Definition sum_sizes (rows : list (N * N)) : N := fold_right (fun r a => snd r + a) 0 rows.

Definition reply_eqb_nums (r : reply) (nums : list Z) : bool :=
  (length (r_nums r) =? length nums)%nat && forallb (fun p => (fst p =? snd p)%Z) (combine (r_nums r) nums).

Fixpoint rowsN_eqb (a b : list (N * N)) : bool :=
  match a, b with
  | [], [] => true
  | (x, y) :: a', (x', y') :: b' => (x =? x') && (y =? y') && rowsN_eqb a' b'
  | _, _ => false
  end.

Fixpoint rowsS_eqb (a b : list (N * str)) : bool :=
  match a, b with
  | [], [] => true
  | (x, y) :: a', (x', y') :: b' => (x =? x') && str_eqb y y' && rowsS_eqb a' b'
  | _, _ => false
  end.

Fixpoint strs_eqb (a b : list str) : bool :=
  match a, b with
  | [], [] => true
  | x :: a', y :: b' => str_eqb x y && strs_eqb a' b'
  | _, _ => false
  end.

Definition is_single (r : reply) : bool := match r_body r with BNone => true | _ => false end.
Definition is_err (r : reply) : bool := negb (r_ok r) && is_single r.

(** Verdict of the oracle on one reply: [None] = fine, [Some reason]. *)
Definition reason := N.
Definition R_PANIC : reason := 1.        (* the server died *)
Definition R_STATUS : reason := 2.       (* +OK where the property demands -ERR or vice versa *)
Definition R_STAT : reason := 3.         (* STAT disagrees with the snapshot minus marks *)
Definition R_LIST : reason := 4.         (* LIST shows other numbers/sizes than the snapshot minus marks *)
Definition R_UIDL : reason := 5.         (* UIDL ids are not the store's ids of the snapshot *)
Definition R_RETR : reason := 6.         (* RETR/TOP body is not the stored message *)
Definition R_STORE : reason := 7.        (* final store differs from what the dialogue entitles *)
Definition R_COUNT : reason := 8.        (* a command line got no reply / too many replies *)
Definition R_FRAME : reason := 9.
Definition R_LOGIN : reason := 10.       (* the message count announced at login is not the mailbox's *)        (* multi-line reply not terminated although the message exists *)

Definition chk (b : bool) (r : reason) : option reason := if b then None else Some r.

(** The commit: every marked message of the snapshot is removed from the user's mailbox
    (by id, in snapshot order). *)
Fixpoint commit_from (sp : spec_state) (i : nat) (ms : list smsg) (st : store) : store :=
  match ms with
  | [] => st
  | m :: ms' => commit_from sp (S i) ms' (if marked sp i then remove_msg st (sp_user sp) (sid m) else st)
  end.
Definition spec_commit (sp : spec_state) (st : store) : store := commit_from sp 0 (sp_snap sp) st.

(** What the property demands of the reply [r] to command [c] in spec state [sp], the store
    being [st]; returns the verdict and the next spec state and store. *)
Definition spec_step (fl : flavour) (st : store) (sp : spec_state) (c : cmd) (r : reply)
  : option reason * spec_state * store :=
  if is_panic r then (Some R_PANIC, sp, st) else
  match c with
  | CCapa => (chk (r_ok r && match r_body r with BCapa => true | _ => false end) R_STATUS, sp, st)
  | CEmpty | CUnknown => (chk (is_err r) R_STATUS, sp, st)
  | CCmd n args =>
      match sp_phase sp with
      | Closed => (Some R_COUNT, sp, st)
      | Auth =>
          let enter u :=
            ((if r_ok r && is_single r
              then chk (reply_eqb_nums r [Z.of_nat (length (mmsgs (get_box st u)))]) R_LOGIN
              else Some R_STATUS),
             {| sp_phase := Trans; sp_user := u; sp_pending_user := u;
                sp_snap := mmsgs (get_box st u); sp_marked := [] |}, st) in
          match n, args with
          | QUIT, _ => (chk (r_ok r && is_single r) R_STATUS,
                        {| sp_phase := Closed; sp_user := sp_user sp; sp_pending_user := sp_pending_user sp;
                           sp_snap := sp_snap sp; sp_marked := sp_marked sp |}, st)
          | USER, a :: _ => (chk (r_ok r && is_single r) R_STATUS,
                        {| sp_phase := Auth; sp_user := sp_user sp; sp_pending_user := a;
                           sp_snap := sp_snap sp; sp_marked := sp_marked sp |}, st)
          | PASS, _ => match sp_pending_user sp with
                       | [] => (chk (is_err r) R_STATUS, sp, st)
                       | u => enter u
                       end
          | APOP, [a; _] => enter a
          | _, _ => (chk (is_err r) R_STATUS, sp, st)
          end
      | Trans =>
          let same v := (v, sp, st) in
          match n, args with
          | STAT, [] =>
              let rows := spec_list sp in
              same (if r_ok r && is_single r
                    then chk (reply_eqb_nums r [Z.of_nat (length rows); Z.of_N (sum_sizes rows)]) R_STAT
                    else Some R_STATUS)
          | LIST, [] =>
              same (match r_ok r, r_body r with
                    | true, BList rows =>
                        chk (rowsN_eqb rows (spec_list sp) &&
                             reply_eqb_nums r [Z.of_nat (length (spec_list sp))]) R_LIST
                    | _, _ => Some R_STATUS
                    end)
          | UIDL, [] =>
              same (match r_ok r, r_body r with
                    | true, BUidl rows =>
                        chk (rowsS_eqb rows (spec_uidl sp) &&
                             reply_eqb_nums r [Z.of_nat (length (spec_uidl sp))]) R_UIDL
                    | _, _ => Some R_STATUS
                    end)
          | LIST, [a] =>
              same (match spec_index sp a false with
                    | None => chk (is_err r) R_STATUS
                    | Some (i, m) =>
                        if r_ok r && is_single r
                        then chk (reply_eqb_nums r [num_of i; Z.of_N (spec_size m)]) R_LIST
                        else Some R_STATUS
                    end)
          | UIDL, [a] =>
              same (match spec_index sp a false with
                    | None => chk (is_err r) R_STATUS
                    | Some (i, m) =>
                        if r_ok r && is_single r
                        then chk (reply_eqb_nums r [num_of i] &&
                                  match r_id r with Some id => str_eqb id (sid m) | None => false end) R_UIDL
                        else Some R_STATUS
                    end)
          | DELE, [a] =>
              match spec_index sp a false with
              | None => same (chk (is_err r) R_STATUS)
              | Some (i, _) =>
                  (chk (r_ok r && is_single r) R_STATUS,
                   {| sp_phase := Trans; sp_user := sp_user sp; sp_pending_user := sp_pending_user sp;
                      sp_snap := sp_snap sp; sp_marked := i :: sp_marked sp |}, st)
              end
          | RETR, [a] =>
              same (match spec_index sp a true with
                    | None => chk (is_err r) R_STATUS
                    | Some (i, m) =>
                        if r_ok r then
                          match r_body r with
                          | BWire w =>
                              chk (reply_eqb_nums r [Z.of_N (spec_size m)] &&
                                   match pop3_client_lines w with
                                   | Some (ls, []) => strs_eqb ls (scan_lines (ssrc m))
                                   | _ => false
                                   end) R_RETR
                          | BFail =>
                              (* only a file-store message that somebody else removed *)
                              match fl with
                              | File => chk (negb (has_msg st (sp_user sp) (sid m))) R_FRAME
                              | Mem => Some R_FRAME
                              end
                          | _ => Some R_FRAME
                          end
                        else Some R_STATUS
                    end)
          | TOP, [a; b] =>
              same (match spec_index sp a true, parse_int32 b with
                    | Some (i, m), Some k =>
                        if (k <? 0)%Z then chk (is_err r) R_STATUS
                        else if r_ok r then
                          match r_body r with
                          | BWire w =>
                              chk (match pop3_client_lines w with
                                   | Some (ls, []) => strs_eqb ls (top_spec (scan_lines (ssrc m)) (Z.to_N k))
                                   | _ => false
                                   end) R_RETR
                          | BFail =>
                              match fl with
                              | File => chk (negb (has_msg st (sp_user sp) (sid m))) R_FRAME
                              | Mem => Some R_FRAME
                              end
                          | _ => Some R_FRAME
                          end
                        else Some R_STATUS
                    | _, _ => chk (is_err r) R_STATUS
                    end)
          | NOOP, _ => same (chk (r_ok r && is_single r) R_STATUS)
          | RSET, _ =>
              (chk (r_ok r && is_single r) R_STATUS,
               {| sp_phase := Trans; sp_user := sp_user sp; sp_pending_user := sp_pending_user sp;
                  sp_snap := sp_snap sp; sp_marked := [] |}, st)
          | QUIT, _ =>
              (* the commit: exactly the marked messages leave the store *)
              (chk (r_ok r && is_single r) R_STATUS,
               {| sp_phase := Closed; sp_user := sp_user sp; sp_pending_user := sp_pending_user sp;
                  sp_snap := sp_snap sp; sp_marked := sp_marked sp |},
               spec_commit sp st)
          | _, _ => same (chk (is_err r) R_STATUS)
          end
      end
  end.

Definition spec_close (sp : spec_state) : spec_state :=
  {| sp_phase := Closed; sp_user := sp_user sp; sp_pending_user := sp_pending_user sp;
     sp_snap := sp_snap sp; sp_marked := sp_marked sp |}.

Definition is_quit (c : cmd) : bool :=
  match c with CCmd QUIT _ => true | _ => false end.

(** The oracle over a whole history: [rs] are the replies the client received (after the
    greeting), in order.  Returns the first complaint, the store the dialogue entitles, and
    the replies left over. *)
Fixpoint oracle_run (fl : flavour) (st : store) (sp : spec_state) (wfail : bool)
         (evs : list event) (rs : list reply) : option reason * store * list reply :=
  match evs with
  | [] => (None, st, rs)
  | e :: evs' =>
      let on_cmd c :=
        match sp_phase sp with
        | Closed => oracle_run fl st sp wfail evs' rs
        | _ =>
            if wfail then
              (* reply lost; the command still takes effect, then the session ends *)
              let st' := match sp_phase sp with
                         | Trans => if is_quit c then spec_commit sp st else st
                         | _ => st
                         end in
              oracle_run fl st' (spec_close sp) wfail evs' rs
            else
              match rs with
              | [] => (Some R_COUNT, st, [])
              | r :: rs' =>
                  match spec_step fl st sp c r with
                  | (Some why, _, _) => (Some why, st, rs')
                  | (None, sp', st') => oracle_run fl st' sp' wfail evs' rs'
                  end
              end
        end in
      match e with
      | ECmd c => on_cmd c
      | ELine l => on_cmd (parse_line l)
      | EWriteBreak => oracle_run fl st sp true evs' rs
      | EEof => oracle_run fl st (spec_close sp) wfail evs' rs
      | EReadErr =>
          match sp_phase sp with
          | Closed => oracle_run fl st sp wfail evs' rs
          | _ =>
              if wfail then oracle_run fl st (spec_close sp) wfail evs' rs
              else match rs with
                   | [] => (Some R_COUNT, st, [])
                   | r :: rs' =>
                       if is_err r then oracle_run fl st (spec_close sp) wfail evs' rs'
                       else (Some R_STATUS, st, rs')
                   end
          end
      | _ => oracle_run fl (ext_step st e) sp wfail evs' rs
      end
  end.

(** Store contents as the harness can dump them: per mailbox the ids and sizes in order. *)
Definition dump_box (st : store) (name : str) : list (str * N) :=
  map (fun m => (sid m, lenN (ssrc m))) (mmsgs (get_box st name)).

Fixpoint dump_eqb (a b : list (str * N)) : bool :=
  match a, b with
  | [], [] => true
  | (x, y) :: a', (x', y') :: b' => str_eqb x x' && (y =? y') && dump_eqb a' b'
  | _, _ => false
  end.

(** [out] is everything the client received, greeting first; [final] what the store holds
    for the named mailboxes once the connection has ended. *)
Definition oracle (fl : flavour) (st0 : store) (evs : list event) (out : list reply)
           (final : list (str * list (str * N))) : option reason :=
  match out with
  | [] => Some R_COUNT
  | g :: rs =>
      if negb (r_ok g && is_single g) then Some R_STATUS else
      match oracle_run fl st0 spec_init false (evs ++ [EEof]) rs with
      | (Some why, _, _) => Some why
      | (None, st, _ :: _) => Some R_COUNT
      | (None, st, []) =>
          chk (forallb (fun nb => dump_eqb (snd nb) (dump_box st (fst nb))) final) R_STORE
      end
  end.

(** * Equality on observations (used by the in-kernel cross-check of sampled cases) *)

Fixpoint nums_eqb (a b : list Z) : bool :=
  match a, b with
  | [], [] => true
  | x :: a', y :: b' => (x =? y)%Z && nums_eqb a' b'
  | _, _ => false
  end.

Definition body_eqb (a b : body) : bool :=
  match a, b with
  | BNone, BNone | BCapa, BCapa | BFail, BFail | BPanic, BPanic => true
  | BList x, BList y => rowsN_eqb x y
  | BUidl x, BUidl y => rowsS_eqb x y
  | BWire x, BWire y => str_eqb x y
  | BRaw x, BRaw y => str_eqb x y
  | _, _ => false
  end.

Definition reply_eqb (a b : reply) : bool :=
  Bool.eqb (r_ok a) (r_ok b) && nums_eqb (r_nums a) (r_nums b) &&
  match r_id a, r_id b with
  | None, None => true
  | Some x, Some y => str_eqb x y
  | _, _ => false
  end && body_eqb (r_body a) (r_body b).

Fixpoint replies_eqb (a b : list reply) : bool :=
  match a, b with
  | [], [] => true
  | x :: a', y :: b' => reply_eqb x y && replies_eqb a' b'
  | _, _ => false
  end.

(** One sampled case: the model, evaluated by the kernel, answers what the implementation
    answered, leaves the store the implementation was left with, and the oracle accepts. *)
Definition case_ok (c : flavour * store * list event * list reply * list (str * list (str * N))) : bool :=
  let '(fl, st0, evs, out, final) := c in
  let w := run fl (init_world st0) (evs ++ [EEof]) in
  replies_eqb (w_out w) out &&
  forallb (fun nb => dump_eqb (snd nb) (dump_box (w_store w) (fst nb))) final &&
  match oracle fl st0 evs out final with None => true | Some _ => false end.

(** C09 — the memory store under interleaving (pkg/storage/mem/store.go, maxsize.go).

    Every client thread runs ONE store operation, cut into the atomic sections the code has.
    A program counter names the scheduling point (the verifhook.Point site) the goroutine is
    parked at; one step runs it to its next scheduling point.  Blocking primitives (mailbox
    lock, send to / wait for the enforcer) are the first thing a step does, so a step is
    either enabled or [SBlocked] as a whole.  The size enforcer goroutine is its own party.
    The Store mutex only guards the lookup-or-create of the mailbox object, an atomic section
    without scheduling point; it is part of the step that starts an operation.
    No proofs in this file. *)
From IV Require Import Model.Conc.

Record mbx := mkMbx { x_box : box; x_lock : option tid }.   (* write-lock holder, if parked inside *)
(** The enforcer's view of a Message object: [m_tag] stands for the object's address (the harness
    gives every delivery its own tag), the mailbox and id are what removeMessage looks up. *)
Definition ent := (mbname * msg)%type.
Definition tag_mem (g : N) (l : list N) : bool := existsb (N.eqb g) l.

Inductive pc :=
| PStart (o : op)
| PAddLock (mb : mbname) (tag size : N)                          (* mem.wm.lock *)
| PAddVisible (mb : mbname) (nm : msg)                           (* mem.add.visible, holds the lock *)
| PAddEvict (mb : mbname) (nm : msg) (m : msg) (rest : list msg) (sent : bool)
                                                                 (* mem.enfremove / mem.remove.sent *)
| PAddRegister (mb : mbname) (nm : msg) (sent : bool)            (* mem.add.register / mem.deliver.sent *)
| PGetLock (mb : mbname) (id : N)
| PLatestLock (mb : mbname)
| PListLock (mb : mbname)
| PSeenLock (mb : mbname) (id : N)
| PRemoveLock (mb : mbname) (id : N)
| PRemoveEnf (m : msg) (mb : mbname) (sent : bool)               (* mem.enfremove / mem.remove.sent *)
| PPurgeLock (mb : mbname)
| PPurgeSwapped (mb : mbname) (ms : list msg)                    (* mem.purge.swapped *)
| PPurgeEnf (mb : mbname) (m : msg) (rest : list msg) (sent : bool)
| PVisitLock (mb : mbname) (rest : list mbname) (acc : list (mbname * view))
| PDone (r : res).

Inductive epc :=
| EIdle                                             (* in select *)
| EIncoming (k : ent) (w : tid)                     (* mem.enf.incoming *)
| EEvict (w : tid)                                  (* mem.enf.evict *)
| EEvLock (k : ent) (w : tid)                       (* mem.wm.lock inside removeMessage *)
| ERemove (k : ent) (w : tid).                      (* mem.enf.remove *)

Record enf := mkEnf {
  e_pc : epc;
  e_all : list ent;           (* container/list "all", front first *)
  e_cur : Z;                  (* curSize *)
  e_els : list N;             (* (tags of) messages whose el field is non-nil *)
  e_rem : list N;             (* (tags of) messages whose removed flag is set *)
  e_done : list tid           (* closed done channels not yet consumed *)
}.

Definition logent := (who * op * res)%type.

Record msys := mkSys {
  s_cap : N;
  s_max : option Z;           (* None: no size limit, no enforcer goroutine *)
  s_boxes : list (mbname * mbx);
  s_thr : list pc;
  s_enf : enf;
  s_log : list logent         (* ghost: commit steps in the order they happened *)
}.

Definition enf0 : enf := mkEnf EIdle [] 0%Z [] [] [].

(* ------------------------------------------------------------------ accessors *)

Definition mbx0 : mbx := mkMbx empty_box None.
Definition getx (mb : mbname) (s : msys) : mbx :=
  match aget mb (s_boxes s) with Some x => x | None => mbx0 end.
Definition locked (mb : mbname) (s : msys) : bool :=
  match x_lock (getx mb s) with Some _ => true | None => false end.

Definition with_boxes (s : msys) bs := mkSys (s_cap s) (s_max s) bs (s_thr s) (s_enf s) (s_log s).
Definition with_thr (s : msys) th := mkSys (s_cap s) (s_max s) (s_boxes s) th (s_enf s) (s_log s).
Definition with_enf (s : msys) e := mkSys (s_cap s) (s_max s) (s_boxes s) (s_thr s) e (s_log s).
Definition with_log (s : msys) l := mkSys (s_cap s) (s_max s) (s_boxes s) (s_thr s) (s_enf s) l.

Definition setx (mb : mbname) (x : mbx) (s : msys) : msys := with_boxes s (aset mb x (s_boxes s)).
Definition setpc (t : tid) (p : pc) (s : msys) : msys := with_thr s (set_nth t p (s_thr s)).
Definition addlog (e : logent) (s : msys) : msys := with_log s (s_log s ++ [e]).
(** withMailbox's lookup-or-create under the Store mutex. *)
Definition touch (mb : mbname) (s : msys) : msys :=
  match aget mb (s_boxes s) with Some _ => s | None => setx mb mbx0 s end.

Definition with_epc (e : enf) p := mkEnf p (e_all e) (e_cur e) (e_els e) (e_rem e) (e_done e).
Definition is_idle (s : msys) : bool := match e_pc (s_enf s) with EIdle => true | _ => false end.
Definition has_done (t : tid) (s : msys) : bool := existsb (Nat.eqb t) (e_done (s_enf s)).
Definition take_done (t : tid) (s : msys) : msys :=
  let e := s_enf s in
  with_enf s (mkEnf (e_pc e) (e_all e) (e_cur e) (e_els e) (e_rem e)
                    (filter (fun u => negb (Nat.eqb t u)) (e_done e))).
(** close(md.done) and back to the select. *)
Definition finish_enf (w : tid) (e : enf) : enf :=
  mkEnf EIdle (e_all e) (e_cur e) (e_els e) (e_rem e) (w :: e_done e).

(* ------------------------------------------------------------------ client steps *)

Definition next_add (mb : mbname) (nm : msg) (ev : list msg) : pc :=
  match ev with
  | [] => PAddRegister mb nm false
  | m :: r => PAddEvict mb nm m r false
  end.

(** [enforcerRemove(m)]: first half (send) and second half (wait) share this shape. [k] is the
    continuation program counter once the enforcer has answered. *)
Definition enf_remove_step (s : msys) (t : tid) (mb : mbname) (m : msg) (sent : bool)
           (again : pc) (k : pc) : sres msys :=
  match s_max s with
  | None => SOk (setpc t k s)                              (* s.remove == nil: returns at once *)
  | Some _ =>
      if sent then
        if has_done t s then SOk (setpc t k (take_done t s)) else SBlocked
      else
        if is_idle s
        then SOk (setpc t again (with_enf s (with_epc (s_enf s) (ERemove (mb, m) t))))
        else SBlocked
  end.

Definition purge_next (mb : mbname) (c : nat) (ms : list msg) : pc :=
  match pick c ms with
  | None => PDone ROk
  | Some (m, rest) => PPurgeEnf mb m rest false
  end.

Definition step_thr (s : msys) (t : tid) (c : nat) : sres msys :=
  match nth_error (s_thr s) t with
  | None => SNoop
  | Some p =>
    match p with
    | PDone _ => SNoop
    | PStart o =>
        match o with
        | OAdd mb tag size => SOk (setpc t (PAddLock mb tag size) (touch mb s))
        | OGet mb id => SOk (setpc t (PGetLock mb id) (touch mb s))
        | OLatest mb => SOk (setpc t (PLatestLock mb) (touch mb s))
        | OList mb => SOk (setpc t (PListLock mb) (touch mb s))
        | OSeen mb id => SOk (setpc t (PSeenLock mb id) (touch mb s))
        | ORemove mb id => SOk (setpc t (PRemoveLock mb id) (touch mb s))
        | OPurge mb => SOk (setpc t (PPurgeLock mb) (touch mb s))
        | OVisit =>
            match pick c (map fst (s_boxes s)) with
            | None => SOk (setpc t (PDone (RVisit [])) s)
            | Some (mb, rest) => SOk (setpc t (PVisitLock mb rest []) s)
            end
        end
    | PAddLock mb tag size =>
        if locked mb s then SBlocked else
        let '(id, b) := box_insert tag size (x_box (getx mb s)) in
        SOk (addlog (T t, OAdd mb tag size, RId id)
              (setpc t (PAddVisible mb (mkMsg tag id size false)) (setx mb (mkMbx b (Some t)) s)))
    | PAddVisible mb nm =>
        let '(b, ev) := box_cap (s_cap s) (x_box (getx mb s)) in
        SOk (setpc t (next_add mb nm ev) (setx mb (mkMbx b None) s))
    | PAddEvict mb nm m rest sent =>
        enf_remove_step s t mb m sent (PAddEvict mb nm m rest true) (next_add mb nm rest)
    | PAddRegister mb nm sent =>
        match s_max s with
        | None => SOk (setpc t (PDone (RId (m_id nm))) s)
        | Some _ =>
            if sent then
              if has_done t s then SOk (setpc t (PDone (RId (m_id nm))) (take_done t s)) else SBlocked
            else
              if is_idle s
              then SOk (setpc t (PAddRegister mb nm true)
                                (with_enf s (with_epc (s_enf s) (EIncoming (mb, nm) t))))
              else SBlocked
        end
    | PGetLock mb id =>
        if locked mb s then SBlocked else
        let r := box_get id (x_box (getx mb s)) in
        SOk (addlog (T t, OGet mb id, r) (setpc t (PDone r) s))
    | PLatestLock mb =>
        if locked mb s then SBlocked else
        let r := box_latest (x_box (getx mb s)) in
        SOk (addlog (T t, OLatest mb, r) (setpc t (PDone r) s))
    | PListLock mb =>
        if locked mb s then SBlocked else
        let r := box_list (x_box (getx mb s)) in
        SOk (addlog (T t, OList mb, r) (setpc t (PDone r) s))
    | PSeenLock mb id =>
        if locked mb s then SBlocked else
        let '(b, r) := box_seen id (x_box (getx mb s)) in
        SOk (addlog (T t, OSeen mb id, r) (setpc t (PDone r) (setx mb (mkMbx b None) s)))
    | PRemoveLock mb id =>
        if locked mb s then SBlocked else
        match box_remove id (x_box (getx mb s)) with
        | (b, Some m) =>
            SOk (addlog (T t, ORemove mb id, ROk) (setpc t (PRemoveEnf m mb false) (setx mb (mkMbx b None) s)))
        | (_, None) =>
            SOk (addlog (T t, ORemove mb id, RNotExist) (setpc t (PDone RNotExist) s))
        end
    | PRemoveEnf m mb sent =>
        enf_remove_step s t mb m sent (PRemoveEnf m mb true) (PDone ROk)
    | PPurgeLock mb =>
        if locked mb s then SBlocked else
        let '(b, ms) := box_purge (x_box (getx mb s)) in
        SOk (addlog (T t, OPurge mb, ROk) (setpc t (PPurgeSwapped mb ms) (setx mb (mkMbx b None) s)))
    | PPurgeSwapped mb ms =>
        match s_max s with
        | None => SOk (setpc t (PDone ROk) s)
        | Some _ => SOk (setpc t (purge_next mb c ms) s)
        end
    | PPurgeEnf mb m rest sent =>
        enf_remove_step s t mb m sent (PPurgeEnf mb m rest true) (purge_next mb c rest)
    | PVisitLock mb rest acc =>
        if locked mb s then SBlocked else
        let v := view_of (b_msgs (x_box (getx mb s))) in
        let acc' := acc ++ [(mb, v)] in
        let s' := addlog (T t, OList mb, RList v) s in
        match pick c rest with
        | None => SOk (setpc t (PDone (RVisit acc')) s')
        | Some (mb', rest') => SOk (setpc t (PVisitLock mb' rest' acc') s')
        end
    end
  end.

(* ---------------------------------------------------------------- enforcer steps *)

(** Unlinks the list element of the message with address [g] (m.el), if it is still linked. *)
Fixpoint ent_take (g : N) (l : list ent) : option (ent * list ent) :=
  match l with
  | [] => None
  | k :: l' => if m_tag (snd k) =? g then Some (k, l')
               else match ent_take g l' with Some (x, r) => Some (x, k :: r) | None => None end
  end.
Definition esize (k : ent) : Z := Z.of_N (m_size (snd k)).

Definition after_evict (max : Z) (w : tid) (e : enf) : enf :=
  if (max <? e_cur e)%Z then with_epc e (EEvict w) else finish_enf w e.

Definition step_enf (s : msys) : sres msys :=
  match s_max s with
  | None => SNoop
  | Some max =>
    let e := s_enf s in
    match e_pc e with
    | EIdle => SNoop
    | EIncoming k w =>
        if tag_mem (m_tag (snd k)) (e_rem e)
        then SOk (with_enf s (finish_enf w e))            (* m.removed: skip the registration *)
        else
          let e1 := mkEnf (e_pc e) (e_all e ++ [k]) (e_cur e + esize k)%Z
                          (m_tag (snd k) :: e_els e) (e_rem e) (e_done e) in
          SOk (with_enf s (after_evict max w e1))
    | EEvict w =>
        match e_all e with
        | [] => SCrash                                    (* all.Front() == nil; all.Remove(nil) *)
        | k :: rest =>
            (* all.Remove(el); m.el = nil; then removeMessage -> withMailbox: lookup, park at the lock *)
            let e1 := mkEnf (EEvLock k w) rest (e_cur e)
                            (filter (fun g => negb (g =? m_tag (snd k))) (e_els e)) (e_rem e) (e_done e) in
            SOk (with_enf (touch (fst k) s) e1)
        end
    | EEvLock k w =>
        if locked (fst k) s then SBlocked else
        (* curSize -= size whether or not the message was still in its mailbox *)
        let e1 := mkEnf (e_pc e) (e_all e) (e_cur e - esize k)%Z (e_els e) (e_rem e) (e_done e) in
        match box_remove (m_id (snd k)) (x_box (getx (fst k) s)) with
        | (b, Some _) =>
            SOk (addlog (E, ORemove (fst k) (m_id (snd k)), ROk)
                   (with_enf (setx (fst k) (mkMbx b None) s) (after_evict max w e1)))
        | (_, None) =>
            SOk (addlog (E, ORemove (fst k) (m_id (snd k)), RNotExist) (with_enf s (after_evict max w e1)))
        end
    | ERemove k w =>
        if tag_mem (m_tag (snd k)) (e_els e)
        then
          (* all.Remove(m.el): the element's value is this very message; its size leaves curSize *)
          match ent_take (m_tag (snd k)) (e_all e) with
          | Some (k', rest) =>
              SOk (with_enf s (finish_enf w
                   (mkEnf (e_pc e) rest (e_cur e - esize k')%Z (e_els e) (e_rem e) (e_done e))))
          | None =>                              (* element no longer linked: Remove is a no-op *)
              SOk (with_enf s (finish_enf w
                   (mkEnf (e_pc e) (e_all e) (e_cur e - esize k)%Z (e_els e) (e_rem e) (e_done e))))
          end
        else SOk (with_enf s (finish_enf w
                   (mkEnf (e_pc e) (e_all e) (e_cur e) (e_els e) (m_tag (snd k) :: e_rem e) (e_done e))))
    end
  end.

(* -------------------------------------------------------------------- schedules *)

Definition step (s : msys) (w : who) (c : nat) : sres msys :=
  match w with T t => step_thr s t c | E => step_enf s end.

(** Outcome of a schedule: final state, or where it stopped. [SNoop] steps are skipped. *)
Inductive outcome := Fin (s : msys) | BlockedAt (n : nat) (s : msys) | CrashedAt (n : nat) (s : msys).

Fixpoint run_from (n : nat) (s : msys) (sched : list (who * nat)) : outcome :=
  match sched with
  | [] => Fin s
  | (w, c) :: rest =>
      match step s w c with
      | SOk s' => run_from (S n) s' rest
      | SNoop => run_from (S n) s rest
      | SBlocked => BlockedAt n s
      | SCrash => CrashedAt n s
      end
  end.
Definition run := run_from 0.

Definition init_sys (cap : N) (max : option Z) (boxes : list (mbname * box)) (enf : enf) (ops : list op) : msys :=
  mkSys cap max (map (fun kb => (fst kb, mkMbx (snd kb) None)) boxes) (map PStart ops) enf [].

Definition thr_done (p : pc) : bool := match p with PDone _ => true | _ => false end.
Definition all_done (s : msys) : bool := forallb thr_done (s_thr s) && is_idle s.

Definition enabled (s : msys) (w : who) : bool :=
  match step s w 0 with SOk _ => true | SCrash => true | _ => false end.

Definition parties (s : msys) : list who := E :: map T (seq 0 (length (s_thr s))).

Definition results (s : msys) : list (option res) :=
  map (fun p => match p with PDone r => Some r | _ => None end) (s_thr s).

(** Sequential preparation of the initial state (the prefix history of a case): the ops are
    run one after the other, each to completion, the enforcer moving whenever it can. *)
Fixpoint drive (fuel : nat) (s : msys) (t : tid) : option msys :=
  match fuel with
  | O => None
  | S f =>
      match step s E 0 with
      | SOk s' => drive f s' t
      | SCrash => None
      | _ =>
          match step s (T t) 0 with
          | SOk s' => drive f s' t
          | SNoop => Some s
          | _ => None
          end
      end
  end.

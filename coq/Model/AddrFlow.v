(** Receive side and read side as the SOURCE composes them: the translator emits, as
    expressions over the naming functions (Gen/AddrFlows.v), what Addressing.NewRecipient puts
    into Recipient.Mailbox, what Manager.MailboxForAddress returns, and what every read entry
    point (REST, web UI, monitor sockets, POP3) turns the reader's string into. Here these
    expressions get their meaning in terms of the model's functions. No proofs. *)
From IV Require Import Base.Bytes Model.Addr.
From IV Require Export Gen.AddrFlows.

Section WithParseIP.
Variable parse_ip : str -> bool.

Fixpoint eval_with (prim : nfun -> str -> option str) (e : nexpr) (a : str) : option str :=
  match e with
  | NArg => Some a
  | NCall f x => match eval_with prim x a with Some v => prim f v | None => None end
  end.

(** inside Manager.MailboxForAddress only the policy's ExtractMailbox has a meaning *)
Definition eval_prim (mode : naming) (f : nfun) (x : str) : option str :=
  match f with
  | NExtractMailbox => extract_mailbox parse_ip mode x
  | _ => None
  end.

Definition eval_fun (mode : naming) (f : nfun) (x : str) : option str :=
  match f with
  | NExtractMailbox => extract_mailbox parse_ip mode x
  | NMailboxForAddress => eval_with (eval_prim mode) mailbox_for_address_expr x
  | NUnknown _ => None      (* a shape the translator did not recognise has no model *)
  end.

Definition eval (mode : naming) (e : nexpr) (a : str) : option str := eval_with (eval_fun mode) e a.

(** NewRecipient as the source composes it: the ParseEmailAddress guard, then the Mailbox expression *)
Definition rcpt_name (mode : naming) (a : str) : option str :=
  if rcpt_guard_is_parse_email_address then
    match parse_email_validated parse_ip a with
    | None => None
    | Some _ => eval mode rcpt_mailbox_expr a
    end
  else None.

(** the mailbox a message for RCPT argument [a] is stored in: the handler calls NewRecipient,
    Deliver stores under Recipient.Mailbox (no hook replacing the list: ASSUMPTIONS) *)
Definition stored_in (mode : naming) (a : str) : option str :=
  if rcpt_handler_calls_new_recipient && deliver_uses_recipient_mailbox then rcpt_name mode a else None.

End WithParseIP.

Definition uses_policy (e : nexpr) : bool := match e with NArg => false | NCall _ _ => true end.

(** strings.Trim(s, cutset): what the RCPT handler applies to the text after "TO:" *)
Fixpoint trim_left (cut : str) (s : str) : str :=
  match s with
  | c :: t => if mem_b c cut then trim_left cut t else s
  | [] => []
  end.
Definition trim (cut : str) (s : str) : str := rev (trim_left cut (rev (trim_left cut s))).

(** the address the handler hands to NewRecipient for `RCPT TO:<a>` *)
Definition rcpt_address (a : str) : str := trim rcpt_handler_trim_cutset (60 :: a ++ [62]).

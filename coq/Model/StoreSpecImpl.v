(** StoreSpecImpl — what a back-end model must provide, and the handle-resolving runner.

    A back-end model executes LOW-LEVEL operations that carry the back-end's own ids
    ([lop], results [lres], events [lev]). [run_impl] is the model of what the Go driver does
    around the real store: it remembers the ids returned by the adds to each mailbox
    ([issued]), resolves a handle [Kth k] to the k-th of them, turns ids in results, listings
    and events back into handle numbers, performs the [GetMessage] of the id just returned
    after every add, and (as [StoreManager.Deliver] does) emits the stored event once
    [AddMessage] has returned. No proofs in this file. *)
From IV Require Import Base.Bytes Model.StoreSpec.

Section Impl.
Variable ID : Type.
Variable id_eqb : ID -> ID -> bool.

(** An id argument: an id some add returned, the literal "latest", or a literal that no
    back-end issues (it is equal to no key of any map or index). *)
Inductive idq := QId (i : ID) | QLatest | QBogus.

Inductive lop :=
| LoAdd (mb : str) (m : msg)
| LoGet (mb : str) (q : idq)
| LoList (mb : str)
| LoSeen (mb : str) (q : idq)
| LoRemove (mb : str) (q : idq)
| LoPurge (mb : str)
| LoVisit.

Inductive lres :=
| LAdd (i : ID)
| LMsg (r : res (ID * msg))
| LList (l : list (ID * msg))
| LUnit (r : res unit)
| LVisit (l : list (str * list (ID * msg)))
| LPanic.                       (* the code would crash here (nil dereference) *)

Definition lev := (evkind * str * ID)%type.

(* ---- id-keyed association lists (a Go map with unique keys / an index slice scanned
        front to back: first match wins) *)
Fixpoint al_find (i : ID) (l : list (ID * msg)) : option msg :=
  match l with
  | [] => None
  | (j, m) :: l' => if id_eqb i j then Some m else al_find i l'
  end.

Fixpoint al_remove (i : ID) (l : list (ID * msg)) : list (ID * msg) :=
  match l with
  | [] => []
  | (j, m) :: l' => if id_eqb i j then l' else (j, m) :: al_remove i l'
  end.

Fixpoint al_seen (i : ID) (l : list (ID * msg)) : list (ID * msg) :=
  match l with
  | [] => []
  | (j, m) :: l' => if id_eqb i j then (j, msg_set_seen m) :: l' else (j, m) :: al_seen i l'
  end.

(* ---- name-keyed association lists *)
Fixpoint bx_get {B} (d : B) (mb : str) (l : list (str * B)) : B :=
  match l with
  | [] => d
  | (n, b) :: l' => if str_eqb mb n then b else bx_get d mb l'
  end.

(** Replace the entry of [mb], or append one (order of first creation is kept). *)
Fixpoint bx_set {B} (mb : str) (b : B) (l : list (str * B)) : list (str * B) :=
  match l with
  | [] => [(mb, b)]
  | (n, b0) :: l' => if str_eqb mb n then (n, b) :: l' else (n, b0) :: bx_set mb b l'
  end.

(* ---- the runner *)
Variable S : Type.
Variable exec : S -> lop -> S * lres * list lev.

Definition issued := list (str * list ID).
Definition iss_of (mb : str) (iss : issued) : list ID := bx_get [] mb iss.

Fixpoint index_of_id (i : ID) (l : list ID) : option nat :=
  match l with
  | [] => None
  | j :: l' => if id_eqb i j then Some O else option_map Datatypes.S (index_of_id i l')
  end.

(** The handle number of an id; an id that no add to this mailbox returned (impossible for
    a sane back-end) is reported as the out-of-range number [length issued]. *)
Definition handle_of (iss : issued) (mb : str) (i : ID) : nat :=
  match index_of_id i (iss_of mb iss) with
  | Some k => k
  | None => length (iss_of mb iss)
  end.

Definition resolve (iss : issued) (mb : str) (h : handle) : idq :=
  match h with
  | Kth k => match nth_error (iss_of mb iss) k with Some i => QId i | None => QBogus end
  | Latest => QLatest
  | Bogus => QBogus
  end.

Definition tr_view (iss : issued) (mb : str) (p : ID * msg) : view := (handle_of iss mb (fst p), snd p).

Definition tr_msg (iss : issued) (mb : str) (r : lres) : res view :=
  match r with
  | LMsg (Ok p) => Ok (tr_view iss mb p)
  | LMsg NotExist => NotExist
  | _ => Err
  end.

Definition tr_unit (r : lres) : res unit :=
  match r with LUnit u => u | _ => Err end.

Definition tr_ev (iss : issued) (e : lev) : event :=
  let '(kd, mb, i) := e in (kd, mb, handle_of iss mb i).

Definition nonempty_group (p : str * list view) : bool :=
  match snd p with [] => false | _ => true end.

Definition step_impl (st : S * issued) (o : op) : (S * issued) * obs * list event :=
  let '(s, iss) := st in
  match o with
  | Add mb date tag size =>
      let m := {| m_date := date; m_tag := tag; m_size := size; m_seen := false |} in
      let '(s1, r, evs) := exec s (LoAdd mb m) in
      let k := length (iss_of mb iss) in
      match r with
      | LAdd i =>
          let iss' := bx_set mb (iss_of mb iss ++ [i]) iss in
          let '(s2, r2, evs2) := exec s1 (LoGet mb (QId i)) in
          ((s2, iss'), OAdd k (tr_msg iss' mb r2),
           map (tr_ev iss') evs ++ [(EStored, mb, k)] ++ map (tr_ev iss') evs2)
      | _ => ((s1, iss), OAdd k Err, map (tr_ev iss) evs)
      end
  | Get mb h =>
      let '(s1, r, evs) := exec s (LoGet mb (resolve iss mb h)) in
      ((s1, iss), OGet (tr_msg iss mb r), map (tr_ev iss) evs)
  | Lst mb =>
      let '(s1, r, evs) := exec s (LoList mb) in
      ((s1, iss), OList (match r with LList l => map (tr_view iss mb) l | _ => [] end), map (tr_ev iss) evs)
  | Seen mb h =>
      let '(s1, r, evs) := exec s (LoSeen mb (resolve iss mb h)) in
      ((s1, iss), OUnit (tr_unit r), map (tr_ev iss) evs)
  | Remove mb h =>
      let '(s1, r, evs) := exec s (LoRemove mb (resolve iss mb h)) in
      ((s1, iss), OUnit (tr_unit r), map (tr_ev iss) evs)
  | Purge mb =>
      let '(s1, r, evs) := exec s (LoPurge mb) in
      ((s1, iss), OUnit (tr_unit r), map (tr_ev iss) evs)
  | Visit =>
      let '(s1, r, evs) := exec s LoVisit in
      ((s1, iss),
       OVisit (match r with
               | LVisit l => filter nonempty_group (map (fun p => (fst p, map (tr_view iss (fst p)) (snd p))) l)
               | _ => []
               end),
       map (tr_ev iss) evs)
  end.

Fixpoint run_impl (st : S * issued) (ops : list op) : list (obs * list event) :=
  match ops with
  | [] => []
  | o :: ops' => let '(st', ob, evs) := step_impl st o in (ob, evs) :: run_impl st' ops'
  end.

Fixpoint final_impl (st : S * issued) (ops : list op) : S * issued :=
  match ops with
  | [] => st
  | o :: ops' => let '(st', _, _) := step_impl st o in final_impl st' ops'
  end.

End Impl.

Arguments QId {ID} i. Arguments QLatest {ID}. Arguments QBogus {ID}.
Arguments LoAdd {ID} mb m. Arguments LoGet {ID} mb q. Arguments LoList {ID} mb.
Arguments LoSeen {ID} mb q. Arguments LoRemove {ID} mb q. Arguments LoPurge {ID} mb.
Arguments LoVisit {ID}.
Arguments LAdd {ID} i. Arguments LMsg {ID} r. Arguments LList {ID} l. Arguments LUnit {ID} r.
Arguments LVisit {ID} l. Arguments LPanic {ID}.

(** FileStore — model of pkg/storage/file (fstore.go, mbox.go, fmessage.go) as it is coded
    (after fixes 0004, 0009, 0010, 0012), at the level of what the mailbox index holds.

    Every call builds a fresh [mbox], reads the index from disk, works on the slice and
    writes it back; so the state of a mailbox IS its index: the list of (id, message) in
    arrival order (the body lives in <id>.raw and is part of [msg]). An index that became
    empty means "directory removed": the entry stays in the association list with [[]] so that
    the enumeration order of the model is the order of first delivery (the real readdir order
    is arbitrary and not compared). The byte-level disk protocol (tmp + rename, unlink order)
    is FileDisk.v's business (C10/C11), not modelled here.
    Ids: [generateID] = (wall-clock second, process-wide counter mod 10000). The seconds that
    pass before each [generateID] call are an environment input ([ticks], one per call, 0 when
    exhausted); retries of the [hasID] loop are taken to fall into the same second.
    No proofs in this file. *)
From IV Require Import Base.Bytes Model.StoreSpec Model.StoreSpecImpl.

Definition fid := (N * N)%type.
Definition fid_eqb (a b : fid) : bool := (fst a =? fst b) && (snd a =? snd b).
Definition fal_find := al_find fid fid_eqb.
Definition fal_remove := al_remove fid fid_eqb.
Definition fal_seen := al_seen fid fid_eqb.

Record file_store := {
  fs_boxes : list (str * list (fid * msg));   (* the disk: mailbox -> index *)
  fs_sec : N; fs_ctr : N;                      (* clock second, countChannel's next value *)
  fs_ticks : list N                            (* environment: seconds elapsed before each generateID *)
}.
Definition file_init (ticks : list N) : file_store :=
  {| fs_boxes := []; fs_sec := 0; fs_ctr := 0; fs_ticks := ticks |}.

Definition get_index (mb : str) (s : file_store) : list (fid * msg) := bx_get [] mb (fs_boxes s).

Definition has_id (i : fid) (l : list (fid * msg)) : bool :=
  match fal_find i l with Some _ => true | None => false end.

(** newMessage's cap loop: for len(messages) >= cap { removeMessage(messages[0].ID()) }. *)
Fixpoint fcap_loop (fuel : nat) (cap : nat) (l : list (fid * msg)) (ev : list fid) : list (fid * msg) * list fid :=
  match fuel with
  | O => (l, ev)
  | Datatypes.S f =>
      if Nat.leb cap (length l) then
        match l with
        | [] => (l, ev)
        | (i, _) :: _ => fcap_loop f cap (fal_remove i l) (ev ++ [i])
        end
      else (l, ev)
  end.

(** id := generateID(now); for hasID(id) { id = generateID(now) }. Returns the id and the next
    counter value. After 10000 tries within one second every counter value is taken: the real
    loop spins until the second changes, the model moves to the next second. *)
Fixpoint gen_loop (fuel : nat) (sec ctr : N) (l : list (fid * msg)) : fid * N :=
  match fuel with
  | O => ((sec + 1, ctr), (ctr + 1) mod 10000)
  | Datatypes.S f =>
      if has_id (sec, ctr) l then gen_loop f sec ((ctr + 1) mod 10000) l
      else ((sec, ctr), (ctr + 1) mod 10000)
  end.

Definition gen_fuel : nat := N.to_nat 10000.

Definition file_add (cfg : scfg) (s : file_store) (mb : str) (m : msg) : file_store * lres fid * list (lev fid) :=
  let l0 := get_index mb s in
  let '(l1, evicted) :=
    if Nat.eqb (c_cap cfg) 0 then (l0, []) else fcap_loop (Datatypes.S (length l0)) (c_cap cfg) l0 [] in
  let '(dt, ticks') := match fs_ticks s with [] => (0, []) | d :: t => (d, t) end in
  let sec := fs_sec s + dt in
  let '(i, ctr') := gen_loop gen_fuel sec (fs_ctr s) l1 in
  ({| fs_boxes := bx_set mb (l1 ++ [(i, m)]) (fs_boxes s); fs_sec := fst i; fs_ctr := ctr'; fs_ticks := ticks' |},
   LAdd i, map (fun j => (EDeleted, mb, j)) evicted).

Definition file_get (s : file_store) (mb : str) (q : idq fid) : res (fid * msg) :=
  let l := get_index mb s in
  match q with
  | QLatest => match last_opt l with Some p => Ok p | None => NotExist end
  | QId i => match fal_find i l with Some m => Ok (i, m) | None => NotExist end
  | QBogus => NotExist
  end.

Definition set_index (mb : str) (l : list (fid * msg)) (s : file_store) : file_store :=
  {| fs_boxes := bx_set mb l (fs_boxes s); fs_sec := fs_sec s; fs_ctr := fs_ctr s; fs_ticks := fs_ticks s |}.

Definition exec_file (cfg : scfg) (s : file_store) (o : lop fid) : file_store * lres fid * list (lev fid) :=
  match o with
  | LoAdd mb m => file_add cfg s mb m
  | LoGet mb q => (s, LMsg (file_get s mb q), [])
  | LoList mb => (s, LList (get_index mb s), [])
  | LoSeen mb (QId i) =>
      let l := get_index mb s in
      match fal_find i l with
      | Some _ => (set_index mb (fal_seen i l) s, LUnit (Ok tt), [])
      | None => (s, LUnit NotExist, [])
      end
  | LoSeen mb _ => (s, LUnit NotExist, [])
  | LoRemove mb (QId i) =>
      let l := get_index mb s in
      match fal_find i l with
      | Some _ => (set_index mb (fal_remove i l) s, LUnit (Ok tt), [(EDeleted, mb, i)])
      | None => (s, LUnit NotExist, [])
      end
  | LoRemove mb _ => (s, LUnit NotExist, [])
  | LoPurge mb =>
      let l := get_index mb s in
      (match l with [] => s | _ => set_index mb [] s end,
       LUnit (Ok tt), map (fun p => (EDeleted, mb, fst p)) l)
  | LoVisit => (s, LVisit (fs_boxes s), [])
  end.

Definition run_file (cfg : scfg) (ticks : list N) (ops : list op) : list (obs * list event) :=
  run_impl fid fid_eqb file_store (exec_file cfg) (file_init ticks, []) ops.

Definition final_file (cfg : scfg) (ticks : list N) (ops : list op) : file_store * issued fid :=
  final_impl fid fid_eqb file_store (exec_file cfg) (file_init ticks, []) ops.

(** Re-opening the store on the same path with ANOTHER configuration (file.New reads nothing from
    the disk; the cap is a field of the Store object): the disk — the model's state — carries
    over, the cap changes. A history in segments, each with its own configuration. *)
Definition run_file_from (cfg : scfg) (st : file_store * issued fid) (ops : list op) : list (obs * list event) :=
  run_impl fid fid_eqb file_store (exec_file cfg) st ops.
Definition final_file_from (cfg : scfg) (st : file_store * issued fid) (ops : list op) : file_store * issued fid :=
  final_impl fid fid_eqb file_store (exec_file cfg) st ops.

Fixpoint run_file_segs (st : file_store * issued fid) (segs : list (scfg * list op)) : list (list (obs * list event)) :=
  match segs with
  | [] => []
  | (cfg, ops) :: r => run_file_from cfg st ops :: run_file_segs (final_file_from cfg st ops) r
  end.

Fixpoint run_spec_segs (st : spec_store) (segs : list (scfg * list op)) : list (list (obs * list event)) :=
  match segs with
  | [] => []
  | (cfg, ops) :: r => run_spec cfg st ops :: run_spec_segs (final_spec cfg st ops) r
  end.

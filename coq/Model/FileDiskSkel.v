(** Token language of the mutation-step skeletons of the file store (see go/cmd/pins/c11_steps.go). *)
From Coq Require Import String List.
Import ListNotations.

Inductive tok :=
| P (site : string)      (* verifhook.Point: a crash point *)
| O (call : string)      (* a mutating os / io / bufio / gob call *)
| C (callee : string)    (* a call of one of the store's own helpers *)
| E (t : tok)            (* inside an error path *)
| If_ (cond : string) | Else_ | End_
| For_ (cond : string)
| Ret_.

Open Scope string_scope.

(** The skeletons Model/FileDisk.v was written from (hand-maintained; Proofs/FileDiskSkel.v proves them equal to the
    ones the translator reads from the source on every run, and the model's step lists assembled from them). *)
Definition sk_AddMessage : list tok :=
  [C "mbox";
   E (Ret_);
   C "newMessage";
   E (Ret_);
   C "createDir";
   E (Ret_);
   P "file.add.create";
   O "os.Create";
   E (Ret_);
   P "file.add.write";
   O "io.Copy";
   E (O "Close");
   E (O "os.Remove");
   E (Ret_);
   O "Close";
   P "file.add.flush";
   O "Flush";
   E (O "Close");
   E (O "os.Remove");
   E (Ret_);
   P "file.add.close";
   O "Close";
   E (O "os.Remove");
   E (Ret_);
   C "writeIndex";
   E (O "os.Remove");
   E (Ret_);
   Ret_].

Definition sk_MarkSeen : list tok :=
  [C "mbox";
   If_ "!mb.indexLoaded";
   C "readIndex";
   E (Ret_);
   End_;
   For_ "range mb.messages";
   If_ "m.Fid == id";
   If_ "m.Fseen";
   Ret_;
   End_;
   C "writeIndex";
   Ret_;
   End_;
   End_;
   Ret_].

Definition sk_RemoveMessage : list tok :=
  [C "mbox";
   C "removeMessage";
   Ret_].

Definition sk_PurgeMessages : list tok :=
  [C "mbox";
   If_ "!mb.indexLoaded";
   C "readIndex";
   E (Ret_);
   End_;
   For_ "range mb.messages";
   End_;
   C "purge";
   Ret_].

Definition sk_newMessage : list tok :=
  [If_ "!mb.indexLoaded";
   C "readIndex";
   E (Ret_);
   End_;
   If_ "mb.store.messageCap > 0";
   For_ "len(mb.messages) >= mb.store.messageCap";
   C "removeMessage";
   If_ "err != nil";
   End_;
   End_;
   End_;
   C "generateID";
   For_ "mb.hasID(id)";
   C "hasID";
   P "file.add.idretry";
   C "generateID";
   End_;
   Ret_].

Definition sk_removeMessage : list tok :=
  [If_ "!mb.indexLoaded";
   C "readIndex";
   E (Ret_);
   End_;
   For_ "range mb.messages";
   If_ "id == m.ID()";
   End_;
   End_;
   If_ "msg == nil";
   Ret_;
   End_;
   C "writeIndex";
   E (Ret_);
   If_ "len(mb.messages) == 0";
   Ret_;
   End_;
   P "file.remove.raw";
   O "os.Remove";
   Ret_].

Definition sk_purge : list tok :=
  [C "writeIndex";
   Ret_].

Definition sk_writeIndex : list tok :=
  [If_ "len(mb.messages) > 0";
   C "createDir";
   E (Ret_);
   P "file.index.create";
   O "os.Create";
   E (Ret_);
   P "file.index.write";
   O "Encode";
   E (O "Close");
   E (Ret_);
   For_ "range mb.messages";
   O "Encode";
   E (O "Close");
   E (Ret_);
   End_;
   P "file.index.flush";
   O "Flush";
   E (O "Close");
   E (Ret_);
   P "file.index.close";
   O "Close";
   E (Ret_);
   P "file.index.rename";
   O "os.Rename";
   E (Ret_);
   Else_;
   P "file.index.remove";
   O "os.Remove";
   E (Ret_);
   C "removeDir";
   Ret_;
   End_;
   Ret_].

Definition sk_createDir : list tok :=
  [If_ "err != nil";
   P "file.dir.mkdir";
   O "os.MkdirAll";
   E (Ret_);
   End_;
   Ret_].

Definition sk_removeDir : list tok :=
  [P "file.dir.removeall";
   O "os.RemoveAll";
   E (Ret_);
   C "removeDirIfEmpty";
   If_ "removeDirIfEmpty(dir)";
   C "removeDirIfEmpty";
   End_;
   Ret_].

Definition sk_removeDirIfEmpty : list tok :=
  [E (Ret_);
   O "Close";
   E (Ret_);
   If_ "len(files) > 0";
   Ret_;
   End_;
   P "file.dir.rmdir";
   O "os.Remove";
   E (Ret_);
   Ret_].


(** The socket writer and reader goroutines of a monitor (pkg/rest/socketv1_controller.go,
    socketv2_controller.go: WSWriter, WSReader), as far as an executable model carries them: what
    is put on the wire is a sequence of FRAMES — one text frame per event taken from the queue (the
    JSON document of that event), ping frames on the ticker, one close frame when the listener has
    been closed —, a write can fail (peer gone, or the write deadline of [write_wait] seconds
    exceeded), and both goroutines call the listener's Close when they end (deferred).
    The structure is the one the translator reads off the source (Gen/HubWriter.v); layer over
    Model/Hub.v. No proofs in this file. *)
From IV Require Import Base.Bytes Gen.HubWriter Model.Hub.
Local Open Scope nat_scope.

Inductive frame := FText (e : ev) | FPing | FClose.

Record wst := mkWst {
  w_frames : list frame;      (* written so far, in order *)
  w_alive : bool;             (* the writer goroutine is in its loop *)
  w_lost : list ev            (* events taken from the queue whose write failed (at most one: the writer ends) *)
}.

Record whub := mkWH { wh : hub; wws : list (nat * wst) }.

Fixpoint find_w (l : nat) (xs : list (nat * wst)) : option wst :=
  match xs with [] => None | (k, w) :: t => if Nat.eqb k l then Some w else find_w l t end.
Fixpoint upd_w (l : nat) (w : wst) (xs : list (nat * wst)) : list (nat * wst) :=
  match xs with [] => [] | (k, x) :: t => if Nat.eqb k l then (k, w) :: t else (k, x) :: upd_w l w t end.

Inductive wact :=
| WEnv (a : action)         (* hub goroutine, clients, constructors — anything of Model/Hub.v but the writer's take *)
| WStart (l : nat)          (* the handler starts WSWriter for listener l (after the constructor has returned) *)
| WEvent (l : nat)          (* arm [event := <-ml.c]: deadline; WriteJSON of exactly that event: ONE text frame *)
| WEventFail (l : nat)      (* … the write fails: return *)
| WTick (l : nat)           (* arm [<-ticker.C]: deadline; one ping frame *)
| WTickFail (l : nat)       (* … the write fails: return *)
| WDone (l : nat)           (* arm [<-ml.done]: one close frame; return *)
| WReaderGone (l : nat).    (* WSReader: the peer is gone; return *)

Definition is_take (a : action) : bool := match a with ATake _ => true | _ => false end.

(** the deferred [ml.Close()] of a goroutine that ends: close(done), then RemoveListener — the
    second needs room in the hub's op queue; if there is none the goroutine stays in Close (that is
    [ARm] still to come; see Proofs/HubClose: the hub keeps popping once done is closed) *)
Definition do_close (c : cfg) (h : hub) (l : nat) : hub :=
  match step c h (AClose l) with
  | Some h1 => match step c h1 (ARm l) with Some h2 => h2 | None => h1 end
  | None => h
  end.

Definition last_taken (h : hub) (l : nat) : option ev :=
  match find_l l (ls h) with Some s => last (map Some (lout s)) None | None => None end.

Definition wstep (c : cfg) (y : whub) (a : wact) : option whub :=
  match a with
  | WEnv a' => if is_take a' then None else
               match step c (wh y) a' with Some h => Some (mkWH h (wws y)) | None => None end
  | WStart l =>
      match find_l l (ls (wh y)), find_w l (wws y) with
      | Some _, None => Some (mkWH (wh y) (wws y ++ [(l, mkWst [] true [])]))
      | _, _ => None
      end
  | WEvent l | WEventFail l =>
      match find_w l (wws y) with
      | Some w =>
          if w_alive w then
            match step c (wh y) (ATake l) with
            | Some h =>
                match last_taken h l with
                | Some e =>
                    match a with
                    | WEvent _ => Some (mkWH h (upd_w l (mkWst (w_frames w ++ [FText e]) true (w_lost w)) (wws y)))
                    | _ => Some (mkWH (do_close c h l) (upd_w l (mkWst (w_frames w) false (w_lost w ++ [e])) (wws y)))
                    end
                | None => None
                end
            | None => None
            end
          else None
      | None => None
      end
  | WTick l =>
      match find_w l (wws y) with
      | Some w => if w_alive w then Some (mkWH (wh y) (upd_w l (mkWst (w_frames w ++ [FPing]) true (w_lost w)) (wws y))) else None
      | None => None
      end
  | WTickFail l =>
      match find_w l (wws y) with
      | Some w => if w_alive w then Some (mkWH (do_close c (wh y) l) (upd_w l (mkWst (w_frames w) false (w_lost w)) (wws y))) else None
      | None => None
      end
  | WDone l =>
      match find_w l (wws y), find_l l (ls (wh y)) with
      | Some w, Some s =>
          if w_alive w && lclosed s
          then Some (mkWH (do_close c (wh y) l) (upd_w l (mkWst (w_frames w ++ [FClose]) false (w_lost w)) (wws y)))
          else None
      | _, _ => None
      end
  | WReaderGone l =>
      match find_l l (ls (wh y)) with
      | Some _ => Some (mkWH (do_close c (wh y) l) (wws y))
      | None => None
      end
  end.

Fixpoint wrunw (c : cfg) (y : whub) (acts : list wact) : option whub :=
  match acts with
  | [] => Some y
  | a :: t => match wstep c y a with None => None | Some y' => wrunw c y' t end
  end.

Definition whub_init (n : nat) : whub := mkWH (hub_init n) [].

Definition texts (fs : list frame) : list ev :=
  flat_map (fun f => match f with FText e => [e] | _ => [] end) fs.

(** What the model's steps assume about the source. *)
Definition model_writer_arms : list warm := [WDoneCloseFrameReturn; WEventOneWriteOfIt true true; WTickPing true true].

(** RetentionLoop — RetentionScanner.Start as a small-step machine over (clock, ctx, store) (C12).

    pkg/storage/retention.go, Start:
        if period <= 0 { close(retentionShutdown); return }
        start := now
        loop: since := now - start
              if since < 1 min { select { ctx.Done: break loop ; time.After(1 min - since) } }
              start = now ; DoScan(ctx)
              select { ctx.Done: break loop ; default }
        close(retentionShutdown)                      (Join waits for this)
    Events of a schedule: the clock advances ([LTick], never backwards), shutdown is requested
    ([LCancelEv]), another client performs a store operation ([LOp]), the loop / the scan in
    progress makes one move ([LStep]; its flag resolves the races of the code: when a timer — the
    minute timer of Start, the retentionSleep timer at the end of a DoScan callback — and
    ctx.Done are both ready the select may take either).  A scan is the step
    machine of [Model/Retention.v] with cutoff = (clock at scan start) - period over the
    mailboxes [enum] hands out.  The clock unit is the second.  No proofs in this file. *)
From IV Require Import Base.Bytes Model.StoreSpec Model.Retention.
Open Scope Z_scope.

Section Loop.
Variable cfg : scfg.
Variable period : Z.
Variable enum : spec_store -> list str.     (* the mailboxes VisitMailboxes enumerates *)

Definition minute : Z := 60.

Inductive lmode :=
| LWait                   (* top of the loop / inside the first select *)
| LScan (cutoff : Z)      (* inside DoScan *)
| LCheck                  (* the select after DoScan *)
| LExit.                  (* Start has returned *)

Record lstate := {
  l_now : Z;                      (* the clock *)
  l_last : Z;                     (* [start]: when Start was entered / the last scan began *)
  l_mode : lmode;
  l_sys : sys;                    (* store, ctx flag and — while scanning — the scanner *)
  l_closed : bool;                (* retentionShutdown closed: Join returns *)
  l_starts : list Z;              (* clock at the start of every scan, newest first *)
  l_done : list (Z * bool);       (* finished scans: start time, aborted by shutdown *)
  l_log : list (entry * Z);       (* every message a scan removed, with the clock at that moment *)
  l_visits : nat                  (* mailbox callbacks started so far *)
}.

Definition idle_sys (st : spec_store) (cancelled : bool) : sys :=
  {| s_st := st; s_todo := []; s_phase := PDone false; s_cancel := cancelled; s_removed := [];
     s_visited := O; s_attempts := O |}.

Definition scan_sys (st : spec_store) (cancelled : bool) : sys :=
  {| s_st := st; s_todo := enum st; s_phase := PIdle; s_cancel := cancelled; s_removed := [];
     s_visited := O; s_attempts := O |}.

Definition linit (now : Z) (st : spec_store) : lstate :=
  let off := period <=? 0 in
  {| l_now := now; l_last := now; l_mode := if off then LExit else LWait; l_sys := idle_sys st false;
     l_closed := off; l_starts := []; l_done := []; l_log := []; l_visits := O |}.

Inductive lev :=
| LTick (d : N)
| LCancelEv
| LOp (o : op)
| LStep (timer_first : bool).

Definition with_sys (y : lstate) (s : sys) : lstate :=
  {| l_now := l_now y; l_last := l_last y; l_mode := l_mode y; l_sys := s; l_closed := l_closed y;
     l_starts := l_starts y; l_done := l_done y; l_log := l_log y; l_visits := l_visits y |}.

Definition with_mode (y : lstate) (m : lmode) : lstate :=
  {| l_now := l_now y; l_last := l_last y; l_mode := m; l_sys := l_sys y; l_closed := l_closed y;
     l_starts := l_starts y; l_done := l_done y; l_log := l_log y; l_visits := l_visits y |}.

Definition lexit (y : lstate) : lstate :=
  {| l_now := l_now y; l_last := l_last y; l_mode := LExit; l_sys := l_sys y; l_closed := true;
     l_starts := l_starts y; l_done := l_done y; l_log := l_log y; l_visits := l_visits y |}.

Definition is_done (p : phase) : option bool := match p with PDone b => Some b | _ => None end.
Definition is_idle (p : phase) : bool := match p with PIdle => true | _ => false end.
Definition is_box (p : phase) : bool := match p with PBox _ _ => true | _ => false end.

(** One move of the loop (or of the scan in progress). *)
Definition loop_step (y : lstate) (timer_first : bool) : lstate :=
  match l_mode y with
  | LExit => y
  | LWait =>
      let due := l_last y + minute <=? l_now y in
      let c := s_cancel (l_sys y) in
      if c && (negb due || negb timer_first) then lexit y
      else if due then
        {| l_now := l_now y; l_last := l_now y; l_mode := LScan (l_now y - period);
           l_sys := scan_sys (s_st (l_sys y)) c; l_closed := false;
           l_starts := l_now y :: l_starts y; l_done := l_done y; l_log := l_log y; l_visits := l_visits y |}
      else y
  | LScan cutoff =>
      match is_done (s_phase (l_sys y)) with
      | Some b =>
          {| l_now := l_now y; l_last := l_last y; l_mode := LCheck; l_sys := l_sys y; l_closed := false;
             l_starts := l_starts y; l_done := (l_last y, b) :: l_done y; l_log := l_log y; l_visits := l_visits y |}
      | None =>
          let s' := sc_step cfg cutoff timer_first (l_sys y) in
          {| l_now := l_now y; l_last := l_last y; l_mode := LScan cutoff; l_sys := s'; l_closed := false;
             l_starts := l_starts y; l_done := l_done y;
             l_log := l_log y ++ map (fun e => (e, l_now y)) (skipn (length (s_removed (l_sys y))) (s_removed s'));
             l_visits := if is_idle (s_phase (l_sys y)) && is_box (s_phase s') then S (l_visits y) else l_visits y |}
      end
  | LCheck => if s_cancel (l_sys y) then lexit y else with_mode y LWait
  end.

Definition lev_step (y : lstate) (e : lev) : lstate :=
  match e with
  | LTick d =>
      {| l_now := l_now y + Z.of_N d; l_last := l_last y; l_mode := l_mode y; l_sys := l_sys y; l_closed := l_closed y;
         l_starts := l_starts y; l_done := l_done y; l_log := l_log y; l_visits := l_visits y |}
  | LCancelEv => with_sys y (ev_step cfg 0 (l_sys y) ECancel)
  | LOp o => with_sys y (ev_step cfg 0 (l_sys y) (EOp o))
  | LStep tf => loop_step y tf
  end.

Definition lrun (y : lstate) (evs : list lev) : lstate := fold_left lev_step evs y.

(** The store as other clients alone would have left it. *)
Fixpoint apply_ops (st : spec_store) (evs : list lev) : spec_store :=
  match evs with
  | [] => st
  | LOp o :: r => apply_ops (fst (fst (exec_spec cfg st o))) r
  | _ :: r => apply_ops st r
  end.

(** Run the loop alone until it blocks in its select or has exited (for the runner). *)
Fixpoint settle (fuel : nat) (y : lstate) : lstate :=
  match fuel with
  | O => y
  | S f =>
      match l_mode y with
      | LExit => y
      | LWait => if s_cancel (l_sys y) || (l_last y + minute <=? l_now y) then settle f (loop_step y true) else y
      | _ => settle f (loop_step y false)
      end
  end.

End Loop.

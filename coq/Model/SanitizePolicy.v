(** C18 — token-level executable model of what bluemonday's Policy.sanitize does with the policy
    sanitize.HTML applies (github.com/microcosm-cc/bluemonday sanitize.go: the token loop,
    sanitizeAttrs, validURL's decision, the rel/target/crossorigin additions) and of
    x/net/html's Token.String() rendering.

    Inputs that stay third-party results (supplied by the driver, which runs the real code):
      - the token list the x/net/html tokenizer produced for the document;
      - per attribute, which of the policy's value patterns (regexp) match its value;
      - per href/cite/src attribute, the result of validURL's parsing part (white-space
        preprocessing + net/url.Parse): success, scheme, u.String(), host present.
    Everything else — which elements and attributes survive, the skipping of element content and
    of closing tags, the URL scheme decision, the added rel/target attributes, the rendering with
    attribute values and text escaped — is modelled here over the policy tables of
    Gen/SanitizePolicy.v (read from the real policy object on every run).
    Policy features the policy does not use (data attributes, comments, element/style matchers,
    sandbox, URL rewriters) are refused by the translator, not modelled. No proofs here. *)
From IV Require Import Base.Bytes Gen.SanitizeConsts Gen.SanitizePolicy Model.Sanitize.

Record urlinfo := { u_ok : bool; u_scheme : str; u_str : str; u_host : bool }.
Record hattr := { a_key : str; a_val : str; a_match : list bool; a_url : option urlinfo }.
Inductive hkind := KText | KStart | KEnd | KSelf | KComment | KDoctype.
Record htoken := { t_kind : hkind; t_data : str; t_attrs : list hattr }.

(** emitted tokens *)
Inductive otoken :=
| OText (d : str)                              (* rendered escaped *)
| ORaw (s : str)                               (* written as is (spaces; unsafe raw text) *)
| OStart (n : str) (attrs : list (str * str))
| OSelf (n : str) (attrs : list (str * str))
| OEnd (n : str) (attrs : list (str * str)).

Fixpoint assoc_s {A} (k : str) (l : list (str * A)) : option A :=
  match l with
  | [] => None
  | (k', v) :: l' => if str_eqb k' k then Some v else assoc_s k l'
  end.

Fixpoint contains (p s : str) : bool :=
  has_prefix p s || match s with [] => false | _ :: r => contains p r end.

Definition s_a : str := [97].
Definition s_area : str := [97;114;101;97].
Definition s_base : str := [98;97;115;101].
Definition s_link : str := [108;105;110;107].
Definition s_blockquote : str := [98;108;111;99;107;113;117;111;116;101].
Definition s_del : str := [100;101;108].
Definition s_ins : str := [105;110;115].
Definition s_q : str := [113].
Definition s_audio : str := [97;117;100;105;111].
Definition s_embed : str := [101;109;98;101;100].
Definition s_iframe : str := [105;102;114;97;109;101].
Definition s_img : str := [105;109;103].
Definition s_input : str := [105;110;112;117;116].
Definition s_script : str := [115;99;114;105;112;116].
Definition s_source : str := [115;111;117;114;99;101].
Definition s_track : str := [116;114;97;99;107].
Definition s_video : str := [118;105;100;101;111].
Definition s_style : str := [115;116;121;108;101].
Definition s_href : str := [104;114;101;102].
Definition s_cite : str := [99;105;116;101].
Definition s_src : str := [115;114;99].
Definition s_rel : str := [114;101;108].
Definition s_target : str := [116;97;114;103;101;116].
Definition s_blank : str := [95;98;108;97;110;107].
Definition s_nofollow : str := [110;111;102;111;108;108;111;119].
Definition s_noreferrer : str := [110;111;114;101;102;101;114;114;101;114].
Definition s_noopener : str := [110;111;111;112;101;110;101;114].
Definition s_crossorigin : str := [99;114;111;115;115;111;114;105;103;105;110].
Definition s_anonymous : str := [97;110;111;110;121;109;111;117;115].

Definition href_els : list str := [s_a; s_area; s_base; s_link].
Definition cite_els : list str := [s_blockquote; s_del; s_ins; s_q].
Definition src_els : list str := [s_audio; s_embed; s_iframe; s_img; s_script; s_source; s_track; s_video].
(** linkable(): note that it lists input but not source *)
Definition linkable_els : list str :=
  href_els ++ cite_els ++ [s_audio; s_embed; s_iframe; s_img; s_input; s_script; s_track; s_video].
Definition crossorigin_els : list str := [s_audio; s_img; s_link; s_script; s_video].

(* ------------------------------------------------------------------ sanitizeAttrs *)

Definition pol_ok (m : list bool) (ps : list (option nat)) : bool :=
  existsb (fun p => match p with None => true | Some i => nth i m false end) ps.

Definition attr_allowed (aps : list (str * list (option nat))) (a : hattr) : bool :=
  (match assoc_s (a_key a) aps with Some ps => pol_ok (a_match a) ps | None => false end)
  || (match assoc_s (a_key a) bm_global_attrs with Some ps => pol_ok (a_match a) ps | None => false end).

(** validURL's decision, given the parsing part's result *)
Definition valid_url (a : hattr) : option str :=
  if bm_requireParseableURLs then
    match a_url a with
    | None => None
    | Some u =>
        if u_ok u then
          if is_nil (u_scheme u) then
            if bm_allowRelativeURLs && negb (is_nil (u_str u)) then Some (u_str u) else None
          else if mem_str (u_scheme u) bm_url_schemes then Some (u_str u) else None
        else None
    end
  else Some (a_val a).

(** the attribute key validURL is applied to for this element, if any *)
Definition url_key (el : str) : option str :=
  if mem_str el href_els then Some s_href
  else if mem_str el cite_els then Some s_cite
  else if mem_str el src_els then Some s_src
  else None.

Definition set_val (a : hattr) (v : str) : hattr :=
  {| a_key := a_key a; a_val := v; a_match := a_match a; a_url := a_url a |}.

Definition check_urls (el : str) (attrs : list hattr) : list hattr :=
  if bm_requireParseableURLs then
    match url_key el with
    | None => attrs
    | Some k =>
        flat_map (fun a => if str_eqb (a_key a) k
                           then match valid_url a with Some v => [set_val a v] | None => [] end
                           else [a]) attrs
    end
  else attrs.

Definition mk_attr (k v : str) : hattr := {| a_key := k; a_val := v; a_match := []; a_url := None |}.

Definition add_word (cond : bool) (w v : str) : str :=
  if cond && negb (contains w v) then v ++ [32] ++ w else v.

(** the rel / target additions of sanitizeAttrs for a, area, base, link *)
Definition rel_target (el : str) (attrs : list hattr) : list hattr :=
  if (bm_requireNoFollow || bm_requireNoFollowFullyQualifiedLinks || bm_requireNoReferrer
      || bm_requireNoReferrerFullyQualifiedLinks || bm_addTargetBlankToFullyQualifiedLinks)
     && negb (is_nil attrs) && mem_str el href_els then
    let hrefs := filter (fun a => str_eqb (a_key a) s_href) attrs in
    if is_nil hrefs then attrs else
    let external := existsb (fun a => match a_url a with Some u => u_host u | None => false end) hrefs in
    let addNoFollow := bm_requireNoFollow || (external && bm_requireNoFollowFullyQualifiedLinks) in
    let addNoReferrer := bm_requireNoReferrer || (external && bm_requireNoReferrerFullyQualifiedLinks) in
    let addTargetBlank := external && bm_addTargetBlankToFullyQualifiedLinks in
    let is_a := str_eqb el s_a in
    (* first pass: existing rel / target attributes *)
    let relFound := (addNoFollow || addNoReferrer) && existsb (fun a => str_eqb (a_key a) s_rel) attrs in
    let blankBefore := is_a && existsb (fun a => str_eqb (a_key a) s_target && str_eqb (a_val a) s_blank) attrs in
    let targetSeen := is_a && existsb (fun a => str_eqb (a_key a) s_target) attrs in
    let pass1 :=
      map (fun a =>
             if str_eqb (a_key a) s_rel && (addNoFollow || addNoReferrer)
             then set_val a (add_word addNoReferrer s_noreferrer (add_word addNoFollow s_nofollow (a_val a)))
             else a) attrs in
    (* target: the first target attribute that is not _blank is overwritten when a blank target must be added
       and none was seen before it; modelled for the flag as configured by folding left to right *)
    let pass1t :=
      snd (fold_left (fun (st : bool * list hattr) a =>
                        let '(found, acc) := st in
                        if is_a && str_eqb (a_key a) s_target then
                          let found1 := found || str_eqb (a_val a) s_blank in
                          if addTargetBlank && negb found1 then (true, acc ++ [set_val a s_blank])
                          else (found1, acc ++ [a])
                        else (found, acc ++ [a])) pass1 (false, [])) in
    let targetBlankFound1 := blankBefore || (addTargetBlank && targetSeen) in
    let with_rel :=
      if (addNoFollow || addNoReferrer) && negb relFound then
        pass1t ++ [mk_attr s_rel ((if addNoFollow then s_nofollow else [])
                                  ++ (if addNoFollow && addNoReferrer then [32] else [])
                                  ++ (if addNoReferrer then s_noreferrer else []))]
      else pass1t in
    let with_target :=
      if is_a && addTargetBlank && negb targetBlankFound1 then with_rel ++ [mk_attr s_target s_blank] else with_rel in
    let targetBlankFound := targetBlankFound1 || (is_a && addTargetBlank) in
    if targetBlankFound then
      if existsb (fun a => str_eqb (a_key a) s_rel) with_target then
        map (fun a => if str_eqb (a_key a) s_rel && negb (contains s_noopener (a_val a))
                      then set_val a (a_val a ++ [32] ++ s_noopener) else a) with_target
      else with_target ++ [mk_attr s_rel s_noopener]
    else with_target
  else attrs.

Definition cross_origin (el : str) (attrs : list hattr) : list hattr :=
  if bm_requireCrossOriginAnonymous && negb (is_nil attrs) && mem_str el crossorigin_els then
    if existsb (fun a => str_eqb (a_key a) s_crossorigin) attrs then
      map (fun a => if str_eqb (a_key a) s_crossorigin then set_val a s_anonymous else a) attrs
    else attrs ++ [mk_attr s_crossorigin s_anonymous]
  else attrs.

Definition sanitize_attrs (el : str) (attrs : list hattr) (aps : list (str * list (option nat))) : list hattr :=
  let clean := filter (attr_allowed aps) attrs in
  if is_nil clean then []
  else
    let linked :=
      if mem_str el linkable_els then rel_target el (check_urls el clean) else clean in
    cross_origin el linked.

Definition out_attrs (attrs : list hattr) : list (str * str) := map (fun a => (a_key a, a_val a)) attrs.

(* --------------------------------------------------------------------- the token loop *)

Record bstate := {
  skip_content : bool;
  skip_count : Z;
  skip_closing : bool;
  closing_stack : list str;      (* top at the head *)
  recent : str                   (* mostRecentlyStartedToken, as the ASCII lower-casing of the name *)
}.

Definition st0 : bstate :=
  {| skip_content := false; skip_count := 0%Z; skip_closing := false; closing_stack := []; recent := [] |}.

(** normaliseElementName(x) == `script` / `style`, and equality of two normalised names, are
    equalities of the ASCII lower-casings (QuoteToASCII escapes everything else injectively) *)
Definition unsafe_name (n : str) : bool := str_eqb (lower n) s_script || str_eqb (lower n) s_style.

Definition spaces : list otoken := if bm_addSpaces then [ORaw [32]] else [].

Definition set_recent (s : bstate) (r : str) : bstate :=
  {| skip_content := skip_content s; skip_count := skip_count s; skip_closing := skip_closing s;
     closing_stack := closing_stack s; recent := r |}.

Definition bm_step (s : bstate) (t : htoken) : bstate * list otoken :=
  match t_kind t with
  | KDoctype => (s, [])
  | KComment => (s, [])          (* allowComments is refused by the translator *)
  | KStart =>
      let s1 := set_recent s (lower (t_data t)) in
      if unsafe_name (t_data t) && negb bm_allowUnsafe then (s1, [])
      else match assoc_s (t_data t) bm_el_attrs with
           | None =>
               if mem_str (t_data t) bm_skip_content then
                 ({| skip_content := true; skip_count := (skip_count s1 + 1)%Z; skip_closing := skip_closing s1;
                     closing_stack := closing_stack s1; recent := recent s1 |}, spaces)
               else (s1, spaces)
           | Some aps =>
               let attrs := if is_nil (t_attrs t) then [] else sanitize_attrs (t_data t) (t_attrs t) aps in
               if is_nil attrs && negb (mem_str (t_data t) bm_no_attrs_ok) then
                 ({| skip_content := skip_content s1; skip_count := skip_count s1; skip_closing := true;
                     closing_stack := t_data t :: closing_stack s1; recent := recent s1 |}, spaces)
               else (s1, if skip_content s1 then [] else [OStart (t_data t) (out_attrs attrs)])
           end
  | KEnd =>
      let s1 := if str_eqb (recent s) (lower (t_data t)) then set_recent s [] else s in
      if unsafe_name (t_data t) && negb bm_allowUnsafe then (s1, [])
      else if skip_closing s1 && match closing_stack s1 with top :: _ => str_eqb top (t_data t) | [] => false end then
        let st := tl (closing_stack s1) in
        ({| skip_content := skip_content s1; skip_count := skip_count s1; skip_closing := negb (is_nil st);
            closing_stack := st; recent := recent s1 |}, spaces)
      else match assoc_s (t_data t) bm_el_attrs with
           | None =>
               if mem_str (t_data t) bm_skip_content then
                 let c := (skip_count s1 - 1)%Z in
                 ({| skip_content := if (c =? 0)%Z then false else skip_content s1; skip_count := c;
                     skip_closing := skip_closing s1; closing_stack := closing_stack s1; recent := recent s1 |}, spaces)
               else (s1, spaces)
           | Some _ =>
               (s1, if skip_content s1 then [] else [OEnd (t_data t) (out_attrs (t_attrs t))])
           end
  | KSelf =>
      if unsafe_name (t_data t) && negb bm_allowUnsafe then (s, [])
      else match assoc_s (t_data t) bm_el_attrs with
           | None => (s, spaces)
           | Some aps =>
               let attrs := if is_nil (t_attrs t) then [] else sanitize_attrs (t_data t) (t_attrs t) aps in
               if is_nil attrs && negb (mem_str (t_data t) bm_no_attrs_ok) then (s, spaces)
               else (s, if skip_content s then [] else [OSelf (t_data t) (out_attrs attrs)])
           end
  | KText =>
      if skip_content s then (s, [])
      else if str_eqb (recent s) s_script || str_eqb (recent s) s_style then
        (s, if bm_allowUnsafe then [ORaw (t_data t)] else [])
      else (s, [OText (t_data t)])
  end.

Fixpoint bm_run (s : bstate) (toks : list htoken) : list otoken :=
  match toks with
  | [] => []
  | t :: r => snd (bm_step s t) ++ bm_run (fst (bm_step s t)) r
  end.

Definition bm_tokens (toks : list htoken) : list otoken := bm_run st0 toks.

(* ------------------------------------------------------------- Token.String() rendering *)

Definition render_attr (kv : str * str) : str :=
  [32] ++ fst kv ++ [61; 34] ++ escape esc_x (snd kv) ++ [34].

Definition tag_string (n : str) (attrs : list (str * str)) : str := n ++ flat_map render_attr attrs.

Definition render_otoken (o : otoken) : str :=
  match o with
  | OText d => escape esc_x d
  | ORaw s => s
  | OStart n attrs => [60] ++ tag_string n attrs ++ [62]
  | OSelf n attrs => [60] ++ tag_string n attrs ++ [47; 62]
  | OEnd n attrs => [60; 47] ++ tag_string n attrs ++ [62]
  end.

Definition render_tokens (os : list otoken) : str := flat_map render_otoken os.

(** strings.TrimSpace(s) == "" *)
Fixpoint space_len (tbl : list str) (s : str) : option nat :=
  match tbl with
  | [] => None
  | e :: tbl' => match strip_prefix e s with Some _ => Some (length e) | None => space_len tbl' s end
  end.
Fixpoint blank_aux (skip : nat) (s : str) : bool :=
  match s with
  | [] => true
  | _ :: r =>
      match skip with
      | S k => blank_aux k r
      | O => match space_len unicode_spaces s with Some n => blank_aux (pred n) r | None => false end
      end
  end.
Definition blank (s : str) : bool := blank_aux O s.

(** Policy.Sanitize on a document [doc] whose tokens are [toks] *)
Definition bm_sanitize (doc : str) (toks : list htoken) : str :=
  if blank doc then doc else render_tokens (bm_tokens toks).

(** sanitize.HTML: the start-tag rewriter, then the policy; [toks2] are the tokens of the
    rewriter's output *)
Definition html_model (items : list item) (toks2 : list htoken) : str :=
  bm_sanitize (style_tag_filter items) toks2.

(** H-tok for style values as a computable check (evaluated by the oracle on every case): every
    style attribute the policy's tokenizer reports on the rewritten document carries a value
    sanitizeStyle produced for some style attribute of the original document *)
Definition style_vals_of_items (items : list item) : list str :=
  flat_map (fun it => match it with
                      | Raw _ => []
                      | Tag _ attrs _ =>
                          flat_map (fun a => match a with
                                             | Attr k _ toks => if str_eqb (go_lower k) style_key then [sanitize_style toks] else []
                                             end) attrs
                      end) items.

Definition h_tok_style_check (items : list item) (toks2 : list htoken) : bool :=
  forallb (fun t => forallb (fun a => negb (str_eqb (a_key a) s_style) || mem_str (a_val a) (style_vals_of_items items))
                            (t_attrs t)) toks2.

(* ----------------------------------------------------------------------------- SPEC *)

(** the scheme a browser sees in an attribute value used as a URL (WHATWG URL parsing, the part
    that matters): leading C0 control/space bytes are stripped, TAB/LF/CR are removed anywhere,
    then ALPHA (ALPHA / DIGIT / + / - / .)* followed by a colon is the scheme (lower-cased);
    anything else is a relative reference (no scheme) *)
Definition strip_url (v : str) : str :=
  let v1 := filter (fun c => negb ((c =? 9) || (c =? 10) || (c =? 13))) v in
  (fix drop (s : str) : str := match s with c :: r => if c <=? 32 then drop r else s | [] => [] end) v1.

Definition scheme_char (c : N) : bool := is_alpha c || is_digit c || (c =? 43) || (c =? 45) || (c =? 46).

Fixpoint scheme_scan (acc : str) (s : str) : option str :=
  match s with
  | [] => None
  | c :: r => if c =? 58 then Some (rev acc)
              else if scheme_char c then scheme_scan (lower_b c :: acc) r else None
  end.

Definition browser_scheme (v : str) : option str :=
  match strip_url v with
  | c :: r => if is_alpha c then scheme_scan [lower_b c] r else None
  | [] => None
  end.

(** SPEC, fixed here and not taken from the policy: the schemes a URL attribute may show a browser.
    None of them runs script or renders attacker-supplied markup (no javascript, vbscript, data,
    blob, file, about ...). A policy that allows a scheme outside this list fails policy_tables_ok. *)
Definition safe_schemes : list str :=
  [[104;116;116;112]; [104;116;116;112;115]; [109;97;105;108;116;111]; [102;116;112]; [102;116;112;115];
   [116;101;108]; [115;109;115]; [99;105;100]; [120;109;112;112]; [105;114;99]; [105;114;99;115];
   [110;101;119;115]; [110;110;116;112]; [103;101;111]; [115;105;112]; [115;105;112;115]; [119;101;98;99;97;108]].

Definition scheme_allowed (v : str) : bool :=
  match browser_scheme v with None => true | Some s => mem_str s safe_schemes end.

(** what is assumed of net/url (checked by the oracle on every supplied result): the string form
    of a successfully parsed URL shows a browser the scheme url.Parse reported *)
Definition urlinfo_sound (u : urlinfo) : bool :=
  negb (u_ok u) ||
  match browser_scheme (u_str u) with
  | None => is_nil (u_scheme u)
  | Some s => str_eqb s (u_scheme u)
  end.

(** attribute names that carry a URL a browser may navigate to or load *)
Definition url_attr_names : list str :=
  [s_href; s_src; s_cite;
   [97;99;116;105;111;110]; [102;111;114;109;97;99;116;105;111;110]; [98;97;99;107;103;114;111;117;110;100];
   [112;111;115;116;101;114]; [100;97;116;97]; [115;114;99;115;101;116]; [120;108;105;110;107;58;104;114;101;102];
   [108;111;110;103;100;101;115;99]; [109;97;110;105;102;101;115;116]; [99;111;100;101;98;97;115;101];
   [112;105;110;103]; [105;99;111;110]; [108;111;119;115;114;99]; [100;121;110;115;114;99]; [99;108;97;115;115;105;100];
   [112;114;111;102;105;108;101]; [120;109;108;58;98;97;115;101]].

(** validURL is only reached for linkable() elements *)
Definition checked_url_key (el : str) : option str := if mem_str el linkable_els then url_key el else None.

Definition starts_on (k : str) : bool := has_prefix [111; 110] (lower k).

(** one emitted start / self-closing tag is inert *)
Definition attr_inert (el : str) (kv : str * str) : bool :=
  negb (starts_on (fst kv))
  && (negb (mem_str (fst kv) url_attr_names)
      || (match checked_url_key el with Some k => str_eqb k (fst kv) | None => false end && scheme_allowed (snd kv))).

Definition forbidden_elements : list str :=
  [s_script; s_style; s_iframe; [102;114;97;109;101]; [102;114;97;109;101;115;101;116]; [111;98;106;101;99;116];
   s_embed; [97;112;112;108;101;116]; [102;111;114;109]; s_input; [98;117;116;116;111;110];
   [116;101;120;116;97;114;101;97]; [115;101;108;101;99;116]; s_base; s_link; [109;101;116;97]].

Definition tag_inert (n : str) (attrs : list (str * str)) : bool :=
  negb (is_nil (match assoc_s n bm_el_attrs with Some _ => [n] | None => [] end))
  && negb (mem_str n forbidden_elements)
  && forallb (attr_inert n) attrs.

(** End tags: bluemonday writes token.String() of an end tag it keeps, attributes included and
    unfiltered; the x/net/html tokenizer never reports attributes on end tags and browsers ignore
    them, so the model passes them through (faithful) and the spec does not constrain them: the
    inertness claim is about start and self-closing tags. *)
Definition otoken_inert (o : otoken) : bool :=
  match o with
  | OStart n attrs | OSelf n attrs => tag_inert n attrs
  | OEnd _ _ | OText _ => true
  | ORaw s => forallb (fun c => c =? 32) s
  end.

(** C09 — the file store under interleaving (pkg/storage/file/fstore.go, mbox.go; lock.go).

    Every operation takes the bucket lock (HashLock: first 12 bits of the mailbox hash = the
    level-1 directory) before it reads the index and keeps it to the end, so an operation is
    atomic with respect to every other operation of the same bucket.  It is NOT atomic with
    respect to VisitMailboxes, which reads the three directory levels without any lock and
    takes the bucket read lock only around each mailbox's index read.  Scheduling points are
    therefore the file-system mutations a walk can observe (mkdir, index rename, index
    remove, RemoveAll of the mailbox directory, rmdir of the two parent levels) and the
    walk's directory reads.  The per-mailbox message cap is not part of this model (its
    sequential behaviour is C08's, its crash behaviour C11's).
    No proofs in this file. *)
From IV Require Import Model.Conc.

Definition geo := list (mbname * (N * N)).        (* mailbox -> (level-1 key = bucket, level-2 key) *)

Inductive fpc :=
| FStart (o : op)
| FAddMkdir (mb : mbname) (tag size : N)                     (* file.dir.mkdir, holds the bucket lock *)
| FAddRename (mb : mbname) (tag size : N)                    (* file.index.rename *)
| FSeenRename (mb : mbname) (id : N)                         (* file.index.rename *)
| FRemoveRename (mb : mbname) (id : N)                       (* file.index.rename *)
| FIdxRemove (mb : mbname) (o : op)                          (* file.index.remove *)
| FRemoveAll (mb : mbname)                                   (* file.dir.removeall *)
| FRmdir2 (mb : mbname)                                      (* file.dir.rmdir (level 2) *)
| FRmdir1 (mb : mbname)                                      (* file.dir.rmdir (level 1) *)
| FVisit1                                                    (* file.visit.l1 *)
| FVisit2 (n1 : N) (r1 : list N) (acc : list (mbname * view))                       (* file.visit.l2 *)
| FVisit3 (n2 : N) (r2 r1 : list N) (acc : list (mbname * view))                    (* file.visit.l3 *)
| FVisitMb (mb : mbname) (r3 : list mbname) (r2 r1 : list N) (acc : list (mbname * view))  (* file.visit.mbox *)
| FDone (r : res).

Definition flogent := (tid * op * res)%type.

Record fsys := mkF {
  f_geo : geo;
  f_l1 : list N;                      (* existing level-1 directories *)
  f_l2 : list N;                      (* existing level-2 directories *)
  f_mbd : list mbname;                (* existing mailbox directories *)
  f_idx : list (mbname * list msg);   (* existing index files and what they list *)
  f_next : N;                         (* id generator (only freshness matters) *)
  f_locks : list (N * tid);           (* bucket -> writer parked inside *)
  f_thr : list fpc;
  f_log : list flogent
}.

Definition k1_of (g : geo) (mb : mbname) : N := match aget mb g with Some (a, _) => a | None => 0 end.
Definition k2_of (g : geo) (mb : mbname) : N := match aget mb g with Some (_, b) => b | None => 0 end.
Fixpoint k1_of_k2 (g : geo) (n2 : N) : N :=
  match g with [] => 0 | (_, (a, b)) :: g' => if b =? n2 then a else k1_of_k2 g' n2 end.

Definition memN (x : N) (l : list N) : bool := existsb (N.eqb x) l.
Definition addN (x : N) (l : list N) : list N := if memN x l then l else l ++ [x].
Definition delN (x : N) (l : list N) : list N := filter (fun y => negb (y =? x)) l.
Definition adel {V} (k : N) (l : list (N * V)) : list (N * V) :=
  filter (fun kv => negb (fst kv =? k)) l.

Definition fwith (s : fsys) l1 l2 mbd idx :=
  mkF (f_geo s) l1 l2 mbd idx (f_next s) (f_locks s) (f_thr s) (f_log s).
Definition fsetpc (t : tid) (p : fpc) (s : fsys) : fsys :=
  mkF (f_geo s) (f_l1 s) (f_l2 s) (f_mbd s) (f_idx s) (f_next s) (f_locks s) (set_nth t p (f_thr s)) (f_log s).
Definition faddlog (e : flogent) (s : fsys) : fsys :=
  mkF (f_geo s) (f_l1 s) (f_l2 s) (f_mbd s) (f_idx s) (f_next s) (f_locks s) (f_thr s) (f_log s ++ [e]).
Definition flock (mb : mbname) (t : tid) (s : fsys) : fsys :=
  mkF (f_geo s) (f_l1 s) (f_l2 s) (f_mbd s) (f_idx s) (f_next s) (aset (k1_of (f_geo s) mb) t (f_locks s)) (f_thr s) (f_log s).
Definition funlock (mb : mbname) (s : fsys) : fsys :=
  mkF (f_geo s) (f_l1 s) (f_l2 s) (f_mbd s) (f_idx s) (f_next s) (adel (k1_of (f_geo s) mb) (f_locks s)) (f_thr s) (f_log s).
Definition fbump (s : fsys) : fsys :=
  mkF (f_geo s) (f_l1 s) (f_l2 s) (f_mbd s) (f_idx s) (f_next s + 1) (f_locks s) (f_thr s) (f_log s).

Definition flocked (mb : mbname) (s : fsys) : bool :=
  match aget (k1_of (f_geo s) mb) (f_locks s) with Some _ => true | None => false end.
(** readIndex: a missing index file is an empty mailbox. *)
Definition fmsgs (mb : mbname) (s : fsys) : list msg :=
  match aget mb (f_idx s) with Some l => l | None => [] end.
Definition fbox (mb : mbname) (s : fsys) : box := mkBox 0 0 (fmsgs mb s).
Definition set_idx (mb : mbname) (l : list msg) (s : fsys) : fsys :=
  fwith s (f_l1 s) (f_l2 s) (f_mbd s) (aset mb l (f_idx s)).
Definition has_dir (mb : mbname) (s : fsys) : bool := memN mb (f_mbd s).

(** Unlock and finish with result [r]; [o] is logged as committed unless [logit] is false. *)
Definition ffinish (t : tid) (mb : mbname) (r : res) (s : fsys) : fsys :=
  fsetpc t (FDone r) (funlock mb s).

(** After RemoveAll of the mailbox directory: removeDirIfEmpty on the parents. *)
Definition l2_empty (mb : mbname) (s : fsys) : bool :=
  negb (existsb (fun m => k2_of (f_geo s) m =? k2_of (f_geo s) mb) (f_mbd s)).
Definition l1_empty (mb : mbname) (s : fsys) : bool :=
  negb (existsb (fun n2 => k1_of_k2 (f_geo s) n2 =? k1_of (f_geo s) mb) (f_l2 s)).

Definition visit_next1 (t : tid) (c : nat) (r1 : list N) (acc : list (mbname * view)) (s : fsys) : fsys :=
  match pick c r1 with
  | None => fsetpc t (FDone (RVisit acc)) s
  | Some (n1, r1') => fsetpc t (FVisit2 n1 r1' acc) s
  end.
Definition visit_next2 (t : tid) (c : nat) (r2 r1 : list N) acc (s : fsys) : fsys :=
  match pick c r2 with
  | None => visit_next1 t c r1 acc s
  | Some (n2, r2') => fsetpc t (FVisit3 n2 r2' r1 acc) s
  end.
Definition visit_next3 (t : tid) (c : nat) (r3 : list mbname) (r2 r1 : list N) acc (s : fsys) : fsys :=
  match pick c r3 with
  | None => visit_next2 t c r2 r1 acc s
  | Some (mb, r3') => fsetpc t (FVisitMb mb r3' r2 r1 acc) s
  end.

Definition fstep (s : fsys) (t : tid) (c : nat) : sres fsys :=
  match nth_error (f_thr s) t with
  | None => SNoop
  | Some p =>
    match p with
    | FDone _ => SNoop
    | FStart o =>
        match o with
        | OAdd mb tag size =>
            if flocked mb s then SBlocked else
            if has_dir mb s then SOk (fsetpc t (FAddRename mb tag size) (flock mb t s))
            else SOk (fsetpc t (FAddMkdir mb tag size) (flock mb t s))
        | OGet mb id =>
            if flocked mb s then SBlocked else
            let r := box_get id (fbox mb s) in SOk (faddlog (t, o, r) (fsetpc t (FDone r) s))
        | OLatest mb =>
            if flocked mb s then SBlocked else
            let r := box_latest (fbox mb s) in SOk (faddlog (t, o, r) (fsetpc t (FDone r) s))
        | OList mb =>
            if flocked mb s then SBlocked else
            let r := box_list (fbox mb s) in SOk (faddlog (t, o, r) (fsetpc t (FDone r) s))
        | OSeen mb id =>
            if flocked mb s then SBlocked else
            match find_msg id (fmsgs mb s) with
            | None => SOk (faddlog (t, o, RNotExist) (fsetpc t (FDone RNotExist) s))
            | Some m => if m_seen m then SOk (faddlog (t, o, ROk) (fsetpc t (FDone ROk) s))
                        else SOk (fsetpc t (FSeenRename mb id) (flock mb t s))
            end
        | ORemove mb id =>
            if flocked mb s then SBlocked else
            match find_msg id (fmsgs mb s) with
            | None => SOk (faddlog (t, o, RNotExist) (fsetpc t (FDone RNotExist) s))
            | Some m => match del_msg id (fmsgs mb s) with
                        | [] => SOk (fsetpc t (FIdxRemove mb o) (flock mb t s))
                        | _ => SOk (fsetpc t (FRemoveRename mb id) (flock mb t s))
                        end
            end
        | OPurge mb =>
            if flocked mb s then SBlocked else SOk (fsetpc t (FIdxRemove mb o) (flock mb t s))
        | OVisit => SOk (fsetpc t FVisit1 s)
        end
    | FAddMkdir mb tag size =>
        let g := f_geo s in
        SOk (fsetpc t (FAddRename mb tag size)
               (fwith s (addN (k1_of g mb) (f_l1 s)) (addN (k2_of g mb) (f_l2 s)) (addN mb (f_mbd s)) (f_idx s)))
    | FAddRename mb tag size =>
        if has_dir mb s then
          let id := f_next s + 1 in
          let l := fmsgs mb s ++ [mkMsg tag id size false] in
          SOk (faddlog (t, OAdd mb tag size, RId id) (ffinish t mb (RId id) (fbump (set_idx mb l s))))
        else SOk (ffinish t mb RFail s)                                   (* os.Create/Rename: ENOENT *)
    | FSeenRename mb id =>
        if has_dir mb s then
          SOk (faddlog (t, OSeen mb id, ROk) (ffinish t mb ROk (set_idx mb (mark_seen id (fmsgs mb s)) s)))
        else SOk (ffinish t mb RFail s)
    | FRemoveRename mb id =>
        if has_dir mb s then
          SOk (faddlog (t, ORemove mb id, ROk) (ffinish t mb ROk (set_idx mb (del_msg id (fmsgs mb s)) s)))
        else SOk (ffinish t mb RFail s)
    | FIdxRemove mb o =>
        SOk (faddlog (t, o, ROk) (fsetpc t (FRemoveAll mb) (fwith s (f_l1 s) (f_l2 s) (f_mbd s) (adel mb (f_idx s)))))
    | FRemoveAll mb =>
        let s1 := fwith s (f_l1 s) (f_l2 s) (delN mb (f_mbd s)) (f_idx s) in
        if memN (k2_of (f_geo s) mb) (f_l2 s1) && l2_empty mb s1
        then SOk (fsetpc t (FRmdir2 mb) s1)
        else SOk (ffinish t mb ROk s1)
    | FRmdir2 mb =>
        (* os.Remove refuses a directory that is no longer empty: removeDirIfEmpty then returns false *)
        if l2_empty mb s then
          let s1 := fwith s (f_l1 s) (delN (k2_of (f_geo s) mb) (f_l2 s)) (f_mbd s) (f_idx s) in
          if memN (k1_of (f_geo s) mb) (f_l1 s1) && l1_empty mb s1
          then SOk (fsetpc t (FRmdir1 mb) s1)
          else SOk (ffinish t mb ROk s1)
        else SOk (ffinish t mb ROk s)
    | FRmdir1 mb =>
        if l1_empty mb s
        then SOk (ffinish t mb ROk (fwith s (delN (k1_of (f_geo s) mb) (f_l1 s)) (f_l2 s) (f_mbd s) (f_idx s)))
        else SOk (ffinish t mb ROk s)
    | FVisit1 => SOk (visit_next1 t c (f_l1 s) [] s)
    | FVisit2 n1 r1 acc =>
        if memN n1 (f_l1 s)
        then SOk (visit_next2 t c (filter (fun n2 => k1_of_k2 (f_geo s) n2 =? n1) (f_l2 s)) r1 acc s)
        else SOk (visit_next1 t c r1 acc s)                       (* ENOENT: tolerated, next directory *)
    | FVisit3 n2 r2 r1 acc =>
        if memN n2 (f_l2 s)
        then SOk (visit_next3 t c (filter (fun m => k2_of (f_geo s) m =? n2) (f_mbd s)) r2 r1 acc s)
        else SOk (visit_next2 t c r2 r1 acc s)
    | FVisitMb mb r3 r2 r1 acc =>
        if flocked mb s then SBlocked else
        let v := view_of (fmsgs mb s) in
        SOk (visit_next3 t c r3 r2 r1 (acc ++ [(mb, v)]) (faddlog (t, OList mb, RList v) s))
    end
  end.

Inductive foutcome := FFin (s : fsys) | FBlockedAt (n : nat) (s : fsys).

Fixpoint frun_from (n : nat) (s : fsys) (sched : list (tid * nat)) : foutcome :=
  match sched with
  | [] => FFin s
  | (t, c) :: rest =>
      match fstep s t c with
      | SOk s' => frun_from (S n) s' rest
      | SNoop => frun_from (S n) s rest
      | _ => FBlockedAt n s
      end
  end.
Definition frun := frun_from 0.

Definition finit (g : geo) (ops : list op) : fsys := mkF g [] [] [] [] 0 [] (map FStart ops) [].
Definition fwith_ops (s : fsys) (ops : list op) : fsys :=
  mkF (f_geo s) (f_l1 s) (f_l2 s) (f_mbd s) (f_idx s) (f_next s) (f_locks s) (map FStart ops) [].

Definition fthr_done (p : fpc) : bool := match p with FDone _ => true | _ => false end.
Definition fall_done (s : fsys) : bool := forallb fthr_done (f_thr s).
Definition fenabled (s : fsys) (t : tid) : bool := match fstep s t 0 with SOk _ => true | _ => false end.
Definition fresults (s : fsys) : list (option res) :=
  map (fun p => match p with FDone r => Some r | _ => None end) (f_thr s).

(** Sequential preparation of the initial state: one thread run to completion. *)
Fixpoint fdrive (fuel : nat) (s : fsys) (t : tid) : option fsys :=
  match fuel with
  | O => None
  | S f => match fstep s t 0 with SOk s' => fdrive f s' t | SNoop => Some s | _ => None end
  end.

(** Sequential specification of the file store: the operation run alone, atomically. State: what
    each mailbox lists (a missing index is an empty mailbox) and the id generator. *)
Definition fspec := (list (mbname * list msg) * N)%type.
Definition smsgs (mb : mbname) (S : fspec) : list msg := match aget mb (fst S) with Some l => l | None => [] end.

Definition fseq_exec (S : fspec) (o : op) : fspec * res :=
  match o with
  | OAdd mb tag size =>
      let id := snd S + 1 in
      ((aset mb (smsgs mb S ++ [mkMsg tag id size false]) (fst S), id), RId id)
  | OGet mb id => (S, box_get id (mkBox 0 0 (smsgs mb S)))
  | OLatest mb => (S, box_latest (mkBox 0 0 (smsgs mb S)))
  | OList mb => (S, box_list (mkBox 0 0 (smsgs mb S)))
  | OSeen mb id =>
      match find_msg id (smsgs mb S) with
      | Some _ => ((aset mb (mark_seen id (smsgs mb S)) (fst S), snd S), ROk)
      | None => (S, RNotExist)
      end
  | ORemove mb id =>
      match find_msg id (smsgs mb S) with
      | Some _ => ((aset mb (del_msg id (smsgs mb S)) (fst S), snd S), ROk)
      | None => (S, RNotExist)
      end
  | OPurge mb => ((aset mb [] (fst S), snd S), ROk)
  | OVisit => (S, RVisit (map (fun kl => (fst kl, view_of (snd kl))) (filter (fun kl => negb (match snd kl with [] => true | _ => false end)) (fst S))))
  end.

Fixpoint fseq_run (S : fspec) (l : list op) : fspec * list res :=
  match l with
  | [] => (S, [])
  | o :: l' => let '(S1, r) := fseq_exec S o in
               let '(S2, rs) := fseq_run S1 l' in (S2, r :: rs)
  end.

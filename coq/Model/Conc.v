(** C09 — concurrency model, shared part: operations, results, the per-mailbox sequential
    functions both stores' atomic sections are built from, and the sequential specification
    ("what the operations do when nothing else runs").  No proofs in this file. *)
From Coq Require Export List NArith ZArith Bool Arith.
Export ListNotations.
Open Scope N_scope.

Definition mbname := N.
Definition tid := nat.

(** A message as far as concurrency is concerned: [m_tag] identifies the delivery that
    created it (harness handle), [m_id] is the id the store issued. *)
Record msg := mkMsg { m_tag : N; m_id : N; m_size : N; m_seen : bool }.

Inductive op :=
| OAdd (mb : mbname) (tag size : N)
| OGet (mb : mbname) (id : N)
| OLatest (mb : mbname)
| OList (mb : mbname)
| OSeen (mb : mbname) (id : N)
| ORemove (mb : mbname) (id : N)
| OPurge (mb : mbname)
| OVisit.

Definition view := list (N * bool).              (* (tag, seen) oldest first *)
Definition view_of (l : list msg) : view := map (fun m => (m_tag m, m_seen m)) l.

Inductive res :=
| RId (id : N)
| ROk
| RNotExist
| RMsg (tag : N) (seen : bool)
| RList (v : view)
| RVisit (l : list (mbname * view))
| RFail.                                         (* an error no sequential run can produce *)

(** Who moves in one scheduling step: a client thread or the size enforcer goroutine. *)
Inductive who := T (t : tid) | E.

(** Outcome of one scheduling step. *)
Inductive sres (S : Type) :=
| SOk (s : S)
| SBlocked            (* the chosen party waits for a lock / a rendezvous partner *)
| SNoop               (* the chosen party has finished (or does not exist / is idle) *)
| SCrash.             (* the process dies (nil dereference in the enforcer goroutine) *)
Arguments SOk {S} s. Arguments SBlocked {S}. Arguments SNoop {S}. Arguments SCrash {S}.

(* ------------------------------------------------------------------ list helpers *)

Fixpoint find_msg (id : N) (l : list msg) : option msg :=
  match l with [] => None | m :: l' => if m_id m =? id then Some m else find_msg id l' end.

Fixpoint del_msg (id : N) (l : list msg) : list msg :=
  match l with [] => [] | m :: l' => if m_id m =? id then l' else m :: del_msg id l' end.

Fixpoint mark_seen (id : N) (l : list msg) : list msg :=
  match l with
  | [] => []
  | m :: l' => if m_id m =? id then mkMsg (m_tag m) (m_id m) (m_size m) true :: l' else m :: mark_seen id l'
  end.

Fixpoint last_msg (l : list msg) : option msg :=
  match l with [] => None | [m] => Some m | _ :: l' => last_msg l' end.

(** Removes the [n]-th element (modulo the length); used to resolve Go's map iteration order. *)
Fixpoint take_nth {A} (n : nat) (l : list A) : option (A * list A) :=
  match l with
  | [] => None
  | x :: l' => match n with
               | O => Some (x, l')
               | S n' => match take_nth n' l' with Some (y, r) => Some (y, x :: r) | None => None end
               end
  end.
Definition pick {A} (c : nat) (l : list A) : option (A * list A) :=
  match l with [] => None | _ => take_nth (c mod length l) l end.

Fixpoint set_nth {A} (n : nat) (x : A) (l : list A) : list A :=
  match l, n with
  | [], _ => []
  | _ :: l', O => x :: l'
  | y :: l', S n' => y :: set_nth n' x l'
  end.

(* --------------------------------------------------------- one mailbox, sequentially *)

(** mem: [b_last]/[b_first] are the counters of [mbox]; [b_msgs] is the message map listed by
    ascending index (= arrival order, what GetMessages returns after sorting).
    file: [b_last] is the global id counter value last used here (ids only need to be fresh),
    [b_first] unused. *)
Record box := mkBox { b_last : N; b_first : N; b_msgs : list msg }.
Definition empty_box : box := mkBox 0 0 [].

(** AddMessage's critical section up to and including [mb.messages[id] = m]. *)
Definition box_insert (tag size : N) (b : box) : N * box :=
  let id := b_last b + 1 in
  (id, mkBox id (b_first b) (b_msgs b ++ [mkMsg tag id size false])).

(** The cap loop: [for len(mb.messages) > cap { key := first; delete if present; first++ }]. *)
Fixpoint cap_loop (fuel : nat) (cap : N) (b : box) (ev : list msg) : box * list msg :=
  match fuel with
  | O => (b, ev)
  | S f =>
      if N.of_nat (length (b_msgs b)) <=? cap then (b, ev)
      else match find_msg (b_first b) (b_msgs b) with
           | Some old => cap_loop f cap (mkBox (b_last b) (b_first b + 1) (del_msg (b_first b) (b_msgs b))) (ev ++ [old])
           | None => cap_loop f cap (mkBox (b_last b) (b_first b + 1) (b_msgs b)) ev
           end
  end.
Definition cap_fuel (b : box) : nat := S (S (N.to_nat (b_last b - b_first b))).
Definition box_cap (cap : N) (b : box) : box * list msg :=
  if cap =? 0 then (b, []) else cap_loop (cap_fuel b) cap b [].

Definition box_get (id : N) (b : box) : res :=
  match find_msg id (b_msgs b) with Some m => RMsg (m_tag m) (m_seen m) | None => RNotExist end.
Definition box_latest (b : box) : res :=
  match last_msg (b_msgs b) with Some m => RMsg (m_tag m) (m_seen m) | None => RNotExist end.
Definition box_list (b : box) : res := RList (view_of (b_msgs b)).
Definition box_seen (id : N) (b : box) : box * res :=
  match find_msg id (b_msgs b) with
  | Some _ => (mkBox (b_last b) (b_first b) (mark_seen id (b_msgs b)), ROk)
  | None => (b, RNotExist)
  end.
Definition box_remove (id : N) (b : box) : box * option msg :=
  match find_msg id (b_msgs b) with
  | Some m => (mkBox (b_last b) (b_first b) (del_msg id (b_msgs b)), Some m)
  | None => (b, None)
  end.
Definition box_purge (b : box) : box * list msg := (mkBox (b_last b) (b_first b) [], b_msgs b).

(* ------------------------------------------------------------------ assoc lists *)

Section Assoc.
  Context {V : Type}.
  Fixpoint aget (k : N) (l : list (N * V)) : option V :=
    match l with [] => None | (k', v) :: l' => if k' =? k then Some v else aget k l' end.
  Fixpoint aset (k : N) (v : V) (l : list (N * V)) : list (N * V) :=
    match l with
    | [] => [(k, v)]
    | (k', v') :: l' => if k' =? k then (k, v) :: l' else (k', v') :: aset k v l'
    end.
End Assoc.

(* ----------------------------------------------------------- sequential specification *)

(** The sequential store: every mailbox ever touched (mem creates a mailbox on any access)
    with its box.  [seq_exec] is the operation run alone, atomically; it is the specification
    the interleaved systems are compared with. [touch] says whether a mere access creates the
    mailbox (mem: yes; file: no). *)
Definition sstore := list (mbname * box).

Definition sget (mb : mbname) (s : sstore) : box :=
  match aget mb s with Some b => b | None => empty_box end.

Definition seq_exec (touch : bool) (cap : N) (s : sstore) (o : op) : sstore * res :=
  let rd mb := if touch then aset mb (sget mb s) s else s in
  match o with
  | OAdd mb tag size =>
      let '(id, b1) := box_insert tag size (sget mb s) in
      let '(b2, _) := box_cap cap b1 in
      (aset mb b2 s, RId id)
  | OGet mb id => (rd mb, box_get id (sget mb s))
  | OLatest mb => (rd mb, box_latest (sget mb s))
  | OList mb => (rd mb, box_list (sget mb s))
  | OSeen mb id =>
      match box_seen id (sget mb s) with
      | (b, ROk) => (aset mb b s, ROk)
      | (_, r) => (rd mb, r)
      end
  | ORemove mb id =>
      match box_remove id (sget mb s) with
      | (b, Some _) => (aset mb b s, ROk)
      | (b, None) => (rd mb, RNotExist)
      end
  | OPurge mb => (aset mb (fst (box_purge (sget mb s))) s, ROk)
  | OVisit => (s, RVisit (map (fun kb => (fst kb, view_of (b_msgs (snd kb)))) s))
  end.

Fixpoint seq_run (touch : bool) (cap : N) (s : sstore) (l : list op) : sstore * list res :=
  match l with
  | [] => (s, [])
  | o :: l' => let '(s1, r) := seq_exec touch cap s o in
               let '(s2, rs) := seq_run touch cap s1 l' in (s2, r :: rs)
  end.

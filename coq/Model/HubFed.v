(** The message hub as the assembled server feeds it (pkg/msghub/hub.go: New registers the
    listener "msghub" on ExtHost.Events.AfterMessageStored; pkg/extension/async_broker.go:
    Emit / asyncListener.push / deliver): a store emits, the broker queues the event for the
    hub's listener function, ONE delivery goroutine per listener function calls it for one event
    after the other, and that function is [hub.Dispatch], i.e. a submission to the hub's op queue.

    This file composes a small model of that one broker listener with Model/Hub.v. The broker's
    other listeners do not interact with this one (each has its own queue and goroutine; that is
    C16's model); deletes travel through a second, independent broker (see [fd_*] below).
    No proofs in this file. *)
From IV Require Import Base.Bytes Model.Hub.
Local Open Scope nat_scope.

Record fed := mkFed {
  fb_pend : list msg;      (* asyncListener.pending of the "msghub" listener *)
  fb_running : bool;       (* its delivery goroutine exists *)
  fh : hub
}.

Definition fed_init (n : nat) : fed := mkFed [] false (hub_init n).

Inductive fact :=
| FEmit (m : msg)                               (* AfterMessageStored.Emit: push; start the goroutine if none runs *)
| FDeliver                                      (* the delivery goroutine: pop one event and call hub.Dispatch, or exit *)
| FJoin (l : nat) (k : lkind) (f : str) (fail : option nat)   (* a monitor attaches *)
| FHub (ch : bool)                              (* the hub goroutine moves *)
| FTake (l : nat).                              (* a monitor's socket writer takes an event *)

Definition fstep (c : cfg) (s : fed) (a : fact) : option fed :=
  match a with
  | FEmit m => Some (mkFed (fb_pend s ++ [m]) true (fh s))
  | FDeliver =>
      if fb_running s then
        match fb_pend s with
        | [] => Some (mkFed [] false (fh s))
        | m :: p =>
            match step c (fh s) (AEnq (ODispatch m)) with
            | Some h => Some (mkFed p true h)
            | None => None            (* hub.Dispatch waits for room in the op queue *)
            end
        end
      else None
  | FJoin l k f fail =>
      match step c (fh s) (ANew l k f fail) with Some h => Some (mkFed (fb_pend s) (fb_running s) h) | None => None end
  | FHub ch =>
      match step c (fh s) (AHub ch) with Some h => Some (mkFed (fb_pend s) (fb_running s) h) | None => None end
  | FTake l =>
      match step c (fh s) (ATake l) with Some h => Some (mkFed (fb_pend s) (fb_running s) h) | None => None end
  end.

Fixpoint frun (c : cfg) (s : fed) (sched : list fact) : option fed :=
  match sched with
  | [] => Some s
  | a :: t => match fstep c s a with None => None | Some s' => frun c s' t end
  end.

(** What was emitted, and what the broker has handed to the hub, in order. *)
Fixpoint emitted (sched : list fact) : list msg :=
  match sched with
  | [] => []
  | FEmit m :: t => m :: emitted t
  | _ :: t => emitted t
  end.

(** [handed p sched]: the messages popped by the delivery steps of [sched], starting with [p] pending. *)
Fixpoint handed (p : list msg) (sched : list fact) : list msg :=
  match sched with
  | [] => []
  | FEmit m :: t => handed (p ++ [m]) t
  | FDeliver :: t => match p with [] => handed [] t | m :: p' => m :: handed p' t end
  | _ :: t => handed p t
  end.

Definition quiescent (s : fed) : bool :=
  match fb_pend s, work (fh s), opq (fh s) with [], [], [] => true | _, _, _ => false end.

(** * Driver-level reading for the assembled-system case [asm15 <events> <history>]:
    a monitor is attached, <events> stored events are emitted, everything settles, a second
    monitor attaches. Expected streams (message ids are 100, 101, …). *)
Definition asm_ids (events : nat) : list nat := seq 100 events.
Definition asm_first (events : nat) : list nat := asm_ids events.
Definition asm_late (events history : nat) : list nat := lastn history (asm_ids events).

(** * Two brokers: stored events and deleted events

    AfterMessageDeleted is a second, independent AsyncEventBroker whose "msghub" listener calls
    [hub.Delete]. Each broker keeps its own order; nothing orders the two delivery goroutines
    against each other. *)
Record fed2 := mkFed2 { f2 : fed; fd_pend : list msg; fd_running : bool }.

Definition fed2_init (n : nat) : fed2 := mkFed2 (fed_init n) [] false.

Inductive fact2 :=
| F2 (a : fact)
| F2EmitDel (m : msg)
| F2DeliverDel.

Definition fstep2 (c : cfg) (s : fed2) (a : fact2) : option fed2 :=
  match a with
  | F2 a' => match fstep c (f2 s) a' with Some x => Some (mkFed2 x (fd_pend s) (fd_running s)) | None => None end
  | F2EmitDel m => Some (mkFed2 (f2 s) (fd_pend s ++ [m]) true)
  | F2DeliverDel =>
      if fd_running s then
        match fd_pend s with
        | [] => Some (mkFed2 (f2 s) [] false)
        | m :: p =>
            match step c (fh (f2 s)) (AEnq (ODelete m)) with
            | Some h => Some (mkFed2 (mkFed (fb_pend (f2 s)) (fb_running (f2 s)) h) p true)
            | None => None
            end
        end
      else None
  end.

Fixpoint frun2 (c : cfg) (s : fed2) (sched : list fact2) : option fed2 :=
  match sched with
  | [] => Some s
  | a :: t => match fstep2 c s a with None => None | Some s' => frun2 c s' t end
  end.

Definition quiescent2 (s : fed2) : bool :=
  quiescent (f2 s) && match fd_pend s with [] => true | _ => false end.

(** * The assembled-system cases run through the composed model

    Canonical schedule (harness listeners are unbounded [Mock]s): monitor 1 attaches — and, in the
    "fail" variant, monitor 3, which returns errors from its (k+1)-th call on —; all stored events
    are emitted and handed over one by one with the hub settling in between; in the "del" variant
    some of them are then reported deleted the same way; monitor 2 attaches; the hub settles. *)
Definition asm_msg (i : nat) : msg := ([98%N; 111%N; 120%N], [N.of_nat i]).
Definition msg_id (m : msg) : nat := match snd m with [x] => N.to_nat x | _ => 0 end.

Fixpoint fsettle (fuel : nat) (c : cfg) (s : fed2) : fed2 :=
  match fuel with
  | 0 => s
  | S k => match fstep2 c s (F2 (FHub true)) with Some s' => fsettle k c s' | None => s end
  end.

Definition do2 (c : cfg) (s : fed2) (a : fact2) : fed2 :=
  match fstep2 c s a with Some s' => s' | None => s end.

(** hand over pending events one at a time, letting the hub settle after each *)
Fixpoint pump (rounds : nat) (del : bool) (c : cfg) (s : fed2) : fed2 :=
  match rounds with
  | 0 => s
  | S k => pump k del c (fsettle 16 c (do2 c s (if del then F2DeliverDel else F2 FDeliver)))
  end.

Inductive ev_tag := TStored (i : nat) | TDeleted (i : nat).

Definition tags_of (es : list ev) : list ev_tag :=
  map (fun e => match e with Stored m => TStored (msg_id m) | Deleted m => TDeleted (msg_id m) end) es.

Definition fed_drive (c : cfg) (events history : nat) (dels : list nat) (failing : option nat)
  : option (list ev_tag * list ev_tag * bool) :=
  let s0 := fed2_init history in
  let s1 := fsettle 4 c (do2 c s0 (F2 (FJoin 1 Mock [] None))) in
  let s2 := match failing with
            | Some k => fsettle 4 c (do2 c s1 (F2 (FJoin 3 Mock [] (Some k))))
            | None => s1
            end in
  let s3 := fold_left (fun s i => do2 c s (F2 (FEmit (asm_msg i)))) (asm_ids events) s2 in
  let s4 := pump (S events) false c s3 in
  let s5 := fold_left (fun s i => do2 c s (F2EmitDel (asm_msg i))) dels s4 in
  let s6 := pump (S (length dels)) true c s5 in
  let s7 := fsettle (S (S history)) c (do2 c s6 (F2 (FJoin 2 Mock [] None))) in
  match find_l 1 (ls (fh (f2 s7))), find_l 2 (ls (fh (f2 s7))) with
  | Some a, Some b => Some (tags_of (lout a ++ lq a), tags_of (lout b ++ lq b), quiescent2 s7)
  | _, _ => None
  end.

Definition fed_drive_pinned := fed_drive pinned_cfg.

(** * Shutdown while events are still travelling

    [Hub.Start] returns when the context is cancelled ([AStop]); the brokers know nothing about
    that: stores keep emitting, the delivery goroutines keep calling [hub.Dispatch] /
    [hub.Delete], somebody may still call [hub.Sync]. *)
Inductive fact3 :=
| F3 (a : fact2)
| F3Stop                 (* the hub goroutine sees ctx.Done *)
| F3Sync (tok : nat).    (* a caller of hub.Sync submits its op *)

Definition with_hub (s : fed2) (h : hub) : fed2 :=
  mkFed2 (mkFed (fb_pend (f2 s)) (fb_running (f2 s)) h) (fd_pend s) (fd_running s).

Definition fstep3 (c : cfg) (s : fed2) (a : fact3) : option fed2 :=
  match a with
  | F3 a' => fstep2 c s a'
  | F3Stop => match step c (fh (f2 s)) AStop with Some h => Some (with_hub s h) | None => None end
  | F3Sync tok => match step c (fh (f2 s)) (AEnq (OSync tok)) with Some h => Some (with_hub s h) | None => None end
  end.

Fixpoint frun3 (c : cfg) (s : fed2) (sched : list fact3) : option fed2 :=
  match sched with
  | [] => Some s
  | a :: t => match fstep3 c s a with None => None | Some s' => frun3 c s' t end
  end.

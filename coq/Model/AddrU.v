(** The address functions once more, with strings.ToLower as an arbitrary function [ulower]
    (Go lower-cases with Unicode rules; U+212A KELVIN SIGN becomes 'k', U+0130 becomes 'i', invalid
    UTF-8 becomes U+FFFD ...). Everything else is copied from Model/Addr.v. Proofs/AddrGo.v shows
    that in every naming mode these functions coincide with the ASCII-lowering model on EVERY
    input, given only that [ulower] is ASCII lower-casing on ASCII strings: no non-ASCII string
    ever reaches a lower-casing. *)
From IV Require Import Base.Bytes Model.Addr.

Section WithLower.
Variable ulower : str -> str.
Variable parse_ip : str -> bool.

Definition parse_mailbox_name_u (l : str) : option str :=
  match l with
  | [] => None
  | _ :: _ =>
      let r := ulower l in
      if forallb mailbox_char_ok r then Some (take_until ext_separator r) else None
  end.

Definition canonical_domain_u (d : str) : str :=
  if has_prefix canon_tag d then canon_tag ++ ulower (skipn canon_skip d) else ulower d.

Definition extract_domain_mailbox_u (a : str) : option str :=
  let bracketed := match a with [] => false | c :: _ => (c =? 91) && (last a 0 =? 93) end in
  match (if bracketed then Some ([], a) else parse_email a) with
  | None => None
  | Some (l, d) =>
      match (match l with [] => Some [] | _ :: _ => parse_mailbox_name_u l end) with
      | None => None
      | Some l' =>
          let d' := match d with [] => l' | _ :: _ => d end in
          if validate_domain parse_ip d' then Some (canonical_domain_u d') else None
      end
  end.

Definition extract_mailbox_u (mode : naming) (a : str) : option str :=
  match mode with
  | Domain => extract_domain_mailbox_u a
  | _ =>
      match parse_email a with
      | None => None
      | Some (l, d) =>
          match parse_mailbox_name_u l with
          | None => None
          | Some [] => None
          | Some ((c :: _) as n) =>
              if (c =? 46) || has_dotdot n then None
              else match mode with
                   | Local => Some n
                   | _ =>
                       match d with
                       | [] => Some n
                       | _ :: _ =>
                           if negb (validate_domain parse_ip d) then None
                           else if last n 0 =? 46 then None
                           else Some (n ++ 64 :: canonical_domain_u d)
                       end
                   end
          end
      end
  end.

Definition new_recipient_u (mode : naming) (a : str) : option recipient :=
  match parse_email_validated parse_ip a with
  | None => None
  | Some (l, d) =>
      match extract_mailbox_u mode a with
      | None => None
      | Some m => Some (mkRecipient a l d m)
      end
  end.

End WithLower.

(** * ValidateDomainPart ranges over RUNES (for _, c := range domain), the model over bytes.
    The rune-level reading, with Go's UTF-8 decoding (Base/Regex.v, decode_rune: an invalid
    byte is U+FFFD of width 1): *)
From IV Require Import Base.Regex.

Fixpoint runes (fuel : nat) (s : str) : list N :=
  match fuel with
  | O => []
  | S f => match decode_rune s with
           | None => []
           | Some (r, _, rest) => r :: runes f rest
           end
  end.

Definition validate_domain_runes (parse_ip : str -> bool) (d : str) : bool :=
  let ln := N.of_nat (length d) in
  if ln =? 0 then false
  else if max_domain_len <? ln then false
  else if (min_bracket_len <=? ln) && is_bracketed d then parse_ip (ip_inner d)
  else let d' := if last d 0 =? 46 then d else d ++ [46] in
       labels_ok (runes (length d') d') 46 0 false.

(** strings.ToLower of the Go library: an ASCII fast path (bytes only), otherwise
    strings.Map(unicode.ToLower, s), here an arbitrary function [umap] *)
Definition go_tolower (umap : str -> str) (s : str) : str := if is_ascii s then lower s else umap s.

(** Model of the extension layer as far as it decides SMTP outcomes (pkg/extension/broker.go:
    EventBroker.Emit; pkg/extension/luahost/lua.go: the three before-handlers' mapping of a Lua
    call's outcome to a hook answer; pkg/extension/luahost/pool.go: statePool get/put).
    How the session uses the answers is in Model/Smtp.v (step_mail_from, step_mail,
    deliveries_for). No proofs here. *)
From IV Require Import Base.Bytes Model.Policy Model.Smtp.

(** EventBroker.Emit: listeners in registration order, the first non-nil result wins. *)
Fixpoint broker_emit {E R : Type} (ls : list (E -> option R)) (e : E) : option R :=
  match ls with
  | [] => None
  | l :: ls' => match l e with Some r => Some r | None => broker_emit ls' e end
  end.

(** What the session makes of Emit's result (handler.go: extAction := ActionDefer; if extResult != nil
    { extAction = extResult.Action }): no result is "no answer". *)
Definition session_answer (r : option hook_ans) : hook_ans :=
  match r with Some a => a | None => NoAns end.

(** A listener given by the answer it computes: "no answer" is a nil result - an explicit defer is a result. *)
Definition answer_listener {E : Type} (f : E -> hook_ans) : E -> option hook_ans :=
  fun e => match f e with NoAns => None | a => Some a end.

(** A listener given by a rule table (the shape the correspondence check's scripts and Go listeners have). *)
Fixpoint table_answer (t : list (str * hook_ans)) (a : str) : hook_ans :=
  match t with
  | [] => NoAns
  | (k, h) :: t' => if str_eqb k a then h else table_answer t' a
  end.
Definition table_listener (t : list (str * hook_ans)) : str -> option hook_ans :=
  answer_listener (table_answer t).

(** The reply line of a deny: fmt.Sprintf("%03d %s", ErrorCode, ErrorMsg). [%03d]: decimal, padded with zeros to
    width 3, the sign counting towards the width (Go: -5 -> "-05"). Fuelled digit loop: 20 digits cover int64. *)
Fixpoint dec_digits (fuel : nat) (n : N) (acc : str) : str :=
  match fuel with
  | O => acc
  | S f => let acc' := (48 + n mod 10)%N :: acc in
           if (n <? 10)%N then acc' else dec_digits f (n / 10)%N acc'
  end.
Definition pad3 (sign : str) (ds : str) : str :=
  sign ++ repeat 48%N (3 - length sign - length ds) ++ ds.
Definition fmt_03d (z : Z) : str :=
  match z with
  | Z0 => pad3 [] (dec_digits 20 0 [])
  | Zpos p => pad3 [] (dec_digits 20 (Npos p) [])
  | Zneg p => pad3 [45%N] (dec_digits 20 (Npos p) [])
  end.
Definition deny_line (code : Z) (text : str) : str := fmt_03d code ++ 32%N :: text.

(** EventBroker.AddListener / RemoveListener: listeners have names; adding a name that is already registered removes
    the old entry first and appends the new one AT THE END (loading a Lua script a second time moves the Lua host
    behind every listener registered meanwhile); removal keeps the order of the others. *)
Definition chain (E R : Type) := list (str * (E -> option R)).
Fixpoint chain_remove {E R : Type} (name : str) (c : chain E R) : chain E R :=
  match c with
  | [] => []
  | (n, l) :: c' => if str_eqb n name then c' else (n, l) :: chain_remove name c'
  end.
Definition chain_add {E R : Type} (name : str) (l : E -> option R) (c : chain E R) : chain E R :=
  chain_remove name c ++ [(name, l)].
Definition chain_emit {E R : Type} (c : chain E R) (e : E) : option R := broker_emit (map snd c) e.

(** What calling a Lua handler (CallByParam with Protect) produced. *)
Inductive lua_value :=
  | LNil | LFalse | LTrue | LNumber | LString | LTable | LFunction
  | LResponse (a : hook_ans)            (* userdata built by smtp.allow / defer / deny *)
  | LInbound (ov : overrides)           (* the InboundMessage userdata, as the handler left it *)
  | LOtherUserData.
Inductive lua_call := Raised | Returned (v : lua_value).

(** handleBeforeMailFromAccepted / handleBeforeRcptToAccepted: an error, or a value that is
    not an SMTPResponse, is "no answer". *)
Definition smtp_answer (c : lua_call) : hook_ans :=
  match c with
  | Returned (LResponse a) => a
  | _ => NoAns
  end.

(** The Lua host as a listener on an SMTP broker. *)
Definition lua_listener {E : Type} (call : E -> lua_call) : E -> option hook_ans :=
  answer_listener (fun e => smtp_answer (call e)).

(** handleBeforeMessageStored: nil/false, an error, or a value that is not an InboundMessage is
    "no answer"; whatever the handler did to its (copied) argument before is discarded. *)
Definition msg_answer (c : lua_call) : option overrides :=
  match c with
  | Returned (LInbound ov) => Some ov
  | _ => None
  end.

(** statePool: LStates are numbered in creation order. [free] is the pool (a stack), [held]
    says which caller holds which state. *)
Record pool := { free : list nat; next_id : nat; held : list (nat * nat) }.
Definition pool_init : pool := {| free := []; next_id := 0; held := [] |}.
Inductive pool_op := PGet (caller : nat) | PPut (caller : nat).

Fixpoint take_held (t : nat) (h : list (nat * nat)) : option (nat * list (nat * nat)) :=
  match h with
  | [] => None
  | (t', i) :: h' =>
      if Nat.eqb t t' then Some (i, h')
      else match take_held t h' with
           | Some (j, r) => Some (j, (t', i) :: r)
           | None => None
           end
  end.

Definition pool_step (p : pool) (o : pool_op) : pool :=
  match o with
  | PGet t =>
      match rev (free p) with
      | [] => {| free := []; next_id := S (next_id p); held := (t, next_id p) :: held p |}
      | i :: r => {| free := rev r; next_id := next_id p; held := (t, i) :: held p |}
      end
  | PPut t =>
      match take_held t (held p) with
      | Some (i, h') => {| free := free p ++ [i]; next_id := next_id p; held := h' |}
      | None => p          (* a caller can only put back a state it holds *)
      end
  end.

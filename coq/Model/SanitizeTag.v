(** C18 — model of the x/net/html tokenizer's TAG SCANNING (token.go: readTag, readTagName,
    readTagAttrKey, readTagAttrVal, skipWhiteSpace, and the self-closing test of readStartTag):
    given the bytes that follow the "<" of a start tag, the tag name, the list of (key, raw
    value) spans, and the bytes that follow the closing ">".

    Not modelled (still third-party): where a tag starts (the text / raw-text / comment states of
    Next), lower-casing is applied by the callers (TagName, TagAttr: ASCII), and the entity
    decoding + newline conversion TagAttr applies to the raw value.

    The model is compared with the real tokenizer on the raw bytes (z.Raw()) of every start tag
    of every generated document (driver field "tags"); it is the basis of the round-trip theorem
    (Proofs/SanitizeTag.v): scanning a start tag that styleTagFilter wrote gives back exactly the
    attributes it wrote. No proofs here. *)
From IV Require Import Base.Bytes Gen.SanitizeConsts Model.Sanitize.

Definition is_ws (c : N) : bool := (c =? 32) || (c =? 10) || (c =? 13) || (c =? 9) || (c =? 12).

Fixpoint skip_ws (s : str) : str :=
  match s with
  | c :: r => if is_ws c then skip_ws r else s
  | [] => []
  end.

(** readTagName after its first byte: None = end of input inside the tag (the tokenizer then
    reports an error token) *)
Fixpoint read_name (s : str) : option (str * str) :=
  match s with
  | [] => None
  | c :: r =>
      if is_ws c then Some ([], r)
      else if (c =? 47) || (c =? 62) then Some ([], s)
      else match read_name r with Some (n, rest) => Some (c :: n, rest) | None => None end
  end.

Definition key_stop (c : N) : bool := (c =? 61) || is_ws c || (c =? 47) || (c =? 62).

Fixpoint read_key_rest (s : str) : option (str * str) :=
  match s with
  | [] => None
  | c :: r =>
      if key_stop c then Some ([], s)
      else match read_key_rest r with Some (k, rest) => Some (c :: k, rest) | None => None end
  end.

(** readTagAttrKey: an equals sign in first position belongs to the key *)
Definition read_key (s : str) : option (str * str) :=
  match s with
  | [] => None
  | c :: r =>
      if c =? 61 then match read_key_rest r with Some (k, rest) => Some (c :: k, rest) | None => None end
      else read_key_rest s
  end.

Fixpoint read_quoted (q : N) (s : str) : option (str * str) :=
  match s with
  | [] => None
  | c :: r =>
      if c =? q then Some ([], r)
      else match read_quoted q r with Some (v, rest) => Some (c :: v, rest) | None => None end
  end.

Fixpoint read_unquoted (s : str) : option (str * str) :=
  match s with
  | [] => None
  | c :: r =>
      if is_ws c then Some ([], r)
      else if c =? 62 then Some ([], s)
      else match read_unquoted r with Some (v, rest) => Some (c :: v, rest) | None => None end
  end.

(** readTagAttrVal *)
Definition read_val (s : str) : option (str * str) :=
  match skip_ws s with
  | [] => None
  | c :: r =>
      if c =? 47 then Some ([], r)
      else if negb (c =? 61) then Some ([], c :: r)
      else match skip_ws r with
           | [] => None
           | q :: r2 =>
               if q =? 62 then Some ([], q :: r2)
               else if (q =? 39) || (q =? 34) then read_quoted q r2
               else match read_unquoted r2 with Some (v, rest) => Some (q :: v, rest) | None => None end
           end
  end.

(** the loop of readTag; every round consumes at least one byte, fuel = number of bytes + 1 *)
Fixpoint scan_attrs (fuel : nat) (s : str) : option (list (str * str) * str) :=
  match fuel with
  | O => None
  | S f =>
      match s with
      | [] => None
      | c :: r =>
          if c =? 62 then Some ([], r)
          else match read_key s with
               | None => None
               | Some (k, s1) =>
                   match read_val s1 with
                   | None => None
                   | Some (v, s2) =>
                       match skip_ws s2 with
                       | [] => None
                       | s3 =>
                           match scan_attrs f s3 with
                           | Some (attrs, rest) => Some (if is_nil k then attrs else (k, v) :: attrs, rest)
                           | None => None
                           end
                       end
                   end
               end
      end
  end.

(** [scan_tag c0 s]: c0 is the first byte of the name (a letter, already consumed by Next) *)
Definition scan_tag (c0 : N) (s : str) : option (str * list (str * str) * str) :=
  match read_name s with
  | None => None
  | Some (n, s1) =>
      match skip_ws s1 with
      | [] => None
      | s2 => match scan_attrs (S (length s2)) s2 with
              | Some (attrs, rest) => Some (c0 :: n, attrs, rest)
              | None => None
              end
      end
  end.

(** the self-closing test of readStartTag: the byte before the closing ">" is a solidus *)
Fixpoint second_last (l : str) : option N :=
  match l with
  | [] => None
  | a :: r => match r with [_] => Some a | _ => second_last r end
  end.

Definition self_closing (c0 : N) (s rest : str) : bool :=
  match second_last (firstn (S (length s) - length rest) (c0 :: s)) with
  | Some p => p =? 47
  | None => false
  end.

(** what TagName / TagAttr hand out, values left raw *)
Definition scan_start_tag (c0 : N) (s : str) : option (str * list (str * str) * bool * str) :=
  match scan_tag c0 s with
  | Some (n, attrs, rest) =>
      Some (lower n, map (fun kv => (lower (fst kv), snd kv)) attrs, self_closing c0 s rest, rest)
  | None => None
  end.

(** Model of net/textproto's dotReader as used by Session.readDataBlock (ReadDotBytes), the five
    live states transcribed from the Go source (reader.go, dotReader.Read), and of the sending
    side as an RFC 5321 client performs it (line-wise dot-stuffing). No proofs here. *)
From IV Require Import Base.Bytes.

Definition CRb : N := 13.
Definition LFb : N := 10.
Definition DOTb : N := 46.

Inductive dstate := BeginLine | Dot | DotCR | CR | Data.

Definition emit (l : str) (r : option (str * str)) : option (str * str) :=
  match r with Some (d, rest) => Some (l ++ d, rest) | None => None end.

(** [dec st w]: decode from state [st]; [Some (decoded, rest)] when the terminator line was
    found, [None] when the input ends first (io.ErrUnexpectedEOF). UnreadByte = "behave as state
    Data on the same byte", inlined. *)
Fixpoint dec (st : dstate) (w : str) : option (str * str) :=
  match w with
  | [] => None
  | c :: w' =>
      match st with
      | BeginLine =>
          if c =? DOTb then dec Dot w'
          else if c =? CRb then dec CR w'
          else emit [c] (dec Data w')           (* also for a bare LF: the state becomes Data *)
      | Dot =>
          if c =? CRb then dec DotCR w'
          else if c =? LFb then Some ([], w')
          else emit [c] (dec Data w')
      | DotCR =>
          if c =? LFb then Some ([], w')
          else if c =? CRb then emit [CRb] (dec CR w')
          else emit [CRb; c] (dec Data w')
      | CR =>
          if c =? LFb then emit [LFb] (dec BeginLine w')
          else if c =? CRb then emit [CRb] (dec CR w')
          else emit [CRb; c] (dec Data w')
      | Data =>
          if c =? CRb then dec CR w'
          else if c =? LFb then emit [LFb] (dec BeginLine w')
          else emit [c] (dec Data w')
      end
  end.

(** The client side: each line is dot-stuffed and CRLF-terminated, then the terminator line. *)
Definition stuff (l : str) : str := match l with c :: _ => if c =? DOTb then DOTb :: l else l | [] => l end.
Fixpoint wire (ls : list str) : str :=
  match ls with
  | [] => [DOTb; CRb; LFb]
  | l :: ls' => stuff l ++ [CRb; LFb] ++ wire ls'
  end.
Fixpoint joined_lf (ls : list str) : str :=
  match ls with [] => [] | l :: ls' => l ++ [LFb] ++ joined_lf ls' end.

(** Splitting a body into lines at LF, dropping the CR of a CRLF; a final unterminated,
    non-empty line counts as a line. *)
Fixpoint lines_acc (cur : str) (b : str) : list str :=
  match b with
  | [] => match cur with [] => [] | _ => [rev cur] end
  | c :: b' =>
      if c =? LFb then
        (match cur with x :: cur' => if x =? CRb then rev cur' else rev cur | [] => [] end) :: lines_acc [] b'
      else lines_acc (c :: cur) b'
  end.
Definition lines_of (b : str) : list str := lines_acc [] b.
Definition enc (body : str) : str := wire (lines_of body).
Definition lf_norm (body : str) : str := joined_lf (lines_of body).

(** Trace headers prepended by Deliver; the timestamp (fixed width, 37 bytes) is masked. *)
Definition s_retpath : str := [82;101;116;117;114;110;45;80;97;116;104;58;32;60].  (* "Return-Path: <" *)
Definition s_received : str := [82;101;99;101;105;118;101;100;58;32;102;114;111;109;32]. (* "Received: from " *)
Definition s_by : str := [32;98;121;32].          (* " by " *)
Definition s_for : str := [32;32;102;111;114;32;60]. (* "  for <" *)
Definition tstamp_mask : str := repeat 63 37.     (* 37 x '?' *)
Definition trace_headers (retpath helo ip domain mailbox : str) : str :=
  s_retpath ++ retpath ++ [62; 13; 10] ++
  s_received ++ helo ++ [32; 40; 91] ++ ip ++ [93; 41] ++ s_by ++ domain ++ [13; 10] ++
  s_for ++ mailbox ++ [62; 59; 32] ++ tstamp_mask ++ [13; 10].
Definition stored_source (retpath helo ip domain mailbox payload : str) : str :=
  trace_headers retpath helo ip domain mailbox ++ payload.

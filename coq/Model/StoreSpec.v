(** StoreSpec — the abstract ordered-mailbox store (C07, C08, C16; imported by C10/C12/C14).

    The specification of [storage.Store]: a store is the list of its LIVE messages in global
    arrival order; a mailbox is the sub-list of the entries carrying its name (hence
    arrival-ordered, oldest first). Messages are named by HANDLES, never by the id strings a
    back-end issues: [Kth k] is "the message delivered by the k-th add (k = 0,1,…) to THIS
    mailbox", [Latest] the id literal "latest", [Bogus] an id literal no back-end ever issues.
    Each back-end model resolves handles to its own ids (Model/StoreRun.v), which is the id
    bijection of the refinement statement made operational.

    Stable interface (other developments may rely on these names):
      msg, handle, op, res, scfg, entry, spec_store, spec_init, event, obs,
      box, exec_spec, run_spec.
    No proofs in this file. *)
From IV Require Import Base.Bytes.

(** What a deliverer hands to [AddMessage] and what must read back unchanged. [m_tag]
    stands for the whole of from/to/subject/body (both back-ends keep them verbatim as a
    unit; the drivers map a tag to concrete header values and body bytes), [m_date] is the
    delivery date (an input: [Delivery.Meta.Date]), [m_size] the body length in bytes. *)
Record msg := { m_date : Z; m_tag : N; m_size : N; m_seen : bool }.

Definition msg_set_seen (m : msg) : msg :=
  {| m_date := m_date m; m_tag := m_tag m; m_size := m_size m; m_seen := true |}.

Definition msg_eqb (a b : msg) : bool :=
  (m_date a =? m_date b)%Z && (m_tag a =? m_tag b) && (m_size a =? m_size b) && Bool.eqb (m_seen a) (m_seen b).

Inductive handle := Kth (k : nat) | Latest | Bogus.

Inductive op :=
| Add (mb : str) (date : Z) (tag size : N)   (* AddMessage; the message is unseen *)
| Get (mb : str) (h : handle)                (* GetMessage *)
| Lst (mb : str)                             (* GetMessages *)
| Seen (mb : str) (h : handle)               (* MarkSeen *)
| Remove (mb : str) (h : handle)             (* RemoveMessage *)
| Purge (mb : str)                           (* PurgeMessages *)
| Visit.                                     (* VisitMailboxes, visitor always continues *)

Inductive res (A : Type) := Ok (a : A) | NotExist | Err.
Arguments Ok {A} a. Arguments NotExist {A}. Arguments Err {A}.

(** Handle numbers, the cap and mailbox lengths are [nat] (small, structural); byte counts
    are [N]. Limits: [c_cap] = per-mailbox message cap, [c_max] = store-wide byte limit (memory
    store only); 0 disables either. *)
Record scfg := { c_cap : nat; c_max : N }.

Record entry := { e_mb : str; e_k : nat; e_msg : msg }.

(** [live]: live messages, global arrival order. [counts]: number of adds so far per mailbox,
    in order of first delivery (the next handle of a mailbox; never decreases, so handles and
    therefore ids are never reused). *)
Record spec_store := { live : list entry; counts : list (str * nat) }.
Definition spec_init : spec_store := {| live := []; counts := [] |}.

Inductive evkind := EStored | EDeleted.
(** An event names a message by mailbox and handle number. *)
Definition event := (evkind * str * nat)%type.

(** A message as seen through a listing: its handle number and what reads back. *)
Definition view := (nat * msg)%type.

Inductive obs :=
| OAdd (k : nat) (back : res view)       (* handle issued; GetMessage of the id just returned *)
| OGet (r : res view)
| OList (l : list view)
| OUnit (r : res unit)                 (* MarkSeen / RemoveMessage / PurgeMessages *)
| OVisit (l : list (str * list view)). (* non-empty mailboxes; enumeration order is NOT part of
                                          the contract (map / readdir order in the code): the
                                          models enumerate in order of first delivery and the
                                          comparison sorts *)

(* ------------------------------------------------------------------ helpers *)

Definition ent_in (mb : str) (e : entry) : bool := str_eqb mb (e_mb e).
Definition is_ent (mb : str) (k : nat) (e : entry) : bool := ent_in mb e && Nat.eqb (e_k e) k.

(** The mailbox [mb]: its live entries, oldest first. *)
Definition box (mb : str) (l : list entry) : list entry := filter (ent_in mb) l.

Definition view_of (e : entry) : view := (e_k e, e_msg e).

Fixpoint count_of (mb : str) (c : list (str * nat)) : nat :=
  match c with
  | [] => O
  | (n, k) :: c' => if str_eqb mb n then k else count_of mb c'
  end.

Fixpoint bump (mb : str) (c : list (str * nat)) : list (str * nat) :=
  match c with
  | [] => [(mb, 1%nat)]
  | (n, k) :: c' => if str_eqb mb n then (n, S k) :: c' else (n, k) :: bump mb c'
  end.

Fixpoint total (l : list entry) : N :=
  match l with [] => 0 | e :: l' => m_size (e_msg e) + total l' end.

Fixpoint last_opt {A} (l : list A) : option A :=
  match l with [] => None | [a] => Some a | _ :: l' => last_opt l' end.

(** Remove the [n] oldest entries of mailbox [mb]: (removed, rest). *)
Fixpoint drop_oldest (mb : str) (n : nat) (l : list entry) : list entry * list entry :=
  match n, l with
  | O, _ => ([], l)
  | _, [] => ([], [])
  | S n', e :: l' =>
      if ent_in mb e
      then let (d, r) := drop_oldest mb n' l' in (e :: d, r)
      else let (d, r) := drop_oldest mb n l' in (d, e :: r)
  end.

(** Evict from the front (= globally oldest first) until the rest fits: (evicted, rest).
    The evicted part is the SHORTEST prefix whose removal makes the store fit. *)
Fixpoint evict_fit (max : N) (l : list entry) : list entry * list entry :=
  match l with
  | [] => ([], [])
  | e :: l' =>
      if total l <=? max then ([], l)
      else let (d, r) := evict_fit max l' in (e :: d, r)
  end.

Definition ev_deleted (e : entry) : event := (EDeleted, e_mb e, e_k e).

Definition find_h (mb : str) (h : handle) (l : list entry) : option entry :=
  match h with
  | Kth k => find (is_ent mb k) l
  | Latest => None
  | Bogus => None
  end.

Definition res_of_find (o : option entry) : res view :=
  match o with Some e => Ok (view_of e) | None => NotExist end.

Definition set_seen (mb : str) (k : nat) (l : list entry) : list entry :=
  map (fun e => if is_ent mb k e
                then {| e_mb := e_mb e; e_k := e_k e; e_msg := msg_set_seen (e_msg e) |}
                else e) l.

Definition remove_ent (mb : str) (k : nat) (l : list entry) : list entry :=
  filter (fun e => negb (is_ent mb k e)) l.

Definition spec_visit (st : spec_store) : list (str * list view) :=
  filter (fun p => match snd p with [] => false | _ => true end)
         (map (fun p => (fst p, map view_of (box (fst p) (live st)))) (counts st)).

(* ------------------------------------------------------------------ operations *)

(** Deliver one message: append, enforce the cap on its mailbox (oldest of the mailbox
    first), then the byte limit (oldest of the store first). The events are the evictions in
    that order followed by the stored event (what [StoreManager.Deliver] emits once
    [AddMessage] has returned). *)
Definition spec_add (cfg : scfg) (st : spec_store) (mb : str) (m : msg)
  : spec_store * nat * list event :=
  let k := count_of mb (counts st) in
  let l1 := live st ++ [{| e_mb := mb; e_k := k; e_msg := m |}] in
  let '(d1, l2) :=
    if Nat.eqb (c_cap cfg) 0 then ([], l1)
    else drop_oldest mb (length (box mb l1) - c_cap cfg)%nat l1 in
  let '(d2, l3) := if c_max cfg =? 0 then ([], l2) else evict_fit (c_max cfg) l2 in
  ({| live := l3; counts := bump mb (counts st) |}, k,
   map ev_deleted d1 ++ map ev_deleted d2 ++ [(EStored, mb, k)]).

Definition exec_spec (cfg : scfg) (st : spec_store) (o : op) : spec_store * obs * list event :=
  match o with
  | Add mb date tag size =>
      let m := {| m_date := date; m_tag := tag; m_size := size; m_seen := false |} in
      let '(st', k, evs) := spec_add cfg st mb m in
      (st', OAdd k (res_of_find (find_h mb (Kth k) (live st'))), evs)
  | Get mb Latest => (st, OGet (res_of_find (last_opt (box mb (live st)))), [])
  | Get mb h => (st, OGet (res_of_find (find_h mb h (live st))), [])
  | Lst mb => (st, OList (map view_of (box mb (live st))), [])
  | Seen mb h =>
      match find_h mb h (live st) with
      | Some e => ({| live := set_seen mb (e_k e) (live st); counts := counts st |}, OUnit (Ok tt), [])
      | None => (st, OUnit NotExist, [])
      end
  | Remove mb h =>
      match find_h mb h (live st) with
      | Some e => ({| live := remove_ent mb (e_k e) (live st); counts := counts st |},
                   OUnit (Ok tt), [ev_deleted e])
      | None => (st, OUnit NotExist, [])
      end
  | Purge mb =>
      ({| live := filter (fun e => negb (ent_in mb e)) (live st); counts := counts st |},
       OUnit (Ok tt), map ev_deleted (box mb (live st)))
  | Visit => (st, OVisit (spec_visit st), [])
  end.

(** A history: observations and events of every operation, in order. *)
Fixpoint run_spec (cfg : scfg) (st : spec_store) (ops : list op) : list (obs * list event) :=
  match ops with
  | [] => []
  | o :: ops' => let '(st', ob, evs) := exec_spec cfg st o in (ob, evs) :: run_spec cfg st' ops'
  end.

Fixpoint final_spec (cfg : scfg) (st : spec_store) (ops : list op) : spec_store :=
  match ops with
  | [] => st
  | o :: ops' => let '(st', _, _) := exec_spec cfg st o in final_spec cfg st' ops'
  end.

(** Glue between the SMTP session model and the address model (Model/Addr.v): what
    Addressing.NewRecipient and Addressing.ParseOrigin return, computed by the model instead of
    being taken from the driver. Only net.ParseIP stays an oracle ([parse_ip], applied to the
    inner part of bracketed domain literals). No proofs here. *)
From IV Require Import Base.Bytes Model.Policy Model.Smtp.
From IV Require Model.Addr.

Definition rcpt_of (parse_ip : str -> bool) (mode : Addr.naming) (addr : str) : option recipient :=
  match Addr.new_recipient parse_ip mode addr with
  | Some r => Some {| r_addr := Addr.r_addr r; r_domain := Addr.r_domain r; r_mailbox := Addr.r_mailbox r |}
  | None => None
  end.

(** ParseOrigin: the empty reverse-path is an origin without address and domain. *)
Definition origin_of (parse_ip : str -> bool) (a : str) : option origin :=
  match a with
  | [] => Some {| o_addr := []; o_domain := [] |}
  | _ => match Addr.parse_email_validated parse_ip a with
         | Some (_, d) => Some {| o_addr := a; o_domain := d |}
         | None => None
         end
  end.

(** Disk-level model of inbucket's file store (pkg/storage/file/fstore.go, mbox.go, fmessage.go)
    as it is after fixes 0009 (index written to index.gob.tmp and renamed; the index is unlinked
    before the directory goes), 0010 (the id of an indexed message is never reused) and 0012.

    The state IS the disk: a finite map from paths (component lists below <path>/mail) to nodes.
    Every mutating operation is a *program* that emits the list of primitive file-system steps the
    Go code performs, in order; there is one [verifhook.Point] in the Go code immediately before
    each such step, so the sequence of sites of a real run can be compared with [steps].
    No proofs in this file. *)
From IV Require Import Base.Bytes.
From Coq Require Import List NArith Bool.
Import ListNotations.
Open Scope N_scope.

(** * Paths and the disk *)

Definition path := list str.

Fixpoint path_eqb (a b : path) : bool :=
  match a, b with
  | [], [] => true
  | x :: a', y :: b' => str_eqb x y && path_eqb a' b'
  | _, _ => false
  end.

Fixpoint is_prefix (p q : path) : bool :=
  match p, q with
  | [], _ => true
  | x :: p', y :: q' => str_eqb x y && is_prefix p' q'
  | _ :: _, [] => false
  end.

Inductive node := Dir | File (b : str).

(** The root (<path>/mail itself, created by [file.New]) is the empty path and always exists;
    it is never a key. *)
Definition disk := list (path * node).

Fixpoint lookup (d : disk) (p : path) : option node :=
  match d with
  | [] => None
  | (q, n) :: d' => if path_eqb q p then Some n else lookup d' p
  end.

Definition del (p : path) (d : disk) : disk :=
  filter (fun e => negb (path_eqb (fst e) p)) d.

Definition set (p : path) (n : node) (d : disk) : disk := (p, n) :: del p d.

(** [os.RemoveAll p]: p and everything below it. *)
Definition del_tree (p : path) (d : disk) : disk :=
  filter (fun e => negb (is_prefix p (fst e))) d.

(** A [RemoveAll p] that died on the way: p itself is still there, of the entries below it exactly
    those chosen by [keep] are. *)
Definition del_tree_partial (keep : path -> bool) (p : path) (d : disk) : disk :=
  filter (fun e => negb (is_prefix p (fst e)) || path_eqb (fst e) p || keep (fst e)) d.

Definition child_of (p q : path) : option str :=
  if is_prefix p q then
    match skipn (length p) q with
    | [c] => Some c
    | _ => None
    end
  else None.

(** [Readdirnames]: the names directly below p, in an unspecified (here: storage) order. *)
Definition children (p : path) (d : disk) : list str :=
  flat_map (fun e => match child_of p (fst e) with Some c => [c] | None => [] end) d.

Definition is_dir (d : disk) (p : path) : bool :=
  match p with
  | [] => true
  | _ => match lookup d p with Some Dir => true | _ => false end
  end.

Definition parent (p : path) : path := removelast p.

(** [os.MkdirAll]: creates every missing directory along the path, outermost first; fails when a
    component exists and is a file. *)
Fixpoint mkdir_chain (pre rest : path) (d : disk) : option disk :=
  match rest with
  | [] => Some d
  | c :: rest' =>
      let q := pre ++ [c] in
      match lookup d q with
      | None => mkdir_chain q rest' ((q, Dir) :: d)
      | Some Dir => mkdir_chain q rest' d
      | Some (File _) => None
      end
  end.

(** * Primitive steps *)

Inductive which := Raw | Tmp.

Inductive fsstep :=
| Mkdir (p : path)                        (* os.MkdirAll(mb.path)                 file.dir.mkdir     *)
| Create (w : which) (p : path)           (* os.Create: create or truncate        file.add|index.create *)
| Write (w : which) (p : path) (b : str)  (* io.Copy / gob Encode into a bufio.Writer  ….write  *)
| Flush (w : which) (p : path) (b : str)  (* bufio.Writer.Flush: all of b is in the file  ….flush *)
| Close (w : which) (p : path)            (* file.Close                           ….close    *)
| Rename (p q : path)                     (* os.Rename(tmp, index)                file.index.rename  *)
| RemoveIdx (p : path)                    (* os.Remove(index), ENOENT tolerated   file.index.remove  *)
| RemoveRaw (p : path)                    (* os.Remove(raw)                       file.remove.raw    *)
| RemoveAll (p : path)                    (* os.RemoveAll(mb.path)                file.dir.removeall *)
| Rmdir (p : path).                       (* os.Remove of an empty parent dir     file.dir.rmdir     *)

(** What a step does when it runs to completion; [None] = the system call fails.
    After a completed [Write] the model shows the whole content although part of it may still sit in
    the user-space buffer: the states in which less (or anything else) is in the file are the
    [mid_step] states of [Write] and [Flush]. *)
Definition apply_step (s : fsstep) (d : disk) : option disk :=
  match s with
  | Mkdir p => mkdir_chain [] p d
  | Create _ p =>
      if is_dir d (parent p) then
        match lookup d p with
        | Some Dir => None
        | _ => Some (set p (File []) d)
        end
      else None
  | Write _ p b | Flush _ p b =>
      match lookup d p with
      | Some (File _) => Some (set p (File b) d)
      | _ => None
      end
  | Close _ p =>
      match lookup d p with
      | Some (File _) => Some d
      | _ => None
      end
  | Rename p q =>
      match lookup d p with
      | Some (File b) =>
          if is_dir d (parent q) then
            match lookup d q with
            | Some Dir => None
            | _ => Some (set q (File b) (del p d))
            end
          else None
      | _ => None
      end
  | RemoveIdx p =>
      match lookup d p with
      | None => Some d
      | Some (File _) => Some (del p d)
      | Some Dir => None
      end
  | RemoveRaw p =>
      match lookup d p with
      | Some (File _) => Some (del p d)
      | _ => None
      end
  | RemoveAll p => Some (del_tree p d)
  | Rmdir p =>
      match lookup d p with
      | Some Dir => match children p d with [] => Some (del p d) | _ => None end
      | _ => None
      end
  end.

(** Crash *inside* a step. Only three kinds of step are not atomic: writing file content (the file
    holds anything — in reality a prefix of the bytes; junk is the conservative over-approximation),
    RemoveAll (any subset of the entries is gone), MkdirAll (only an outer part of the chain exists). *)
Inductive variant :=
| VJunk (j : str)
| VKeep (keep : path -> bool)
| VDepth (n : nat).

Definition mid_step (v : variant) (s : fsstep) (d : disk) : option disk :=
  match s, v with
  | Write _ p _, VJunk j | Flush _ p _, VJunk j =>
      match lookup d p with
      | Some (File _) => Some (set p (File j) d)
      | _ => None
      end
  | RemoveAll p, VKeep keep => Some (del_tree_partial keep p d)
  | Mkdir p, VDepth n => mkdir_chain [] (firstn n p) d
  | _, _ => None
  end.

Fixpoint run (ss : list fsstep) (d : disk) : option disk :=
  match ss with
  | [] => Some d
  | s :: r => match apply_step s d with Some d' => run r d' | None => None end
  end.

(** The crash state "k steps done, then (optionally) died inside the next one". *)
Fixpoint crash_disk (k : nat) (v : option variant) (ss : list fsstep) (d : disk) : option disk :=
  match k with
  | O => match v with
         | None => Some d
         | Some v' => match ss with s :: _ => mid_step v' s d | [] => None end
         end
  | S k' => match ss with
            | s :: r => match apply_step s d with Some d' => crash_disk k' v r d' | None => None end
            | [] => None
            end
  end.

(** Every state a crash can leave while [ss] is executed from [d] (including [d] itself and the
    final state). *)
Inductive crash_reach : list fsstep -> disk -> disk -> Prop :=
| cr_here ss d : crash_reach ss d d
| cr_mid v s ss d d' : mid_step v s d = Some d' -> crash_reach (s :: ss) d d'
| cr_step s ss d d1 d' : apply_step s d = Some d1 -> crash_reach ss d1 d' -> crash_reach (s :: ss) d d'.

(** Total variants used to thread the disk through a program (a failing step leaves the disk as it is;
    [Proofs/FileDisk*.v] shows that no step of a program fails on a disk satisfying the invariant). *)
Definition app1 (s : fsstep) (d : disk) : disk :=
  match apply_step s d with Some d' => d' | None => d end.

Definition run' (ss : list fsstep) (d : disk) : disk := fold_left (fun d s => app1 s d) ss d.

Definition prog := disk -> list fsstep.

Definition pseq (a b : prog) : prog := fun d => let s := a d in s ++ b (run' s d).

Definition pnil : prog := fun _ => [].

(** * Mailbox layout *)

Definition idx_name : str := [105;110;100;101;120;46;103;111;98].                 (* index.gob *)
Definition tmp_name : str := [105;110;100;101;120;46;103;111;98;46;116;109;112]. (* index.gob.tmp *)
Definition raw_ext : str := [46;114;97;119].                                      (* .raw *)

(** fs.mbox / fs.mboxFromHash: mail/<hash[0:3]>/<hash[0:6]>/<hash> *)
Definition mbdir (h : str) : path := [firstn 3 h; firstn 6 h; h].
Definition l1dir (h : str) : path := [firstn 3 h].
Definition l2dir (h : str) : path := [firstn 3 h; firstn 6 h].
Definition idx (h : str) : path := mbdir h ++ [idx_name].
Definition tmp (h : str) : path := mbdir h ++ [tmp_name].
Definition raw (h id : str) : path := mbdir h ++ [id ++ raw_ext].

(** One index entry (file.Message): id, the delivery's metadata as an opaque token
    (date/from/to/subject), size, seen flag. *)
Record meta := mkmeta { m_id : str; m_info : str; m_size : N; m_seen : bool }.

Definition index := (str * list meta)%type.      (* mailbox name, messages in arrival order *)

Definition has_id (id : str) (ms : list meta) : bool := existsb (fun m => str_eqb (m_id m) id) ms.

Fixpoint remove_first (id : str) (ms : list meta) : list meta :=
  match ms with
  | [] => []
  | m :: r => if str_eqb (m_id m) id then r else m :: remove_first id r
  end.

Fixpoint mark_seen (id : str) (ms : list meta) : list meta :=
  match ms with
  | [] => []
  | m :: r => if str_eqb (m_id m) id then mkmeta (m_id m) (m_info m) (m_size m) true :: r
              else m :: mark_seen id r
  end.

Fixpoint find_id (id : str) (ms : list meta) : option meta :=
  match ms with
  | [] => None
  | m :: r => if str_eqb (m_id m) id then Some m else find_id id r
  end.

(** newMessage's loop: generate ids until one is not in the loaded index. The candidates are what
    the process-global generator (wall clock second + counter, restarting with the process) would
    produce; they are an input. *)
Fixpoint pick_id (cands : list str) (ms : list meta) : option str :=
  match cands with
  | [] => None
  | c :: r => if has_id c ms then pick_id r ms else Some c
  end.

(** newMessage: `for len(mb.messages) >= cap` with cap > 0. *)
Definition evict_count (cap : nat) (n : nat) : nat :=
  match cap with
  | O => O
  | _ => if Nat.leb cap n then S (n - cap) else O
  end.

Definition empty_dir (d : disk) (p : path) : bool :=
  match lookup d p with
  | Some Dir => match children p d with [] => true | _ => false end
  | _ => false
  end.

Inductive op :=
| Add (mb info body : str) (cands : list str)
| Seen (mb id : str)
| Remove (mb id : str)
| Purge (mb : str).

Inductive result := ROk | RId (id : str) | RNotExist | RErr | RSpin.

Definition op_mailbox (o : op) : str :=
  match o with Add mb _ _ _ => mb | Seen mb _ => mb | Remove mb _ => mb | Purge mb => mb end.

Section Store.
  (** gob encoding of the index and its decoder; stringutil.HashMailboxName; MailboxMsgCap. *)
  Variable enc : index -> str.
  Variable dec : str -> option index.
  Variable hash : str -> str.
  Variable cap : nat.

  (** mb.readIndex: a missing index is an empty mailbox (the name stays the caller's); an index
      that does not decode is an error; the decoded name replaces mb.name. *)
  Definition read_index (d : disk) (h : str) (caller : str) : option index :=
    match lookup d (idx h) with
    | None => Some (caller, [])
    | Some Dir => None
    | Some (File b) => dec b
    end.

  Definition content (d : disk) (h id : str) : option str :=
    match lookup d (raw h id) with Some (File c) => Some c | _ => None end.

  (** What a reader gets for the mailbox directory h: [None] = error ("corrupt mailbox"), else the
      messages in order, each with the mailbox name it reports, its index entry and what Source()
      returns ([None] = the .raw cannot be opened). *)
  Definition view (d : disk) (h : str) : option (list (str * meta * option str)) :=
    match read_index d h [] with
    | None => None
    | Some (nm, ms) => Some (map (fun m => (nm, m, content d h (m_id m))) ms)
    end.

  (** createDir: Stat, MkdirAll when missing. *)
  Definition p_mkdir (h : str) : prog :=
    fun d => match lookup d (mbdir h) with None => [Mkdir (mbdir h)] | Some _ => [] end.

  Definition p_file (w : which) (p : path) (b : str) : prog :=
    fun _ => [Create w p; Write w p b; Flush w p b; Close w p].

  (** removeDir's tail: the two parents, each only if it can be opened and is empty. *)
  Definition p_rmdirs (h : str) : prog :=
    fun d => if empty_dir d (l2dir h)
             then Rmdir (l2dir h) :: (if empty_dir (del (l2dir h) d) (l1dir h) then [Rmdir (l1dir h)] else [])
             else [].

  (** writeIndex *)
  Definition p_write_index (h nm : str) (ms : list meta) : prog :=
    match ms with
    | [] => pseq (fun _ => [RemoveIdx (idx h); RemoveAll (mbdir h)]) (p_rmdirs h)
    | _ => pseq (p_mkdir h)
             (fun d0 => p_file Tmp (tmp h) (enc (nm, ms)) d0 ++ [Rename (tmp h) (idx h)])
    end.

  (** removeMessage for an id that is in the loaded index *)
  Definition p_remove (h nm : str) (ms : list meta) (id : str) : prog :=
    let ms' := remove_first id ms in
    pseq (p_write_index h nm ms')
         (fun _ => match ms' with [] => [] | _ => [RemoveRaw (raw h id)] end).

  Fixpoint p_evict (n : nat) (h nm : str) (ms : list meta) : prog :=
    match n, ms with
    | S n', m :: ms' => pseq (p_remove h nm ms (m_id m)) (p_evict n' h nm ms')
    | _, _ => pnil
    end.

  Definition new_meta (id info body : str) : meta := mkmeta id info (N.of_nat (length body)) false.

  Definition steps (o : op) (d : disk) : list fsstep :=
    let h := hash (op_mailbox o) in
    match read_index d h (op_mailbox o) with
    | None => []
    | Some (nm, ms) =>
        match o with
        | Add _ info body cands =>
            let n := evict_count cap (length ms) in
            let ms1 := skipn n ms in
            match pick_id cands ms1 with
            | None => p_evict n h nm ms d
            | Some id =>
                pseq (p_evict n h nm ms)
                  (pseq (p_mkdir h)
                     (pseq (p_file Raw (raw h id) body)
                        (p_write_index h nm (ms1 ++ [new_meta id info body])))) d
            end
        | Seen _ id =>
            match find_id id ms with
            | None => []
            | Some m => if m_seen m then [] else p_write_index h nm (mark_seen id ms) d
            end
        | Remove _ id => if has_id id ms then p_remove h nm ms id d else []
        | Purge _ => p_write_index h nm [] d
        end
    end.

  Definition result_of (o : op) (d : disk) : result :=
    let h := hash (op_mailbox o) in
    match read_index d h (op_mailbox o) with
    | None => RErr
    | Some (nm, ms) =>
        match o with
        | Add _ info body cands =>
            match pick_id cands (skipn (evict_count cap (length ms)) ms) with
            | None => RSpin
            | Some id => RId id
            end
        | Seen _ id => match find_id id ms with None => RNotExist | Some _ => ROk end
        | Remove _ id => if has_id id ms then ROk else RNotExist
        | Purge _ => ROk
        end
    end.

  (** A completed operation. *)
  Definition exec (o : op) (d : disk) : disk := run' (steps o d) d.

  (** VisitMailboxes: three levels of Readdirnames, then getMessages of mboxFromHash(name3).
      [None] = the walk returns an error. *)
  Fixpoint visit_mboxes (d : disk) (names : list str) : option (list (list (str * meta * option str))) :=
    match names with
    | [] => Some []
    | n3 :: r =>
        match view d n3 with
        | None => None
        | Some v => match visit_mboxes d r with None => None | Some vs => Some (v :: vs) end
        end
    end.

  Fixpoint visit_l2 (d : disk) (n1 : str) (names : list str) : option (list (list (str * meta * option str))) :=
    match names with
    | [] => Some []
    | n2 :: r =>
        if is_dir d [n1; n2] then
          match visit_mboxes d (children [n1; n2] d) with
          | None => None
          | Some a => match visit_l2 d n1 r with None => None | Some b => Some (a ++ b) end
          end
        else None
    end.

  Fixpoint visit_l1 (d : disk) (names : list str) : option (list (list (str * meta * option str))) :=
    match names with
    | [] => Some []
    | n1 :: r =>
        if is_dir d [n1] then
          match visit_l2 d n1 (children [n1] d) with
          | None => None
          | Some a => match visit_l1 d r with None => None | Some b => Some (a ++ b) end
          end
        else None
    end.

  Definition visit (d : disk) : option (list (list (str * meta * option str))) :=
    visit_l1 d (children [] d).

End Store.

(** Rest — the HTTP surface of the store (C14): router + escaping, the v1 REST and web-UI
    handlers, StoreManager's glue, and the bundled Go client, over the abstract store of
    [Model/StoreSpec.v].

    What is modelled (the code as it is NOW):
      pkg/rest/client/{apiv1_client,rest}.go   [client_uri], [client_wire], [client_do]
         uri = "/api/v1/mailbox/" + url.QueryEscape(name) [+ "/" + id [+ "/source"]],
         baseURL.JoinPath(uri) (path.Join = Clean, trailing slash kept), redirects followed
      net/http + gorilla/mux                    [unescape], [clean_path], [route], [serve]
         the server unescapes the request path, mux answers 301 when the DECODED path is not
         clean and otherwise matches its templates against the DECODED path ({x} = [^/]+)
      pkg/rest/apiv1_controller.go, pkg/webui/mailbox_controller.go   [h_*]
         each handler as a function of what StoreManager hands back
      pkg/message/manager.go                    [mgr_get]
    and the SPECIFICATION side ([spec_serve], [spec_cop]): the request path is split into
    segments BEFORE unescaping (RFC 3986), the operation named by the route / client method is
    applied to the mailbox [mfa name] of the abstract store.

    [mfa] (StoreManager.MailboxForAddress = policy.ExtractMailbox) is the naming function of
    C04; here it is an arbitrary function [str -> option str].
    Ids on the wire: "latest", "k<decimal>" for the message of the k-th add to the addressed
    mailbox (the drivers translate to and from the back-end's id), anything else is an id no
    back-end issues.  No proofs in this file. *)
From IV Require Import Base.Bytes Model.StoreSpec.
Open Scope N_scope.

Definition slash : N := 47.
Definition dot : N := 46.
Definition pct : N := 37.

(* ------------------------------------------------------------------ escaping *)

Definition hexval (c : N) : option N :=
  if is_digit c then Some (c - 48)
  else if (97 <=? c) && (c <=? 102) then Some (c - 87)
  else if (65 <=? c) && (c <=? 70) then Some (c - 55)
  else None.

(** net/url unescape in path mode: %XX decoded, '+' kept, malformed escape = error. *)
Fixpoint unescape (s : str) : option str :=
  match s with
  | [] => Some []
  | c :: r =>
      if c =? pct then
        match r with
        | a :: b :: r' =>
            match hexval a, hexval b with
            | Some x, Some y => option_map (cons (x * 16 + y)) (unescape r')
            | _, _ => None
            end
        | _ => None
        end
      else option_map (cons c) (unescape r)
  end.

Definition unreserved (c : N) : bool :=
  is_alpha c || is_digit c || (c =? 45) || (c =? 95) || (c =? 46) || (c =? 126).

Definition hexdig (n : N) : N := if n <? 10 then 48 + n else 55 + n.
Definition pct_enc (c : N) : str := [pct; hexdig (c / 16); hexdig (c mod 16)].

(** url.QueryEscape, byte by byte. *)
Definition qesc_b (c : N) : str :=
  if unreserved c then [c] else if c =? 32 then [43] else pct_enc c.
Definition qescape (s : str) : str := flat_map qesc_b s.

(** escape(·, encodePath): what URL.String() writes for a decoded path (redirect Location). *)
Definition path_safe (c : N) : bool := unreserved c || mem_b c [36; 38; 43; 44; 47; 58; 59; 61; 64].
Definition pesc_b (c : N) : str := if path_safe c then [c] else pct_enc c.
Definition escape_path (s : str) : str := flat_map pesc_b s.

(* ------------------------------------------------------------------ path cleaning *)

Definition is_empty (s : str) : bool := match s with [] => true | _ => false end.
Definition is_dot (s : str) : bool := str_eqb s [dot].
Definition is_dotdot (s : str) : bool := str_eqb s [dot; dot].

(** path.Clean of a rooted path, on its segments; [acc] is the reversed result so far. *)
Fixpoint clean_stack (segs : list str) (acc : list str) : list str :=
  match segs with
  | [] => rev acc
  | s :: r =>
      if is_empty s || is_dot s then clean_stack r acc
      else if is_dotdot s then clean_stack r (tl acc)
      else clean_stack r (s :: acc)
  end.

Fixpoint join_slash (segs : list str) : str :=
  match segs with [] => [] | s :: r => slash :: s ++ join_slash r end.

Definition rooted (segs : list str) : str :=
  match segs with [] => [slash] | _ => join_slash segs end.

Definition ends_slash (p : str) : bool :=
  match last_opt p with Some c => c =? slash | None => false end.

(** mux.cleanPath on the server, path.Join + the trailing-slash rule of URL.JoinPath on the
    client: Clean, then one trailing slash is put back unless the result is "/". *)
Definition clean_path (p : str) : str :=
  let c := rooted (clean_stack (split_on slash p) []) in
  if ends_slash p && negb (str_eqb c [slash]) then c ++ [slash] else c.

(* ------------------------------------------------------------------ router *)

Inductive meth := GET | DELETE | PATCH | MOther.
Definition meth_eqb (a b : meth) : bool :=
  match a, b with GET, GET | DELETE, DELETE | PATCH, PATCH | MOther, MOther => true | _, _ => false end.

Inductive hid := HList | HPurge | HShow | HSeen | HDel | HSrc | UMsg | UHtml | USrc | UAtt.

Inductive routed :=
| RHandler (h : hid) (name id num : str)
| RNotFound | RNotAllowed
| ROther.        (* one of the routes this model does not describe (SPA, static, monitor, ...) *)

Definition s_api : str := [97; 112; 105]. Definition s_v1 := [118; 49]. Definition s_v2 := [118; 50].
Definition s_mailbox := [109; 97; 105; 108; 98; 111; 120]. Definition s_source := [115; 111; 117; 114; 99; 101].
Definition s_serve := [115; 101; 114; 118; 101]. Definition s_html := [104; 116; 109; 108]. Definition s_attach := [97; 116; 116; 97; 99; 104].
Definition s_latest := [108; 97; 116; 101; 115; 116]. Definition s_monitor := [109; 111; 110; 105; 116; 111; 114]. Definition s_messages := [109; 101; 115; 115; 97; 103; 101; 115].
Definition s_greeting := [103; 114; 101; 101; 116; 105; 110; 103]. Definition s_status := [115; 116; 97; 116; 117; 115]. Definition s_static := [115; 116; 97; 116; 105; 99].
Definition s_m := [109]. Definition s_favicon := [102; 97; 118; 105; 99; 111; 110; 46; 112; 110; 103]. Definition s_debug := [100; 101; 98; 117; 103].
Definition s_vars := [118; 97; 114; 115].

Fixpoint strip_prefix (pre segs : list str) : option (list str) :=
  match pre, segs with
  | [], _ => Some segs
  | p :: pre', s :: segs' => if str_eqb p s then strip_prefix pre' segs' else None
  | _ :: _, [] => None
  end.

(** {name} = [^/]+ : any non-empty segment. *)
Definition seg_ok (s : str) : bool := negb (is_empty s).

(** A wrong method. mux 1.8.1 remembers "method mismatch" only until the next route of the
    same subrouter is tried (its inherited prefix matcher matches and clears the error), so
    the configured 405 handler is reached only from the LAST route of a subrouter — the
    attachment route of the web UI (and the v2 mailbox monitor of the API, not modelled);
    every other wrong method is answered 404. *)
Definition only_get (m : meth) (h : hid) (name id num : str) : routed :=
  match m with GET => RHandler h name id num | _ => RNotFound end.
Definition only_get_last (m : meth) (h : hid) (name id num : str) : routed :=
  match m with GET => RHandler h name id num | _ => RNotAllowed end.

(** Routes below /api (pkg/rest/routes.go). *)
Definition route_api (m : meth) (r : list str) : routed :=
  match r with
  | v :: what :: tail =>
      if str_eqb v s_v1 && str_eqb what s_mailbox then
        match tail with
        | [name] =>
            if seg_ok name then
              match m with
              | GET => RHandler HList name [] []
              | DELETE => RHandler HPurge name [] []
              | _ => RNotFound
              end
            else RNotFound
        | [name; id] =>
            if seg_ok name && seg_ok id then
              match m with
              | GET => RHandler HShow name id []
              | PATCH => RHandler HSeen name id []
              | DELETE => RHandler HDel name id []
              | MOther => RNotFound
              end
            else RNotFound
        | [name; id; src] =>
            if seg_ok name && seg_ok id && str_eqb src s_source then only_get m HSrc name id [] else RNotFound
        | _ => RNotFound
        end
      else if (str_eqb v s_v1 || str_eqb v s_v2) && str_eqb what s_monitor then
        match tail with
        | [msgs] => if str_eqb msgs s_messages then ROther else RNotFound
        | [msgs; name] => if str_eqb msgs s_messages && seg_ok name then ROther else RNotFound
        | _ => RNotFound
        end
      else RNotFound
  | _ => RNotFound
  end.

(** Routes below /serve (pkg/webui/routes.go). *)
Definition route_serve (m : meth) (r : list str) : routed :=
  match r with
  | [x] => if str_eqb x s_greeting || str_eqb x s_status then ROther else RNotFound
  | mbx :: name :: id :: tail =>
      if str_eqb mbx s_mailbox && seg_ok name && seg_ok id then
        match tail with
        | [] => only_get m UMsg name id []
        | [x] => if str_eqb x s_html then only_get m UHtml name id []
                 else if str_eqb x s_source then only_get m USrc name id []
                 else RNotFound
        | [x; num; file] =>
            if str_eqb x s_attach && seg_ok num && seg_ok file then only_get_last m UAtt name id num else RNotFound
        | _ => RNotFound
        end
      else RNotFound
  | _ => RNotFound
  end.

(** The router as assembled by server.FullAssembly + web.NewServer; [base] = the segments of
    the configured base path. *)
Definition route (base : list str) (m : meth) (segs : list str) : routed :=
  match strip_prefix base segs with
  | None =>
      match base, segs with
      | _ :: _, [[]] => ROther          (* "/" redirects to the base path *)
      | _, _ => RNotFound
      end
  | Some rest =>
      match rest with
      | [] => ROther                    (* the base path without trailing slash redirects *)
      | a :: r =>
          if str_eqb a s_serve then route_serve m r
          else if str_eqb a s_api then route_api m r
          else if is_empty a then (match r with [] => ROther | _ => RNotFound end)   (* base ++ "/" : SPA *)
          else if str_eqb a s_monitor || str_eqb a s_status || str_eqb a s_favicon then
            (match r with [] => ROther | _ => RNotFound end)
          else if str_eqb a s_m then (match r with [] => RNotFound | _ => ROther end)
          else if has_prefix s_static a then ROther
          else if str_eqb a s_debug then (match r with [x] => if str_eqb x s_vars then ROther else RNotFound | _ => RNotFound end)
          else RNotFound
      end
  end.

(* ------------------------------------------------------------------ ids on the wire *)

Fixpoint all_digits (s : str) : bool :=
  match s with [] => true | c :: r => is_digit c && all_digits r end.

Fixpoint dec_val (s : str) (acc : N) : N :=
  match s with [] => acc | c :: r => dec_val r (acc * 10 + (c - 48)) end.

Definition handle_of_id (id : str) : handle :=
  if str_eqb id s_latest then Latest
  else match id with
       | 107 :: (_ :: _) as ds => if all_digits ds then Kth (N.to_nat (dec_val ds 0)) else Bogus
       | _ => Bogus
       end.

Fixpoint dec_fuel (fuel : nat) (n : N) (acc : str) : str :=
  match fuel with
  | O => acc
  | S f => let acc' := (48 + n mod 10) :: acc in
           if n <? 10 then acc' else dec_fuel f (n / 10) acc'
  end.
Definition dec (n : N) : str := dec_fuel (S (N.to_nat (N.log2 n))) n [].
Definition id_of_k (k : nat) : str := 107 :: dec (N.of_nat k).

(** strconv.ParseUint(s, 10, 32): one or more decimal digits (no sign, no underscore), any
    number of leading zeros, value below 2^32 (larger values are a range error). *)
Definition parse_uint32 (s : str) : option N :=
  match s with
  | [] => None
  | _ => if all_digits s then
           let v := dec_val s 0 in if v <? 4294967296 then Some v else None
         else None
  end.

(* ------------------------------------------------------------------ store answers, manager *)

Inductive err := ENil | ENotExist | EOther.

(** What [storage.Store.GetMessage] hands back: (Message, error), and whether the message's
    source can be opened and parsed. *)
Record get_ans := { ga_msg : option view; ga_err : err; ga_src : bool }.

(** The answers the repaired stores give (C07): a message and no error, or no message and an
    error. (nil, nil) — what the memory store answered before fix 0003 — is not among them. *)
Definition ans_wf (a : get_ans) : bool :=
  match ga_msg a, ga_err a with
  | Some _, ENil => true
  | None, ENotExist | None, EOther => true
  | _, _ => false
  end.

Definition ans_of_res (r : res view) : get_ans :=
  match r with
  | Ok v => {| ga_msg := Some v; ga_err := ENil; ga_src := true |}
  | NotExist => {| ga_msg := None; ga_err := ENotExist; ga_src := true |}
  | Err => {| ga_msg := None; ga_err := EOther; ga_src := true |}
  end.

Definition err_of_res (r : res unit) : err :=
  match r with Ok _ => ENil | NotExist => ENotExist | Err => EOther end.

(** StoreManager.GetMessage and StoreManager.SourceReader: nil and errors pass through; a
    message whose source cannot be opened (or parsed) is an error. *)
Definition mgr_get (a : get_ans) : option view * err :=
  match ga_err a, ga_msg a with
  | ENil, Some v => if ga_src a then (Some v, ENil) else (None, EOther)
  | e, _ => (None, e)
  end.

(* ------------------------------------------------------------------ handlers *)

Inductive status := S200 | S301 | S400 | S404 | S405 | S500 | SPanic | SOther.

(** Number of attachments and presence of an HTML part are functions of the content tag (the
    drivers build the message bodies accordingly): tag mod 4 = 3 carries one attachment. *)
Definition att_count (tag : N) : N := if tag mod 4 =? 3 then 1 else 0.
Definition has_html (tag : N) : bool := tag mod 4 =? 2.

Inductive payload :=
| PNone
| POk                                  (* JSON "OK" *)
| PList (mb : str) (l : list view)     (* JSON list of headers *)
| PMsg (mb : str) (rid : str) (v : view)   (* v1 JSON message; [rid] = the id AS REQUESTED (it appears in the attachment links) *)
| PUi (mb : str) (v : view)            (* web-UI JSON message *)
| PSrc (v : view)                      (* raw source *)
| PHtml (v : view)                     (* HTML part *)
| PAtt (v : view) (num : N)            (* attachment content *)
| PLoc (p : str).                      (* redirect target (decoded path) *)

Definition resp := (status * payload)%type.

Inductive bodyk := BTrue | BFalse | BBad.

Definition h_show (mb : str) (rid : str) (r : option view * err) : resp :=
  match r with
  | (_, EOther) => (S500, PNone)
  | (None, _) => (S404, PNone)
  | (Some v, _) => (S200, PMsg mb rid v)
  end.

Definition h_uimsg (mb : str) (r : option view * err) : resp :=
  match r with
  | (_, EOther) => (S500, PNone)
  | (None, _) => (S404, PNone)
  | (Some v, _) => (S200, PUi mb v)
  end.

Definition h_src (r : option view * err) : resp :=
  match r with
  | (_, EOther) => (S500, PNone)
  | (None, _) => (S404, PNone)
  | (Some v, _) => (S200, PSrc v)
  end.

(** MailboxHTML / MailboxSource (web UI) / MailboxViewAttach test the error only and then use
    the message: a nil message without error is a nil dereference. *)
Definition h_uihtml (r : option view * err) : resp :=
  match r with
  | (_, ENotExist) => (S404, PNone)
  | (_, EOther) => (S500, PNone)
  | (None, ENil) => (SPanic, PNone)
  | (Some v, ENil) => (S200, PHtml v)
  end.

Definition h_uisrc (r : option view * err) : resp :=
  match r with
  | (_, ENotExist) => (S404, PNone)
  | (_, EOther) => (S500, PNone)
  | (None, ENil) => (SPanic, PNone)
  | (Some v, ENil) => (S200, PSrc v)
  end.

Definition h_uiatt (num : N) (r : option view * err) : resp :=
  match r with
  | (_, ENotExist) => (S404, PNone)
  | (_, EOther) => (S500, PNone)
  | (None, ENil) => (SPanic, PNone)
  | (Some v, ENil) => if num <? att_count (m_tag (snd v)) then (S200, PAtt v num) else (S500, PNone)
  end.

(** MailboxMarkSeenV1 / MailboxDeleteV1 / MailboxPurgeV1 on the store's error. *)
Definition h_unit (e : err) : resp :=
  match e with ENil => (S200, POk) | ENotExist => (S404, PNone) | EOther => (S500, PNone) end.
Definition h_purge (e : err) : resp :=
  match e with ENil => (S200, POk) | _ => (S500, PNone) end.

(* ------------------------------------------------------------------ JSON models *)

(** Field by field what the handlers put into their JSON answers (pkg/rest/model/apiv1_model.go,
    pkg/webui/mailbox_json.go), as functions of the mailbox name the handler resolved and of the
    stored message. from / to / subject / text / html / attachment content are determined by
    the content tag (the drivers generate every one of them from it and recover the tag from
    each field separately), so each such field is "the tag as read from that field". *)
Record jheader := {
  jh_mailbox : str;        (* "mailbox": the canonical name the handler resolved *)
  jh_id : nat;             (* "id": the store's id of the message (as its handle number) *)
  jh_from : N; jh_to : N; jh_subject : N;     (* "from", "to", "subject" *)
  jh_date : Z;             (* "date" (RFC 3339 instant, as milliseconds) *)
  jh_millis : Z;           (* "posix-millis" *)
  jh_size : N;             (* "size": bytes of the stored source *)
  jh_seen : bool           (* "seen" *)
}.

Definition jheader_of (mb : str) (v : view) : jheader :=
  let m := snd v in
  {| jh_mailbox := mb; jh_id := fst v; jh_from := m_tag m; jh_to := m_tag m; jh_subject := m_tag m;
     jh_date := m_date m; jh_millis := m_date m; jh_size := m_size m; jh_seen := m_seen m |}.

(** One attachment of the v1 message: file name and content type are fixed by the generator
    ("a.bin", application/octet-stream), "md5" is that of the attachment content (the tag),
    download-link = view-link = http://host/serve/mailbox/<mailbox>/<id AS REQUESTED>/attach/<i>/<file>
    (no base path). *)
Record jattach := { ja_md5 : N; ja_link_mb : str; ja_link_id : str; ja_link_num : N }.

Record jmessage := {
  jm_h : jheader;
  jm_text : N;                          (* "body"."text" *)
  jm_html : option N;                   (* "body"."html" (None: empty) *)
  jm_hdr_from : N; jm_hdr_to : N; jm_hdr_subject : N;     (* "header": From / To / Subject of the MIME header *)
  jm_atts : list jattach                (* "attachments" *)
}.

Definition jatts_of (mb rid : str) (tag : N) : list jattach :=
  if att_count tag =? 0 then [] else [{| ja_md5 := tag; ja_link_mb := mb; ja_link_id := rid; ja_link_num := 0 |}].

Definition jmessage_of (mb rid : str) (v : view) : jmessage :=
  let tag := m_tag (snd v) in
  {| jm_h := jheader_of mb v; jm_text := tag; jm_html := if has_html tag then Some tag else None;
     jm_hdr_from := tag; jm_hdr_to := tag; jm_hdr_subject := tag; jm_atts := jatts_of mb rid tag |}.

(** The web-UI message: "text" is web.TextToHTML of the text part, "html" the sanitised HTML
    part, attachments are listed as (id = index, file name, content type), "errors" are the
    MIME errors (none for the generated messages). *)
Record juimessage := {
  ju_h : jheader; ju_text : N; ju_html : option N;
  ju_hdr_from : N; ju_hdr_to : N; ju_hdr_subject : N;
  ju_atts : list N;                     (* the ids "0", "1", … *)
  ju_errors : N
}.

Definition juimessage_of (mb : str) (v : view) : juimessage :=
  let tag := m_tag (snd v) in
  {| ju_h := jheader_of mb v; ju_text := tag; ju_html := if has_html tag then Some tag else None;
     ju_hdr_from := tag; ju_hdr_to := tag; ju_hdr_subject := tag;
     ju_atts := if att_count tag =? 0 then [] else [0]; ju_errors := 0 |}.

(** What a payload looks like on the wire, field by field. *)
Inductive jbody :=
| JNone | JOk
| JHeaders (l : list jheader)
| JMessage (m : jmessage)
| JUiMessage (m : juimessage)
| JSource (tag : N) | JHtml (tag : option N) | JAttachment (tag num : N)
| JLocation (p : str).

Definition render (p : payload) : jbody :=
  match p with
  | PNone => JNone
  | POk => JOk
  | PList mb l => JHeaders (map (jheader_of mb) l)
  | PMsg mb rid v => JMessage (jmessage_of mb rid v)
  | PUi mb v => JUiMessage (juimessage_of mb v)
  | PSrc v => JSource (m_tag (snd v))
  | PHtml v => JHtml (if has_html (m_tag (snd v)) then Some (m_tag (snd v)) else None)
  | PAtt v num => JAttachment (m_tag (snd v)) num
  | PLoc p => JLocation p
  end.

(* ------------------------------------------------------------------ server *)

Section Server.
Variable mfa : str -> option str.
Variable cfg : scfg.
(** Whether the stored content of message [k] of mailbox [mb] can (still) be opened: the file
    store looks a message up in the index under the mailbox lock and opens its content file
    later without one, so the file may have vanished meanwhile (a removal that completes in
    between, a lost file). [Message.Source()] then fails. An arbitrary function here. *)
Variable srcok : str -> nat -> bool.
Variable base : list str.

Definition get_res (o : obs) : res view := match o with OGet r => r | _ => Err end.
Definition unit_res (o : obs) : res unit := match o with OUnit r => r | _ => Err end.
Definition list_res (o : obs) : list view := match o with OList l => l | _ => [] end.

Definition with_src (mb : str) (a : get_ans) : get_ans :=
  {| ga_msg := ga_msg a; ga_err := ga_err a;
     ga_src := match ga_msg a with Some v => srcok mb (fst v) | None => true end |}.

Definition st_get (st : spec_store) (mb : str) (id : str) : get_ans :=
  let '(_, o, _) := exec_spec cfg st (Get mb (handle_of_id id)) in with_src mb (ans_of_res (get_res o)).

(** MarkSeen / RemoveMessage know no "latest": the id is compared literally. *)
Definition lit_handle (id : str) : handle :=
  match handle_of_id id with Latest => Bogus | h => h end.

Definition run_handler (st : spec_store) (h : hid) (name id num : str) (body : bodyk) : spec_store * resp :=
  match mfa name with
  | None => (st, (S500, PNone))
  | Some mb =>
      match h with
      | HList => let '(_, o, _) := exec_spec cfg st (Lst mb) in (st, (S200, PList mb (list_res o)))
      | HPurge => let '(st', o, _) := exec_spec cfg st (Purge mb) in (st', h_purge (err_of_res (unit_res o)))
      | HShow => (st, h_show mb id (mgr_get (st_get st mb id)))
      | HSeen =>
          match body with
          | BBad => (st, (S500, PNone))
          | BFalse => (st, (S200, POk))
          | BTrue => let '(st', o, _) := exec_spec cfg st (Seen mb (lit_handle id)) in (st', h_unit (err_of_res (unit_res o)))
          end
      | HDel => let '(st', o, _) := exec_spec cfg st (Remove mb (lit_handle id)) in (st', h_unit (err_of_res (unit_res o)))
      | HSrc => (st, h_src (mgr_get (st_get st mb id)))
      | UMsg => (st, h_uimsg mb (mgr_get (st_get st mb id)))
      | UHtml => (st, h_uihtml (mgr_get (st_get st mb id)))
      | USrc => (st, h_uisrc (mgr_get (st_get st mb id)))
      | UAtt =>
          match parse_uint32 num with
          | None => (st, (S500, PNone))
          | Some n => (st, h_uiatt n (mgr_get (st_get st mb id)))
          end
      end
  end.

Record request := { rq_meth : meth; rq_path : str; rq_body : bodyk }.

Definition dispatch (st : spec_store) (m : meth) (body : bodyk) (r : routed) : spec_store * resp :=
  match r with
  | RHandler h name id num => run_handler st h name id num body
  | RNotFound => (st, (S404, PNone))
  | RNotAllowed => (st, (S405, PNone))
  | ROther => (st, (SOther, PNone))
  end.

(** One request against the real server: unescape the path, redirect when the decoded path
    is not clean, match the decoded path. *)
Definition serve (st : spec_store) (rq : request) : spec_store * resp :=
  match unescape (rq_path rq) with
  | None => (st, (S400, PNone))
  | Some p =>
      let c := clean_path p in
      if negb (str_eqb c p) then (st, (S301, PLoc c))
      else match split_on slash p with
           | [] :: segs => dispatch st (rq_meth rq) (rq_body rq) (route base (rq_meth rq) segs)
           | _ => (st, (S400, PNone))
           end
  end.

(* --------------------------------------------------------- specification of a request *)

Fixpoint unescape_all (segs : list str) : option (list str) :=
  match segs with
  | [] => Some []
  | s :: r => match unescape s, unescape_all r with
              | Some s', Some r' => Some (s' :: r')
              | _, _ => None
              end
  end.

Definition is_handler (r : routed) : bool := match r with RHandler _ _ _ _ => true | _ => false end.

Definition plain_seg (s : str) : bool := negb (is_empty s || is_dot s || is_dotdot s).

(** The route a request path MEANS: split into segments, then unescape each (RFC 3986 §3.3).
    Unspecified (None) for malformed escapes and for empty or dot segments. *)
Definition spec_route (m : meth) (wire : str) : option routed :=
  match split_on slash wire with
  | [] :: (_ :: _) as segs =>
      if forallb plain_seg segs then
        match unescape_all segs with
        | Some segs' =>
            if forallb plain_seg segs' then
              match route base m segs' with
              | RHandler h name id num => Some (RHandler h name id num)
              | r => if existsb (fun m' => is_handler (route base m' segs')) [GET; DELETE; PATCH]
                     then None        (* a known path with another method: 404 or 405, not fixed by the property *)
                     else Some r
              end
            else None
        | None => None
        end
      else None
  | _ => None
  end.

Definition spec_get (st : spec_store) (mb : str) (id : str) : res view :=
  let '(_, o, _) := exec_spec cfg st (Get mb (handle_of_id id)) in get_res o.

(** What the operation behind a route must do and answer. None where the property does not
    fix the answer (unparsable mailbox name, undecodable PATCH body, bad attachment number,
    a PATCH that does not ask for seen=true). *)
Definition spec_handler (st : spec_store) (h : hid) (name id num : str) (body : bodyk) : option (spec_store * resp) :=
  match mfa name with
  | None => None
  | Some mb =>
      let on_msg (f : view -> resp) : option (spec_store * resp) :=
        match spec_get st mb id with
        | Ok v => if srcok mb (fst v) then Some (st, f v) else None   (* content gone: any well-formed answer *)
        | NotExist => Some (st, (S404, PNone))
        | Err => None
        end in
      match h with
      | HList => let '(_, o, _) := exec_spec cfg st (Lst mb) in Some (st, (S200, PList mb (list_res o)))
      | HPurge => let '(st', _, _) := exec_spec cfg st (Purge mb) in Some (st', (S200, POk))
      | HShow => on_msg (fun v => (S200, PMsg mb id v))
      | UMsg => on_msg (fun v => (S200, PUi mb v))
      | HSrc | USrc => on_msg (fun v => (S200, PSrc v))
      | UHtml => on_msg (fun v => (S200, PHtml v))
      | UAtt =>
          match parse_uint32 num with
          | None => None
          | Some n => on_msg (fun v => if n <? att_count (m_tag (snd v)) then (S200, PAtt v n) else (S500, PNone))
          end
      | HSeen =>
          match body with
          | BTrue =>
              let '(st', o, _) := exec_spec cfg st (Seen mb (lit_handle id)) in
              match unit_res o with
              | Ok _ => Some (st', (S200, POk))
              | NotExist => Some (st, (S404, PNone))
              | Err => None
              end
          | _ => None
          end
      | HDel =>
          let '(st', o, _) := exec_spec cfg st (Remove mb (lit_handle id)) in
          match unit_res o with
          | Ok _ => Some (st', (S200, POk))
          | NotExist => Some (st, (S404, PNone))
          | Err => None
          end
      end
  end.

Definition spec_serve (st : spec_store) (rq : request) : option (spec_store * resp) :=
  match spec_route (rq_meth rq) (rq_path rq) with
  | Some (RHandler h name id num) => spec_handler st h name id num (rq_body rq)
  | Some RNotFound => Some (st, (S404, PNone))
  | Some RNotAllowed => Some (st, (S405, PNone))
  | Some ROther | None => None
  end.

(* ------------------------------------------------------------------ the Go client *)

Inductive cop :=
| CList (name : str) | CGet (name id : str) | CSeen (name id : str) | CSrc (name id : str)
| CDel (name id : str) | CPurge (name : str)
(* convenience methods of MessageHeader (i-th entry of ListMailbox name) and Message *)
| CHGet (name : str) (i : nat) | CHSrc (name : str) (i : nat) | CHDel (name : str) (i : nat)
| CMSrc (name id : str) | CMDel (name id : str).

Inductive cres :=
| CErr | COkUnit
| COkList (mb : str) (l : list view)
| COkMsg (mb : str) (v : view)
| COkSrc (v : view)
| COkRaw.   (* GetMessageSource hands back the body of ANY 200 answer: here one that is not a message source *)

Definition s_prefix : str := [47; 97; 112; 105; 47; 118; 49; 47; 109; 97; 105; 108; 98; 111; 120; 47].

Definition client_uri (name : str) (tail : list str) : str :=
  s_prefix ++ qescape name ++ join_slash tail.

(** restClient.do: baseURL.JoinPath(uri); [cbase] is the escaped path of the base URL
    ("" or "/x/y"). *)
Definition client_wire (cbase : str) (uri : str) : str :=
  clean_path ((match cbase with [] => [slash] | _ => cbase end) ++ slash :: uri).

(** One round trip, following a redirect the way net/http's client does (301 ⇒ GET). *)
Definition client_send (cbase : str) (st : spec_store) (m : meth) (uri : str) (body : bodyk) : spec_store * resp :=
  let '(st1, r) := serve st {| rq_meth := m; rq_path := client_wire cbase uri; rq_body := body |} in
  match r with
  | (S301, PLoc p) => serve st1 {| rq_meth := GET; rq_path := escape_path p; rq_body := BBad |}
  | _ => (st1, r)
  end.

Definition c_list cbase st name : spec_store * cres :=
  let '(st', r) := client_send cbase st GET (client_uri name []) BBad in
  match r with (S200, PList mb l) => (st', COkList mb l) | _ => (st', CErr) end.

Definition c_get cbase st name id : spec_store * cres :=
  let '(st', r) := client_send cbase st GET (client_uri name [id]) BBad in
  match r with (S200, PMsg mb _ v) => (st', COkMsg mb v) | _ => (st', CErr) end.

Definition c_src cbase st name id : spec_store * cres :=
  let '(st', r) := client_send cbase st GET (client_uri name [id; s_source]) BBad in
  match r with
  | (S200, PSrc v) => (st', COkSrc v)
  | (S200, _) => (st', COkRaw)
  | _ => (st', CErr)
  end.

Definition c_unit cbase st (m : meth) (uri : str) (body : bodyk) : spec_store * cres :=
  let '(st', r) := client_send cbase st m uri body in
  match r with (S200, _) => (st', COkUnit) | _ => (st', CErr) end.

Definition nth_view (l : list view) (i : nat) : option view := nth_error l i.

Definition client_do (cbase : str) (st : spec_store) (op : cop) : spec_store * cres :=
  match op with
  | CList name => c_list cbase st name
  | CGet name id => c_get cbase st name id
  | CSeen name id => c_unit cbase st PATCH (client_uri name [id]) BTrue
  | CSrc name id => c_src cbase st name id
  | CDel name id => c_unit cbase st DELETE (client_uri name [id]) BBad
  | CPurge name => c_unit cbase st DELETE (client_uri name []) BBad
  | CHGet name i =>
      match c_list cbase st name with
      | (st', COkList mb l) => match nth_view l i with Some v => c_get cbase st' mb (id_of_k (fst v)) | None => (st', CErr) end
      | (st', _) => (st', CErr)
      end
  | CHSrc name i =>
      match c_list cbase st name with
      | (st', COkList mb l) => match nth_view l i with Some v => c_src cbase st' mb (id_of_k (fst v)) | None => (st', CErr) end
      | (st', _) => (st', CErr)
      end
  | CHDel name i =>
      match c_list cbase st name with
      | (st', COkList mb l) => match nth_view l i with Some v => c_unit cbase st' DELETE (client_uri mb [id_of_k (fst v)]) BBad | None => (st', CErr) end
      | (st', _) => (st', CErr)
      end
  | CMSrc name id =>
      match c_get cbase st name id with
      | (st', COkMsg mb v) => c_src cbase st' mb (id_of_k (fst v))
      | (st', _) => (st', CErr)
      end
  | CMDel name id =>
      match c_get cbase st name id with
      | (st', COkMsg mb v) => c_unit cbase st' DELETE (client_uri mb [id_of_k (fst v)]) BBad
      | (st', _) => (st', CErr)
      end
  end.

Definition cop_name (op : cop) : str :=
  match op with
  | CList n | CPurge n | CHGet n _ | CHSrc n _ | CHDel n _ => n
  | CGet n _ | CSeen n _ | CSrc n _ | CDel n _ | CMSrc n _ | CMDel n _ => n
  end.

(** What a client method must do: the operation its name says on the mailbox of [name].
    Unspecified (None) for a name that is no mailbox address at all (it cannot receive mail). *)
Definition spec_cop (st : spec_store) (op : cop) : option (spec_store * cres) :=
  match mfa (cop_name op) with
  | None => None
  | Some mb =>
  let box_of := let '(_, o, _) := exec_spec cfg st (Lst mb) in list_res o in
  let get id (f : view -> spec_store * cres) : spec_store * cres :=
    match spec_get st mb id with Ok v => f v | _ => (st, CErr) end in
  let remove h : spec_store * cres :=
    let '(st', o, _) := exec_spec cfg st (Remove mb h) in
    match unit_res o with Ok _ => (st', COkUnit) | _ => (st, CErr) end in
  Some match op with
  | CList _ => (st, COkList mb box_of)
  | CGet _ id => get id (fun v => (st, COkMsg mb v))
  | CSeen _ id =>
      let '(st', o, _) := exec_spec cfg st (Seen mb (lit_handle id)) in
      match unit_res o with Ok _ => (st', COkUnit) | _ => (st, CErr) end
  | CSrc _ id | CMSrc _ id => get id (fun v => (st, COkSrc v))
  | CDel _ id => remove (lit_handle id)
  | CMDel _ id => get id (fun v => remove (Kth (fst v)))
  | CPurge _ => let '(st', _, _) := exec_spec cfg st (Purge mb) in (st', COkUnit)
  | CHGet _ i => match nth_view box_of i with Some v => (st, COkMsg mb v) | None => (st, CErr) end
  | CHSrc _ i => match nth_view box_of i with Some v => (st, COkSrc v) | None => (st, CErr) end
  | CHDel _ i => match nth_view box_of i with Some v => remove (Kth (fst v)) | None => (st, CErr) end
  end
  end.

(* ------------------------------------------------------------------ histories *)

Inductive hop :=
| HAdd (mb : str) (date : Z) (tag size : N)
| HReq (rq : request)
| HCli (op : cop)
(* a request racing with a removal of message [k] of [mb] that completes between the look-up of
   the message and the opening of its content: the request is served (with [srcok mb k] as the
   environment says), then the message is gone *)
| HRace (rq : request) (mb : str) (k : nat).

Inductive hout := OAdded (k : nat) | OResp (r : resp) | OCli (c : cres).

Definition hstep (cbase : str) (st : spec_store) (o : hop) : spec_store * hout :=
  match o with
  | HAdd mb date tag size =>
      let '(st', ob, _) := exec_spec cfg st (Add mb date tag size) in
      (st', OAdded (match ob with OAdd k _ => k | _ => O end))
  | HReq rq => let '(st', r) := serve st rq in (st', OResp r)
  | HCli op => let '(st', c) := client_do cbase st op in (st', OCli c)
  | HRace rq mb k =>
      let '(st', r) := serve st rq in
      (fst (fst (exec_spec cfg st' (Remove mb (Kth k)))), OResp r)
  end.

Definition hspec (st : spec_store) (o : hop) : option (spec_store * hout) :=
  match o with
  | HAdd mb date tag size =>
      let '(st', ob, _) := exec_spec cfg st (Add mb date tag size) in
      Some (st', OAdded (match ob with OAdd k _ => k | _ => O end))
  | HReq rq => match spec_serve st rq with Some (st', r) => Some (st', OResp r) | None => None end
  | HCli op => match spec_cop st op with Some (st', c) => Some (st', OCli c) | None => None end
  | HRace rq mb k =>
      match spec_serve st rq with
      | Some (st', r) => Some (fst (fst (exec_spec cfg st' (Remove mb (Kth k)))), OResp r)
      | None => None
      end
  end.

End Server.

(** stringutil.MakePathPrefixer: the configured base path, slashes trimmed, as segments
    (a base path with an empty inner segment, "a//b", registers routes no clean path can reach
    and is outside the model). *)
Definition base_of_config (s : str) : list str := filter seg_ok (split_on slash s).

(** Path of a structured request, as the drivers assemble it:
    tmpl 0 /api/v1/mailbox/N   1 /api/v1/mailbox/N/I   2 /api/v1/mailbox/N/I/source
         3 /serve/mailbox/N/I  4 .../html  5 .../source  6 .../attach/NUM/FILE
    [wname], [id], [num], [file] are already escaped. *)
Definition req_path (base : list str) (tmpl : N) (wname id num file : str) : str :=
  join_slash base ++
  (if tmpl <? 3 then join_slash [s_api; s_v1; s_mailbox; wname] else join_slash [s_serve; s_mailbox; wname]) ++
  (if tmpl =? 0 then [] else slash :: id) ++
  (if (tmpl =? 2) || (tmpl =? 5) then slash :: s_source
   else if tmpl =? 4 then slash :: s_html
   else if tmpl =? 6 then join_slash [s_attach; num; file]
   else []).

(** C09 — specification of the memory store WITH the size limit under concurrent use.

    Sequentially (C08, StoreSpec.spec_add) a delivery appends, applies the cap, and then evicts the
    globally oldest messages until the store fits — one atomic action.  The real store is
    legitimately weaker under concurrency, and this specification says exactly how:

    * an operation is a short sequence of ATOMIC sub-actions, all of them inside the operation's
      call/return interval, in this order:
        delivery : [mailbox section: insert + cap]  [tell the enforcer about each cap eviction]
                   [register with the enforcer]  [unlink each victim of the size limit]
        removal  : [mailbox section: unlink]  [tell the enforcer]
        purge    : [mailbox section: unlink all]  [tell the enforcer about each, any order]
        reads, mark-seen : one mailbox section;  walk : one listing per mailbox
    * the enforcer's book ([q_reg]: registered messages, oldest REGISTRATION first) changes only
      at "tell" and "register" sub-actions: a message already unlinked by a client but not yet
      told about still counts, a delivered but not yet registered message does not;
    * "register" appends the message (unless the enforcer was already told it is gone), and fixes
      the victims at once: the shortest prefix of the book whose removal makes the book fit;
      the victims are then unlinked one by one (other mailbox sections may interleave), and no
      other "tell"/"register" happens until the last victim is unlinked (the enforcer is busy).

    [qstep] is total and executable; the runner searches for an interleaving of sub-actions,
    consistent with the observed intervals, that explains the observed results and final content.
    No proofs in this file. *)
From IV Require Import Model.Conc Model.ConcMem.

Inductive qafter := AfterReg (m : msg) | AfterDone (r : res).

Inductive qpc :=
| QStart (o : op)
| QNotify (mb : mbname) (ms : list msg) (anyorder : bool) (k : qafter)
| QRegister (mb : mbname) (m : msg)
| QEvict (vs : list ent) (r : res)
| QVisit (mb : mbname) (rest : list mbname) (acc : list (mbname * view))
| QDone (r : res).

Record qstate := mkQ {
  q_store : sstore;
  q_reg : list ent;           (* the enforcer's book, oldest registration first *)
  q_gone : list N;            (* tags the enforcer was told about before they registered *)
  q_busy : bool               (* victims of a registration are still being unlinked *)
}.
Definition q0 : qstate := mkQ [] [] [] false.

Fixpoint qtotal (l : list ent) : Z := match l with [] => 0%Z | k :: l' => (esize k + qtotal l')%Z end.

(** Shortest prefix whose removal makes the book fit: (victims, rest). *)
Fixpoint evict_fit (max : Z) (l : list ent) : list ent * list ent :=
  match l with
  | [] => ([], [])
  | k :: l' => if (qtotal l <=? max)%Z then ([], l)
               else let (d, r) := evict_fit max l' in (k :: d, r)
  end.

Definition qtouch (mb : mbname) (s : sstore) : sstore := aset mb (sget mb s) s.

Definition after_pc (mb : mbname) (k : qafter) : qpc :=
  match k with AfterReg m => QRegister mb m | AfterDone r => QDone r end.

Definition notify_pc (limit : bool) (mb : mbname) (ms : list msg) (anyorder : bool) (k : qafter) : qpc :=
  if limit then match ms with [] => after_pc mb k | _ => QNotify mb ms anyorder k end
  else match k with AfterReg m => QDone (RId (m_id m)) | AfterDone r => QDone r end.

(** One sub-action of a thread whose remaining program is [p]. [None]: not enabled now. *)
Definition qstep (cap : N) (max : option Z) (q : qstate) (p : qpc) (c : nat) : option (qstate * qpc) :=
  let limit := match max with Some _ => true | None => false end in
  let st := q_store q in
  let with_store s' := mkQ s' (q_reg q) (q_gone q) (q_busy q) in
  match p with
  | QDone _ => None
  | QStart o =>
      match o with
      | OAdd mb tag size =>
          let '(id, b1) := box_insert tag size (sget mb st) in
          let '(b2, ev) := box_cap cap b1 in
          let m := mkMsg tag id size false in
          Some (with_store (aset mb b2 st), notify_pc limit mb ev false (AfterReg m))
      | OGet mb id => Some (with_store (qtouch mb st), QDone (box_get id (sget mb st)))
      | OLatest mb => Some (with_store (qtouch mb st), QDone (box_latest (sget mb st)))
      | OList mb => Some (with_store (qtouch mb st), QDone (box_list (sget mb st)))
      | OSeen mb id =>
          match box_seen id (sget mb st) with
          | (b, ROk) => Some (with_store (aset mb b st), QDone ROk)
          | (_, r) => Some (with_store (qtouch mb st), QDone r)
          end
      | ORemove mb id =>
          match box_remove id (sget mb st) with
          | (b, Some m) => Some (with_store (aset mb b st), notify_pc limit mb [m] false (AfterDone ROk))
          | (_, None) => Some (with_store (qtouch mb st), QDone RNotExist)
          end
      | OPurge mb =>
          let '(b, ms) := box_purge (sget mb st) in
          Some (with_store (aset mb b st), notify_pc limit mb ms true (AfterDone ROk))
      | OVisit =>
          match pick c (map fst st) with
          | None => Some (q, QDone (RVisit []))
          | Some (mb, rest) => Some (q, QVisit mb rest [])
          end
      end
  | QNotify mb ms anyorder k =>
      if q_busy q then None else
      match (if anyorder then pick c ms else pick 0 ms) with
      | None => Some (q, after_pc mb k)
      | Some (m, rest) =>
          let q' := match ent_take (m_tag m) (q_reg q) with
                    | Some (_, reg') => mkQ st reg' (q_gone q) false
                    | None => mkQ st (q_reg q) (m_tag m :: q_gone q) false
                    end in
          Some (q', match rest with [] => after_pc mb k | _ => QNotify mb rest anyorder k end)
      end
  | QRegister mb m =>
      if q_busy q then None else
      if tag_mem (m_tag m) (q_gone q) then Some (q, QDone (RId (m_id m))) else
      match max with
      | None => Some (q, QDone (RId (m_id m)))
      | Some mx =>
          let '(vs, reg') := evict_fit mx (q_reg q ++ [(mb, m)]) in
          match vs with
          | [] => Some (mkQ st reg' (q_gone q) false, QDone (RId (m_id m)))
          | _ => Some (mkQ st reg' (q_gone q) true, QEvict vs (RId (m_id m)))
          end
      end
  | QEvict vs r =>
      match vs with
      | [] => Some (mkQ st (q_reg q) (q_gone q) false, QDone r)
      | v :: vs' =>
          let b := fst (box_remove (m_id (snd v)) (sget (fst v) st)) in
          let q' := mkQ (aset (fst v) b st) (q_reg q) (q_gone q) (match vs' with [] => false | _ => true end) in
          Some (q', match vs' with [] => QDone r | _ => QEvict vs' r end)
      end
  | QVisit mb rest acc =>
      let acc' := acc ++ [(mb, view_of (b_msgs (sget mb st)))] in
      match pick c rest with
      | None => Some (q, QDone (RVisit acc'))
      | Some (mb', rest') => Some (q, QVisit mb' rest' acc')
      end
  end.

(** Number of alternatives of the next sub-action (iteration orders). *)
Definition qchoices (q : qstate) (p : qpc) : nat :=
  match p with
  | QStart OVisit => Nat.max 1 (length (q_store q))
  | QNotify _ ms true _ => Nat.max 1 (length ms)
  | QVisit _ rest _ => Nat.max 1 (length rest)
  | _ => 1
  end.

(** An operation run alone, to completion (preparation of the initial state). *)
Fixpoint qdrive (fuel : nat) (cap : N) (max : option Z) (q : qstate) (p : qpc) : option (qstate * res) :=
  match fuel with
  | O => None
  | S f => match p with
           | QDone r => Some (q, r)
           | _ => match qstep cap max q p 0 with
                  | Some (q', p') => qdrive f cap max q' p'
                  | None => None
                  end
           end
  end.

(** POP3 STLS as coded (pkg/server/pop3/handler.go, authorizationHandler "STLS"; startSession's
    ForceTLS branch): the reply depends on whether TLS is configured and on [Server.tlsState] — a
    field of the SERVER, shared by all its sessions through the embedded *Server —, never on the
    context or the listener; a successful STLS wraps the connection and leaves the protocol
    position where it was. Layer over Model/Lifecycle.v. No proofs in this file. *)
From IV Require Import Base.Bytes Model.Lifecycle.
Local Open Scope nat_scope.

Record sys3 := mkSys3 {
  b3 : sys;
  tls_configured : bool;      (* Server.tlsConfig != nil *)
  tls_state : bool;           (* Server.tlsState != nil *)
  upgraded : list nat         (* sessions whose connection has been wrapped *)
}.

Inductive sreply := SOk | SErrUnavailable | SErrAlready | SErrSequence.

Inductive action3 :=
| Stls (i : nat)
| O3 (a : action).

(** AUTHORIZATION state: before PASS has succeeded. *)
Definition in_authorization (p : phase) : bool := match p with Greeted | PUser => true | _ => false end.

Definition step3 (y : sys3) (a : action3) : option (sys3 * option sreply) :=
  match a with
  | Stls i =>
      match find_s i (ss (sv (b3 y))) with
      | None => None
      | Some s =>
          if negb (running (ph s)) then None
          else if negb (in_authorization (ph s)) then Some (y, Some SErrSequence)    (* TRANSACTION: not a command there *)
          else if negb (tls_configured y) then Some (y, Some SErrUnavailable)
          else if tls_state y then Some (y, Some SErrAlready)
          else Some (mkSys3 (b3 y) true true (i :: upgraded y), Some SOk)
      end
  | O3 a' => match step (b3 y) a' with
             | Some b => Some (mkSys3 b (tls_configured y) (tls_state y) (upgraded y), None)
             | None => None
             end
  end.

Fixpoint run3 (y : sys3) (acts : list action3) : option (sys3 * list sreply) :=
  match acts with
  | [] => Some (y, [])
  | a :: t =>
      match step3 y a with
      | None => None
      | Some (y', r) =>
          match run3 y' t with
          | None => None
          | Some (y'', rs) => Some (y'', match r with Some x => x :: rs | None => rs end)
          end
      end
  end.

Definition sys3_init (configured : bool) : sys3 := mkSys3 (sys_init PPop3) configured false [].

(** the shutdown flags of a state, replaced *)
Definition with_flags (y : sys3) (c l : bool) : sys3 :=
  mkSys3 (mkSys c (mkSrv (pr (sv (b3 y))) l (wg (sv (b3 y))) (ss (sv (b3 y))))) (tls_configured y) (tls_state y) (upgraded y).

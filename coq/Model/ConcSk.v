(** C09 — synchronisation skeleton of a Go function, as the translator (go/cmd/pins/c09_locks.go) reads it from the
    source: the lock / unlock calls, the channel operations, the instrumentation points, the calls to other
    functions of the same table and the control structure around them — everything else pruned.  Gen/StoreLocks.v
    holds the skeletons of pkg/storage/mem (store.go, maxsize.go) and pkg/storage/file (fstore.go, mbox.go),
    regenerated on every run.  [disciplined] is the lock discipline both stores follow; no proofs in this file. *)
From Coq Require Export List String Bool.
Export ListNotations.
Open Scope string_scope.

Inductive sk :=
| KLock (o : string) | KRLock (o : string)          (* o.Lock() / o.RLock(): o is the receiver expression *)
| KUnlock (o : string) | KRUnlock (o : string)
| KWith (mode : string) (body : list sk)            (* s.withMailbox(_, mode, func(mb *mbox) { body }) *)
| KCall (f : string)                                (* call of another function of the table *)
| KCallback (f : string)                            (* call of a function-typed parameter of this function *)
| KGo (f : string)                                  (* go f(...) *)
| KPoint (name : string)                            (* verifhook.Point(name, _) *)
| KSend (ch : string) | KRecv (ch : string) | KClose (ch : string)
| KAlt (arms : list (list sk))                      (* if/else, switch, select: one list per arm (comm first) *)
| KLoop (body : list sk)                            (* for / range: condition, body, post *)
| KDefer (body : list sk)
| KReturn | KBreak | KContinue.

Definition table := list (string * list sk).

Fixpoint lookup (f : string) (t : table) : option (list sk) :=
  match t with [] => None | (g, b) :: t' => if String.eqb f g then Some b else lookup f t' end.

(** A LEAF lock: every acquisition of it is released by the very next synchronisation event of the same piece of
    code (nothing that could block — no lock, no call into the table, no channel operation, no callback — happens
    while it is held).  Whoever holds a leaf lock always releases it, so taking one while holding other locks
    cannot close a waiting cycle. *)
Fixpoint leaf_ev (o : string) (e : sk) : bool :=
  let go := fix go (l : list sk) : bool :=
    match l with
    | [] => true
    | x :: l' =>
        match x with
        | KLock o' | KRLock o' =>
            if String.eqb o o'
            then match l' with
                 | (KUnlock o'' | KRUnlock o'') :: _ => String.eqb o o'' && go l'
                 | _ => false
                 end
            else go l'
        | _ => leaf_ev o x && go l'
        end
    end in
  match e with
  | KWith _ b | KLoop b | KDefer b => go b
  | KAlt arms => (fix goa (a : list (list sk)) : bool := match a with [] => true | x :: a' => go x && goa a' end) arms
  | KLock o' | KRLock o' => negb (String.eqb o o')      (* an acquisition not seen by [go]: only as a lone event *)
  | _ => true
  end.
Definition is_leaf (tbl : table) (o : string) : bool :=
  forallb (fun fb => leaf_ev o (KLoop (snd fb))) tbl.

(** The discipline, as an abstract run over the locks held (names of receiver expressions; all mailbox locks are
    one name, which is conservative: a goroutine never holds two of them):
    - a lock is acquired only while NO lock is held (so: never the lock already held — Go's mutexes are not
      reentrant —, and no lock order to respect at all), unless it is a leaf lock, and never one already held;
    - no channel operation and no call of a caller-supplied callback while a lock is held — except the callback of
      withMailbox, whose body is run in place, and except a receive from a channel listed in [free] (the file
      store draws the serial number of a new message id from a buffered channel that a goroutine without any
      synchronisation of its own keeps filled; that receive happens under the bucket lock);
    - an unlock releases the lock acquired last; both arms of a branch, and a loop body, leave the same locks held;
    - a function returns (by any path, after its deferred calls) with what it was entered with.
    [st]: [None] = this path has ended (return/break/continue), [Some held] otherwise. *)
Record ctx := mkCtx {
  c_entry : list string;      (* held at function entry: every return must restore it *)
  c_loop : option (list string);  (* held at the head of the innermost loop: break/continue must restore it *)
  c_cb : option (list sk)     (* the body to run for KCallback (inside withMailbox), if any *)
}.

Definition same (a b : list string) : bool :=
  if list_eq_dec string_dec a b then true else false.

Definition merge (a b : option (list string)) : option (option (list string)) :=
  match a, b with
  | None, x | x, None => Some x
  | Some x, Some y => if same x y then Some (Some x) else None
  end.

(** [walk] result: [None] = discipline broken; otherwise the state after the piece of code, the deferred calls
    registered so far (most recent first) and the return points met, each with what is held there and the deferred
    calls pending there. *)
Definition obl := (list string * list (list sk))%type.

Section Walk.
  Variable free : list string.   (* channels a goroutine may receive from while holding a lock, see below *)
  Variable tbl : table.

  Definition res3 := option (option (list string) * list (list sk) * list obl).

  Fixpoint run_fn (fuel : nat) (cb : option (list sk)) (held : list string) (body : list sk) {struct fuel}
    : option (list string) :=
    match fuel with
    | O => None
    | S fuel' =>
      let fix ev (e : sk) (c : ctx) (h : list string) (dfr : list (list sk)) (rets : list obl) {struct e} : res3 :=
        let walk :=
          fix walk (l : list sk) (c : ctx) (st : option (list string)) (dfr : list (list sk)) (rets : list obl)
              {struct l} : res3 :=
            match l with
            | [] => Some (st, dfr, rets)
            | e' :: l' =>
                match st with
                | None => Some (None, dfr, rets)        (* dead code after return/break *)
                | Some h' => match ev e' c h' dfr rets with
                             | Some (st', dfr', rets') => walk l' c st' dfr' rets'
                             | None => None
                             end
                end
            end in
        match e with
        | KLock o | KRLock o =>
            match h with
            | [] => Some (Some [o], dfr, rets)
            | _ => if is_leaf tbl o && negb (existsb (String.eqb o) h) then Some (Some (o :: h), dfr, rets) else None
            end
        | KUnlock o | KRUnlock o =>
            match h with o' :: h' => if String.eqb o o' then Some (Some h', dfr, rets) else None | [] => None end
        | KWith _ body =>
            match lookup "Store.withMailbox" tbl with
            | Some wm => match run_fn fuel' (Some body) h wm with Some h' => Some (Some h', dfr, rets) | None => None end
            | None => None
            end
        | KCall f =>
            match lookup f tbl with
            | Some b => match run_fn fuel' None h b with Some h' => Some (Some h', dfr, rets) | None => None end
            | None => None
            end
        | KCallback _ =>
            match c_cb c with
            | Some body => match run_fn fuel' None h body with Some h' => Some (Some h', dfr, rets) | None => None end
            | None => match h with [] => Some (Some h, dfr, rets) | _ => None end
            end
        | KGo _ | KPoint _ => Some (Some h, dfr, rets)
        | KRecv ch =>
            if existsb (String.eqb ch) free then Some (Some h, dfr, rets)
            else match h with [] => Some (Some h, dfr, rets) | _ => None end
        | KSend _ | KClose _ => match h with [] => Some (Some h, dfr, rets) | _ => None end
        | KAlt arms =>
            (fix alts (acc : option (list string)) (rets : list obl) (arms : list (list sk)) {struct arms} : res3 :=
               match arms with
               | [] => Some (acc, dfr, rets)
               | a :: arms' =>
                   match walk a c (Some h) dfr rets with
                   | Some (st', dfr', rets') =>
                       (* a defer inside a branch is not supported *)
                       if Nat.eqb (List.length dfr') (List.length dfr)
                       then match merge acc st' with Some m => alts m rets' arms' | None => None end
                       else None
                   | None => None
                   end
               end) None rets arms
        | KLoop body =>
            match walk body (mkCtx (c_entry c) (Some h) (c_cb c)) (Some h) dfr rets with
            | Some (st', dfr', rets') =>
                if Nat.eqb (List.length dfr') (List.length dfr)
                then match merge (Some h) st' with Some m => Some (m, dfr, rets') | None => None end
                else None
            | None => None
            end
        | KDefer body => Some (Some h, body :: dfr, rets)
        | KReturn => Some (None, dfr, (h, dfr) :: rets)
        | KBreak | KContinue =>
            match c_loop c with Some hl => if same h hl then Some (None, dfr, rets) else None | None => None end
        end in
      let fix walk (l : list sk) (c : ctx) (st : option (list string)) (dfr : list (list sk)) (rets : list obl)
          {struct l} : res3 :=
        match l with
        | [] => Some (st, dfr, rets)
        | e' :: l' =>
            match st with
            | None => Some (None, dfr, rets)
            | Some h' => match ev e' c h' dfr rets with
                         | Some (st', dfr', rets') => walk l' c st' dfr' rets'
                         | None => None
                         end
            end
        end in
      (* a return point: the deferred calls run, most recent first, each a straight piece of code without a
         return of its own; then what the function was entered with must be held again *)
      let fix unwind (h : list string) (d : list (list sk)) {struct d} : bool :=
        match d with
        | [] => same h held
        | b :: d' => match walk b (mkCtx h None None) (Some h) [] [] with
                     | Some (Some h', [], []) => unwind h' d'
                     | _ => false
                     end
        end in
      match walk body (mkCtx held None cb) (Some held) [] [] with
      | Some (st, dfr, rets) =>
          let rets' := match st with Some h => (h, dfr) :: rets | None => rets end in   (* falling off the end *)
          if forallb (fun o => unwind (fst o) (snd o)) rets' then Some held else None
      | None => None
      end
    end.
End Walk.

(** Every function of the table, entered with nothing held and (for its function-typed parameters) a callback
    nothing is known about.  withMailbox itself is exempt as an entry: it is the private helper that runs its
    callback under the mailbox lock, and is checked at every use with the closure it is given ([KWith]); a use
    with anything but a closure literal appears as a plain [KCall] and fails the check. *)
Definition disciplined (free : list string) (tbl : table) : bool :=
  forallb (fun fb => String.eqb (fst fb) "Store.withMailbox" ||
                     match run_fn free tbl (S (List.length tbl)) None [] (snd fb) with Some [] => true | _ => false end) tbl.

(** The instrumentation points a goroutine can be parked at while it holds a mailbox lock: (function, point). *)
Fixpoint points_ev (e : sk) : list string :=
  let go := fix go (l : list sk) : list string := match l with [] => [] | x :: l' => (points_ev x ++ go l')%list end in
  match e with
  | KPoint n => [n]
  | KWith _ b | KLoop b | KDefer b => go b
  | KAlt arms => (fix goa (a : list (list sk)) : list string := match a with [] => [] | x :: a' => (go x ++ goa a')%list end) arms
  | _ => []
  end.
Fixpoint with_bodies_ev (e : sk) : list (list sk) :=
  let go := fix go (l : list sk) : list (list sk) := match l with [] => [] | x :: l' => (with_bodies_ev x ++ go l')%list end in
  match e with
  | KWith _ b => [b]
  | KLoop b | KDefer b => go b
  | KAlt arms => (fix goa (a : list (list sk)) : list (list sk) := match a with [] => [] | x :: a' => (go x ++ goa a')%list end) arms
  | _ => []
  end.
Definition points_under_mailbox_lock (tbl : table) : list (string * string) :=
  flat_map (fun fb => map (fun p => (fst fb, p)) (flat_map (flat_map points_ev) (flat_map with_bodies_ev (snd fb)))) tbl.

(** The skeleton of a function with every call into the table and every withMailbox replaced by what it runs
    (fuel: nesting depth) — the shape that matters for the correspondence with the model, whose program counters
    follow an operation through the helpers it calls; extracting or inlining a helper does not change it. *)
Section Expand.
  Variable tbl : table.
  Fixpoint expand (fuel : nat) (cb : option (list sk)) (l : list sk) {struct fuel} : list sk :=
    match fuel with
    | O => l
    | S fuel' =>
      let fix ev (e : sk) {struct e} : list sk :=
        let go := fix go (l : list sk) : list sk := match l with [] => [] | x :: l' => (ev x ++ go l')%list end in
        match e with
        | KCall f => match lookup f tbl with Some b => expand fuel' None b | None => [e] end
        | KWith mode body =>
            match lookup "Store.withMailbox" tbl with
            | Some wm => [KWith mode (expand fuel' (Some (go body)) wm)]
            | None => [KWith mode (go body)]
            end
        | KCallback _ => match cb with Some b => b | None => [e] end
        | KAlt arms => [KAlt ((fix goa (a : list (list sk)) : list (list sk) := match a with [] => [] | x :: a' => go x :: goa a' end) arms)]
        | KLoop b => [KLoop (go b)]
        | KDefer b => [KDefer (go b)]
        | _ => [e]
        end in
      (fix go (l : list sk) : list sk := match l with [] => [] | x :: l' => (ev x ++ go l')%list end) l
    end.
End Expand.
Definition expanded (tbl : table) (f : string) : option (list sk) :=
  match lookup f tbl with Some b => Some (expand tbl (S (List.length tbl)) None b) | None => None end.

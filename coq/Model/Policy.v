(** Model of inbucket's domain policy (pkg/policy/address.go: ShouldAcceptDomain,
    ShouldStoreDomain, ShouldAcceptOriginDomain; pkg/stringutil/utils.go:
    MatchWithWildcards, SliceContains, SliceToLower; pkg/config/config.go: Process's
    lower-casing of the five domain lists after envconfig's comma split).
    Strings are ASCII byte strings (runes = bytes); see DESIGN.md C05. *)
From IV Require Import Base.Bytes.

Definition star : N := 42.
Definition qmark : N := 63.

(** ** MatchWithWildcards, the row-by-row boolean DP exactly as coded. *)

(** Row 0: [0][0] = true; [0][j] = (p[j-1] = '*') && [0][j-1]. *)
Fixpoint row0_from (acc : bool) (p : str) : list bool :=
  match p with
  | [] => []
  | c :: p' => let v := (c =? star) && acc in v :: row0_from v p'
  end.
Definition row0 (p : str) : list bool := true :: row0_from true p.

(** One further row for input rune [d]. [prev] is the previous row from column j-1 on,
    [left] the value just written in column j-1 of the new row. The second [if] of the
    Go loop body overrides the first, as coded. *)
Fixpoint next_row (d : N) (p : str) (prev : list bool) (left : bool) : list bool :=
  match p, prev with
  | c :: p', diag :: ((up :: _) as prev') =>
      let v1 := if c =? star then up || left else false in
      let v := if (c =? qmark) || (d =? c) then diag else v1 in
      v :: next_row d p' prev' v
  | _, _ => []
  end.
Definition step_row (p : str) (prev : list bool) (d : N) : list bool :=
  false :: next_row d p prev false.

Definition match_wild (p s : str) : bool :=
  last (fold_left (step_row p) s (row0 p)) false.

(** ** Configuration as loaded by config.Process. *)

Definition is_space (c : N) : bool :=
  (c =? 32) || ((9 <=? c) && (c <=? 13)).

(** envconfig's slice decoding followed by SliceToLower. *)
Definition load_list (v : str) : list str :=
  if forallb is_space v then [] else map lower (split_on 44 v).

Record pcfg := {
  def_accept : bool; accept_l : list str; reject_l : list str;
  def_store : bool; store_l : list str; discard_l : list str;
  reject_origin_l : list str }.

Definition should_accept (c : pcfg) (domain : str) : bool :=
  let d := lower domain in
  if def_accept c && negb (mem_str d (reject_l c)) then true
  else if negb (def_accept c) && mem_str d (accept_l c) then true
  else false.

Definition should_store (c : pcfg) (domain : str) : bool :=
  let d := lower domain in
  if def_store c && negb (mem_str d (discard_l c)) then true
  else if negb (def_store c) && mem_str d (store_l c) then true
  else false.

Definition should_accept_origin (c : pcfg) (domain : str) : bool :=
  let d := lower domain in
  negb (existsb (fun p => match_wild p d) (reject_origin_l c)).

(** ** Specification side (what doc/config.md promises). *)

Fixpoint suffixes (s : str) : list str :=
  match s with [] => [[]] | _ :: s' => s :: suffixes s' end.

(** Boolean glob matcher by recursion on the pattern: the executable specification. *)
Fixpoint globb (p s : str) : bool :=
  match p with
  | [] => match s with [] => true | _ => false end
  | c :: p' =>
      if c =? star then existsb (globb p') (suffixes s)
      else match s with
           | [] => false
           | d :: s' => ((c =? qmark) || (d =? c)) && globb p' s'
           end
  end.

(** The readable relation: [*] any sequence, [?] one character, other characters themselves. *)
Inductive glob : str -> str -> Prop :=
| glob_nil : glob [] []
| glob_star p s t : glob p t -> glob (star :: p) (s ++ t)
| glob_qmark p d s : glob p s -> glob (qmark :: p) (d :: s)
| glob_char c p s : c <> star -> glob p s -> glob (c :: p) (c :: s).

Definition accept_spec (c : pcfg) (domain : str) : bool :=
  let d := lower domain in
  (def_accept c && negb (mem_str d (map lower (reject_l c))))
  || (negb (def_accept c) && mem_str d (map lower (accept_l c))).

Definition store_spec (c : pcfg) (domain : str) : bool :=
  let d := lower domain in
  (def_store c && negb (mem_str d (map lower (discard_l c))))
  || (negb (def_store c) && mem_str d (map lower (store_l c))).

Definition origin_spec (c : pcfg) (domain : str) : bool :=
  negb (existsb (fun p => globb (lower p) (lower domain)) (reject_origin_l c)).

(** Loaded configuration from raw environment values. *)
Definition load_cfg (da : bool) (acc rej : str) (ds : bool) (sto dis rejo : str) : pcfg :=
  {| def_accept := da; accept_l := load_list acc; reject_l := load_list rej;
     def_store := ds; store_l := load_list sto; discard_l := load_list dis;
     reject_origin_l := load_list rejo |}.

(** Raw (not yet lower-cased) configuration, for the oracle: the documented rule is stated
    on what the user wrote. *)
Definition raw_list (v : str) : list str :=
  if forallb is_space v then [] else split_on 44 v.
Definition raw_cfg (da : bool) (acc rej : str) (ds : bool) (sto dis rejo : str) : pcfg :=
  {| def_accept := da; accept_l := raw_list acc; reject_l := raw_list rej;
     def_store := ds; store_l := raw_list sto; discard_l := raw_list dis;
     reject_origin_l := raw_list rejo |}.

(** Events — event traces of store histories and the asynchronous broker (C16).

    Part 1: the trace of a history and its multiset / order checks (executable, used by the
    property oracle on what the implementation emitted).
    Part 2: model of pkg/extension/async_broker.go after fix 0016: every listener of a broker
    owns a FIFO [pending] and a flag [running]; [Emit] appends the event to every listener's
    FIFO (starting a delivery goroutine when none runs); the delivery goroutine repeatedly
    takes the head and calls the listener function, one call at a time. A schedule decides
    which listener's goroutine moves next and when emits happen.
    No proofs in this file. *)
From IV Require Import Base.Bytes Model.StoreSpec.

Definition mkey := (str * nat)%type.
Definition mkey_eqb (a b : mkey) : bool := str_eqb (fst a) (fst b) && Nat.eqb (snd a) (snd b).

Definition ev_key (e : event) : mkey := (snd (fst e), snd e).
Definition is_stored (e : event) : bool := match fst (fst e) with EStored => true | EDeleted => false end.
Definition is_deleted (e : event) : bool := negb (is_stored e).

Definition trace_of (r : list (obs * list event)) : list event := concat (map snd r).

Definition count_stored (k : mkey) (t : list event) : nat :=
  length (filter (fun e => is_stored e && mkey_eqb k (ev_key e)) t).
Definition count_deleted (k : mkey) (t : list event) : nat :=
  length (filter (fun e => is_deleted e && mkey_eqb k (ev_key e)) t).

(** First message whose deleted event is not preceded by its stored event. *)
Fixpoint sbd_scan (seen : list mkey) (t : list event) : option mkey :=
  match t with
  | [] => None
  | e :: t' =>
      if is_stored e then sbd_scan (ev_key e :: seen) t'
      else if existsb (mkey_eqb (ev_key e)) seen then sbd_scan seen t'
      else Some (ev_key e)
  end.
Definition sbd_ok (t : list event) : bool := match sbd_scan [] t with None => true | Some _ => false end.

(* ------------------------------------------------------------------ broker *)

Section Broker.
Variable E : Type.

(** One listener of one broker. [busy] = its function is executing the event [Some e]. *)
Record lst := { pending : list E; running : bool; busy : option E }.
Definition lst_init : lst := {| pending := []; running := false; busy := None |}.

(** What a listener function observes: the start and the end of each invocation. *)
Inductive lobs := Begin (l : nat) (e : E) | End (l : nat) (e : E).

Inductive bact :=
| Emit (e : E)        (* AsyncEventBroker.Emit: push to every listener *)
| Move (l : nat).     (* the delivery goroutine of listener l takes its next step *)

Definition push (e : E) (s : lst) : lst :=
  {| pending := pending s ++ [e]; running := true; busy := busy s |}.

(** One step of [deliver]: if the function is executing, it returns; otherwise take the head
    of [pending] and call the function, or stop when nothing is pending. *)
Definition move (l : nat) (s : lst) : lst * list lobs :=
  if running s then
    match busy s with
    | Some e => ({| pending := pending s; running := true; busy := None |}, [End l e])
    | None =>
        match pending s with
        | [] => ({| pending := []; running := false; busy := None |}, [])
        | e :: p => ({| pending := p; running := true; busy := Some e |}, [Begin l e])
        end
    end
  else (s, []).

Fixpoint move_nth (l n : nat) (ls : list lst) : list lst * list lobs :=
  match ls with
  | [] => ([], [])
  | s :: ls' =>
      match n with
      | O => let (s', o) := move l s in (s' :: ls', o)
      | Datatypes.S n' => let (r, o) := move_nth l n' ls' in (s :: r, o)
      end
  end.

Definition bstep (ls : list lst) (a : bact) : list lst * list lobs :=
  match a with
  | Emit e => (map (push e) ls, [])
  | Move l => move_nth l l ls
  end.

Fixpoint brun (ls : list lst) (sched : list bact) : list lst * list lobs :=
  match sched with
  | [] => (ls, [])
  | a :: sched' =>
      let (ls1, o1) := bstep ls a in
      let (ls2, o2) := brun ls1 sched' in (ls2, o1 ++ o2)
  end.

Definition binit (n : nat) : list lst := repeat lst_init n.

(** Events a listener has been called with, in call order. *)
Fixpoint begun (l : nat) (o : list lobs) : list E :=
  match o with
  | [] => []
  | Begin l' e :: o' => if Nat.eqb l l' then e :: begun l o' else begun l o'
  | End _ _ :: o' => begun l o'
  end.

Fixpoint emitted (sched : list bact) : list E :=
  match sched with [] => [] | Emit e :: s' => e :: emitted s' | Move _ :: s' => emitted s' end.

(** Serial use of listener [l]: Begin and End alternate, starting with Begin. *)
Fixpoint serial (l : nat) (inside : bool) (o : list lobs) : bool :=
  match o with
  | [] => true
  | Begin l' _ :: o' => if Nat.eqb l l' then negb inside && serial l true o' else serial l inside o'
  | End l' _ :: o' => if Nat.eqb l l' then inside && serial l false o' else serial l inside o'
  end.

End Broker.

(* ------------------------------------------------------------------ two brokers *)
(** Part 3: extension.Host has ONE broker per event type. A consumer of both events (msghub,
    the Lua host) is listener [l] of the stored broker AND listener [l] of the deleted
    broker; the two brokers share nothing. A tagged schedule ([true] = stored broker)
    interleaves their steps; the consumer's log is the merged sequence of its invocations. *)
Section TwoBrokers.
Variable E : Type.

Definition xact := (bool * bact E)%type.
Definition xobs := (bool * lobs E)%type.

Fixpoint xrun (ss ds : list (lst E)) (sched : list xact) : list (lst E) * list (lst E) * list xobs :=
  match sched with
  | [] => (ss, ds, [])
  | (true, a) :: sched' =>
      let (ss1, o1) := bstep E ss a in
      let '(ss2, ds2, o2) := xrun ss1 ds sched' in (ss2, ds2, map (pair true) o1 ++ o2)
  | (false, a) :: sched' =>
      let (ds1, o1) := bstep E ds a in
      let '(ss2, ds2, o2) := xrun ss ds1 sched' in (ss2, ds2, map (pair false) o1 ++ o2)
  end.

Fixpoint proj (b : bool) (sched : list xact) : list (bact E) :=
  match sched with
  | [] => []
  | (b', a) :: s' => if Bool.eqb b b' then a :: proj b s' else proj b s'
  end.

Fixpoint oproj (b : bool) (o : list xobs) : list (lobs E) :=
  match o with
  | [] => []
  | (b', x) :: o' => if Bool.eqb b b' then x :: oproj b o' else oproj b o'
  end.

(** The consumer's log: which event each invocation of listener [l] was for, with the broker. *)
Fixpoint xlog (l : nat) (o : list xobs) : list (bool * E) :=
  match o with
  | [] => []
  | (b, Begin _ l' e) :: o' => if Nat.eqb l l' then (b, e) :: xlog l o' else xlog l o'
  | (_, End _ _ _) :: o' => xlog l o'
  end.
End TwoBrokers.

(** Messages named by numbers: log entries (true, n) = stored(n), (false, n) = deleted(n). *)
Fixpoint xsbd_scan (seen : list nat) (log : list (bool * nat)) : option nat :=
  match log with
  | [] => None
  | (true, n) :: t => xsbd_scan (n :: seen) t
  | (false, n) :: t => if existsb (Nat.eqb n) seen then xsbd_scan seen t else Some n
  end.
Definition xsbd_ok (log : list (bool * nat)) : bool :=
  match xsbd_scan [] log with None => true | Some _ => false end.

(** The schedule of finding K-C16-cross-broker-order: deliver m1 (the consumer's stored-handler
    starts and stays busy), deliver m2, remove m2 (its deleted event goes through the other
    broker, whose goroutine is idle), then m1's handler returns and m2's stored is delivered. *)
Definition xbroker_witness : list (bool * bact nat) :=
  [(true, Emit nat 1%nat); (true, Move nat 0%nat); (true, Emit nat 2%nat); (false, Emit nat 2%nat); (false, Move nat 0%nat);
   (false, Move nat 0%nat); (true, Move nat 0%nat); (true, Move nat 0%nat); (true, Move nat 0%nat)].
Definition xbroker_log : list (bool * nat) :=
  xlog nat 0%nat (snd (xrun nat (binit nat 1%nat) (binit nat 1%nat) xbroker_witness)).

(* ------------------------------------------------------------------ listener registration *)
(** Part 4: AddListener / RemoveListener against Emit. [Emit] holds the broker's read lock for
    its whole loop and Add/RemoveListener take the write lock, so an emit is ATOMIC with respect
    to registration: it pushes the event to exactly the listeners registered at that moment.
    A listener is (name, everything ever pushed to it). AddListener replaces a listener of the
    same name (remove, then append a fresh one at the end), as coded. *)
Section Registration.
Variable E : Type.

Inductive ract := REmit (e : E) | RAdd (n : nat) | RRem (n : nat).

Fixpoint rremove (n : nat) (ls : list (nat * list E)) : list (nat * list E) :=
  match ls with
  | [] => []
  | (m, q) :: ls' => if Nat.eqb n m then ls' else (m, q) :: rremove n ls'
  end.

Definition rstep (ls : list (nat * list E)) (a : ract) : list (nat * list E) :=
  match a with
  | REmit e => map (fun p => (fst p, snd p ++ [e])) ls
  | RAdd n => rremove n ls ++ [(n, [])]
  | RRem n => rremove n ls
  end.

Definition rrun (ls : list (nat * list E)) (sched : list ract) : list (nat * list E) := fold_left rstep sched ls.

Fixpoint rget (n : nat) (ls : list (nat * list E)) : option (list E) :=
  match ls with
  | [] => None
  | (m, q) :: ls' => if Nat.eqb n m then Some q else rget n ls'
  end.

Fixpoint remitted (sched : list ract) : list E :=
  match sched with [] => [] | REmit e :: s => e :: remitted s | _ :: s => remitted s end.

(** [n] is neither added (replaced) nor removed in the schedule. *)
Fixpoint rstable (n : nat) (sched : list ract) : bool :=
  match sched with
  | [] => true
  | REmit _ :: s => rstable n s
  | RAdd m :: s | RRem m :: s => negb (Nat.eqb n m) && rstable n s
  end.
End Registration.

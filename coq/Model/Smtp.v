(** Model of inbucket's SMTP session state machine (pkg/server/smtp/handler.go:
    startSession's command loop, greetHandler, readyHandler, parseMailFromCmd, mailHandler,
    dataHandler, reset) and of message delivery (pkg/message/manager.go: Deliver), at the level
    of *classified input items*: a command line together with the outcomes of the parsers and
    extension hooks it triggers, a DATA block together with its header facts, or EOF.
    The byte-level front end that classifies raw lines is Model/SmtpWire.v.
    No proofs here. *)
From IV Require Import Base.Bytes Model.Policy.

Inductive sstate := GREET | READY | LOGIN | PASSWORD | MAIL | DATA | QUIT.

Definition sstate_eqb (a b : sstate) : bool :=
  match a, b with
  | GREET, GREET | READY, READY | LOGIN, LOGIN | PASSWORD, PASSWORD
  | MAIL, MAIL | DATA, DATA | QUIT, QUIT => true
  | _, _ => false
  end.

(** policy.Origin / policy.Recipient: the fields the session and Deliver use. *)
Record origin := { o_addr : str; o_domain : str }.
Record recipient := { r_addr : str; r_domain : str; r_mailbox : str }.

(** Answer of the extension event broker for MAIL / RCPT (nil result = NoAns). *)
Inductive hook_ans := NoAns | Defer | Allow | Deny (code : Z) (text : str).

(** What the MAIL FROM argument parsers found. *)
(** SIZE parameter: absent, not a decimal number, or its decimal value (of any magnitude: the
    session hands it to strconv.ParseInt(_, 10, 32), which refuses values above [int32_max]). *)
Inductive size_param := SzNone | SzBad | SzVal (n : Z).
Definition int32_max : Z := 2147483647.
Inductive mail_parse :=
  | MBadSyntax                                   (* fromRegex does not match *)
  | MBadParams                                   (* parameters present, parseArgs fails *)
  | MParsed (sz : size_param) (o : option origin). (* SIZE parameter; ParseOrigin result *)
Inductive rcpt_parse :=
  | RBadSyntax                                   (* len < 4 or no "TO:" prefix *)
  | RParsed (r : option recipient).              (* NewRecipient result *)
Inductive auth_arg := APlain2 | APlainBad | ALogin | AOther.

(** A classified command line. *)
Inductive pline :=
  | Helo (domain : str) | Ehlo (domain : str)     (* domain = first word of the argument *)
  | Mail (p : mail_parse) (h : hook_ans)
  | Rcpt (p : rcpt_parse) (h : hook_ans)
  | DataC (noarg : bool)
  | Rset | Noop | Quit | Vrfy | Unimpl | Starttls
  | Auth (a : auth_arg)
  | Unknown | Garbled | Empty.

(** Header facts of a DATA block as Deliver sees them (enmime): first address of a parsable,
    non-empty From header; the To header's address list when it parses; the Subject. *)
Record hdrinfo := { h_from : option str; h_to : option (list str); h_subject : str }.
(** What a before.message_stored hook changed in the inbound message it was handed (a copy
    holding all recipients' mailboxes, the From/To/Subject Deliver derived, and the size) before
    returning it: each field either kept or replaced. Size is read-only for hooks. *)
Record overrides := { ov_mailboxes : option (list str); ov_from : option str;
                      ov_to : option (list str); ov_subject : option str }.

Inductive payload :=
  | PEof                                           (* connection ended (EOF, read error) inside the block *)
  | PIdle                                          (* the read deadline passed inside the block *)
  | PBlock (body : str) (hdr : option hdrinfo) (hook : option overrides).
      (* un-stuffed bytes; None = header block unparsable *)

(** [Eof]: the client closed; [Idle]: the read deadline passed while the session waited for a
    line; [ConnErr]: any other read error. *)
Inductive item := L (l : pline) | B (p : payload) | Eof | Idle | ConnErr.

(** One AddMessage call made by Deliver. *)
Record delivery := {
  d_mailbox : str; d_from : str; d_to : list str; d_subject : str; d_size : Z;
  d_retpath : str; d_helo : str; d_body : str }.

(** One reply line: code and whether it is a continuation line ("250-"). *)
Definition rline := (Z * bool)%type.
Definition one (code : Z) : list rline := [(code, false)].

Record scfg := { pol : pcfg; max_rcpt : Z; max_bytes : Z; tls_enabled : bool }.

(** [tls]: the session's tlsState is set (STARTTLS was accepted on this connection). *)
Record session := { st : sstate; from : option origin; rcpts : list recipient; helo : str; tls : bool }.

Definition init : session := {| st := GREET; from := None; rcpts := []; helo := []; tls := false |}.

Definition set_st (s : session) (x : sstate) : session :=
  {| st := x; from := from s; rcpts := rcpts s; helo := helo s; tls := tls s |}.

(** Session.reset (after fix 3e63a74: a reset before the greeting stays in GREET). *)
Definition reset (s : session) : session :=
  {| st := match st s with GREET => GREET | _ => READY end;
     from := None; rcpts := []; helo := helo s; tls := tls s |}.

Inductive stepres :=
  | Ok (s' : session) (r : list rline) (d : list delivery)
  | Misfit            (* the item cannot occur in this state: line inside DATA, block outside *)
  | Panic.            (* the Go code would dereference nil / index out of range *)

(** Deliver: one delivery per destination mailbox, in order. *)
Definition deliveries_for (c : scfg) (o : origin) (rs : list recipient) (hl : str)
    (body : str) (h : hdrinfo) (hook : option overrides) : list delivery :=
  let from_h := match h_from h with Some a => a | None => o_addr o end in
  let to_h := match h_to h with Some l => l | None => map r_addr rs end in
  let size := Z.of_nat (length body) in
  match hook with
  | None =>
      map (fun r => {| d_mailbox := r_mailbox r; d_from := from_h; d_to := to_h;
                       d_subject := h_subject h; d_size := size;
                       d_retpath := o_addr o; d_helo := hl; d_body := body |})
          (filter (fun r => should_store (pol c) (r_domain r)) rs)
  | Some ov =>
      (* the hook's answer replaces the inbound message wholesale and bypasses the store policy *)
      let from_o := match ov_from ov with Some a => a | None => from_h end in
      let to_o := match ov_to ov with Some l => l | None => to_h end in
      let subj_o := match ov_subject ov with Some x => x | None => h_subject h end in
      map (fun mb => {| d_mailbox := mb; d_from := from_o; d_to := to_o;
                        d_subject := subj_o; d_size := size;
                        d_retpath := o_addr o; d_helo := hl; d_body := body |})
          (match ov_mailboxes ov with Some l => l | None => map r_mailbox rs end)
  end.

(** STARTTLS is offered while TLS is configured and not yet agreed upon on this connection. *)
Definition ehlo_reply (c : scfg) (s : session) : list rline :=
  [(250%Z, true); (250%Z, true); (250%Z, true)] ++
  (if tls_enabled c && negb (tls s) then [(250%Z, true)] else []) ++ [(250%Z, false)].

Definition step_greet (c : scfg) (s : session) (l : pline) : stepres :=
  match l with
  | Helo d =>
      match d with
      | [] => Ok s (one 501) []
      | _ => Ok {| st := READY; from := from s; rcpts := rcpts s; helo := d; tls := tls s |} (one 250) []
      end
  | Ehlo d =>
      match d with
      | [] => Ok s (one 501) []
      | _ => Ok {| st := READY; from := from s; rcpts := rcpts s; helo := d; tls := tls s |} (ehlo_reply c s) []
      end
  | _ => Ok s (one 503) []
  end.

Definition step_mail_from (c : scfg) (s : session) (p : mail_parse) (h : hook_ans) : stepres :=
  match p with
  | MBadSyntax => Ok s (one 501) []
  | MBadParams => Ok s (one 501) []
  | MParsed sz o =>
      match sz with
      | SzBad => Ok s (one 501) []
      | _ =>
        if match sz with SzVal n => (int32_max <? n)%Z | _ => false end
        then Ok s (one 501) []                       (* ParseInt: value out of range *)
        else if match sz with SzVal n => (max_bytes c <? n)%Z | _ => false end
        then Ok s (one 552) []
        else match o with
        | None => Ok s (one 501) []
        | Some og =>
            match h with
            | Deny code _ => Ok s (one code) []
            | _ =>
                let s1 := {| st := st s; from := Some og; rcpts := rcpts s; helo := helo s; tls := tls s |} in
                let deferred := match h with Allow => false | _ => true end in
                if deferred && negb (should_accept_origin (pol c) (o_domain og))
                then Ok s1 (one 501) []
                else Ok (set_st s1 MAIL) (one 250) []
            end
        end
      end
  end.

Definition step_ready (c : scfg) (s : session) (l : pline) : stepres :=
  match l with
  | Starttls =>
      (* "454 TLS unavailable" / "454 A TLS session already agreed upon" / "220 STARTTLS", then the connection is
         wrapped (the handshake itself is the transport's: Model/SmtpWire.v) and the state is GREET again; the
         envelope is NOT reset. In the code remoteDomain keeps its value too, but nothing reads it in GREET and the
         HELO / EHLO that must follow overwrites it: the model clears it, so that "GREET => no name" stays an
         invariant and the client-side specification [entitled] can forget the name at the 220 (unobservable given
         reset()'s GREET guard, repair 3e63a74: every path from GREET to the one read of remoteDomain, in dataHandler,
         passes an accepted greeting).  Go's two conditions (EHLO offers: TLSEnabled && !ForceTLS && tlsConfig != nil
         && tlsState == nil; STARTTLS accepted: TLSEnabled && tlsState == nil) coincide because tlsConfig is never nil
         and ForceTLS sets tlsState in NewSession *)
      if negb (tls_enabled c) then Ok s (one 454) []
      else if tls s then Ok s (one 454) []
      else Ok {| st := GREET; from := from s; rcpts := rcpts s; helo := []; tls := true |} (one 220) []
  | Auth APlain2 => Ok s (one 235) []
  | Auth APlainBad => Ok s (one 500) []
  | Auth ALogin => Ok (set_st s LOGIN) (one 334) []
  | Auth AOther => Ok s (one 500) []
  | Mail p h => step_mail_from c s p h
  | Ehlo _ => Ok (reset s) (one 250) []
  | _ => Ok s (one 503) []
  end.

Definition step_mail (c : scfg) (s : session) (l : pline) : stepres :=
  match l with
  | Rcpt RBadSyntax _ => Ok s (one 501) []
  | Rcpt (RParsed None) _ => Ok s (one 501) []
  | Rcpt (RParsed (Some r)) h =>
      match h with
      | Deny code _ => Ok s (one code) []
      | _ =>
          let deferred := match h with Allow => false | _ => true end in
          if deferred && negb (should_accept (pol c) (r_domain r)) then Ok s (one 550) []
          else if (max_rcpt c <=? Z.of_nat (length (rcpts s)))%Z then Ok s (one 552) []
          else Ok {| st := st s; from := from s; rcpts := rcpts s ++ [r]; helo := helo s; tls := tls s |} (one 250) []
      end
  | DataC false => Ok s (one 501) []
  | DataC true =>
      match rcpts s with
      | [] => Ok s (one 503) []
      | _ => Ok (set_st s DATA) (one 354) []     (* 354 is sent before the block is read *)
      end
  | Ehlo _ => Ok (reset s) (one 250) []
  | _ => Ok s (one 503) []
  end.

Definition step_data (c : scfg) (s : session) (p : payload) : stepres :=
  match p with
  | PEof => Ok (set_st s QUIT) [] []
  | PIdle => Ok (set_st s QUIT) (one 221) []        (* "221 Idle timeout, bye bye", then QUIT *)
  | PBlock body hdr hook =>
      if (max_bytes c <? Z.of_nat (length body))%Z then Ok (reset s) (one 552) []
      else match hdr with
      | None => Ok (reset s) (one 451) []           (* enmime.DecodeHeaders failed *)
      | Some h =>
          match from s with
          | None => Panic                           (* Deliver dereferences the origin *)
          | Some o => Ok (reset s) (one 250) (deliveries_for c o (rcpts s) (helo s) body h hook)
          end
      end
  end.

(** One iteration of startSession's loop. *)
Definition step (c : scfg) (s : session) (it : item) : stepres :=
  match st s, it with
  | QUIT, _ => Misfit                               (* the loop has ended *)
  | DATA, B p => step_data c s p
  | DATA, _ => Misfit
  | _, B _ => Misfit
  | _, Eof => Ok (set_st s QUIT) [] []
  | _, Idle => Ok (set_st s QUIT) (one 221) []      (* "221 Idle timeout, bye bye", loop left *)
  | _, ConnErr => Ok (set_st s QUIT) (one 221) []   (* "221 Connection error, sorry", loop left *)
  | LOGIN, L _ => Ok (set_st s PASSWORD) (one 334) []
  | PASSWORD, L _ => Ok (set_st s READY) (one 235) []
  | _, L Empty => Ok s (one 500) []
  | _, L Garbled => Ok s (one 500) []
  | _, L Unknown => Ok s (one 500) []
  | _, L Unimpl => Ok s (one 502) []
  | _, L Vrfy => Ok s (one 252) []
  | _, L Noop => Ok s (one 250) []
  | _, L Rset => Ok (reset s) (one 250) []
  | _, L Quit => Ok (set_st s QUIT) (one 221) []
  | GREET, L l => step_greet c s l
  | READY, L l => step_ready c s l
  | MAIL, L l => step_mail c s l
  end.

(** The whole dialogue: transcript of (item, replies, deliveries) and how it ended. *)
Inductive ending := EOpen (s : session) | EMisfit | EPanic.
Definition entry := (item * list rline * list delivery)%type.

Fixpoint run (c : scfg) (s : session) (items : list item) : list entry * ending :=
  match items with
  | [] => ([], EOpen s)
  | it :: rest =>
      match step c s it with
      | Ok s' r d => let '(tr, e) := run c s' rest in ((it, r, d) :: tr, e)
      | Misfit => ([], EMisfit)
      | Panic => ([], EPanic)
      end
  end.

Definition deliveries_of (tr : list entry) : list delivery := concat (map snd tr).

(** ** Black-box specifications over the dialogue (what a client can see). *)

Definition first_code (r : list rline) : Z := match r with (c, _) :: _ => c | [] => 0%Z end.

(** C01: what the dialogue entitles the store to receive. Tracks the recipients answered 250
    since the last MAIL answered 250; RSET / HELO / EHLO answered 250 and the end of a DATA block
    forget them; a block answered 250 yields one delivery per storable recipient. *)
Fixpoint entitled (c : scfg) (sender : option origin) (hl : str) (acc : list recipient)
    (tr : list (item * list rline)) : list delivery :=
  match tr with
  | [] => []
  | (it, r) :: rest =>
      let ok := (first_code r =? 250)%Z in
      match it with
      | L (Mail (MParsed _ (Some o)) _) =>
          if ok then entitled c (Some o) hl [] rest else entitled c sender hl acc rest
      | L (Rcpt (RParsed (Some rc)) _) =>
          if ok then entitled c sender hl (acc ++ [rc]) rest else entitled c sender hl acc rest
      | L Rset => if ok then entitled c sender hl [] rest else entitled c sender hl acc rest
      | L (Helo d) => if ok then entitled c sender d [] rest else entitled c sender hl acc rest
      | L (Ehlo d) =>
          if ok then entitled c sender (match hl with [] => d | _ => hl end) [] rest
          else entitled c sender hl acc rest
      | B (PBlock body (Some h) hook) =>
          (if ok then match sender with
                      | Some o => deliveries_for c o acc hl body h hook
                      | None => [] end
           else []) ++ entitled c sender hl [] rest
      | B (PBlock _ None _) => entitled c sender hl [] rest
      | L Starttls =>                                        (* 220: TLS starts, the greeting is due again *)
          if (first_code r =? 220)%Z then entitled c sender [] acc rest else entitled c sender hl acc rest
      | B PEof | B PIdle => entitled c sender hl acc rest   (* the connection has ended *)
      | _ => entitled c sender hl acc rest
      end
  end.

Definition dialogue (tr : list entry) : list (item * list rline) :=
  map (fun e => (fst (fst e), snd (fst e))) tr.

(** C03: sequencing rules as a checker over the dialogue. Ghost state: greeted, transaction
    open, number of recipients accepted in it. *)
Fixpoint seq_ok (greeted open_tx : bool) (n : nat) (tr : list (item * list rline)) : bool :=
  match tr with
  | [] => true
  | (it, r) :: rest =>
      let c := first_code r in
      match it with
      | L (Helo _) | L (Ehlo _) =>
          if (c =? 250)%Z then seq_ok true false 0 rest else seq_ok greeted open_tx n rest
      | L (Mail _ _) =>
          if (c =? 250)%Z then greeted && seq_ok greeted true 0 rest else seq_ok greeted open_tx n rest
      | L (Rcpt _ _) =>
          if (c =? 250)%Z then open_tx && seq_ok greeted open_tx (S n) rest else seq_ok greeted open_tx n rest
      | L (DataC _) =>
          if (c =? 354)%Z then open_tx && negb (Nat.eqb n 0) && seq_ok greeted open_tx n rest
          else seq_ok greeted open_tx n rest
      | L Rset => if (c =? 250)%Z then seq_ok greeted false 0 rest else seq_ok greeted open_tx n rest
      | L Starttls =>       (* 220: the connection starts over under TLS - nothing is accepted before a new greeting *)
          if (c =? 220)%Z then seq_ok false false 0 rest else seq_ok greeted open_tx n rest
      | B _ => seq_ok greeted false 0 rest
      | _ => seq_ok greeted open_tx n rest
      end
  end.

(** C03: every consumed line gets exactly one well-formed reply group; a completed block exactly
    one final reply; EOF none. *)
Fixpoint group_ok (code : Z) (r : list rline) : bool :=
  match r with
  | [] => false
  | [(c, more)] => (c =? code)%Z && negb more
  | (c, more) :: r' => (c =? code)%Z && more && group_ok code r'
  end.
Definition reply_ok (e : item * list rline) : bool :=
  match e with
  | (L _, r) => group_ok (first_code r) r
  | (B (PBlock _ _ _), r) => match r with [(_, false)] => true | _ => false end
  | (B PEof, r) | (Eof, r) => match r with [] => true | _ => false end
  | (B PIdle, r) | (Idle, r) | (ConnErr, r) => match r with [(221%Z, false)] => true | _ => false end
  end.

(** C06: a block larger than the limit is refused with a 5xx reply and delivers nothing; a MAIL
    declaring a SIZE above the limit is never answered 250. Within the limit nothing is refused
    for its size: 552 answers neither a block of at most the limit nor a MAIL that declares no
    SIZE or one within the limit (whatever an earlier, refused MAIL of the session declared),
    unless an extension hook denied the sender with that very code. *)
Definition size_ok (c : scfg) (e : entry) : bool :=
  match e with
  | (B (PBlock body _ _), r, d) =>
      if (max_bytes c <? Z.of_nat (length body))%Z
      then (500 <=? first_code r)%Z && (first_code r <? 600)%Z && match d with [] => true | _ => false end
      else negb (first_code r =? 552)%Z
  | (L (Mail (MParsed sz _) h), r, d) =>
      let within := match h with Deny _ _ => true | _ => negb (first_code r =? 552)%Z end in
      match sz with
      | SzVal n => if (max_bytes c <? n)%Z then negb (first_code r =? 250)%Z else within
      | SzNone => within
      | SzBad => true
      end
  | _ => true
  end.

(** C05: the accept decisions as a client sees them. Where no extension decides (no answer, or
    an explicit defer) a recipient answered 250 is one the domain policy accepts, one refused
    with 550 is one it rejects, and a sender answered 250 has a domain that matches no
    reject-origin pattern. *)
Definition policy_decides (h : hook_ans) : bool := match h with NoAns | Defer => true | _ => false end.
Definition accept_ok (c : scfg) (e : item * list rline) : bool :=
  match e with
  | (L (Rcpt (RParsed (Some r)) h), rp) =>
      if policy_decides h then
        (if (first_code rp =? 250)%Z then should_accept (pol c) (r_domain r) else true) &&
        (if (first_code rp =? 550)%Z then negb (should_accept (pol c) (r_domain r)) else true)
      else true
  | (L (Mail (MParsed _ (Some o)) h), rp) =>
      if policy_decides h then
        (if (first_code rp =? 250)%Z then should_accept_origin (pol c) (o_domain o) else true)
      else true
  | _ => true
  end.

(** The store as C01 needs it: mailbox name -> messages in arrival order (append only). *)
Definition mstore := list (str * list delivery).
Fixpoint store_add (σ : mstore) (d : delivery) : mstore :=
  match σ with
  | [] => [(d_mailbox d, [d])]
  | (n, ms) :: σ' => if str_eqb n (d_mailbox d) then (n, ms ++ [d]) :: σ' else (n, ms) :: store_add σ' d
  end.
Definition store_after (σ : mstore) (ds : list delivery) : mstore := fold_left store_add ds σ.
(** With a mailbox cap (storage.mailboxmsgcap; 0 = none) every delivery evicts the oldest messages
    of its mailbox beyond the cap (property C08 owns the stores' side of this). *)
Definition cap_box (cap : nat) (ms : list delivery) : list delivery :=
  match cap with O => ms | _ => skipn (length ms - cap) ms end.
Fixpoint store_add_cap (cap : nat) (σ : mstore) (d : delivery) : mstore :=
  match σ with
  | [] => [(d_mailbox d, cap_box cap [d])]
  | (n, ms) :: σ' =>
      if str_eqb n (d_mailbox d) then (n, cap_box cap (ms ++ [d])) :: σ' else (n, ms) :: store_add_cap cap σ' d
  end.
Definition store_after_cap (cap : nat) (σ : mstore) (ds : list delivery) : mstore :=
  fold_left (store_add_cap cap) ds σ.
Fixpoint store_get (σ : mstore) (n : str) : list delivery :=
  match σ with
  | [] => []
  | (m, ms) :: σ' => if str_eqb m n then ms else store_get σ' n
  end.

(** POP3 over the abstract store of C07 (Model/StoreSpec.v, imported read-only).

    [abs] reads a [spec_store] as the store the POP3 model (Model/Pop3.v) runs against: a
    mailbox is its live entries in arrival order, the id of a message is its handle number,
    its source the bytes its tag stands for.  [tr] translates what another client does to
    the store (a StoreSpec operation, with the evictions the configuration causes) into the
    store events of the POP3 model; [quit_ops] / [login_op] are the StoreSpec operations a
    session itself issues.  [srun] runs a history on both sides in lock step.
    No proofs in this file (Proofs/Pop3Store.v). *)
From IV Require Import Base.Bytes Model.StoreSpec Model.Pop3Wire Model.Pop3.
Open Scope N_scope.

Section Abs.
(** The bytes [Source()] returns for a message: StoreSpec keeps them behind an opaque tag. *)
Variable content : N -> str.

Definition id_of_k (k : nat) : str := [N.of_nat k].

Definition smsg_of (e : entry) : smsg :=
  {| sid := id_of_k (e_k e); ssrc := content (m_tag (e_msg e)) |}.

Definition abs_box (l : list entry) (p : str * nat) : str * mbox :=
  (fst p, {| mnext := N.of_nat (snd p); mmsgs := map smsg_of (box (fst p) l) |}).

Definition abs (st : spec_store) : store := map (abs_box (live st)) (counts st).

(** A listing entry ([OList] of [Lst]) as the session keeps it. *)
Definition snap_of_view (v : view) : snap :=
  {| p_id := id_of_k (fst v); p_size := m_size (snd v); p_src := content (m_tag (snd v)) |}.

(** The handle an id string names. *)
Definition handle_of_id (id : str) : handle :=
  match id with
  | [n] => Kth (N.to_nat n)
  | _ => Bogus
  end.

(** [processDeletes] as StoreSpec operations. *)
Fixpoint quit_ops (user : str) (ms : list snap) (rt : list bool) : list op :=
  match ms, rt with
  | m :: ms', r :: rt' =>
      if r then quit_ops user ms' rt' else Remove user (handle_of_id (p_id m)) :: quit_ops user ms' rt'
  | _, _ => []
  end.

Definition ev_remove (e : StoreSpec.event) : list Pop3.event :=
  match e with
  | (EDeleted, mb, k) => [ERemove mb (id_of_k k)]
  | (EStored, _, _) => []
  end.

(** What the POP3 model sees of another client's operation. *)
Definition tr (cfg : scfg) (st : spec_store) (o : op) : list Pop3.event :=
  match o with
  | Add mb date tag size =>
      EDeliver mb (content tag) :: flat_map ev_remove (snd (exec_spec cfg st o))
  | Remove mb (Kth k) => [ERemove mb (id_of_k k)]
  | Purge mb => [EPurge mb]
  | _ => []
  end.
End Abs.

(** A history over StoreSpec: session events (command lines, EOF, ...) and operations of
    other clients. *)
Inductive sevent :=
  | SSess (e : Pop3.event)
  | SOp (o : op).

Definition is_store_event (e : Pop3.event) : bool :=
  match e with EDeliver _ _ | ERemove _ _ | EPurge _ => true | _ => false end.

Definition commits_now (w : world) (e : Pop3.event) : bool :=
  match s_state (w_sess w), e with
  | Trans, ECmd c => is_quit c
  | Trans, ELine l => is_quit (parse_line l)
  | _, _ => false
  end.

Definition logs_in (fl : flavour) (w : world) (e : Pop3.event) : bool :=
  match s_state (w_sess w), s_state (w_sess (wstep fl w e)) with
  | Auth, Trans => true
  | _, _ => false
  end.

(** Both sides in lock step: the spec store with the list of operations issued to it so
    far (the session's own [Lst] at login and [Remove]s at the commit included), the POP3
    model's world, and the POP3-model events the history amounts to. *)
Fixpoint srun (content : N -> str) (cfg : scfg) (fl : flavour)
         (ss : spec_store) (ops : list op) (w : world) (pevs : list Pop3.event) (sevs : list sevent)
  : spec_store * list op * world * list Pop3.event :=
  match sevs with
  | [] => (ss, ops, w, pevs)
  | SOp o :: r =>
      let t := tr content cfg ss o in
      srun content cfg fl (fst (fst (exec_spec cfg ss o))) (ops ++ [o]) (run fl w t) (pevs ++ t) r
  | SSess e :: r =>
      if is_store_event e then srun content cfg fl ss ops w pevs r     (* not a session event: ignored *)
      else
        let w' := wstep fl w e in
        let mine :=
          (if logs_in fl w e then [Lst (s_user (w_sess w'))] else []) ++
          (if commits_now w e && is_open w
           then quit_ops (s_user (w_sess w)) (s_msgs (w_sess w)) (s_retain (w_sess w)) else []) in
        srun content cfg fl (final_spec cfg ss mine) (ops ++ mine) w' (pevs ++ [e]) r
  end.

(** The operations of the other clients in a history. *)
Fixpoint ext_ops (sevs : list sevent) : list op :=
  match sevs with
  | [] => []
  | SOp o :: r => o :: ext_ops r
  | SSess _ :: r => ext_ops r
  end.

(** Every delivery records the length of its bytes as the size. *)
Definition op_sized (content : N -> str) (o : op) : bool :=
  match o with
  | Add _ _ tag size => size =? lenN (content tag)
  | _ => true
  end.

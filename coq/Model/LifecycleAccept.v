(** The accept loop at the granularity of its own statements (pkg/server/smtp/listener.go and
    pkg/server/pop3/listener.go), as coded after repair 0022:

      Start:   s.wg.Add(1); go func() { defer s.wg.Done(); s.serve(ctx) }()   // the loop itself is counted
      serve:   conn, err := s.listener.Accept()     // (1) returns a connection the kernel has accepted,
               …                                    //     or fails for good once the listener is closed: return
               s.wg.Add(1)                          // (2) only now is the connection counted
               go …startSession(…)                  // (3)

    Model/Lifecycle.v treats (1)+(2) as one step [Accept] and does not count the loop. Here (1) and
    (2) are two steps of the serve goroutine, in the loop's own order, and the loop holds a count
    from Start to its exit; everything else (sessions, cancel, listener close) is Model/Lifecycle.v.
    No proofs in this file. *)
From IV Require Import Base.Bytes Model.Lifecycle.
Local Open Scope nat_scope.

Record sys2 := mkSys2 {
  base : sys;            (* its [wg] counts the sessions *)
  serving : bool;        (* the serve goroutine runs — and holds its own count in Server.wg *)
  pend : option nat      (* it holds a connection that Accept() returned and that is not yet counted *)
}.

Inductive action2 :=
| AcceptRet (i : nat)    (* (1) Accept() returns connection i *)
| AddWg                  (* (2)+(3) wg.Add(1); go startSession *)
| ServeExit              (* Accept() fails because the listener is closed: serve returns; deferred wg.Done() *)
| ServeFail              (* Accept() fails for good for another reason (e.g. EMFILE): notify <- err; close(notify);
                            serve returns; deferred wg.Done(). The listener stays open, Start stays in <-ctx.Done() *)
| Other (a : action).    (* any step of Model/Lifecycle.v except its atomic [Accept] *)

Definition is_accept (a : action) : bool := match a with Accept _ => true | _ => false end.

Definition step2 (y : sys2) (a : action2) : option sys2 :=
  match a with
  | AcceptRet i =>
      match pend y, find_s i (ss (sv (base y))) with
      | None, None => if serving y && lopen (sv (base y)) then Some (mkSys2 (base y) true (Some i)) else None
      | _, _ => None
      end
  | AddWg =>
      match pend y with
      | Some i =>
          let v := sv (base y) in
          (* the listener may have been closed meanwhile: the connection is served all the same *)
          Some (mkSys2 (mkSys (cancelled (base y))
                              (mkSrv (pr v) (lopen v) (S (wg v)) (ss v ++ [(i, mkS Held 0 1 false false)])))
                       (serving y) None)
      | None => None
      end
  | ServeExit =>
      match pend y with
      | None => if serving y && negb (lopen (sv (base y))) then Some (mkSys2 (base y) false None) else None
      | Some _ => None
      end
  | ServeFail =>
      match pend y with
      | None => if serving y then Some (mkSys2 (base y) false None) else None
      | Some _ => None
      end
  | Other a =>
      if is_accept a then None
      else match step (base y) a with Some b => Some (mkSys2 b (serving y) (pend y)) | None => None end
  end.

Fixpoint run2 (y : sys2) (acts : list action2) : option sys2 :=
  match acts with
  | [] => Some y
  | a :: t => match step2 y a with None => None | Some y' => run2 y' t end
  end.

(** [bound]: the listener could be bound, so Start got as far as starting the loop. Otherwise
    (bind failure) the loop never runs, nothing is ever accepted, the counter stays at zero. *)
Definition sys2_init (p : proto) (bound : bool) : sys2 :=
  mkSys2 (mkSys false (mkSrv p bound 0 [])) bound None.

(** Server.wg as coded: the sessions' counts plus the loop's own. *)
Definition wg2 (y : sys2) : nat := wg (sv (base y)) + (if serving y then 1 else 0).

(** Drain = wg.Wait() *)
Definition drain_returns2 (y : sys2) : bool := Nat.eqb (wg2 y) 0.

(** Before repair 0022 the loop was not counted: Drain looked at the sessions only. *)
Definition drain_returns_uncounted_loop (y : sys2) : bool := drain_returns (base y).

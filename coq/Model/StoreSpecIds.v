(** StoreSpecIds — ids as the STRINGS the stores hand out and take back. The back-end models key
    their maps by abstract ids (memory: the index, a number; file: (second, counter)); the real
    stores compare id STRINGS: the memory store's map is keyed by strconv.Itoa(index), the file
    store scans its index for m.Fid == id. This file gives the renderings and the string-keyed
    look-up that both stores perform; Proofs/StoreSpecIds.v shows that only the literal rendering
    of an id names its message (no other spelling: "03", "+3", " 3" name nothing). No proofs here. *)
From IV Require Import Base.Bytes Model.StoreSpec Model.StoreSpecImpl.

(** strconv.Itoa for a natural number. *)
Fixpoint itoa_aux (fuel : nat) (n : N) (acc : str) : str :=
  match fuel with
  | O => acc
  | S f => let acc' := (48 + n mod 10) :: acc in
           if n / 10 =? 0 then acc' else itoa_aux f (n / 10) acc'
  end.
Definition itoa (n : nat) : str := itoa_aux (S n) (N.of_nat n) [].

(** What strconv.Atoi accepts is larger: an optional sign and any number of leading zeros. *)
Definition is_digit_b (c : N) : bool := (48 <=? c) && (c <=? 57).
Definition atoi_digits (s : str) : option N :=
  match s with
  | [] => None
  | _ => if forallb is_digit_b s then Some (fold_left (fun a c => a * 10 + (c - 48)) s 0) else None
  end.
Definition atoi (s : str) : option N :=
  match s with
  | 43 :: s' => atoi_digits s'          (* '+' *)
  | _ => atoi_digits s
  end.

Section ByString.
Variable ID : Type.
Variable render : ID -> str.

(** The look-up the stores perform: compare the given string with the rendering of each key. *)
Fixpoint find_by_string (s : str) (l : list (ID * msg)) : option (ID * msg) :=
  match l with
  | [] => None
  | (i, m) :: l' => if str_eqb s (render i) then Some (i, m) else find_by_string s l'
  end.
End ByString.

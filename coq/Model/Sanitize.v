(** C18 — executable model of inbucket's own sanitising logic.

    What is modelled (as the code does it, pkg/webui/sanitize/css.go, html.go,
    pkg/server/web/helpers.go):
      - [sanitize_style]   : sanitizeStyle's three-state machine over the token list the
                             gorilla/css scanner produced (the scanner itself is NOT modelled:
                             the token list is the model's input);
      - [style_tag_filter] : styleTagFilter's rewrite of every start tag that has attributes,
                             over the item list the x/net/html tokenizer produced (tokenizer NOT
                             modelled), with html.EscapeString of x/net/html as a byte table;
      - [text_to_html]     : TextToHTML = html.EscapeString (stdlib table) -> wrap every URL match
                             in an anchor (WrapURL) -> line-break replacer; the URL matches are an
                             input (the intervals Go's regexp found; regexp NOT modelled).
    All constants (allow-list, token kinds and names, escape tables, the literals of WrapURL and
    of the replacer) come from Gen/SanitizeConsts.v, regenerated from the source on every run.
    No proofs here. *)
From IV Require Import Base.Bytes Gen.SanitizeConsts.

(* ------------------------------------------------------------------ helpers *)

Fixpoint strip_prefix (p s : str) : option str :=
  match p, s with
  | [], _ => Some s
  | x :: p', y :: s' => if x =? y then strip_prefix p' s' else None
  | _ :: _, [] => None
  end.

Definition is_nil {A} (l : list A) : bool := match l with [] => true | _ => false end.

(** Go's strings.ToLower, exact as far as comparison with ASCII strings goes: ASCII bytes are
    lower-cased; the (two) non-ASCII runes unicode.ToLower sends into ASCII are replaced by
    that ASCII byte (table generated from Go's unicode tables); every other non-ASCII byte is
    kept, so the result still holds a byte >= 128 and equals no ASCII string, exactly as Go's
    result (which maps a non-ASCII rune to a non-ASCII rune, an invalid byte to U+FFFD). *)
Fixpoint lower_special (tbl : list (str * N)) (s : str) : option (N * nat) :=
  match tbl with
  | [] => None
  | (enc, a) :: tbl' =>
      match strip_prefix enc s with
      | Some _ => Some (a, length enc)
      | None => lower_special tbl' s
      end
  end.

Fixpoint go_lower_aux (skip : nat) (s : str) : str :=
  match s with
  | [] => []
  | c :: s' =>
      match skip with
      | S k => go_lower_aux k s'
      | O =>
          if c <? 128 then lower_b c :: go_lower_aux O s'
          else match lower_special lower_to_ascii s with
               | Some (a, n) => a :: go_lower_aux (pred n) s'
               | None => c :: go_lower_aux O s'
               end
      end
  end.
Definition go_lower (s : str) : str := go_lower_aux O s.

(** strings.NewReplacer(pairs...).Replace / strings.ReplaceAll for non-empty old strings:
    left to right, at each position the first pair (argument order) whose old string is a
    prefix wins, the scan resumes after it. *)
Fixpoint first_match (pairs : list (str * str)) (s : str) : option (str * nat) :=
  match pairs with
  | [] => None
  | (old, new) :: ps =>
      if is_nil old then first_match ps s
      else match strip_prefix old s with
           | Some _ => Some (new, length old)
           | None => first_match ps s
           end
  end.

Fixpoint replace_aux (pairs : list (str * str)) (skip : nat) (s : str) : str :=
  match s with
  | [] => []
  | c :: s' =>
      match skip with
      | S k => replace_aux pairs k s'
      | O =>
          match first_match pairs s with
          | Some (new, n) => new ++ replace_aux pairs (pred n) s'
          | None => c :: replace_aux pairs O s'
          end
      end
  end.
Definition replace_pairs (pairs : list (str * str)) (s : str) : str := replace_aux pairs O s.

Fixpoint assoc_n {A} (k : N) (l : list (N * A)) : option A :=
  match l with
  | [] => None
  | (k', v) :: l' => if k' =? k then Some v else assoc_n k l'
  end.

(** EscapeString as a byte table (both implementations replace single bytes). *)
Definition esc_byte (tbl : list (N * str)) (c : N) : str :=
  match assoc_n c tbl with Some e => e | None => [c] end.
Definition escape (tbl : list (N * str)) (s : str) : str := flat_map (esc_byte tbl) s.

(* ------------------------------------------------------------ sanitizeStyle *)

Definition tok := (N * str)%type.   (* (type, value) as scanner.Token *)

Inductive sstate := StStart | StEat | StValid.

Definition is_semi (t : tok) : bool := (fst t =? tok_char) && str_eqb (snd t) [59].
Definition tok_name (ty : N) : str := match assoc_n ty tok_names with Some n => n | None => [] end.
Definition allowed (v : str) : bool := mem_str (go_lower v) allowed_properties.

(** What one handler call appends to the buffer, as pieces, so that the structure of the
    output can be stated: a marker comment, a property identifier, a value token. *)
Inductive piece :=
| PMarker (ty : N)        (* "/*" ++ type name ++ "*/" written by stateStart *)
| PProp (v : str)         (* allowed property identifier written by stateStart *)
| PVal (t : tok).         (* token written by stateValid *)

Definition render_piece (p : piece) : str :=
  match p with
  | PMarker ty => [47; 42] ++ tok_name ty ++ [42; 47]
  | PProp v => v
  | PVal t => snd t
  end.
Definition render (ps : list piece) : str := flat_map render_piece ps.

Definition style_step (s : sstate) (t : tok) : sstate * list piece :=
  match s with
  | StStart =>
      if fst t =? tok_ident then
        if allowed (snd t) then (StValid, [PProp (snd t)]) else (StEat, [])
      else if fst t =? tok_s then (StStart, [])
      else (StEat, [PMarker (fst t)])
  | StEat => if is_semi t then (StStart, []) else (StEat, [])
  | StValid => (if is_semi t then StStart else StValid, [PVal t])
  end.

(** None: the scanner reported an error token (sanitizeStyle returns ""). The end of the
    list is treated like EOF (the real scanner always ends with EOF or an error). *)
Fixpoint style_run (s : sstate) (toks : list tok) : option (list piece) :=
  match toks with
  | [] => Some []
  | t :: r =>
      if fst t =? tok_eof then Some []
      else if fst t =? tok_error then None
      else match style_run (fst (style_step s t)) r with
           | Some ps => Some (snd (style_step s t) ++ ps)
           | None => None
           end
  end.

Definition style_pieces (toks : list tok) : list piece :=
  match style_run StStart toks with Some ps => ps | None => [] end.
Definition sanitize_style (toks : list tok) : str := render (style_pieces toks).

(** SPEC (oracle, evaluated on a re-scan of what the implementation returned): the token list
    is a sequence of declarations separated by ';' whose first significant token (after white
    space and comments) is an allow-listed property identifier. *)
Fixpoint decls_ok (atstart : bool) (toks : list tok) : bool :=
  match toks with
  | [] => true
  | t :: r =>
      if fst t =? tok_eof then true
      else if fst t =? tok_error then false
      else if atstart then
        if (fst t =? tok_s) || (fst t =? tok_comment) || is_semi t then decls_ok true r
        else (fst t =? tok_ident) && allowed (snd t) && decls_ok false r
      else decls_ok (is_semi t) r
  end.

(** the same on the first significant token of each declaration (what the driver reports for
    every style attribute of the final document) *)
Definition decl_head_ok (t : tok) : bool := (fst t =? tok_ident) && allowed (snd t).

(* ---------------------------------------------------------- styleTagFilter *)

Inductive attr := Attr (key val : str) (toks : list tok).   (* toks: scan of val, used when key is style *)
Inductive item :=
| Raw (b : str)                                        (* z.Raw() written through *)
| Tag (name : str) (attrs : list attr) (selfclosing : bool).   (* start tag WITH attributes *)

Definition style_key : str := [115; 116; 121; 108; 101].

Definition filter_attr (a : attr) : str :=
  match a with
  | Attr key val toks =>
      let style := str_eqb (go_lower key) style_key in
      let v := if style then sanitize_style toks else val in
      if style && is_nil v then []
      else [32] ++ key ++ [61; 34] ++ escape esc_x v ++ [34]
  end.

Definition filter_item (it : item) : str :=
  match it with
  | Raw b => b
  | Tag name attrs sc =>
      [60] ++ name ++ flat_map filter_attr attrs ++ (if sc then [47] else []) ++ [62]
  end.

Definition style_tag_filter (items : list item) : str := flat_map filter_item items.

(* --------------------------------------------------------------- TextToHTML *)

Definition escape_std (s : str) : str := escape esc_std s.

Definition anchor (m : str) : str :=
  let un := replace_pairs [(wrap_amp_old, wrap_amp_new)] m in
  wrap_pre ++ (if wrap_first_raw then m else un) ++ wrap_mid
           ++ (if wrap_second_raw then m else un) ++ wrap_post.

Inductive seg := SText (x : str) | SAnchor (m : str).
Definition render_seg (s : seg) : str := match s with SText x => x | SAnchor m => anchor m end.

(** ReplaceAllStringFunc over the match intervals [a,b) (positions in the escaped text).
    Intervals that start before the current position or end before they start are ignored,
    so the function is total over arbitrary interval lists. *)
Fixpoint wrap_segs (pos : N) (e : str) (ivs : list (N * N)) : list seg :=
  match ivs with
  | [] => [SText e]
  | (a, b) :: r =>
      if (pos <=? a) && (a <=? b) then
        SText (firstn (N.to_nat (a - pos)) e)
        :: SAnchor (firstn (N.to_nat (b - a)) (skipn (N.to_nat (a - pos)) e))
        :: wrap_segs b (skipn (N.to_nat (b - a)) (skipn (N.to_nat (a - pos)) e)) r
      else wrap_segs pos e r
  end.

Definition wrap_urls (e : str) (ivs : list (N * N)) : str := flat_map render_seg (wrap_segs 0 e ivs).

Definition text_to_html (t : str) (ivs : list (N * N)) : str :=
  replace_pairs line_pairs (wrap_urls (escape_std t) ivs).

(** Hypothesis on the regexp's matches, as a computable check: every (valid) match is
    non-empty and holds neither CR nor LF (the URL pattern excludes white space). *)
Definition plain_match (m : str) : bool :=
  negb (is_nil m) && negb (mem_b 13 m) && negb (mem_b 10 m).
Definition seg_plain (s : seg) : bool := match s with SText _ => true | SAnchor m => plain_match m end.
Definition matches_plain (e : str) (ivs : list (N * N)) : bool := forallb seg_plain (wrap_segs 0 e ivs).

(** SPEC (oracle on the implementation's output): removing every "<...>" gives the escaped
    text with line ends normalised to LF, and every "<...>" is a tag the server generates. *)
Fixpoint strip_tags (intag : bool) (s : str) : str :=
  match s with
  | [] => []
  | c :: r =>
      if intag then strip_tags (negb (c =? 62)) r
      else if c =? 60 then strip_tags true r
      else c :: strip_tags false r
  end.

(** contents of the "<...>" stretches; an unterminated one is flagged false *)
Fixpoint tags_of (cur : option str) (s : str) : list (bool * str) :=
  match s with
  | [] => match cur with Some t => [(false, rev t)] | None => [] end
  | c :: r =>
      match cur with
      | Some t => if c =? 62 then (true, rev t) :: tags_of None r else tags_of (Some (c :: t)) r
      | None => if c =? 60 then tags_of (Some []) r else tags_of None r
      end
  end.

Fixpoint normalise_nl (s : str) : str :=
  match s with
  | [] => []
  | c :: r =>
      if c =? 13 then
        match r with
        | d :: r2 => if d =? 10 then 10 :: normalise_nl r2 else 10 :: normalise_nl r
        | [] => [10]
        end
      else c :: normalise_nl r
  end.

Definition tag_br : str := [98; 114; 47].          (* br/ *)
Definition tag_close_a : str := [47; 97].           (* /a *)
(** The anchor opening the SPEC accepts is fixed here, literally (not taken from the code):
    [a href=], double quote, href, double quote, [ target=], quoted [_blank]. The proofs tie
    the code's generated literals (Gen: wrap_pre, wrap_mid, wrap_post) to these. *)
Definition anchor_open_pre : str := [97; 32; 104; 114; 101; 102; 61; 34].
Definition anchor_open_post : str := [34; 32; 116; 97; 114; 103; 101; 116; 61; 34; 95; 98; 108; 97; 110; 107; 34].

Fixpoint span_not (c : N) (s : str) : str * str :=
  match s with
  | [] => ([], [])
  | x :: r => if x =? c then ([], s) else let (a, b) := span_not c r in (x :: a, b)
  end.

(** a href="h" target="_blank" with no double quote inside h *)
Definition anchor_open_ok (c : str) : bool :=
  match strip_prefix anchor_open_pre c with
  | Some rest => str_eqb (snd (span_not 34 rest)) anchor_open_post
  | None => false
  end.

Definition gen_tag_ok (t : bool * str) : bool :=
  fst t && (str_eqb (snd t) tag_br || str_eqb (snd t) tag_close_a || anchor_open_ok (snd t)).

Definition text_spec (t out : str) : bool :=
  str_eqb (strip_tags false out) (normalise_nl (escape_std t))
  && forallb gen_tag_ok (tags_of None out).

(** the href values of the generated anchors (reported by the runner: scheme statistics) *)
Definition hrefs_of (out : str) : list str :=
  flat_map (fun t => match strip_prefix anchor_open_pre (snd t) with
                     | Some rest => [fst (span_not 34 rest)]
                     | None => [] end) (tags_of None out).

(** Session.parseMailFromCmd's parsing steps computed by the model: the MAIL argument pattern
    and the ESMTP parameter pattern are run as the RE2 programs Go compiles them to (Gen/SmtpRegex.v,
    regenerated from the source on every run) by the interpreter of Base/Regex.v; ParseOrigin is
    Model/Addr.v's. What remains an oracle is net.ParseIP. No proofs here. *)
From IV Require Import Base.Bytes Base.Regex Gen.SmtpRegex Model.Policy Model.Smtp Model.SmtpWire Model.SmtpAddr.

Definition w_SIZE : str := [83;73;90;69].

(** parseArgs fills a map keyed by the upper-cased parameter name: the last SIZE wins. *)
Fixpoint size_of_args (s : str) (ms : list caps) (acc : option str) : option str :=
  match ms with
  | [] => acc
  | c :: r => if str_eqb (upper (group s c 1)) w_SIZE then size_of_args s r (Some (group s c 2))
              else size_of_args s r acc
  end.

(** [None]: the interpreter ran out of fuel or met an unsupported instruction. *)
Definition mail_facts_of (parse_ip : str -> bool) (arg : str) : option mailfacts :=
  match find from_prog arg with
  | MNone => Some {| mf_match := false; mf_has_params := false; mf_params_ok := false; mf_size := None; mf_origin := None |}
  | MFound c =>
      let g1 := group arg c 1 in
      let g2 := group arg c 2 in
      match g2 with
      | [] => Some {| mf_match := true; mf_has_params := false; mf_params_ok := false; mf_size := None;
                      mf_origin := origin_of parse_ip g1 |}
      | _ =>
          match find_all args_prog g2 with
          | None => None
          | Some [] => Some {| mf_match := true; mf_has_params := true; mf_params_ok := false; mf_size := None;
                               mf_origin := origin_of parse_ip g1 |}
          | Some ms => Some {| mf_match := true; mf_has_params := true; mf_params_ok := true;
                               mf_size := size_of_args g2 ms None; mf_origin := origin_of parse_ip g1 |}
          end
      end
  | _ => None
  end.

(** ** An independent reading of the SIZE declaration (C06)
    The parser above is the code's own (regenerated patterns): if the patterns stop seeing a parameter, so does the
    model.  The property, however, speaks of "the declared SIZE".  This is the declaration read without the patterns:
    the text behind the first "> " cut at blanks; when exactly one token names SIZE (any letter case) and it is
    SIZE=<digits>, that is what the command declares.  Wherever the command is accepted syntactically, the parser
    must have seen exactly that. *)
Fixpoint after_path (s : str) : option str :=
  match s with
  | 62 :: 32 :: r => Some r
  | _ :: r => after_path r
  | [] => None
  end.
Definition w_SIZE_eq : str := [83;73;90;69;61].
Definition names_size (t : str) : bool := str_eqb (upper (firstn 5 t)) w_SIZE_eq.
Definition is_size_token (t : str) : option str :=
  let v := skipn 5 t in
  match v with
  | [] => None
  | _ => if names_size t && forallb is_digit v then Some v else None
  end.
Definition declared_size_spec (arg : str) : option str :=
  match after_path arg with
  | None => None
  | Some ps =>
      match filter names_size (split_on 32 ps) with
      | [t] => is_size_token t
      | _ => None
      end
  end.
Definition size_seen_ok (arg : str) (f : mailfacts) : bool :=
  if mf_match f && mf_params_ok f then
    match declared_size_spec arg with
    | Some ds => match mf_size f with Some x => str_eqb x ds | None => false end
    | None => true
    end
  else true.

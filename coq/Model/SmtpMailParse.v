(** Session.parseMailFromCmd's parsing steps computed by the model: the MAIL argument pattern
    and the ESMTP parameter pattern are run as the RE2 programs Go compiles them to (Gen/SmtpRegex.v,
    regenerated from the source on every run) by the interpreter of Base/Regex.v; ParseOrigin is
    Model/Addr.v's. What remains an oracle is net.ParseIP. No proofs here. *)
From IV Require Import Base.Bytes Base.Regex Gen.SmtpRegex Model.Policy Model.Smtp Model.SmtpWire Model.SmtpAddr.

Definition w_SIZE : str := [83;73;90;69].

(** parseArgs fills a map keyed by the upper-cased parameter name: the last SIZE wins. *)
Fixpoint size_of_args (s : str) (ms : list caps) (acc : option str) : option str :=
  match ms with
  | [] => acc
  | c :: r => if str_eqb (upper (group s c 1)) w_SIZE then size_of_args s r (Some (group s c 2))
              else size_of_args s r acc
  end.

(** [None]: the interpreter ran out of fuel or met an unsupported instruction. *)
Definition mail_facts_of (parse_ip : str -> bool) (arg : str) : option mailfacts :=
  match find from_prog arg with
  | MNone => Some {| mf_match := false; mf_has_params := false; mf_params_ok := false; mf_size := None; mf_origin := None |}
  | MFound c =>
      let g1 := group arg c 1 in
      let g2 := group arg c 2 in
      match g2 with
      | [] => Some {| mf_match := true; mf_has_params := false; mf_params_ok := false; mf_size := None;
                      mf_origin := origin_of parse_ip g1 |}
      | _ =>
          match find_all args_prog g2 with
          | None => None
          | Some [] => Some {| mf_match := true; mf_has_params := true; mf_params_ok := false; mf_size := None;
                               mf_origin := origin_of parse_ip g1 |}
          | Some ms => Some {| mf_match := true; mf_has_params := true; mf_params_ok := true;
                               mf_size := size_of_args g2 ms None; mf_origin := origin_of parse_ip g1 |}
          end
      end
  | _ => None
  end.

(** Session.parseMailFromCmd's parsing steps computed by the model: the MAIL argument pattern
    and the ESMTP parameter pattern are run as the RE2 programs Go compiles them to (Gen/SmtpRegex.v,
    regenerated from the source on every run) by the interpreter of Base/Regex.v; ParseOrigin is
    Model/Addr.v's. What remains an oracle is net.ParseIP. No proofs here. *)
From IV Require Import Base.Bytes Base.Regex Gen.SmtpRegex Model.Policy Model.Smtp Model.SmtpWire Model.SmtpAddr.

Definition w_SIZE : str := [83;73;90;69].

(** parseArgs fills a map keyed by the upper-cased parameter name: the last SIZE wins. *)
Fixpoint size_of_args (s : str) (ms : list caps) (acc : option str) : option str :=
  match ms with
  | [] => acc
  | c :: r => if str_eqb (upper (group s c 1)) w_SIZE then size_of_args s r (Some (group s c 2))
              else size_of_args s r acc
  end.

(** [None]: the interpreter ran out of fuel or met an unsupported instruction. *)
Definition mail_facts_of (parse_ip : str -> bool) (arg : str) : option mailfacts :=
  match find from_prog arg with
  | MNone => Some {| mf_match := false; mf_has_params := false; mf_params_ok := false; mf_size := None; mf_origin := None |}
  | MFound c =>
      let g1 := group arg c 1 in
      let g2 := group arg c 2 in
      match g2 with
      | [] => Some {| mf_match := true; mf_has_params := false; mf_params_ok := false; mf_size := None;
                      mf_origin := origin_of parse_ip g1 |}
      | _ =>
          match find_all args_prog g2 with
          | None => None
          | Some [] => Some {| mf_match := true; mf_has_params := true; mf_params_ok := false; mf_size := None;
                               mf_origin := origin_of parse_ip g1 |}
          | Some ms => Some {| mf_match := true; mf_has_params := true; mf_params_ok := true;
                               mf_size := size_of_args g2 ms None; mf_origin := origin_of parse_ip g1 |}
          end
      end
  | _ => None
  end.

(** ** An independent reading of the SIZE declaration (C06)
    The parser above is the code's own (regenerated patterns): if the patterns stop seeing a parameter, so does the
    model.  The property, however, speaks of "the declared SIZE".  This is the declaration read without the patterns:
    the text behind the first "> " cut at blanks; when exactly one token names SIZE (any letter case) and it is
    SIZE=<digits>, that is what the command declares.  Wherever the command is accepted syntactically, the parser
    must have seen exactly that. *)
(** the text behind the first "> "; no reading at all when a double quote (34) or a backslash (92) comes before it: a
    quoted local part or a quoted pair may hold "> " inside the path; the patterns deal with that, this reading does
    not try to *)
Fixpoint after_path (s : str) : option str :=
  match s with
  | 62 :: 32 :: r => Some r
  | c :: r => if (c =? 34) || (c =? 92) then None else after_path r
  | [] => None
  end.
Definition w_SIZE_eq : str := [83;73;90;69;61].
Definition names_size (t : str) : bool := str_eqb (upper (firstn 5 t)) w_SIZE_eq.
Definition is_size_token (t : str) : option str :=
  let v := skipn 5 t in
  match v with
  | [] => None
  | _ => if names_size t && forallb is_digit v then Some v else None
  end.
Definition declared_size_spec (arg : str) : option str :=
  match after_path arg with
  | None => None
  | Some ps =>
      match filter names_size (split_on 32 ps) with
      | [t] => is_size_token t
      | _ => None
      end
  end.
(** wherever the patterns match the command at all: the parameters were seen, were accepted, and the SIZE among them is
    the declared one (a parser that matches but loses the parameter group fails this too) *)
Definition size_seen_ok (arg : str) (f : mailfacts) : bool :=
  if mf_match f then
    match declared_size_spec arg with
    | Some ds => mf_has_params f && mf_params_ok f &&
                 match mf_size f with Some x => str_eqb x ds | None => false end
    | None => true
    end
  else true.

(** ** An independent reading of a plain MAIL argument (C05 / C06)
    "a sender is refused exactly when its domain matches a reject-origin pattern", "messages within the limit are
    accepted": a MAIL command of the plainest shape must not be refused for its syntax.  The shape, read without the
    patterns: FROM: (any letter case), blanks, '<', an address of letters, digits and ._+- around one '@' (or nothing),
    '>', then parameters KEY=VALUE of letters and digits (or AUTH=<>), each behind one blank. *)
Definition plain_local (c : N) : bool := is_alpha c || is_digit c || (c =? 46) || (c =? 95) || (c =? 43) || (c =? 45).
Definition plain_dom (c : N) : bool := is_alpha c || is_digit c || (c =? 46) || (c =? 45).
Definition alnum (c : N) : bool := is_alpha c || is_digit c.
Fixpoint drop_blanks (s : str) : str := match s with 32 :: r => drop_blanks r | _ => s end.
Fixpoint span (f : N -> bool) (s : str) : str * str :=
  match s with
  | c :: r => if f c then let '(a, b) := span f r in (c :: a, b) else ([], s)
  | [] => ([], [])
  end.
Definition plain_param (t : str) : bool :=
  let '(k, r) := span alnum t in
  match k, r with
  | _ :: _, 61 :: v => (match v with [60; 62] => true | _ :: _ => forallb alnum v | [] => false end)
  | _, _ => false
  end.
Definition plain_mail_arg (arg : str) : bool :=
  if str_eqb (upper (firstn 5 arg)) [70;82;79;77;58] then
    match drop_blanks (skipn 5 arg) with
    | 60 :: r =>
        let '(l, r1) := span plain_local r in
        let after_addr :=
          match l, r1 with
          | [], 62 :: r2 => Some r2                                   (* <> *)
          | _ :: _, 64 :: r2 => let '(d, r3) := span plain_dom r2 in
                                match d, r3 with _ :: _, 62 :: r4 => Some r4 | _, _ => None end
          | _, _ => None
          end in
        match after_addr with
        | Some [] => true
        | Some (32 :: ps) => forallb plain_param (split_on 32 ps)
        | _ => false
        end
    | _ => false
    end
  else false.
Definition plain_mail_ok (arg : str) (f : mailfacts) : bool :=
  if plain_mail_arg arg then mf_match f && (negb (mf_has_params f) || mf_params_ok f) else true.

(** STLS and CAPA of the POP3 server as coded (pkg/server/pop3/handler.go: the CAPA branch of
    startSession, the STLS case of authorizationHandler; listener.go: Server.tlsConfig,
    Server.tlsState), as a layer around the session model of Model/Pop3.v, which keeps TLS
    switched off (STLS answers -ERR, CAPA never lists STLS).

    What the code does:
    - [tlsConfig != nil] iff TLSEnabled.  CAPA lists STLS iff
      [tlsConfig != nil && tlsState == nil && !ForceTLS].
    - STLS is a case of authorizationHandler only (TRANSACTION: out of sequence).  It answers
      "-ERR TLS unavailable" if [!TLSEnabled || ForceTLS], "-ERR A TLS session already agreed
      upon" if [tlsState != nil], else "+OK Begin TLS Negotiation" and runs the handshake.
    - [tlsState] is a field of the SERVER (Session embeds *Server): it is shared by all
      sessions.  After one session has upgraded, STLS is refused and no longer advertised on
      every other connection of that server, for good.
    - If the handshake fails the handler logs, answers "-ERR Command STLS is out of sequence"
      (still in plaintext) and - there is no return - goes on to replace the connection by the
      failed tls.Conn and to set [tlsState]: the next read fails, the error reply cannot be
      written, the session ends; the server is marked as upgraded all the same.
    - After a successful handshake the session's bufio.Reader is replaced
      ([bufio.NewReader(tlsConn)]): plaintext that was buffered behind the STLS line (pipelined
      in the same segment) is dropped, never executed.  State, user name and everything else
      of the session stay as they were.
    - ForceTLS: startSession wraps the connection and sets [tlsState] before the first read.
    No proofs in this file. *)
From IV Require Import Base.Bytes Model.Pop3Wire Model.Pop3.
Open Scope N_scope.

Record tcfg := { t_enabled : bool; t_force : bool }.

(** One connection under the TLS layer. [t_srv] is the server's [tlsState != nil]; it
    outlives the connection. *)
Record tworld := {
  t_w : world;               (* the session as Model/Pop3.v sees it *)
  t_srv : bool;              (* Server.tlsState != nil *)
  t_secure : bool;           (* this connection has been upgraded *)
  t_pend : str;              (* bytes of an incomplete line held by the session's bufio.Reader *)
  t_flags : list bool;       (* for every reply in [w_out (t_w _)]: "STLS is listed" (CAPA replies only) *)
  t_upgrades : nat           (* ghost: handshakes started by this server so far *)
}.

Definition capa_lists_stls (tc : tcfg) (srv : bool) : bool :=
  t_enabled tc && negb srv && negb (t_force tc).

Definition stls_available (tc : tcfg) (srv : bool) : bool :=
  t_enabled tc && negb (t_force tc) && negb srv.

Definition is_stls (c : cmd) : bool := match c with CCmd STLS _ => true | _ => false end.
Definition is_capa (c : cmd) : bool := match c with CCapa => true | _ => false end.

Definition pad (tw : tworld) (w' : world) (flag : bool) : list bool :=
  t_flags tw ++ repeat flag (length (w_out w') - length (w_out (t_w tw))).

(** One command line. [hs] is what the client does if this line turns out to be an accepted
    STLS: a proper handshake or not.  The second component says "the reader was replaced". *)
Definition tline (tc : tcfg) (fl : flavour) (tw : tworld) (l : str) (hs : bool) : tworld * bool :=
  let w := t_w tw in
  let c := parse_line l in
  let accepted :=
    is_open w && negb (w_wfail w) && is_stls c &&
    match s_state (w_sess w) with Auth => true | _ => false end &&
    stls_available tc (t_srv tw) in
  if accepted then
    if hs then
      ({| t_w := {| w_store := w_store w; w_sess := w_sess w; w_wfail := false; w_out := w_out w ++ [r_plus] |};
          t_srv := true; t_secure := true; t_pend := [];
          t_flags := t_flags tw ++ [false]; t_upgrades := S (t_upgrades tw) |}, true)
    else
      ({| t_w := {| w_store := w_store w; w_sess := set_state (w_sess w) Closed; w_wfail := true;
                    w_out := w_out w ++ [r_plus; r_minus] |};
          t_srv := true; t_secure := false; t_pend := [];
          t_flags := t_flags tw ++ [false; false]; t_upgrades := S (t_upgrades tw) |}, true)
  else
    let w' := wstep fl w (ELine l) in
    ({| t_w := w'; t_srv := t_srv tw; t_secure := t_secure tw; t_pend := t_pend tw;
        t_flags := pad tw w' (is_capa c && capa_lists_stls tc (t_srv tw)); t_upgrades := t_upgrades tw |}, false).

(** The complete lines of one segment, in order; what is buffered behind an accepted STLS is
    dropped together with the old reader. *)
Fixpoint tlines (tc : tcfg) (fl : flavour) (tw : tworld) (ls : list str) (hs : bool) : tworld * bool :=
  match ls with
  | [] => (tw, false)
  | l :: ls' =>
      let (tw', replaced) := tline tc fl tw l hs in
      if replaced then (tw', true) else tlines tc fl tw' ls' hs
  end.

Definition with_pend (tw : tworld) (p : str) : tworld :=
  {| t_w := t_w tw; t_srv := t_srv tw; t_secure := t_secure tw; t_pend := p;
     t_flags := t_flags tw; t_upgrades := t_upgrades tw |}.

(** One segment of client bytes (one Read of the session's bufio.Reader). *)
Definition tchunk (tc : tcfg) (fl : flavour) (tw : tworld) (b : str) (hs : bool) : tworld :=
  let (ls, p) := feed (frev (t_pend tw)) b in
  let (tw', replaced) := tlines tc fl tw ls hs in
  if replaced then tw' else with_pend tw' p.

(** Any other event (EOF, read error, what other clients do to the store). *)
Definition tother (fl : flavour) (tw : tworld) (e : event) : tworld :=
  let w' := wstep fl (t_w tw) e in
  {| t_w := w'; t_srv := t_srv tw; t_secure := t_secure tw; t_pend := t_pend tw;
     t_flags := pad tw w' false; t_upgrades := t_upgrades tw |}.

Inductive tevent :=
  | TChunk (b : str) (hs : bool)
  | TOther (e : event).

Definition tstep (tc : tcfg) (fl : flavour) (tw : tworld) (te : tevent) : tworld :=
  match te with
  | TChunk b hs => tchunk tc fl tw b hs
  | TOther e => tother fl tw e
  end.

(** A new connection to the same server against the same store. *)
Definition tconnect (tc : tcfg) (st : store) (srv : bool) (ups : nat) : tworld :=
  {| t_w := init_world st; t_srv := srv || t_force tc; t_secure := t_force tc; t_pend := [];
     t_flags := [false]; t_upgrades := ups |}.

Definition trun (tc : tcfg) (fl : flavour) (tw : tworld) (tes : list tevent) : tworld :=
  fold_left (tstep tc fl) tes tw.

(** Several connections, one after the other, on ONE server: the store and the server's
    tlsState carry over. Returns the final connection states, oldest first. *)
Fixpoint tsessions (tc : tcfg) (fl : flavour) (st : store) (srv : bool) (ups : nat)
         (conns : list (list tevent)) : list tworld :=
  match conns with
  | [] => []
  | tes :: rest =>
      let tw := trun tc fl (tconnect tc st srv ups) (tes ++ [TOther EEof]) in
      tw :: tsessions tc fl (w_store (t_w tw)) (t_srv tw) (t_upgrades tw) rest
  end.

(** The hub's operations as the small programs the translator reads off pkg/msghub/hub.go
    (Gen/HubShape.v), and an interpreter for them over the model's hub state. Proofs/HubShape.v
    shows that the model's [exec_op] IS the interpretation of the programs found in the source, and
    that the select arms / Close order found there are the ones the model's steps assume.
    No proofs in this file. *)
From IV Require Import Base.Bytes Gen.HubShape Model.Hub.
Local Open Scope nat_scope.

Definition with_ring (h : hub) (r : list (option msg)) : hub :=
  mkH r (regs h) (ls h) (opq h) (work h) (synced h) (stopped h) (hlog h).
Definition with_regs (h : hub) (r : list nat) : hub :=
  mkH (ring h) r (ls h) (opq h) (work h) (synced h) (stopped h) (hlog h).
Definition add_work (h : hub) (w : list delivery) : hub :=
  mkH (ring h) (regs h) (ls h) (opq h) (work h ++ w) (synced h) (stopped h) (hlog h).
Definition with_synced (h : hub) (s : list nat) : hub :=
  mkH (ring h) (regs h) (ls h) (opq h) (work h) s (stopped h) (hlog h).

(** One statement of an op's closure, for the op it belongs to. [None]: the statement does not fit
    the op, or its behaviour cannot be given by this model (an unguarded write to a nil ring panics;
    removing from a SLICE of listeners while ranging over it skips and repeats elements; appending to
    a slice registers twice). *)
Definition istmt (cont : container) (o : op) (st : hstmt) (h : hub) : option hub :=
  match st, o with
  | PHistWrite true, ODispatch m => Some (with_ring h (ring_push (ring h) m))
  | PRingDel, ODelete m => Some (with_ring h (ring_del (ring h) m))
  | PBroadcast false drop, ODispatch m =>
      match cont, drop with
      | CMap, _ | _, false => Some (add_work h (map (fun l => mkD (Stored m) l drop) (regs h)))
      | _, _ => None
      end
  | PBroadcast true drop, ODelete m =>
      match cont, drop with
      | CMap, _ | _, false => Some (add_work h (map (fun l => mkD (Deleted m) l drop) (regs h)))
      | _, _ => None
      end
  | PReplay ign, OAdd l => Some (add_work h (map (fun x => mkD (Stored x) l (negb ign)) (ring_live (ring h))))
  | PRegister, OAdd l => match cont with CMap => Some (with_regs h (add_nat l (regs h))) | _ => None end
  | PUnregister, ORemove l => match cont with CMap => Some (with_regs h (rm_nat l (regs h))) | _ => None end
  | PCloseSync, OSync t => Some (with_synced h (t :: synced h))
  | _, _ => None
  end.

Fixpoint interp (cont : container) (o : op) (p : list hstmt) (h : hub) : option hub :=
  match p with
  | [] => Some h
  | st :: t => match istmt cont o st h with Some h' => interp cont o t h' | None => None end
  end.

(** The program the source has for an op. *)
Definition prog_of (o : op) : list hstmt :=
  match o with
  | ODispatch _ => dispatch_prog
  | ODelete _ => delete_prog
  | OAdd _ => add_prog
  | ORemove _ => remove_prog
  | OSync _ => sync_prog
  end.

(** What the model's steps assume about the selects and about Close. *)
Definition model_start_arms : list arm := [ArmCtxDoneStop; ArmOpRun].        (* AStop / AHub: nothing else moves the hub goroutine *)
Definition model_enqueue_arms : list arm := [ArmSendOp; ArmDoneGiveUp].      (* [enq]: send, or give up after shutdown; NO default arm: it waits *)
Definition model_sync_arms : list arm := [ArmSyncRan; ArmDoneGiveUp].        (* [sync_returns] *)
Definition model_listener_arms : list arm := [ArmQueueSendOk; ArmListenerDoneError].   (* [deliver]: room / closed; NO default arm: the hub waits *)
Definition model_close : list cstmt := [CCloseDone; CRemoveListener].        (* AClose, then ARm *)

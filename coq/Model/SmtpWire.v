(** Byte-level front end of the SMTP session model: line reading as textproto.ReadLine does
    it, Session.parseCmd, the argument checks of the individual handlers, and the loop that
    alternates between line mode and dot-block mode. The outcomes of the address / parameter
    parsers, of header decoding and of extension hooks enter as lookup tables ([oracles]); they
    are supplied by the driver from the real functions (and, for addresses, can be computed by
    Model/Addr.v). No proofs here. *)
From IV Require Import Base.Bytes Model.Policy Model.Smtp Model.Dot.

(** textproto.Reader.ReadLine on the remaining input: [None] = EOF. A final line without LF
    is returned as it is (bufio.ReadLine hands out the partial line before reporting EOF). *)
Fixpoint split_lf (w : str) : option (str * str) :=
  match w with
  | [] => None
  | c :: w' =>
      if c =? LFb then Some ([], w')
      else match split_lf w' with
           | Some (l, r) => Some (c :: l, r)
           | None => None
           end
  end.
Fixpoint drop_last_cr (l : str) : str :=
  match l with
  | [] => []
  | [c] => if c =? CRb then [] else [c]
  | c :: l' => c :: drop_last_cr l'
  end.
Definition read_line (w : str) : option (str * str) :=
  match w with
  | [] => None
  | _ => match split_lf w with
         | Some (l, r) => Some (drop_last_cr l, r)
         | None => Some (w, [])
         end
  end.

(** strings.TrimRight(line, "\r\n") *)
Definition is_crlf (c : N) : bool := (c =? CRb) || (c =? LFb).
Fixpoint trim_right (f : N -> bool) (l : str) : str :=
  match l with
  | [] => []
  | c :: l' => match trim_right f l' with
               | [] => if f c then [] else [c]
               | t => c :: t
               end
  end.
Fixpoint trim_left (f : N -> bool) (l : str) : str :=
  match l with
  | [] => []
  | c :: l' => if f c then trim_left f l' else l
  end.
Definition trim (f : N -> bool) (l : str) : str := trim_right f (trim_left f l).
Definition is_sp (c : N) : bool := c =? 32.

(** strings.ToUpper as far as it can produce an ASCII command word: ASCII letters, and the two
    non-ASCII runes whose upper case is ASCII (U+0131 dotless i = C4 B1 -> 'I', U+017F long s =
    C5 BF -> 'S'). Any other non-ASCII byte is mapped to 255, which no command contains. *)
Fixpoint upper_cmd (l : str) : str :=
  match l with
  | [] => []
  | 196 :: 177 :: l' => 73 :: upper_cmd l'
  | 197 :: 191 :: l' => 83 :: upper_cmd l'
  | c :: l' => (if c <? 128 then upper_b c else 255) :: upper_cmd l'
  end.

Fixpoint split_sp (l : str) : option (str * str) :=   (* at the first space *)
  match l with
  | [] => None
  | c :: l' =>
      if c =? 32 then Some ([], l')
      else match split_sp l' with
           | Some (a, b) => Some (c :: a, b)
           | None => None
           end
  end.

Inductive cmdparse := CEmpty | CGarbled | CCmd (cmd arg : str).
Definition parse_cmd (line : str) : cmdparse :=
  let line := trim_right is_crlf line in
  match split_sp line with
  | Some (w, rest) =>
      match w with
      | [] => CEmpty
      | _ => if (length w <? 4)%nat then CGarbled else CCmd (upper_cmd w) (trim is_sp rest)
      end
  | None =>
      match line with
      | [] => CEmpty
      | _ => if (length line <? 4)%nat then CGarbled else CCmd (upper_cmd line) []
      end
  end.

(** Command words as byte strings. *)
Definition w_HELO : str := [72;69;76;79].   Definition w_EHLO : str := [69;72;76;79].
Definition w_MAIL : str := [77;65;73;76].   Definition w_RCPT : str := [82;67;80;84].
Definition w_DATA : str := [68;65;84;65].   Definition w_RSET : str := [82;83;69;84].
Definition w_SEND : str := [83;69;78;68].   Definition w_SOML : str := [83;79;77;76].
Definition w_SAML : str := [83;65;77;76].   Definition w_VRFY : str := [86;82;70;89].
Definition w_EXPN : str := [69;88;80;78].   Definition w_HELP : str := [72;69;76;80].
Definition w_NOOP : str := [78;79;79;80].   Definition w_QUIT : str := [81;85;73;84].
Definition w_TURN : str := [84;85;82;78].   Definition w_AUTH : str := [65;85;84;72].
Definition w_STARTTLS : str := [83;84;65;82;84;84;76;83].
Definition w_TO : str := [84;79;58].         (* "TO:" *)
Definition w_PLAIN : str := [80;76;65;73;78]. Definition w_LOGIN : str := [76;79;71;73;78].

(** The decimal value of a SIZE parameter as the pattern \w+ lets it through: digits only (a
    letter or underscore is a syntax error for ParseInt); the magnitude is unbounded here, the
    32-bit range check is the session's ([Smtp.int32_max]). *)
Fixpoint digits_val (acc : Z) (l : str) : option Z :=
  match l with
  | [] => Some acc
  | c :: l' => if is_digit c then digits_val (acc * 10 + Z.of_N (c - 48)) l' else None
  end.
Definition parse_size (l : str) : option Z :=
  match l with
  | [] => None
  | _ => digits_val 0 l
  end.

(** What the driver reports about a MAIL argument: did fromRegex match, was a parameter group
    captured, did parseArgs succeed, the SIZE value if any, ParseOrigin's result on group 1. *)
Record mailfacts := { mf_match : bool; mf_has_params : bool; mf_params_ok : bool;
                      mf_size : option str; mf_origin : option origin }.
Definition mail_parse_of (f : mailfacts) : mail_parse :=
  if negb (mf_match f) then MBadSyntax
  else if mf_has_params f && negb (mf_params_ok f) then MBadParams
  else
    let sz := if mf_has_params f
              then match mf_size f with
                   | None => SzNone
                   | Some v => match parse_size v with Some n => SzVal n | None => SzBad end
                   end
              else SzNone in
    MParsed sz (mf_origin f).

Fixpoint assoc {A} (k : str) (t : list (str * A)) : option A :=
  match t with
  | [] => None
  | (k', v) :: t' => if str_eqb k k' then Some v else assoc k t'
  end.

Record oracles := {
  t_mail : list (str * mailfacts);            (* MAIL argument -> facts *)
  t_rcpt : list (str * option recipient);     (* trimmed RCPT address -> NewRecipient *)
  t_mail_hook : list (str * hook_ans);        (* origin address -> before.mail_from_accepted *)
  t_rcpt_hook : list (str * hook_ans);        (* recipient address -> before.rcpt_to_accepted *)
  t_hdr : list (str * option hdrinfo);        (* un-stuffed block -> header facts *)
  t_msg_hook : list (str * overrides) }.      (* Subject -> what before.message_stored changes *)

Definition hook_for (t : list (str * hook_ans)) (a : str) : hook_ans :=
  match assoc a t with Some h => h | None => NoAns end.

Definition first_word (a : str) : str := match split_sp a with Some (w, _) => w | None => a end.

(** strings.SplitN(arg, " ", 3) as far as AUTH looks at it: method and number of fields. *)
Definition auth_of (arg : str) : auth_arg :=
  match split_sp arg with
  | None => if str_eqb arg w_PLAIN then APlainBad else if str_eqb arg w_LOGIN then ALogin else AOther
  | Some (m, rest) =>
      if str_eqb m w_PLAIN then
        match split_sp rest with None => APlain2 | Some _ => APlainBad end
      else if str_eqb m w_LOGIN then ALogin else AOther
  end.

Definition is_rcpt_trim (c : N) : bool := (c =? 60) || (c =? 62) || (c =? 32).   (* "<> " *)

Definition classify (o : oracles) (line : str) : pline :=
  match parse_cmd line with
  | CEmpty => Empty
  | CGarbled => Garbled
  | CCmd cmd arg =>
      if str_eqb cmd w_HELO then Helo (first_word arg)
      else if str_eqb cmd w_EHLO then Ehlo (first_word arg)
      else if str_eqb cmd w_MAIL then
        match assoc arg (t_mail o) with
        | None => Mail MBadSyntax NoAns
        | Some f =>
            Mail (mail_parse_of f)
                 (match mf_origin f with Some og => hook_for (t_mail_hook o) (o_addr og) | None => NoAns end)
        end
      else if str_eqb cmd w_RCPT then
        if (length arg <? 4)%nat || negb (str_eqb (upper (firstn 3 arg)) w_TO) then Rcpt RBadSyntax NoAns
        else
          let addr := trim is_rcpt_trim (skipn 3 arg) in
          match assoc addr (t_rcpt o) with
          | Some (Some r) => Rcpt (RParsed (Some r)) (hook_for (t_rcpt_hook o) (r_addr r))
          | _ => Rcpt (RParsed None) NoAns
          end
      else if str_eqb cmd w_DATA then DataC (match arg with [] => true | _ => false end)
      else if str_eqb cmd w_RSET then Rset
      else if str_eqb cmd w_NOOP then Noop
      else if str_eqb cmd w_QUIT then Quit
      else if str_eqb cmd w_VRFY then Vrfy
      else if str_eqb cmd w_SEND || str_eqb cmd w_SOML || str_eqb cmd w_SAML
              || str_eqb cmd w_EXPN || str_eqb cmd w_HELP || str_eqb cmd w_TURN then Unimpl
      else if str_eqb cmd w_STARTTLS then Starttls
      else if str_eqb cmd w_AUTH then Auth (auth_of arg)
      else Unknown
  end.

Definition block_item (o : oracles) (body : str) : item :=
  let hdr := match assoc body (t_hdr o) with Some h => h | None => None end in
  B (PBlock body hdr (match hdr with Some h => assoc (h_subject h) (t_msg_hook o) | None => None end)).

(** The next input item in state [s] from the remaining bytes [w], and what is left. *)
Definition next_item (o : oracles) (s : session) (w : str) : item * str :=
  match st s with
  | DATA =>
      match dec BeginLine w with
      | Some (body, rest) => (block_item o body, rest)
      | None => (B PEof, [])
      end
  | _ =>
      match read_line w with
      | Some (line, rest) => (L (classify o line), rest)
      | None => (Eof, [])
      end
  end.

(** The session loop over a byte stream. Returns the items it consumed, the transcript and the
    final session. Fuel: one unit per item; [length w + 2] always suffices. *)
Fixpoint run_stream (fuel : nat) (c : scfg) (o : oracles) (s : session) (w : str)
  : list item * list entry * session :=
  match fuel with
  | O => ([], [], s)
  | S f =>
      match st s with
      | QUIT => ([], [], s)
      | _ =>
          let '(it, rest) := next_item o s w in
          match step c s it with
          | Ok s' r d =>
              let '(its, tr, sf) := run_stream f c o s' rest in
              (it :: its, (it, r, d) :: tr, sf)
          | _ => ([], [], s)
          end
      end
  end.

Definition run_bytes (c : scfg) (o : oracles) (w : str) : list item * list entry * session :=
  run_stream (length w + 2) c o init w.

(** ** STARTTLS on the wire
    TLS itself is transparent to the session (the same lines arrive, decrypted); what is NOT transparent is the
    moment of the switch: the session answers 220, wraps the connection and starts a NEW reader on it
    (handler.go: s.text = textproto.NewConn(tlsConn)) - whatever plaintext the old reader had buffered behind the
    STARTTLS line is gone, it is never executed (no "STARTTLS injection").  The input is the plaintext the client
    sent before its handshake followed by what it sent under TLS; [tl] is the length of the latter.  After the step
    that answers STARTTLS with 220, everything but the last [tl] bytes of the remaining input is dropped.  (If no
    STARTTLS is accepted the client of the correspondence check goes on in plaintext and nothing is dropped.)
    Scope: the plaintext is taken to have been in the session's read buffer (4 KiB) when the connection was wrapped;
    plaintext still unread at that moment is consumed by the handshake as garbage and the session ends - outside this
    model. *)
Definition accepted_starttls (it : item) (r : list rline) : bool :=
  match it, r with
  | L Starttls, [(220%Z, false)] => true
  | _, _ => false
  end.
Definition drop_plain (tl : nat) (rest : str) : str := skipn (length rest - tl) rest.

Fixpoint run_stream_tls (fuel : nat) (c : scfg) (o : oracles) (s : session) (w : str) (tl : nat)
  : list item * list entry * session :=
  match fuel with
  | O => ([], [], s)
  | S f =>
      match st s with
      | QUIT => ([], [], s)
      | _ =>
          let '(it, rest) := next_item o s w in
          match step c s it with
          | Ok s' r d =>
              let rest' := if accepted_starttls it r then drop_plain tl rest else rest in
              let '(its, tr, sf) := run_stream_tls f c o s' rest' tl in
              (it :: its, (it, r, d) :: tr, sf)
          | _ => ([], [], s)
          end
      end
  end.

Definition run_bytes_tls (c : scfg) (o : oracles) (plain secure : str) : list item * list entry * session :=
  run_stream_tls (length plain + length secure + 2) c o init (plain ++ secure) (length secure).

(** ** The connection as the session's reader sees it

    The client's bytes arrive in chunks; between two chunks the client pauses for longer than the
    configured timeout, so that exactly one read fails with a timeout there; after the last
    chunk the connection ends in one of three ways. What bufio / textproto make of this
    (bufio.Reader.ReadLine hands out a partial line it already holds together with the pending
    error and *drops* that error; DotReader returns the error as soon as its buffer is empty):
    - line mode, a complete line is available: it is consumed, nothing else happens;
    - line mode, bytes without LF, then a pause or the end: they are handed out as a line and
      the pending timeout is absorbed (the next read continues in the next chunk);
    - line mode, nothing buffered: a pause is [Idle], the end is [Eof] / [Idle] / [ConnErr];
    - DATA mode: a block terminated inside the current chunk is read; otherwise a pause (or a
      silent end) is [PIdle], EOF or another error is [PEof]. *)
Inductive fin_kind := FEof | FIdle | FErr.
Record reader := { cur : str; later : list str; fin : fin_kind }.
Definition end_item (f : fin_kind) : item :=
  match f with FEof => Eof | FIdle => Idle | FErr => ConnErr end.
Definition end_payload (f : fin_kind) : payload := match f with FIdle => PIdle | _ => PEof end.
Definition spent (r : reader) : reader := {| cur := []; later := []; fin := fin r |}.

Definition next_item_net (o : oracles) (s : session) (r : reader) : item * reader :=
  match st s with
  | DATA =>
      match dec BeginLine (cur r) with
      | Some (body, rest) => (block_item o body, {| cur := rest; later := later r; fin := fin r |})
      | None =>
          match later r with
          | [] => (B (end_payload (fin r)), spent r)
          | _ :: _ => (B PIdle, spent r)
          end
      end
  | _ =>
      match cur r with
      | [] =>
          match later r with
          | [] => (end_item (fin r), spent r)
          | _ :: _ => (Idle, spent r)
          end
      | _ :: _ =>
          match split_lf (cur r) with
          | Some (l, rest) =>
              (L (classify o (drop_last_cr l)), {| cur := rest; later := later r; fin := fin r |})
          | None =>
              (L (classify o (cur r)),
               match later r with
               | [] => spent r
               | w' :: ws => {| cur := w'; later := ws; fin := fin r |}
               end)
          end
      end
  end.

Fixpoint run_reader (fuel : nat) (c : scfg) (o : oracles) (s : session) (r : reader)
  : list item * list entry * session :=
  match fuel with
  | O => ([], [], s)
  | S f =>
      match st s with
      | QUIT => ([], [], s)
      | _ =>
          let '(it, r') := next_item_net o s r in
          match step c s it with
          | Ok s' rp d =>
              let '(its, tr, sf) := run_reader f c o s' r' in
              (it :: its, (it, rp, d) :: tr, sf)
          | _ => ([], [], s)
          end
      end
  end.

Definition total_len (ws : list str) : nat := fold_right (fun w n => (length w + n)%nat) 0%nat ws.
(** Fuel: every item but the last consumes a byte or a chunk boundary. *)
Definition run_net (c : scfg) (o : oracles) (chunks : list str) (f : fin_kind)
  : list item * list entry * session :=
  match chunks with
  | [] => run_reader 2 c o init {| cur := []; later := []; fin := f |}
  | w :: ws => run_reader (total_len chunks + length chunks + 2) c o init {| cur := w; later := ws; fin := f |}
  end.

(** Flat reply stream as a client sees it. *)
Definition replies_of (tr : list entry) : list rline := concat (map (fun e => snd (fst e)) tr).

(** ** Writes that fail

    From some reply line on the server cannot write any more (the client closed its side or
    stopped reading). Session.send records the error and goes on: the loop iteration in progress
    runs to its end - state changes, even a delivery - and the loop is left before the next item.
    The 354 of a DATA command is written by dataHandler, i.e. in the iteration that reads the
    block, so a failing 354 does not keep the block from being read and delivered.
    [budget] = number of reply lines (after the greeting) that can still be written. *)
Definition iteration_lines (e : entry) : nat :=
  match e with
  | (L (DataC _), [(354%Z, _)], _) => 0
  | (B _, r, _) => S (length r)
  | (_, r, _) => length r
  end.
Fixpoint iterations_run (budget : nat) (tr : list entry) : nat :=
  match tr with
  | [] => 0
  | e :: rest =>
      if (iteration_lines e <=? budget)%nat then S (iterations_run (budget - iteration_lines e) rest)
      else 1                                        (* the failing iteration still runs to its end *)
  end.
(** The session over a connection whose writes fail after [wl] lines counting the greeting
    ([None] = never): the transcript of the iterations that run, and the reply lines the client
    receives. A failing greeting ends the session before the loop. *)
Definition run_net_w (c : scfg) (o : oracles) (chunks : list str) (f : fin_kind) (wl : option nat)
  : list item * list entry * list rline :=
  let '(its, tr, _) := run_net c o chunks f in
  match wl with
  | None => (its, tr, replies_of tr)
  | Some O => ([], [], [])
  | Some (S b) =>
      let n := iterations_run b tr in
      (firstn n its, firstn n tr, firstn b (replies_of (firstn n tr)))
  end.

(** Re-attach an observed flat reply stream to the items: one group per line, one line per
    completed block, nothing for EOF. Used to evaluate the dialogue specifications on what the
    implementation answered. *)
Fixpoint take_group (r : list rline) : list rline * list rline :=
  match r with
  | [] => ([], [])
  | (c, more) :: r' => if more then let '(g, rest) := take_group r' in ((c, more) :: g, rest)
                       else ([(c, more)], r')
  end.
Fixpoint attach (items : list item) (r : list rline) : list (item * list rline) :=
  match items with
  | [] => []
  | it :: its =>
      match it with
      | L _ => let '(g, rest) := take_group r in (it, g) :: attach its rest
      | B (PBlock _ _ _) | B PIdle | Idle | ConnErr =>
          match r with
          | x :: rest => (it, [x]) :: attach its rest
          | [] => (it, []) :: attach its []
          end
      | _ => (it, []) :: attach its r
      end
  end.

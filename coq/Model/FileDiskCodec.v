(** A concrete index codec (length-prefixed fields). It instantiates the [enc]/[dec] section
    variables of [Model/FileDisk.v] in the model runner, and — with the round trip proved in
    [Proofs/FileDiskCodec.v] — shows that the codec hypothesis of the C10/C11 theorems is
    satisfiable. The real code uses encoding/gob; only [dec (enc i) = Some i] is assumed of it. *)
From IV Require Import Base.Bytes Model.FileDisk.
From Coq Require Import List NArith Bool.
Import ListNotations.
Open Scope N_scope.

Definition enc_str (s : str) : str := N.of_nat (length s) :: s.

Definition enc_meta (m : meta) : str :=
  enc_str (m_id m) ++ enc_str (m_info m) ++ [m_size m; if m_seen m then 1 else 0].

Definition enc_index (i : index) : str :=
  enc_str (fst i) ++ flat_map enc_meta (snd i).

Definition dec_str (b : str) : option (str * str) :=
  match b with
  | [] => None
  | n :: r => let k := N.to_nat n in
              let f := firstn k r in      (* only the field itself is measured: linear decoding *)
              if Nat.eqb (length f) k then Some (f, skipn k r) else None
  end.

Definition dec_meta (b : str) : option (meta * str) :=
  match dec_str b with
  | None => None
  | Some (id, r1) =>
      match dec_str r1 with
      | None => None
      | Some (info, r2) =>
          match r2 with
          | sz :: sn :: r3 =>
              if sn =? 0 then Some (mkmeta id info sz false, r3)
              else if sn =? 1 then Some (mkmeta id info sz true, r3)
              else None
          | _ => None
          end
      end
  end.

Fixpoint dec_metas (fuel : nat) (b : str) : option (list meta) :=
  match b with
  | [] => Some []
  | _ =>
      match fuel with
      | O => None
      | S f =>
          match dec_meta b with
          | None => None
          | Some (m, r) => match dec_metas f r with None => None | Some ms => Some (m :: ms) end
          end
      end
  end.

Definition dec_index (b : str) : option index :=
  match dec_str b with
  | None => None
  | Some (nm, r) => match dec_metas (length r) r with None => None | Some ms => Some (nm, ms) end
  end.

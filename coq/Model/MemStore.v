(** MemStore — model of pkg/storage/mem (store.go, maxsize.go, message.go) as it is coded
    (after fixes 0003, 0005, 0006 and ef5ff1e).

    A mailbox is [{first; last; messages}]: [messages] is the Go map id -> *Message, kept as
    an association list in insertion order and keyed by the message's [index] (the id string
    is the decimal rendering of the index, so key equality on strings is equality of indices);
    [GetMessages] sorts by index as the code does. The size enforcer goroutine is a synchronous
    sub-step ([enf_deliver], [enf_remove]: callers block on [md.done]), its state is the list
    [all] (arrival order, front = oldest) and [curSize].
    Not modelled: creation of an (empty) mailbox record by a read of an unknown name (an empty
    record is indistinguishable from an absent one through the interface; VisitMailboxes hands
    empty slices to the visitor, which the drivers and the observation drop); the [removed]
    flag (only reachable under concurrency, C09). No proofs in this file. *)
From IV Require Import Base.Bytes Model.StoreSpec Model.StoreSpecImpl.

Definition mid := nat.
Definition mal_find := al_find mid Nat.eqb.
Definition mal_remove := al_remove mid Nat.eqb.
Definition mal_seen := al_seen mid Nat.eqb.

Record mbox := { mb_first : nat; mb_last : nat; mb_msgs : list (mid * msg) }.
Definition mbox_empty : mbox := {| mb_first := 0; mb_last := 0; mb_msgs := [] |}.

(** Enforcer state: [all] holds (mailbox, id, size) of registered messages, oldest first. *)
Record enforcer := { en_all : list (str * mid * N); en_cur : N }.

Record mem_store := { ms_boxes : list (str * mbox); ms_enf : enforcer }.
Definition mem_init : mem_store := {| ms_boxes := []; ms_enf := {| en_all := []; en_cur := 0 |} |}.

Definition get_mbox (mb : str) (s : mem_store) : mbox := bx_get mbox_empty mb (ms_boxes s).

(* ---- sort.Slice by index (insertion sort; the keys are unique) *)
Fixpoint ins_by_index (p : mid * msg) (l : list (mid * msg)) : list (mid * msg) :=
  match l with
  | [] => [p]
  | q :: l' => if Nat.leb (fst p) (fst q) then p :: l else q :: ins_by_index p l'
  end.
Fixpoint sort_by_index (l : list (mid * msg)) : list (mid * msg) :=
  match l with [] => [] | p :: l' => ins_by_index p (sort_by_index l') end.

(* ---- the cap loop of AddMessage:
        for len(mb.messages) > cap { key := first; if old, ok := messages[key]; ok { delete; evicted += old }; first++ } *)
Fixpoint cap_loop (fuel : nat) (cap : nat) (first : nat) (msgs : list (mid * msg)) (ev : list (mid * msg))
  : nat * list (mid * msg) * list (mid * msg) :=
  match fuel with
  | O => (first, msgs, ev)
  | Datatypes.S f =>
      if Nat.ltb cap (length msgs) then
        match mal_find first msgs with
        | Some m => cap_loop f cap (Datatypes.S first) (mal_remove first msgs) (ev ++ [(first, m)])
        | None => cap_loop f cap (Datatypes.S first) msgs ev
        end
      else (first, msgs, ev)
  end.

(* ---- enforcer *)
Definition ent3_is (mb : str) (i : mid) (x : str * mid * N) : bool :=
  str_eqb mb (fst (fst x)) && Nat.eqb i (snd (fst x)).

Fixpoint all_remove (mb : str) (i : mid) (l : list (str * mid * N)) : option (list (str * mid * N)) :=
  match l with
  | [] => None
  | x :: l' => if ent3_is mb i x then Some l'
               else match all_remove mb i l' with Some r => Some (x :: r) | None => None end
  end.

(** enforcerRemove: no-op without a size limit; otherwise unlink the element and subtract. *)
Definition enf_remove (max : N) (mb : str) (i : mid) (size : N) (e : enforcer) : enforcer :=
  if max =? 0 then e
  else match all_remove mb i (en_all e) with
       | Some l => {| en_all := l; en_cur := en_cur e - size |}
       | None => e
       end.

(** Store.removeMessage: delete from the mailbox map, emit the deleted event. *)
Definition box_remove (mb : str) (i : mid) (boxes : list (str * mbox)) : option (list (str * mbox)) :=
  let b := bx_get mbox_empty mb boxes in
  match mal_find i (mb_msgs b) with
  | Some _ => Some (bx_set mb {| mb_first := mb_first b; mb_last := mb_last b; mb_msgs := mal_remove i (mb_msgs b) |} boxes)
  | None => None
  end.

(** The eviction loop of the enforcer (as of /repo ef5ff1e):
      for curSize > maxSize { el := all.Front(); all.Remove(el); m.el = nil;
                              s.removeMessage(m.mailbox, m.id); curSize -= m.Size() }
    The result of removeMessage is ignored (a message another client already took out of its
    mailbox emits no event here) and the size is subtracted unconditionally.
    [None] = all.Front() is nil while curSize > maxSize: all.Remove(nil) dereferences nil — the
    enforcer goroutine, hence the process, crashes. *)
Fixpoint evict_loop (fuel : nat) (max : N) (boxes : list (str * mbox)) (all : list (str * mid * N)) (cur : N)
         (evs : list (lev mid)) : option (list (str * mbox) * list (str * mid * N) * N * list (lev mid)) :=
  match fuel with
  | O => Some (boxes, all, cur, evs)
  | Datatypes.S f =>
      if max <? cur then
        match all with
        | [] => None
        | (mb, i, sz) :: all' =>
            match box_remove mb i boxes with
            | Some boxes' => evict_loop f max boxes' all' (cur - sz) (evs ++ [(EDeleted, mb, i)])
            | None => evict_loop f max boxes all' (cur - sz) evs
            end
        end
      else Some (boxes, all, cur, evs)
  end.

Definition mem_add (cfg : scfg) (s : mem_store) (mb : str) (m : msg) : mem_store * lres mid * list (lev mid) :=
  let b := get_mbox mb s in
  let last' := Datatypes.S (mb_last b) in
  let msgs1 := mb_msgs b ++ [(last', m)] in
  let '(first2, msgs2, evicted) :=
    if Nat.eqb (c_cap cfg) 0 then (mb_first b, msgs1, [])
    else cap_loop (Datatypes.S (Datatypes.S last' - mb_first b)) (c_cap cfg) (mb_first b) msgs1 [] in
  let boxes1 := bx_set mb {| mb_first := first2; mb_last := last'; mb_msgs := msgs2 |} (ms_boxes s) in
  (* evicted by the cap: enforcerRemove, then the deleted event, one by one *)
  let enf1 := fold_left (fun e p => enf_remove (c_max cfg) mb (fst p) (m_size (snd p)) e) evicted (ms_enf s) in
  let evs1 := map (fun p => (EDeleted, mb, fst p)) evicted in
  if c_max cfg =? 0 then
    ({| ms_boxes := boxes1; ms_enf := enf1 |}, LAdd last', evs1)
  else
    let all1 := en_all enf1 ++ [(mb, last', m_size m)] in
    let cur1 := en_cur enf1 + m_size m in
    match evict_loop (Datatypes.S (length all1)) (c_max cfg) boxes1 all1 cur1 [] with
    | Some (boxes2, all2, cur2, evs2) =>
        ({| ms_boxes := boxes2; ms_enf := {| en_all := all2; en_cur := cur2 |} |}, LAdd last', evs1 ++ evs2)
    | None => ({| ms_boxes := boxes1; ms_enf := enf1 |}, LPanic, evs1)
    end.

Definition mem_get (s : mem_store) (mb : str) (q : idq mid) : res (mid * msg) :=
  match q with
  | QLatest =>
      match last_opt (sort_by_index (mb_msgs (get_mbox mb s))) with
      | Some p => Ok p
      | None => NotExist
      end
  | QId i => match mal_find i (mb_msgs (get_mbox mb s)) with Some m => Ok (i, m) | None => NotExist end
  | QBogus => NotExist
  end.

Definition set_msgs (b : mbox) (l : list (mid * msg)) : mbox :=
  {| mb_first := mb_first b; mb_last := mb_last b; mb_msgs := l |}.

Definition exec_mem (cfg : scfg) (s : mem_store) (o : lop mid) : mem_store * lres mid * list (lev mid) :=
  match o with
  | LoAdd mb m => mem_add cfg s mb m
  | LoGet mb q => (s, LMsg (mem_get s mb q), [])
  | LoList mb => (s, LList (sort_by_index (mb_msgs (get_mbox mb s))), [])
  | LoSeen mb (QId i) =>
      let b := get_mbox mb s in
      match mal_find i (mb_msgs b) with
      | Some _ => ({| ms_boxes := bx_set mb (set_msgs b (mal_seen i (mb_msgs b))) (ms_boxes s); ms_enf := ms_enf s |},
                   LUnit (Ok tt), [])
      | None => (s, LUnit NotExist, [])
      end
  | LoSeen mb _ => (s, LUnit NotExist, [])
  | LoRemove mb (QId i) =>
      let b := get_mbox mb s in
      match mal_find i (mb_msgs b) with
      | Some m =>
          ({| ms_boxes := bx_set mb (set_msgs b (mal_remove i (mb_msgs b))) (ms_boxes s);
              ms_enf := enf_remove (c_max cfg) mb i (m_size m) (ms_enf s) |},
           LUnit (Ok tt), [(EDeleted, mb, i)])
      | None => (s, LUnit NotExist, [])
      end
  | LoRemove mb _ => (s, LUnit NotExist, [])
  | LoPurge mb =>
      let b := get_mbox mb s in
      let gone := sort_by_index (mb_msgs b) in   (* map iteration order: any; the model uses index order *)
      ({| ms_boxes := (match mb_msgs b with
                       | [] => ms_boxes s          (* nothing to forget; an absent record stays absent *)
                       | _ => bx_set mb (set_msgs b []) (ms_boxes s)
                       end);
          ms_enf := fold_left (fun e p => enf_remove (c_max cfg) mb (fst p) (m_size (snd p)) e) gone (ms_enf s) |},
       LUnit (Ok tt), map (fun p => (EDeleted, mb, fst p)) gone)
  | LoVisit => (s, LVisit (map (fun nb => (fst nb, sort_by_index (mb_msgs (snd nb)))) (ms_boxes s)), [])
  end.

Definition run_mem (cfg : scfg) (ops : list op) : list (obs * list event) :=
  run_impl mid Nat.eqb mem_store (exec_mem cfg) (mem_init, []) ops.

Definition final_mem (cfg : scfg) (ops : list op) : mem_store * issued mid :=
  final_impl mid Nat.eqb mem_store (exec_mem cfg) (mem_init, []) ops.

(** An independent reading of the naming rules, for ORDINARY addresses, written from
    doc/config.md ("Mailbox Naming") and RFC 5321 sizes -- it uses none of the constants the
    translator regenerates from the source and none of the parser model:

      local   james+spam@inbucket.org  is stored in  james
      full    james+spam@inbucket.org  is stored in  james@inbucket.org
      domain  james@inbucket.org       is stored in  inbucket.org

    An ordinary address is  words(.words)*[+extension] @ label(.label)*  with letters, digits,
    '_' and '-' in words, letters, digits and inner '-' in labels, at most 64 / 63 bytes.
    Names are lower-cased. The specification side of theorem ordinary_address_name and of the
    oracle clause "ordinary-address-name-differs-from-documented". *)
From IV Require Import Base.Bytes Model.Addr.

Definition alnum (c : N) : bool := is_alpha c || is_digit c.
Definition word_char (c : N) : bool := alnum c || (c =? 95) || (c =? 45).
Definition local_char (c : N) : bool := word_char c || (c =? 46) || (c =? 43).
Definition dom_char (c : N) : bool := alnum c || (c =? 45) || (c =? 46).
Definition punct (c : N) : bool := (c =? 46) || (c =? 45).

Fixpoint no_pair (bad : N -> N -> bool) (s : str) : bool :=
  match s with
  | a :: t => (match t with b :: _ => negb (bad a b) | [] => true end) && no_pair bad t
  | [] => true
  end.

Definition ordinary_local (l : str) : bool :=
  (match l with [] => false | c :: _ => word_char c end)
  && forallb local_char l && negb (last l 0 =? 46)
  && no_pair (fun a b => (a =? 46) && ((b =? 46) || (b =? 43))) l
  && Nat.leb (length l) 64.

Definition ordinary_domain (d : str) : bool :=
  (match d with [] => false | c :: _ => alnum c end)
  && forallb dom_char d && alnum (last d 0)
  && no_pair (fun a b => punct a && punct b) d
  && Nat.leb (length d) 63.

Fixpoint before (sep : N) (s : str) : str :=
  match s with [] => [] | c :: t => if c =? sep then [] else c :: before sep t end.

Definition doc_name (mode : naming) (l d : str) : str :=
  match mode with
  | Local => lower (before 43 l)
  | Full => lower (before 43 l) ++ 64 :: lower d
  | Domain => lower d
  end.

(** splitting an address that holds exactly one at sign *)
Fixpoint split_single_at (a : str) : option (str * str) :=
  match a with
  | [] => None
  | c :: t =>
      if c =? 64 then (if mem_b 64 t then None else Some ([], t))
      else match split_single_at t with Some (l, d) => Some (c :: l, d) | None => None end
  end.

(** the documented name of an address, when the address is an ordinary one *)
Definition ordinary_name (mode : naming) (a : str) : option str :=
  match split_single_at a with
  | Some (l, d) => if ordinary_local l && ordinary_domain d then Some (doc_name mode l d) else None
  | None => None
  end.

(** Retention — the retention scanner (C12) over the abstract store of [Model/StoreSpec.v].

    pkg/storage/retention.go as it is now:
      DoScan : cutoff = now - period; VisitMailboxes hands the callback one SNAPSHOT per
               mailbox; the callback calls RemoveMessage(mailbox, id) for every snapshot entry
               whose date is strictly before the cutoff ([Time.Before]), then looks at the
               context: cancelled ⇒ the walk stops after this mailbox.
      Start  : period <= 0 ⇒ nothing is ever scanned (the guard lives HERE, not in DoScan);
               otherwise wait (at least a minute between scans, or cancellation), scan, repeat.
    The order in which a back-end enumerates its mailboxes (map order, readdir order) is a
    parameter ([order]); other clients' operations are atomic [StoreSpec.op]s interleaved
    between the scanner's steps ([run]).  No proofs in this file. *)
From IV Require Import Base.Bytes Model.StoreSpec.
Open Scope Z_scope.

Section Ret.
Variable cfg : scfg.

(** [msg.Date().Before(cutoff)] *)
Definition expired (cutoff : Z) (m : msg) : bool := m_date m <? cutoff.

Definition do_remove (st : spec_store) (mb : str) (k : nat) : spec_store :=
  fst (fst (exec_spec cfg st (Remove mb (Kth k)))).

(** What [VisitMailboxes] hands to the callback for one mailbox. *)
Definition snapshot (st : spec_store) (mb : str) : list view := map view_of (box mb (live st)).

(** The callback of DoScan on one snapshot. *)
Definition scan_snapshot (cutoff : Z) (mb : str) (snap : list view) (st : spec_store) : spec_store :=
  fold_left (fun st v => if expired cutoff (snd v) then do_remove st mb (fst v) else st) snap st.

(** One undisturbed, uncancelled scan. *)
Definition scan (cutoff : Z) (order : list str) (st : spec_store) : spec_store :=
  fold_left (fun st mb => scan_snapshot cutoff mb (snapshot st mb) st) order st.

Definition do_scan (now period : Z) (order : list str) (st : spec_store) : spec_store :=
  scan (now - period) order st.

(** A delivery through StoreManager.Deliver: the message is stamped with the time it ARRIVES
    ([Meta.Date = time.Now()]); the mail's own Date: header ([hdr_date], None = absent or
    garbled) plays no part in it, and therefore none in retention. *)
Definition deliver_op (mb : str) (arrival : Z) (hdr_date : option Z) (tag size : N) : op :=
  Add mb arrival tag size.

(* ------------------------------------------------------------------ small steps, interleaving *)

Inductive phase :=
| PIdle                                   (* between two mailboxes of the walk *)
| PBox (mb : str) (rest : list view)      (* inside the callback: snapshot entries still to look at *)
| PDone (aborted : bool).

Record sys := {
  s_st : spec_store;
  s_todo : list str;          (* mailboxes the walk has not reached yet *)
  s_phase : phase;
  s_cancel : bool;            (* ctx.Done() *)
  s_removed : list entry;     (* what the scanner's RemoveMessage calls took out of the store *)
  s_visited : nat;            (* callbacks started *)
  s_attempts : nat            (* RemoveMessage calls made by the scanner *)
}.

Definition sys_init (order : list str) (st : spec_store) : sys :=
  {| s_st := st; s_todo := order; s_phase := PIdle; s_cancel := false; s_removed := []; s_visited := O; s_attempts := O |}.

Definition set_phase (y : sys) (p : phase) : sys :=
  {| s_st := s_st y; s_todo := s_todo y; s_phase := p; s_cancel := s_cancel y; s_removed := s_removed y; s_visited := s_visited y; s_attempts := s_attempts y |}.

(** One step of the scanner. At the end of a callback DoScan runs
       select { case <-ctx.Done(): return false ; case <-time.After(retentionSleep): }
    With shutdown requested and the sleep timer already expired (RetentionSleep = 0 or tiny) BOTH
    cases are ready and Go picks at random: [timer_first] = "the timer case is taken although
    ctx is done" (possible only then). With an unexpired timer the ctx case is the only ready
    one: [timer_first = false]. *)
Definition sc_step (cutoff : Z) (timer_first : bool) (y : sys) : sys :=
  match s_phase y with
  | PDone _ => y
  | PIdle =>
      match s_todo y with
      | [] => set_phase y (PDone false)
      | mb :: r =>
          {| s_st := s_st y; s_todo := r; s_phase := PBox mb (snapshot (s_st y) mb); s_cancel := s_cancel y;
             s_removed := s_removed y; s_visited := S (s_visited y); s_attempts := s_attempts y |}
      end
  | PBox mb [] => if s_cancel y && negb timer_first then set_phase y (PDone true) else set_phase y PIdle
  | PBox mb (v :: rest) =>
      if expired cutoff (snd v) then
        {| s_st := do_remove (s_st y) mb (fst v); s_todo := s_todo y; s_phase := PBox mb rest; s_cancel := s_cancel y;
           s_removed := s_removed y ++ filter (is_ent mb (fst v)) (live (s_st y)); s_visited := s_visited y;
           s_attempts := S (s_attempts y) |}
      else set_phase y (PBox mb rest)
  end.

Inductive ev :=
| EStep (timer_first : bool)   (* the scanner moves; the flag resolves the select race at a callback end *)
| EOp (o : op)          (* another client's operation (atomic) *)
| ECancel.              (* shutdown requested *)

Definition ev_step (cutoff : Z) (y : sys) (e : ev) : sys :=
  match e with
  | EStep tf => sc_step cutoff tf y
  | EOp o => {| s_st := fst (fst (exec_spec cfg (s_st y) o)); s_todo := s_todo y; s_phase := s_phase y;
                s_cancel := s_cancel y; s_removed := s_removed y; s_visited := s_visited y; s_attempts := s_attempts y |}
  | ECancel => {| s_st := s_st y; s_todo := s_todo y; s_phase := s_phase y; s_cancel := true;
                  s_removed := s_removed y; s_visited := s_visited y; s_attempts := s_attempts y |}
  end.

Definition run (cutoff : Z) (y : sys) (evs : list ev) : sys := fold_left (ev_step cutoff) evs y.

(** Replay of a forced schedule (correspondence runs): [pend] = other clients' operations,
    each at a position of the scanner — [IV n]: before the walk takes its n-th snapshot,
    [IR n]: before the scanner's n-th RemoveMessage call —; the context is cancelled at the
    start of the [cancel_at]-th callback (0 = never). *)
Inductive ipos := IV (n : nat) | IR (n : nat) | IA (n : nat).   (* IA n: right after the n-th RemoveMessage call *)

Definition at_pos (cutoff : Z) (y : sys) (p : ipos) : bool :=
  match p, s_phase y with
  | IV n, PIdle => Nat.eqb (s_visited y) (Nat.pred n)
  | IR n, PBox _ (v :: _) => expired cutoff (snd v) && Nat.eqb (S (s_attempts y)) n
  | IA n, _ => Nat.eqb (s_attempts y) n
  | _, _ => false
  end.

Definition in_box (y : sys) : bool := match s_phase y with PBox _ _ => true | _ => false end.

Definition at_cancelled_end (y : sys) : bool :=
  match s_phase y with PBox _ [] => s_cancel y | _ => false end.

(** [extra]: at how many callback ends after the cancellation the (already expired) sleep timer
    wins the select against ctx.Done — 0 when RetentionSleep is long enough not to have expired. *)
Fixpoint replay (fuel : nat) (cutoff : Z) (cancel_at : nat) (extra : nat) (pend : list (ipos * op)) (y : sys) : sys :=
  match fuel with
  | O => y
  | S f =>
      let y := if negb (s_cancel y) && negb (Nat.eqb cancel_at 0) && Nat.eqb (s_visited y) cancel_at && in_box y
               then ev_step cutoff y ECancel else y in
      let fire := match pend with (p, _) :: _ => at_pos cutoff y p | [] => false end in
      let tf := at_cancelled_end y && negb (Nat.eqb extra 0) in
      let extra' := if at_cancelled_end y then Nat.pred extra else extra in
      match pend with
      | (_, o) :: r =>
          if fire then replay f cutoff cancel_at extra r (ev_step cutoff y (EOp o))
          else match s_phase y with PDone _ => y | _ => replay f cutoff cancel_at extra' pend (sc_step cutoff tf y) end
      | [] => match s_phase y with PDone _ => y | _ => replay f cutoff cancel_at extra' pend (sc_step cutoff tf y) end
      end
  end.

(* ------------------------------------------------------------------ the run loop *)

Inductive loop_ev := LTimer | LCancel.

(** [Start]: number of scans kicked off and whether Start has returned (then the shutdown
    channel is closed and [Join] returns). [evs]: what the select statements see, in order. *)
Fixpoint loop (evs : list loop_ev) (scans : nat) : nat * bool :=
  match evs with
  | [] => (scans, false)
  | LCancel :: _ => (scans, true)
  | LTimer :: r => loop r (S scans)
  end.

Definition start (period : Z) (evs : list loop_ev) : nat * bool :=
  if period <=? 0 then (O, true) else loop evs O.

End Ret.

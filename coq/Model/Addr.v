(** Model of pkg/policy/address.go as it is in the repository now (fix 0017 applied):
    parseEmailAddress, ParseEmailAddress, parseMailboxName, ValidateDomainPart,
    canonicalDomain, extractDomainMailbox, Addressing.ExtractMailbox, Addressing.NewRecipient,
    and how the read interfaces derive a mailbox name from the string a user supplies.

    Executable, no proofs. Bytes are [N], strings [list N]. Character-class strings and
    numeric limits come from [Gen/AddrConsts.v], which the translator regenerates from the
    source on every run.

    [parse_ip] stands for [fun s => net.ParseIP(s) != nil]; it is a function argument of
    everything that validates a domain. When the model is run, the driver supplies
    net.ParseIP's verdicts.

    Bytes >= 128. parseEmailAddress rejects every address holding one before its first
    unquoted '@' (so every string handed to parseMailboxName is ASCII), and
    ValidateDomainPart rejects every non-literal domain holding one (Go ranges over runes;
    a byte >= 128 decodes to a non-ASCII rune or U+FFFD, which is no label character -- the
    byte-wise model rejects it as well). The only place where Go's Unicode-aware
    strings.ToLower could differ from the ASCII [lower] used here is therefore a bracketed
    literal with a non-ASCII byte that net.ParseIP accepts; there is none (assumption
    validated by the "ip" stream of the correspondence check). *)
From IV Require Import Base.Bytes.
From IV Require Export Gen.AddrConsts.

Inductive naming := Local | Full | Domain.

Record recipient := mkRecipient {
  r_addr : str;      (* the RCPT argument verbatim (mail.Address.Address) *)
  r_local : str;     (* unquoted local part, with +extension *)
  r_domain : str;    (* raw domain part *)
  r_mailbox : str    (* canonical mailbox name *)
}.

(** * parseEmailAddress *)

(** The arms of the [switch] in the scanning loop, in source order. *)
Inductive cls := CCopy | CDot | CBackslash | CQuote | CAt | CHigh | COther.

Definition classify (c : N) : cls :=
  if is_alpha c || is_digit c || mem_b c email_specials then CCopy
  else if c =? 46 then CDot
  else if c =? 92 then CBackslash
  else if c =? 34 then CQuote
  else if c =? 64 then CAt
  else if 127 <? c then CHigh
  else COther.

Definition push (c : N) (r : option (str * str)) : option (str * str) :=
  match r with Some (l, d) => Some (c :: l, d) | None => None end.

(** The loop: [i] is the index of the head of [s] in the (route-stripped) address, [prev]
    the previous byte, [cq]/[sq] = inCharQuote/inStringQuote. Returns the unquoted local
    part and the raw domain. *)
Fixpoint scan (s : str) (i : N) (prev : N) (cq sq : bool) : option (str * str) :=
  match s with
  | [] => if cq || sq then None else Some ([], [])
  | c :: t =>
      match classify c with
      | CCopy => push c (scan t (i + 1) c false sq)
      | CDot => if prev =? 46 then None else push c (scan t (i + 1) c false sq)
      | CBackslash => scan t (i + 1) c true sq
      | CQuote =>
          if cq then push c (scan t (i + 1) c false sq)
          else if sq then scan t (i + 1) c false false
          else if i =? 0 then scan t (i + 1) c false true
          else None
      | CAt =>
          if cq || sq then push c (scan t (i + 1) c false sq)
          else if max_local_index <? i then None
          else if prev =? 46 then None
          else Some ([], t)
      | CHigh => None
      | COther => if cq || sq then push c (scan t (i + 1) c false sq) else None
      end
  end.

(** Removal of a forward-path route "@a,@b:" . *)
Definition strip_route (a : str) : option str :=
  match a with
  | [] => None
  | c :: _ =>
      if c =? 64 then
        match index_of 58 a with
        | None => None
        | Some k => Some (skipn (S k) a)
        end
      else Some a
  end.

Definition parse_email (a : str) : option (str * str) :=
  match a with
  | [] => None
  | _ :: _ =>
      if max_address_len <? N.of_nat (length a) then None
      else match strip_route a with
           | None => None
           | Some [] => None
           | Some ((c :: _) as a') => if c =? 46 then None else scan a' 0 46 false false
           end
  end.

(** * parseMailboxName *)

Definition mailbox_char_ok (c : N) : bool := is_lower c || is_digit c || mem_b c mailbox_specials.

Fixpoint take_until (sep : N) (s : str) : str :=
  match s with
  | [] => []
  | c :: t => if c =? sep then [] else c :: take_until sep t
  end.

Definition parse_mailbox_name (l : str) : option str :=
  match l with
  | [] => None
  | _ :: _ =>
      let r := lower l in
      if forallb mailbox_char_ok r then Some (take_until ext_separator r) else None
  end.

(** * ValidateDomainPart, canonicalDomain *)

Definition is_label_char (c : N) : bool := is_alpha c || is_digit c || (c =? 95).

Fixpoint labels_ok (s : str) (prev : N) (label_len : N) (has : bool) : bool :=
  match s with
  | [] => true
  | c :: t =>
      if is_label_char c then labels_ok t c (label_len + 1) true
      else if c =? 45 then
        if (prev =? 46) || (prev =? 45) then false else labels_ok t c label_len has
      else if c =? 46 then
        if (prev =? 46) || (prev =? 45) then false
        else if max_label_len <? label_len then false
        else if negb has then false
        else labels_ok t c 0 false
      else false
  end.

Definition is_bracketed (d : str) : bool := (nth 0 d 0 =? 91) && (last d 0 =? 93).

(** domain[s : ln-1] *)
Definition ip_inner (d : str) : str :=
  let s := if has_prefix ip_tag (skipn 1 d) then ip_start_tagged else ip_start_plain in
  firstn (length d - 1 - s) (skipn s d).

Definition canonical_domain (d : str) : str :=
  if has_prefix canon_tag d then canon_tag ++ lower (skipn canon_skip d) else lower d.

Section WithParseIP.
Variable parse_ip : str -> bool.

Definition validate_domain (d : str) : bool :=
  let ln := N.of_nat (length d) in
  if ln =? 0 then false
  else if max_domain_len <? ln then false
  else if (min_bracket_len <=? ln) && is_bracketed d then parse_ip (ip_inner d)
  else labels_ok (if last d 0 =? 46 then d else d ++ [46]) 46 0 false.

(** ParseEmailAddress (exported): parse, then validate the domain. *)
Definition parse_email_validated (a : str) : option (str * str) :=
  match parse_email a with
  | None => None
  | Some (l, d) => if validate_domain d then Some (l, d) else None
  end.

(** * extractDomainMailbox, ExtractMailbox, NewRecipient *)

Definition extract_domain_mailbox (a : str) : option str :=
  let bracketed := match a with [] => false | c :: _ => (c =? 91) && (last a 0 =? 93) end in
  match (if bracketed then Some ([], a) else parse_email a) with
  | None => None
  | Some (l, d) =>
      match (match l with [] => Some [] | _ :: _ => parse_mailbox_name l end) with
      | None => None
      | Some l' =>
          let d' := match d with [] => l' | _ :: _ => d end in
          if validate_domain d' then Some (canonical_domain d') else None
      end
  end.

Fixpoint has_dotdot (s : str) : bool :=
  match s with
  | a :: t => (match t with b :: _ => (a =? 46) && (b =? 46) | [] => false end) || has_dotdot t
  | [] => false
  end.

Definition extract_mailbox (mode : naming) (a : str) : option str :=
  match mode with
  | Domain => extract_domain_mailbox a
  | _ =>
      match parse_email a with
      | None => None
      | Some (l, d) =>
          match parse_mailbox_name l with
          | None => None
          | Some [] => None
          | Some ((c :: _) as n) =>
              if (c =? 46) || has_dotdot n then None
              else match mode with
                   | Local => Some n
                   | _ =>
                       match d with
                       | [] => Some n
                       | _ :: _ =>
                           if negb (validate_domain d) then None
                           else if last n 0 =? 46 then None
                           else Some (n ++ 64 :: canonical_domain d)
                       end
                   end
          end
      end
  end.

Definition new_recipient (mode : naming) (a : str) : option recipient :=
  match parse_email_validated a with
  | None => None
  | Some (l, d) =>
      match extract_mailbox mode a with
      | None => None
      | Some m => Some (mkRecipient a l d m)
      end
  end.

(** * Read side: the mailbox name an interface computes from what the user typed.
    REST, web UI and the monitor sockets call Manager.MailboxForAddress = ExtractMailbox
    ([read_sites] in Gen lists every use); POP3 uses the USER/APOP argument as it is. *)
Definition read_name (mode : naming) (f : name_flow) (a : str) : option str :=
  match f with
  | ViaMailboxForAddress => extract_mailbox mode a
  | Verbatim => Some a
  end.

End WithParseIP.

(** Relations used by the specification side (also extracted, for the oracle). *)
Definition case_variant (a b : str) : bool := str_eqb (lower a) (lower b).

(** bytes parseEmailAddress copies without any quoting, '.' included *)
Definition plain_char (c : N) : bool :=
  match classify c with CCopy | CDot => true | _ => false end.
Definition plain (s : str) : bool := forallb plain_char s.

(** Model of the assembled server's start-up and shutdown (pkg/server/lifecycle.go:
    Services.Start, makeReadyFunc, setupNotify/Notify; the Start methods of the three listening
    servers up to "bound or failed"; cmd/inbucket/main.go: cancel, then the waits in order).

    Sessions are not part of this model (their counting is Model/Lifecycle.v, [drain_exact]):
    here every Drain finds an empty WaitGroup. What matters here is which goroutines exist, who
    reports readiness, who reports failure, and what main() waits for. The shape of
    Services.Start and the order of main()'s waits are read from the source (Gen/LifecyclePins.v).
    No proofs in this file. *)
From IV Require Import Base.Bytes Gen.LifecyclePins Model.Lifecycle.
Local Open Scope nat_scope.

Inductive comp := CWeb | CSmtp | CPop3.

(** A listening server's Start goroutine. *)
Inductive bphase :=
| BAbsent      (* Services.Start does not start it *)
| BInit        (* goroutine spawned, net.Listen not yet called *)
| BBound       (* listening, serve() spawned; readyFunc not yet called *)
| BReady       (* readyFunc called; blocked in <-ctx.Done() *)
| BClosed      (* after cancel: listener closed, Start has returned *)
| BFailed.     (* net.Listen failed: error put on the server's notify channel, Start has returned *)

Record shape := mkShape {
  sh_hub : bool; sh_web : bool; sh_smtp : bool; sh_pop3 : bool; sh_ret : bool;   (* started unconditionally *)
  tr_web : bool; tr_smtp : bool; tr_pop3 : bool;                                 (* readiness tracked *)
  sh_waiter : bool;                                                              (* go { ready.Wait(); readyFunc() } *)
  sh_waits : list wait                                                           (* main(): waits after cancel *)
}.

Definition pinned_shape : shape :=
  mkShape start_hub start_web start_smtp start_pop3 start_retention
          tracked_web tracked_smtp tracked_pop3 ready_waiter main_waits.

Record asys := mkA {
  p_web : bphase; p_smtp : bphase; p_pop3 : bphase;
  a_ready : nat;                 (* Services.ready: makeReadyFunc's Add(1)s minus the Done()s *)
  a_readycalled : bool;          (* the readyFunc given to Services.Start has been called *)
  a_notified : option comp;      (* an error has been forwarded to the combined Notify channel *)
  a_cancel : bool;               (* main() has cancelled the context *)
  a_hubstopped : bool;
  a_ret : option rstate;         (* None: the retention scanner goroutine does not exist *)
  a_todo : list wait             (* main(): waits still to do (meaningful after cancel) *)
}.

Definition b2n (b : bool) : nat := if b then 1 else 0.

Definition asm_init (sh : shape) (retention_enabled : bool) : asys :=
  mkA (if sh_web sh then BInit else BAbsent) (if sh_smtp sh then BInit else BAbsent)
      (if sh_pop3 sh then BInit else BAbsent)
      (b2n (sh_web sh && tr_web sh) + b2n (sh_smtp sh && tr_smtp sh) + b2n (sh_pop3 sh && tr_pop3 sh))
      false None false false
      (if sh_ret sh then Some (rinit retention_enabled) else None)
      (sh_waits sh).

Definition phase_of (y : asys) (c : comp) : bphase :=
  match c with CWeb => p_web y | CSmtp => p_smtp y | CPop3 => p_pop3 y end.

Definition set_phase (y : asys) (c : comp) (p : bphase) : asys :=
  match c with
  | CWeb => mkA p (p_smtp y) (p_pop3 y) (a_ready y) (a_readycalled y) (a_notified y) (a_cancel y) (a_hubstopped y) (a_ret y) (a_todo y)
  | CSmtp => mkA (p_web y) p (p_pop3 y) (a_ready y) (a_readycalled y) (a_notified y) (a_cancel y) (a_hubstopped y) (a_ret y) (a_todo y)
  | CPop3 => mkA (p_web y) (p_smtp y) p (a_ready y) (a_readycalled y) (a_notified y) (a_cancel y) (a_hubstopped y) (a_ret y) (a_todo y)
  end.

Definition tracked (sh : shape) (c : comp) : bool :=
  match c with CWeb => tr_web sh | CSmtp => tr_smtp sh | CPop3 => tr_pop3 sh end.

(** The environment: which listeners cannot bind. *)
Record env := mkEnv { f_web : bool; f_smtp : bool; f_pop3 : bool }.
Definition fails (e : env) (c : comp) : bool :=
  match c with CWeb => f_web e | CSmtp => f_smtp e | CPop3 => f_pop3 e end.

Inductive aact :=
| XBind (c : comp)        (* net.Listen: bound, or failed (then: notify <- err; close; return) *)
| XReadyCall (c : comp)   (* the server calls its readyFunc: once.Do(ready.Done) *)
| XReadyWait              (* ready.Wait() returns; readyFunc() *)
| XFwd (c : comp)         (* setupNotify's select receives c's error and forwards it *)
| XCancel                 (* main(): signal or Notify received; svcCancel() *)
| XClose (c : comp)       (* Start, woken by ctx.Done, closes its listener and returns *)
| XHubStop                (* the hub goroutine sees ctx.Done *)
| XRet (n : nat)          (* one step of the retention scanner goroutine (n: mailboxes at scan start) *)
| XMain.                  (* main() gets through its next wait *)

(** Drain = Server.wg.Wait(). There are no sessions in this model; what the WaitGroup holds here is
    the accept loop's own count (repair 0022): from the moment Start has bound the listener and
    started the loop until the loop exits because the listener was closed. A server whose Start has
    not got that far, or whose bind failed, holds nothing. *)
Definition loop_counted (p : bphase) : bool := match p with BBound | BReady => true | _ => false end.

Definition wait_ok (y : asys) (w : wait) : bool :=
  match w with
  | WSmtpDrain => negb (loop_counted (p_smtp y))
  | WPop3Drain => negb (loop_counted (p_pop3 y))
  | WRetJoin => match a_ret y with Some RStopped => true | _ => false end
  end.

Definition astep (sh : shape) (e : env) (y : asys) (a : aact) : option asys :=
  match a with
  | XBind c =>
      match phase_of y c with
      | BInit => Some (set_phase y c (if fails e c then BFailed else BBound))
      | _ => None
      end
  | XReadyCall c =>
      match phase_of y c with
      | BBound =>
          let y' := set_phase y c BReady in
          Some (mkA (p_web y') (p_smtp y') (p_pop3 y') (a_ready y - b2n (tracked sh c)) (a_readycalled y)
                    (a_notified y) (a_cancel y) (a_hubstopped y) (a_ret y) (a_todo y))
      | _ => None
      end
  | XReadyWait =>
      if sh_waiter sh && Nat.eqb (a_ready y) 0 && negb (a_readycalled y)
      then Some (mkA (p_web y) (p_smtp y) (p_pop3 y) (a_ready y) true (a_notified y) (a_cancel y) (a_hubstopped y) (a_ret y) (a_todo y))
      else None
  | XFwd c =>
      match phase_of y c, a_notified y with
      | BFailed, None =>
          Some (mkA (p_web y) (p_smtp y) (p_pop3 y) (a_ready y) (a_readycalled y) (Some c) (a_cancel y) (a_hubstopped y) (a_ret y) (a_todo y))
      | _, _ => None
      end
  | XCancel =>
      if a_cancel y then None
      else Some (mkA (p_web y) (p_smtp y) (p_pop3 y) (a_ready y) (a_readycalled y) (a_notified y) true (a_hubstopped y) (a_ret y) (a_todo y))
  | XClose c =>
      match phase_of y c with
      | BReady => if a_cancel y then Some (set_phase y c BClosed) else None
      | _ => None
      end
  | XHubStop =>
      if a_cancel y && sh_hub sh
      then Some (mkA (p_web y) (p_smtp y) (p_pop3 y) (a_ready y) (a_readycalled y) (a_notified y) (a_cancel y) true (a_ret y) (a_todo y))
      else None
  | XRet n =>
      match a_ret y with
      | Some r => Some (mkA (p_web y) (p_smtp y) (p_pop3 y) (a_ready y) (a_readycalled y) (a_notified y) (a_cancel y) (a_hubstopped y)
                            (Some (rstep (a_cancel y) n r)) (a_todo y))
      | None => None
      end
  | XMain =>
      if a_cancel y then
        match a_todo y with
        | w :: t => if wait_ok y w
                    then Some (mkA (p_web y) (p_smtp y) (p_pop3 y) (a_ready y) (a_readycalled y) (a_notified y) (a_cancel y) (a_hubstopped y) (a_ret y) t)
                    else None
        | [] => None
        end
      else None
  end.

Fixpoint arun (sh : shape) (e : env) (y : asys) (acts : list aact) : option asys :=
  match acts with
  | [] => Some y
  | a :: t => match astep sh e y a with None => None | Some y' => arun sh e y' t end
  end.

(** * Driver-level reading: boot the server with some listeners unable to bind, let everything
    that can happen happen, then do what main() does. Steps that are not enabled are skipped. *)
Fixpoint arun_skip (sh : shape) (e : env) (y : asys) (acts : list aact) : asys :=
  match acts with
  | [] => y
  | a :: t => arun_skip sh e (match astep sh e y a with Some y' => y' | None => y end) t
  end.

Definition boot_acts : list aact :=
  [XBind CWeb; XBind CSmtp; XBind CPop3; XReadyCall CWeb; XReadyCall CSmtp; XReadyCall CPop3; XReadyWait;
   XFwd CSmtp; XFwd CPop3; XFwd CWeb].

Definition shutdown_acts (sh : shape) : list aact :=
  [XCancel; XBind CWeb; XBind CSmtp; XBind CPop3; XReadyCall CWeb; XReadyCall CSmtp; XReadyCall CPop3;
   XClose CWeb; XClose CSmtp; XClose CPop3; XHubStop; XRet 0; XRet 0] ++ map (fun _ => XMain) (sh_waits sh).

Record boot_obs := mkBO { bo_ready : bool; bo_notified : bool; bo_returns : bool; bo_stuck_at : option wait }.

Definition boot (sh : shape) (e : env) (retention_enabled : bool) : boot_obs :=
  let y1 := arun_skip sh e (asm_init sh retention_enabled) boot_acts in
  let y2 := arun_skip sh e y1 (shutdown_acts sh) in
  mkBO (a_readycalled y1) (match a_notified y1 with Some _ => true | None => false end)
       (match a_todo y2 with [] => true | _ => false end) (hd_error (a_todo y2)).

Definition boot_pinned := boot pinned_shape.

(** Model of inbucket's shutdown path (pkg/server/smtp/listener.go, pkg/server/pop3/listener.go:
    Start / serve / Drain; the session goroutines' WaitGroup bookkeeping in
    pkg/server/smtp/handler.go and pkg/server/pop3/handler.go; pkg/storage/retention.go:
    Start / DoScan / Join; cmd/inbucket/main.go: cancel, Drain, Drain, Join), as coded after
    repair 0011 (the SMTP accept loop counts a session before spawning it; the session keeps its
    own inner Add/Done).  The hub's part (0014) is in Model/Hub.v ([AStop], [enq]).

    A server is: listener open/closed, the WaitGroup counter, and its sessions. What other
    goroutines do is an [action]; a schedule is a list of actions. No proofs in this file. *)
From IV Require Import Base.Bytes.
Local Open Scope nat_scope.

Inductive proto := PSmtp | PPop3.

(** Where a session is. [Held]: accepted and counted by the accept loop, its goroutine has not
    run yet. [Ending]: the command loop is over, the deferred clean-up has closed the
    connection and (SMTP) done its inner [wg.Done]; the last [wg.Done] is still to come. *)
Inductive phase :=
| Held | Greeted
| SHelo | SMail | SRcpt | SData | SBody        (* SMTP: … DATA accepted (354) / part of the body sent *)
| PUser | PPass | PDele                        (* POP3: … TRANSACTION / message 1 marked deleted *)
| PUpdate                                      (* POP3: QUIT acknowledged in TRANSACTION state, processDeletes running *)
| Ending | Ended.

Record session := mkS {
  ph : phase;
  stored : nat;      (* SMTP: messages of this session stored and acknowledged with 250 *)
  left : nat;        (* POP3: messages left in this session's mailbox (starts at 1) *)
  marked : bool;     (* POP3: a DELE has been accepted *)
  committed : bool   (* POP3: QUIT was given in TRANSACTION state: the marks are to be applied *)
}.

Record srv := mkSrv {
  pr : proto;
  lopen : bool;                     (* the net.Listener has not been closed *)
  wg : nat;                         (* Server.wg *)
  ss : list (nat * session)
}.

Definition srv_init (p : proto) : srv := mkSrv p true 0 [].

(** Does the session goroutine itself add to the WaitGroup (SMTP: yes, kept by the repair so
    that the package's own tests, which call startSession directly, still balance)? *)
Definition inner (p : proto) : nat := match p with PSmtp => 1 | PPop3 => 0 end.

Fixpoint find_s (i : nat) (xs : list (nat * session)) : option session :=
  match xs with
  | [] => None
  | (k, s) :: t => if Nat.eqb k i then Some s else find_s i t
  end.

Fixpoint upd_s (i : nat) (s : session) (xs : list (nat * session)) : list (nat * session) :=
  match xs with
  | [] => []
  | (k, x) :: t => if Nat.eqb k i then (k, s) :: t else (k, x) :: upd_s i s t
  end.

Definition running (p : phase) : bool :=
  match p with Held | PUpdate | Ending | Ended => false | _ => true end.

(** The protocol positions, in dialogue order; a client command moves strictly forward. *)
Definition rank (pz : proto) (p : phase) : option nat :=
  match pz, p with
  | _, Greeted => Some 0
  | PSmtp, SHelo => Some 1 | PSmtp, SMail => Some 2 | PSmtp, SRcpt => Some 3
  | PSmtp, SData => Some 4 | PSmtp, SBody => Some 5
  | PPop3, PUser => Some 1 | PPop3, PPass => Some 2 | PPop3, PDele => Some 3
  | _, _ => None
  end.

Inductive action :=
| Accept (i : nat)            (* serve: Accept() returned a connection; wg.Add(1); go … *)
| Begin (i : nat)             (* the session goroutine starts: (SMTP) wg.Add(1); greeting *)
| Client (i : nat) (to : phase)   (* the client's next command(s) up to a protocol position *)
| Quit (i : nat)              (* QUIT (SMTP: an in-flight message is completed first); POP3 in TRANSACTION state: "+OK", then UPDATE *)
| Purge (i : nat)             (* POP3: processDeletes has removed the marked messages; loop ends *)
| Abort (i : nat)             (* the client drops the connection; loop ends *)
| Exit (i : nat)              (* the goroutine's last wg.Done *)
| Cancel                      (* the context is cancelled *)
| LClose.                     (* Start, woken by ctx.Done, closes the listener; serve returns *)

(** The session's own transition. It is GIVEN the two shutdown flags — whether the context has been
    cancelled and whether the listener is still open — exactly so that "a session is untouched by
    shutdown" is a statement to prove ([session_step_ignores_shutdown]) rather than a consequence of
    the type: the Go handlers (pkg/server/smtp/handler.go, pkg/server/pop3/handler.go) mention
    neither the context nor the listener, and accordingly the definition below uses neither flag.
    A model of a handler that looked at the context would make that theorem, and with it
    [open_session_unaffected], fail. *)
Definition sess_step (pz : proto) (ctx_cancelled listener_open : bool) (s : session) (a : action)
  : option (session * nat * nat) :=
  (* result: new session, wg increment, wg decrement *)
  match a with
  | Begin _ =>
      match ph s with
      | Held => Some (mkS Greeted (stored s) (left s) (marked s) (committed s), inner pz, 0)
      | _ => None
      end
  | Client _ to =>
      match rank pz (ph s), rank pz to with
      | Some a, Some b =>
          if a <? b
          then Some (mkS to (stored s) (left s) (marked s || match to with PDele => true | _ => false end) (committed s), 0, 0)
          else None
      | _, _ => None
      end
  | Quit _ =>
      if running (ph s) then
        match ph s with
        | PPass | PDele => Some (mkS PUpdate (stored s) (left s) (marked s) true, 0, 0)
        | SData | SBody => Some (mkS Ending (S (stored s)) (left s) (marked s) (committed s), 0, inner pz)
        | _ => Some (mkS Ending (stored s) (left s) (marked s) (committed s), 0, inner pz)
        end
      else None
  | Purge _ =>
      match ph s with
      | PUpdate => Some (mkS Ending (stored s) (if marked s then 0 else left s) (marked s) (committed s), 0, inner pz)
      | _ => None
      end
  | Abort _ =>
      if running (ph s) then Some (mkS Ending (stored s) (left s) (marked s) (committed s), 0, inner pz) else None
  | Exit _ =>
      match ph s with
      | Ending => Some (mkS Ended (stored s) (left s) (marked s) (committed s), 0, 1)
      | _ => None
      end
  | _ => None
  end.

Definition target (a : action) : option nat :=
  match a with
  | Begin i | Client i _ | Quit i | Purge i | Abort i | Exit i => Some i
  | _ => None
  end.

Record sys := mkSys { cancelled : bool; sv : srv }.

Definition step (y : sys) (a : action) : option sys :=
  let v := sv y in
  match a with
  | Accept i =>
      if lopen v then
        match find_s i (ss v) with
        | Some _ => None
        | None => Some (mkSys (cancelled y) (mkSrv (pr v) true (S (wg v)) (ss v ++ [(i, mkS Held 0 1 false false)])))
        end
      else None
  | Cancel => Some (mkSys true v)
  | LClose => if cancelled y && lopen v then Some (mkSys true (mkSrv (pr v) false (wg v) (ss v))) else None
  | _ =>
      match target a with
      | None => None
      | Some i =>
          match find_s i (ss v) with
          | None => None
          | Some s =>
              match sess_step (pr v) (cancelled y) (lopen v) s a with
              | None => None
              | Some (s', inc, dec) =>
                  Some (mkSys (cancelled y) (mkSrv (pr v) (lopen v) (wg v + inc - dec) (upd_s i s' (ss v))))
              end
          end
      end
  end.

Fixpoint run (y : sys) (acts : list action) : option sys :=
  match acts with
  | [] => Some y
  | a :: t => match step y a with None => None | Some y' => run y' t end
  end.

Definition sys_init (p : proto) : sys := mkSys false (srv_init p).

(** [Drain] = [wg.Wait()]: it returns exactly when the counter is zero. *)
Definition drain_returns (y : sys) : bool := Nat.eqb (wg (sv y)) 0.

Definition alive (s : session) : bool := match ph s with Ended => false | _ => true end.

(** * Retention scanner (Start: sleep up to a minute / DoScan over the mailboxes / repeat) *)

Inductive rstate :=
| RSleep                    (* in [select { <-ctx.Done(); <-time.After(dur) }] *)
| RScan (todo : nat)        (* in VisitMailboxes, [todo] mailboxes to go; after each one a select on ctx.Done / RetentionSleep *)
| RCheck                    (* the non-blocking [select { <-ctx.Done(): default: }] after a scan *)
| RStopped.                 (* retentionShutdown is closed: Join returns *)

(** One move of the scanner goroutine. [wake]: the timer fired (only matters when not cancelled);
    [n]: mailboxes found when a scan starts. *)
Definition rstep (cancelled : bool) (n : nat) (r : rstate) : rstate :=
  match r with
  | RSleep => if cancelled then RStopped else RScan n
  | RScan 0 => RCheck
  | RScan (S k) => if cancelled then RCheck else RScan k     (* visit one mailbox, then the select *)
  | RCheck => if cancelled then RStopped else RSleep
  | RStopped => RStopped
  end.

Fixpoint rsteps (cancelled : bool) (n : nat) (k : nat) (r : rstate) : rstate :=
  match k with 0 => r | S k' => rsteps cancelled n k' (rstep cancelled n r) end.

(** Scanner disabled (retention period <= 0): Start closes the channel at once. *)
Definition rinit (enabled : bool) : rstate := if enabled then RSleep else RStopped.

(** * Driver-level reading used by the correspondence check *)

Inductive lop :=
| LOpen (i : nat) (p : proto)
| LOpenHeld (i : nat) (p : proto)
| LRelease (i : nat)
| LAdvance (i : nat) (to : phase)
| LCancel
| LFinish (i : nat)
| LAbort (i : nat)
| LProbe (p : proto)
| LDrain (p : proto)
| LQuit (i : nat)             (* POP3: send QUIT, read the reply, do not wait for the connection to close *)
| LEnd (i : nat)              (* wait for the server to close the connection, look at the mailbox *)
| LAcceptHold (i : nat) (p : proto)   (* connect while the serve goroutine is held between the kernel's accept and wg.Add *)
| LUpgrade (i : nat)          (* POP3 STLS in AUTHORIZATION state: +OK, then the TLS handshake on the same connection *)
| LBusy (i : nat)             (* the client keeps session i busy (NOOP after NOOP) for a while *)
| LAcceptFail (p : proto)     (* the accept loop's Accept returns a permanent (non-timeout) error: notify <- err; close; the loop exits *)
| LPlain                      (* a client that fails the TLS handshake of a ForceTLS POP3 server *)
| LGate                       (* the store's RemoveMessage now blocks … *)
| LUngate.                    (* … until here *)

Inductive lobs :=
| XDot | XQ | XRefused | XHeld | XAccepted
| XCode (c : nat)            (* SMTP reply code; greeting = 220 *)
| XOk                        (* POP3 +OK *)
| XFinS (data : option nat) (quit : nat) (n : nat)
| XFinP (ok : bool) (n : nat)
| XDropped | XParked | XErr | XNotified
| XReturned | XBlocked | XJoined | XFine | XOther.

Record world := mkW { wc : bool; ws : srv; wp : srv; wgate : bool;
                      wpend : list (nat * proto) (* accepted by the kernel, held before wg.Add *);
                      wtls : bool (* pop3.Server.tlsState != nil: some session of this server has upgraded *) }.

Definition world_init : world := mkW false (srv_init PSmtp) (srv_init PPop3) false [] false.

Definition srv_of (w : world) (p : proto) : srv := match p with PSmtp => ws w | PPop3 => wp w end.
Definition set_srv (w : world) (p : proto) (v : srv) : world :=
  match p with PSmtp => mkW (wc w) v (wp w) (wgate w) (wpend w) (wtls w) | PPop3 => mkW (wc w) (ws w) v (wgate w) (wpend w) (wtls w) end.

(** Run actions on one server of the world; [None] if one is not enabled. *)
Definition wrun (w : world) (p : proto) (acts : list action) : option world :=
  match run (mkSys (wc w) (srv_of w p)) acts with
  | None => None
  | Some y => Some (set_srv (mkW (cancelled y) (ws w) (wp w) (wgate w) (wpend w) (wtls w)) p (sv y))
  end.

(** Session ids are global in the driver; which server holds session i? *)
Definition where_is (w : world) (i : nat) : option proto :=
  match find_s i (ss (ws w)), find_s i (ss (wp w)) with
  | Some _, _ => Some PSmtp
  | None, Some _ => Some PPop3
  | None, None => None
  end.

Definition reply_of (to : phase) : lobs :=
  match to with
  | SHelo | SMail | SRcpt => XCode 250
  | SData => XCode 354
  | SBody => XDot
  | PUser | PPass | PDele => XOk
  | _ => XQ
  end.

Definition greeting (p : proto) : lobs := match p with PSmtp => XCode 220 | PPop3 => XOk end.

(** ids of probe sessions: never used by the generator *)
Definition probe_id (w : world) : nat := 1000 + length (ss (ws w)) + length (ss (wp w)).

Fixpoint pend_proto (i : nat) (xs : list (nat * proto)) : option proto :=
  match xs with [] => None | (k, p) :: t => if Nat.eqb k i then Some p else pend_proto i t end.
Fixpoint pend_rm (i : nat) (xs : list (nat * proto)) : list (nat * proto) :=
  match xs with [] => [] | (k, p) :: t => if Nat.eqb k i then t else (k, p) :: pend_rm i t end.

(** wg.Add(1); go startSession — whatever has happened to the listener meanwhile *)
Definition count_late (v : srv) (i : nat) : srv :=
  mkSrv (pr v) (lopen v) (S (wg v)) (ss v ++ [(i, mkS Held 0 1 false false)]).

Definition lstep (w : world) (o : lop) : world * lobs :=
  match o with
  | LAcceptHold i p =>
      match where_is w i, pend_proto i (wpend w) with
      | None, None =>
          if lopen (srv_of w p)
          then (mkW (wc w) (ws w) (wp w) (wgate w) (wpend w ++ [(i, p)]) (wtls w), XParked)
          else (w, XRefused)
      | _, _ => (w, XQ)
      end
  | LOpen i p =>
      match where_is w i with
      | Some _ => (w, XQ)
      | None => match wrun w p [Accept i; Begin i] with
                | Some w' => (w', greeting p)
                | None => (w, XRefused)
                end
      end
  | LOpenHeld i p =>
      match where_is w i with
      | Some _ => (w, XQ)
      | None => match wrun w p [Accept i] with
                | Some w' => (w', XHeld)
                | None => (w, XRefused)
                end
      end
  | LRelease i =>
      match where_is w i with
      | Some p => match wrun w p [Begin i] with Some w' => (w', greeting p) | None => (w, XQ) end
      | None =>
          match pend_proto i (wpend w) with
          | Some p =>
              let w1 := set_srv (mkW (wc w) (ws w) (wp w) (wgate w) (pend_rm i (wpend w)) (wtls w)) p (count_late (srv_of w p) i) in
              match wrun w1 p [Begin i] with Some w' => (w', greeting p) | None => (w1, XQ) end
          | None => (w, XQ)
          end
      end
  | LAdvance i to =>
      match where_is w i with
      | Some p => match wrun w p [Client i to] with Some w' => (w', reply_of to) | None => (w, XQ) end
      | None => (w, XQ)
      end
  | LCancel =>
      let w1 := mkW true (ws w) (wp w) (wgate w) (wpend w) (wtls w) in
      let w2 := match wrun w1 PSmtp [LClose] with Some x => x | None => w1 end in
      let w3 := match wrun w2 PPop3 [LClose] with Some x => x | None => w2 end in
      (w3, XDot)
  | LFinish i =>
      match where_is w i with
      | Some p =>
          let acts := match wrun w p [Quit i; Purge i; Exit i] with
                      | Some _ => [Quit i; Purge i; Exit i]
                      | None => [Quit i; Exit i]
                      end in
          match wrun w p acts with
          | Some w' =>
              match find_s i (ss (srv_of w p)), find_s i (ss (srv_of w' p)) with
              | Some s0, Some s1 =>
                  match p with
                  | PSmtp => (w', XFinS (if Nat.eqb (stored s1) (stored s0) then None else Some 250) 221 (stored s1))
                  | PPop3 => (w', XFinP true (left s1))
                  end
              | _, _ => (w, XQ)
              end
          | None => (w, XQ)
          end
      | None => (w, XQ)
      end
  | LQuit i =>
      match where_is w i with
      | Some PPop3 =>
          match wrun w PPop3 [Quit i] with
          | Some w1 =>
              (* processDeletes goes through unless a RemoveMessage is needed and the store is gated *)
              let stuck := match find_s i (ss (wp w1)) with
                           | Some s => wgate w1 && marked s && match ph s with PUpdate => true | _ => false end
                           | None => false
                           end in
              if stuck then (w1, XOk)
              else match wrun w1 PPop3 [Purge i; Exit i] with
                   | Some w2 => (w2, XOk)
                   | None => match wrun w1 PPop3 [Exit i] with Some w2 => (w2, XOk) | None => (w1, XOk) end
                   end
          | None => (w, XQ)
          end
      | _ => (w, XQ)
      end
  | LEnd i =>
      match find_s i (ss (wp w)) with
      | Some s => match ph s with Ended => (w, XFinP true (left s)) | _ => (w, XQ) end
      | None => (w, XQ)
      end
  | LPlain =>
      (* the handshake itself is not modelled, only its effect: the session is accepted, starts,
         fails at its first write, and ends like any other *)
      let i := probe_id w in
      match wrun w PPop3 [Accept i; Begin i; Abort i; Exit i] with
      | Some w' => (w', XDropped)
      | None => (w, XRefused)
      end
  | LUpgrade i =>
      (* session-internal: the connection is wrapped, the protocol position stays; like every session step it
         has no access to the context or the listener. AS CODED the TLS state is a field of the SERVER: the
         first session that upgrades sets it, and every later STLS — of any session — is refused. *)
      match find_s i (ss (wp w)) with
      | Some s =>
          match ph s with
          | Greeted | PUser =>
              if wtls w then (w, XErr)
              else (mkW (wc w) (ws w) (wp w) (wgate w) (wpend w) true, XOk)
          | _ => (w, XQ)
          end
      | None => (w, XQ)
      end
  | LBusy i =>
      (* NOOPs change nothing; the session answers each of them *)
      match where_is w i with
      | Some p =>
          match find_s i (ss (srv_of w p)) with
          | Some s => if running (ph s) then (w, match p with PSmtp => XCode 250 | PPop3 => XOk end) else (w, XQ)
          | None => (w, XQ)
          end
      | None => (w, XQ)
      end
  | LAcceptFail p =>
      (* the loop is gone (its own count released), nothing is accepted any more; the sessions are untouched and
         Start keeps waiting for the cancellation. For Drain and for later accepts this is a dead listener. *)
      let v := srv_of w p in
      (set_srv w p (mkSrv (pr v) false (wg v) (ss v)), XNotified)
  | LGate => (mkW (wc w) (ws w) (wp w) true (wpend w) (wtls w), XDot)
  | LUngate =>
      let w0 := mkW (wc w) (ws w) (wp w) false (wpend w) (wtls w) in
      (fold_left (fun x (p : nat * session) =>
                    match ph (snd p) with
                    | PUpdate => match wrun x PPop3 [Purge (fst p); Exit (fst p)] with Some x' => x' | None => x end
                    | _ => x
                    end) (ss (wp w)) w0, XDot)
  | LAbort i =>
      match where_is w i with
      | Some p =>
          match wrun w p [Abort i; Exit i] with
          | Some w' => (w', XDot)
          | None => match wrun w p [Begin i; Abort i; Exit i] with
                    | Some w' => (w', XDot)
                    | None => (w, XQ)
                    end
          end
      | None => (w, XQ)
      end
  | LProbe p =>
      let i := probe_id w in
      match wrun w p [Accept i; Begin i; Quit i; Exit i] with
      | Some w' => (w', XAccepted)
      | None => (w, XRefused)
      end
  | LDrain p =>
      (* Server.wg = the sessions' counts + the accept loop's own (repair 0022); the loop exits once the
         listener is closed, unless it still holds a connection it has to count and start first *)
      let held := existsb (fun x => match snd x, p with PSmtp, PSmtp | PPop3, PPop3 => true | _, _ => false end) (wpend w) in
      (w, if Nat.eqb (wg (srv_of w p)) 0 && negb (lopen (srv_of w p)) && negb held then XReturned else XBlocked)
  end.

Fixpoint lsteps (w : world) (ops : list lop) : world * list lobs :=
  match ops with
  | [] => (w, [])
  | o :: t => let (w1, x) := lstep w o in let (w2, xs) := lsteps w1 t in (w2, x :: xs)
  end.

(** End of a case: cancel, every client leaves, both Drains, Join, hub Sync, late hub ops. *)
Definition ldrive (ops : list lop) : list lobs :=
  snd (lsteps world_init ops) ++ [XReturned; XReturned; XJoined; XFine; XFine].

(** * The property oracle: the specification evaluated on what the implementation showed.
    The books kept here are the specification's, not the model's state: which sessions the
    client side has opened and not yet ended, whether shutdown has been requested, and what
    each open session is entitled to by its own dialogue. *)

Inductive lverdict :=
| LVOk
| LVShape
| LVAcceptedAfterShutdown (k : nat)      (* op index *)
| LVSessionDisturbed (k : nat)           (* an open session got a reply its dialogue does not entitle it to *)
| LVDrainEarly (k : nat)                 (* Drain returned while an accepted session was alive *)
| LVDrainUncounted (k : nat)             (* … and every such session was still in the accept-to-count window *)
| LVDrainStuck (k : nat)                 (* Drain did not return although no session was alive *)
| LVFinal (k : nat).                     (* after everything ended: Drain / Join / hub did not come back *)

Record book := mkB { b_id : nat; b_pr : proto; b_ph : phase; b_open : bool }.

Fixpoint find_b (i : nat) (bs : list book) : option book :=
  match bs with [] => None | b :: t => if Nat.eqb (b_id b) i then Some b else find_b i t end.
Fixpoint upd_b (b : book) (bs : list book) : list book :=
  match bs with [] => [] | x :: t => if Nat.eqb (b_id x) (b_id b) then b :: t else x :: upd_b b t end.

Definition open_count (p : proto) (bs : list book) : nat :=
  length (filter (fun b => b_open b && match b_pr b, p with PSmtp, PSmtp | PPop3, PPop3 => true | _, _ => false end) bs).

Definition lobs_eqb (a b : lobs) : bool :=
  match a, b with
  | XNotified, XNotified | XErr, XErr | XParked, XParked | XDropped, XDropped | XDot, XDot | XQ, XQ | XRefused, XRefused | XHeld, XHeld | XAccepted, XAccepted | XOk, XOk
  | XReturned, XReturned | XBlocked, XBlocked | XJoined, XJoined | XFine, XFine => true
  | XCode x, XCode y => Nat.eqb x y
  | XFinS d q n, XFinS d' q' n' =>
      match d, d' with Some x, Some y => Nat.eqb x y | None, None => true | _, _ => false end
      && Nat.eqb q q' && Nat.eqb n n'
  | XFinP o n, XFinP o' n' => Bool.eqb o o' && Nat.eqb n n'
  | _, _ => false
  end.

(** ids connected in the accept-to-count window and not yet released *)
Fixpoint uncounted (ops : list lop) (acc : list nat) : list nat :=
  match ops with
  | [] => acc
  | LAcceptHold i _ :: t => uncounted t (i :: acc)
  | LRelease i :: t | LAbort i :: t => uncounted t (filter (fun x => negb (Nat.eqb x i)) acc)
  | _ :: t => uncounted t acc
  end.

Fixpoint loracle_go (all : list lop) (k : nat) (ops : list lop) (os : list lobs) (down : bool) (bs : list book)
  : lverdict * list lobs :=
  match ops with
  | [] => (LVOk, os)
  | o :: t =>
      match os with
      | [] => (LVShape, [])
      | x :: os' =>
          let next := loracle_go all (S k) t os' in
          match o with
          | LCancel => next true bs
          | LOpen i p =>
              if down then (if lobs_eqb x XRefused then next down bs else (LVAcceptedAfterShutdown k, os'))
              else if lobs_eqb x (greeting p) then next down (bs ++ [mkB i p Greeted true])
              else (LVSessionDisturbed k, os')
          | LAcceptHold i p =>
              if down then (if lobs_eqb x XRefused then next down bs else (LVAcceptedAfterShutdown k, os'))
              else if lobs_eqb x XParked then next down (bs ++ [mkB i p Held true])
              else (LVSessionDisturbed k, os')
          | LOpenHeld i p =>
              if down then (if lobs_eqb x XRefused then next down bs else (LVAcceptedAfterShutdown k, os'))
              else if lobs_eqb x XHeld then next down (bs ++ [mkB i p Held true])
              else (LVSessionDisturbed k, os')
          | LProbe p =>
              if down then (if lobs_eqb x XRefused then next down bs else (LVAcceptedAfterShutdown k, os'))
              else if lobs_eqb x XAccepted then next down bs else (LVSessionDisturbed k, os')
          | LRelease i =>
              match find_b i bs with
              | Some b => if lobs_eqb x (greeting (b_pr b))
                          then next down (upd_b (mkB i (b_pr b) Greeted true) bs)
                          else (LVSessionDisturbed k, os')
              | None => next down bs
              end
          | LAdvance i to =>
              match find_b i bs with
              | Some b => if b_open b then
                            (if lobs_eqb x (reply_of to)
                             then next down (upd_b (mkB i (b_pr b) to true) bs)
                             else (LVSessionDisturbed k, os'))
                          else next down bs
              | None => next down bs
              end
          | LFinish i =>
              match find_b i bs with
              | Some b =>
                  if b_open b then
                    let want := match b_pr b with
                                | PSmtp => match b_ph b with
                                           | SData | SBody => XFinS (Some 250) 221 1
                                           | _ => XFinS None 221 0
                                           end
                                | PPop3 => XFinP true (match b_ph b with PDele => 0 | _ => 1 end)
                                end in
                    if lobs_eqb x want then next down (upd_b (mkB i (b_pr b) Ended false) bs)
                    else (LVSessionDisturbed k, os')
                  else next down bs
              | None => next down bs
              end
          | LAbort i =>
              match find_b i bs with
              | Some b => next down (upd_b (mkB i (b_pr b) Ended false) bs)
              | None => next down bs
              end
          | LQuit i =>
              match find_b i bs with
              | Some b => if b_open b then (if lobs_eqb x XOk then next down bs else (LVSessionDisturbed k, os'))
                          else next down bs
              | None => next down bs
              end
          | LEnd i =>
              match find_b i bs with
              | Some b =>
                  if b_open b then
                    let want := XFinP true (match b_ph b with PDele => 0 | _ => 1 end) in
                    if lobs_eqb x want then next down (upd_b (mkB i (b_pr b) Ended false) bs)
                    else (LVSessionDisturbed k, os')
                  else next down bs
              | None => next down bs
              end
          | LPlain =>
              if down then (if lobs_eqb x XRefused then next down bs else (LVAcceptedAfterShutdown k, os'))
              else if lobs_eqb x XDropped then next down bs else (LVSessionDisturbed k, os')
          | LUpgrade i =>
              (* +OK, or the refusal "-ERR A TLS session already agreed upon" the server gives once ANY of its
                 sessions has upgraded (as coded; noted in DESIGN 10.3) — either way the session goes on *)
              match find_b i bs with
              | Some b => if b_open b then
                            (let earlier := existsb (fun o => match o with LUpgrade _ => true | _ => false end) (firstn k all) in
                             if lobs_eqb x XOk || (earlier && lobs_eqb x XErr) then next down bs else (LVSessionDisturbed k, os'))
                          else next down bs
              | None => next down bs
              end
          | LBusy i =>
              match find_b i bs with
              | Some b => if b_open b then
                            (if lobs_eqb x (match b_pr b with PSmtp => XCode 250 | PPop3 => XOk end) then next down bs
                             else (LVSessionDisturbed k, os'))
                          else next down bs
              | None => next down bs
              end
          | LAcceptFail _ => if lobs_eqb x XNotified then next down bs else (LVSessionDisturbed k, os')
          | LGate | LUngate => next down bs
          | LDrain p =>
              if negb down then next down bs   (* Drain is only promised anything after shutdown was requested *)
              else
              match x with
              | XReturned =>
                  if Nat.eqb (open_count p bs) 0 then next down bs
                  else
                    let unc := uncounted (firstn k all) [] in
                    if forallb (fun b => negb (b_open b && match b_pr b, p with PSmtp, PSmtp | PPop3, PPop3 => true | _, _ => false end)
                                         || existsb (Nat.eqb (b_id b)) unc) bs
                    then (LVDrainUncounted k, os') else (LVDrainEarly k, os')
              | XBlocked => if Nat.eqb (open_count p bs) 0 then (LVDrainStuck k, os') else next down bs
              | _ => (LVShape, os')
              end
          end
      end
  end.

Definition loracle (ops : list lop) (os : list lobs) : lverdict :=
  match loracle_go ops 0 ops os false [] with
  | (LVOk, tl_os) =>
      match tl_os with
      | [a; b; c; d; e] =>
          if negb (lobs_eqb a XReturned) then LVFinal 0
          else if negb (lobs_eqb b XReturned) then LVFinal 1
          else if negb (lobs_eqb c XJoined) then LVFinal 2
          else if negb (lobs_eqb d XFine) then LVFinal 3
          else if negb (lobs_eqb e XFine) then LVFinal 4
          else LVOk
      | _ => LVShape
      end
  | (v, _) => v
  end.

(** STARTTLS in the session model (C03: "TLS disabled" was a stated gap).  The session carries the flag [tls]
    (handler.go: s.tlsState != nil).  STARTTLS is answered 454 when TLS is not configured or already agreed upon,
    otherwise 220, after which the connection is wrapped and the session is back in GREET: nothing is accepted
    before a new HELO / EHLO, TLS is never negotiated twice, never dropped again, and is offered by EHLO exactly
    while it can still be started. *)
From IV Require Import Base.Bytes Base.BytesFacts Model.Policy Model.Smtp Proofs.SmtpInv Proofs.SmtpThms.
From Coq Require Import ZifyBool ZifyNat Lia.

(** the flag is set by an accepted STARTTLS and by nothing else, and never cleared *)
Theorem tls_set_only_by_starttls : forall c s it s' r d,
  step c s it = Ok s' r d -> tls s' <> tls s ->
  it = L Starttls /\ r = one 220 /\ tls s = false /\ tls s' = true /\ tls_enabled c = true /\ st s = READY /\ st s' = GREET.
Proof.
  intros c s it s' r d H Hne.
  unfold step, step_greet, step_ready, step_mail, step_mail_from, step_data, set_st, reset in H.
  destruct (st s) eqn:Es; step_cases; cbn [tls] in Hne; try congruence.
  repeat split; auto. destruct (tls_enabled c); [reflexivity|discriminate].
Qed.

Theorem tls_never_dropped : forall c s it s' r d,
  step c s it = Ok s' r d -> tls s = true -> tls s' = true.
Proof.
  intros c s it s' r d H Ht. destruct (Bool.bool_dec (tls s') (tls s)) as [E|E]; [congruence|].
  destruct (tls_set_only_by_starttls _ _ _ _ _ _ H E) as (_ & _ & Hf & _). congruence.
Qed.

Lemma run_tls_monotone c : forall items s tr s', run c s items = (tr, EOpen s') -> tls s = true -> tls s' = true.
Proof.
  induction items as [|it items IH]; intros s tr s' H Ht; cbn [run] in H.
  - inversion H; subst. exact Ht.
  - destruct (step c s it) as [s1 r d| |] eqn:E; try discriminate.
    destruct (run c s1 items) as [tr1 e1] eqn:R. inversion H; subst.
    eapply IH; [exact R|]. eapply tls_never_dropped; eauto.
Qed.

(** what STARTTLS is answered, in the state that handles it *)
Theorem starttls_answer : forall c s,
  st s = READY ->
  step c s (L Starttls) =
  if tls_enabled c && negb (tls s)
  then Ok {| st := GREET; from := from s; rcpts := rcpts s; helo := []; tls := true |} (one 220) []
  else Ok s (one 454) [].
Proof.
  intros c s Hs. unfold step, step_ready. rewrite Hs.
  destruct (tls_enabled c), (tls s); reflexivity.
Qed.

(** ... and in every other state before QUIT it is out of sequence (or swallowed by the AUTH LOGIN sub-dialogue) *)
Theorem starttls_elsewhere : forall c s s' r d,
  st s <> READY -> step c s (L Starttls) = Ok s' r d -> r <> one 220 /\ tls s' = tls s.
Proof.
  intros c s s' r d Hs H. unfold step, step_greet, step_mail, set_st in H.
  destruct (st s) eqn:Es; try congruence; inversion H; subst; split; try discriminate; reflexivity.
Qed.

(** TLS is never negotiated twice on a connection *)
Theorem starttls_once : forall c s s' r d,
  tls s = true -> step c s (L Starttls) = Ok s' r d -> first_code r <> 220%Z.
Proof.
  intros c s s' r d Ht H. unfold step, step_greet, step_ready, step_mail, set_st in H. rewrite Ht in H.
  destruct (st s); try discriminate; try (destruct (negb (tls_enabled c))); inversion H; subst; cbn; lia.
Qed.

(** after the 220 nothing but a greeting is accepted: MAIL, RCPT, DATA and AUTH are out of sequence *)
Theorem after_starttls_greeting_is_due : forall c s s1 r1 d1 l s2 r2 d2,
  step c s (L Starttls) = Ok s1 r1 d1 -> r1 = one 220 ->
  step c s1 (L l) = Ok s2 r2 d2 ->
  match l with
  | Mail _ _ | Rcpt _ _ | DataC _ | Auth _ | Starttls => first_code r2 = 503%Z /\ s2 = s1
  | _ => True
  end.
Proof.
  intros c s s1 r1 d1 l s2 r2 d2 H1 Hr H2.
  assert (Hg : st s1 = GREET).
  { subst r1. unfold step, step_greet, step_ready, step_mail, set_st in H1.
    destruct (st s) eqn:Es; try discriminate;
      try (destruct (negb (tls_enabled c)); [|destruct (tls s)]);
      inversion H1; subst; try reflexivity; discriminate. }
  unfold step, step_greet in H2. rewrite Hg in H2.
  destruct l; try exact I; inversion H2; subst; split; reflexivity.
Qed.

(** EHLO offers STARTTLS exactly while it can still be started *)
Theorem ehlo_offers_starttls_iff : forall c s,
  length (ehlo_reply c s) = (if tls_enabled c && negb (tls s) then 5 else 4)%nat.
Proof. intros c s. unfold ehlo_reply. destruct (tls_enabled c && negb (tls s)); reflexivity. Qed.

(** A whole dialogue: EHLO (5 lines: STARTTLS offered), STARTTLS 220, MAIL out of sequence, EHLO again (4 lines),
    a second STARTTLS 454. *)
Example starttls_dialogue :
  let c := {| pol := {| def_accept := true; accept_l := []; reject_l := []; def_store := true; store_l := [];
                        discard_l := []; reject_origin_l := [] |}; max_rcpt := 10; max_bytes := 1000; tls_enabled := true |} in
  map (fun e => map fst (snd (fst e)))
      (fst (run c init [L (Ehlo [104]); L Starttls; L (Mail MBadSyntax NoAns); L (Ehlo [104]); L Starttls; L Quit]))
  = [[250; 250; 250; 250; 250]; [220]; [503]; [250; 250; 250; 250]; [454]; [221]]%Z.
Proof. reflexivity. Qed.

(** A listener that speaks TLS from the first byte (SMTP_FORCETLS): the session starts with the flag set
    (NewSession: tlsState = the connection's state).  On such a connection STARTTLS is never accepted and never
    offered, whatever the client sends. *)
Definition init_forced : session := {| st := GREET; from := None; rcpts := []; helo := []; tls := true |}.

Lemma run_under_tls c : forall items s tr e,
  tls s = true -> run c s items = (tr, e) ->
  forall it r d, In (it, r, d) tr ->
    (it = L Starttls -> first_code r <> 220%Z) /\
    (forall dm, it = L (Ehlo dm) -> first_code r = 250%Z -> length r = 4%nat \/ length r = 1%nat).
Proof.
  induction items as [|it0 items IH]; intros s tr e Ht H it r d Hin; cbn [run] in H.
  - inversion H; subst. destruct Hin.
  - destruct (step c s it0) as [s1 r1 d1| |] eqn:E; [|inversion H; subst; destruct Hin|inversion H; subst; destruct Hin].
    destruct (run c s1 items) as [tr1 e1] eqn:R. inversion H; subst tr e. clear H.
    destruct Hin as [Hin|Hin].
    + inversion Hin; subst it r d. split.
      * intros ->. eapply starttls_once; eauto.
      * intros dm -> Hc. unfold step, step_greet, step_ready, step_mail, set_st, reset in E.
        destruct (st s) eqn:Es; try discriminate;
          try (destruct dm; inversion E; subst; cbn in Hc; try discriminate Hc; try (right; reflexivity);
               left; unfold ehlo_reply; rewrite Ht, Bool.andb_false_r; reflexivity);
          inversion E; subst; cbn in Hc; try discriminate Hc; right; reflexivity.
    + eapply IH; [eapply tls_never_dropped; eauto|exact R|exact Hin].
Qed.

Theorem forced_tls_never_starts_tls_again : forall c items it r d,
  In (it, r, d) (fst (run c init_forced items)) ->
  (it = L Starttls -> first_code r <> 220%Z) /\
  (forall dm, it = L (Ehlo dm) -> first_code r = 250%Z -> length r = 4%nat \/ length r = 1%nat).
Proof.
  intros c items it r d Hin. destruct (run c init_forced items) as [tr e] eqn:R.
  eapply (run_under_tls c items init_forced tr e); [reflexivity|exact R|exact Hin].
Qed.

(** From the bytes on the SMTP wire to the bytes every read interface serves — the models of C01 (session), C02 (dot
    codec, trace headers), C07/C08 (abstract store with a mailbox cap), C14 (REST / web UI) and C13 (POP3) composed into
    the one statement a user of a mail-testing server relies on:

      whatever bytes [w] a client sends on one SMTP connection, every message any mailbox holds afterwards
        - was delivered by that dialogue to exactly that mailbox ([d] is one of the transcript's deliveries),
        - has as its body the dot-decoding of a DATA block that stands in [w] (a suffix of [w] begins with the block),
        - and is served by the store, by REST /source, by the web UI's /source and by POP3 RETR as the bytes
          [src d] — for [src] = trace headers followed by the body: [stored_source].

    and conversely (second theorem) a client that sends [enc body] as its DATA block reads back
    [trace headers ++ lf_norm body]: the only thing that changes are line endings.

    The message's bytes travel through the abstract store behind a tag; [content (tag_of d) = src d] is the
    premise that names them, asked only of the dialogue's own deliveries (the store models keep content opaque: StoreSpec never looks inside a message).  The size clause is in
    Proofs/EndToEndSize.v ([add_op] here records the body length, the real stores the length of the stored source: that file
    shows the difference is the size field alone and states the theorem with the sizes the stores record).  What stays outside, as everywhere: the
    transport glue (net/http, the POP3 line writer's connection), covered by the differential runs of C02. *)
From Coq Require Import List NArith ZArith Lia.
From IV Require Import Base.Bytes Base.BytesFacts Model.Policy Model.Smtp Model.Dot Model.SmtpWire Model.StoreSpec.
From IV Require Import Proofs.StoreSpecFacts Proofs.SmtpInv Proofs.SmtpThms Proofs.DotCodec Proofs.SmtpCut Proofs.SmtpCutTrace.
From IV Require Import Proofs.StoreCap Proofs.DeliverStore Proofs.DeliverStoreCap Proofs.InterfacesAgree.
From IV Require Model.Rest Model.Pop3 Model.Pop3Store Model.Pop3Wire.
Import ListNotations.
Local Open Scope nat_scope.

(** ** Every delivered body is a decoded block of the stream *)
Lemma dec_rest_suffix : forall w st d r, dec st w = Some (d, r) -> exists p, w = p ++ r.
Proof.
  induction w as [|c w IH]; intros st d r H; [discriminate|].
  cbn [dec] in H.
  destruct st;
    repeat match type of H with
           | context [if ?b then _ else _] => destruct b
           end;
    try (inversion H; subst; exists [c]; reflexivity);
    try (match type of H with
         | emit _ (dec ?s w) = _ => destruct (dec s w) as [[d' r']|] eqn:E; [|discriminate];
             cbn [emit] in H; inversion H; subst; apply IH in E; destruct E as [p ->]; exists (c :: p); reflexivity
         | dec ?s w = _ => apply IH in H; destruct H as [p ->]; exists (c :: p); reflexivity
         end).
Qed.

Lemma next_item_suffix o s w : exists p, w = p ++ snd (next_item o s w).
Proof.
  unfold next_item.
  destruct (st s);
    try (unfold read_line; destruct w as [|b w]; [exists []; reflexivity|];
         destruct (split_lf (b :: w)) as [[l r]|] eqn:S; cbn [snd];
         [apply split_lf_some in S as [S _]; exists (l ++ [LFb]); rewrite S, <- app_assoc; reflexivity
         |exists (b :: w); rewrite app_nil_r; reflexivity]).
  destruct (dec BeginLine w) as [[b r]|] eqn:D; cbn [snd];
    [apply dec_rest_suffix in D; exact D|exists w; rewrite app_nil_r; reflexivity].
Qed.

Lemma deliveries_for_body c o rs hl body h hook d :
  In d (deliveries_for c o rs hl body h hook) -> d_body d = body.
Proof.
  unfold deliveries_for. destruct hook as [ov|]; intros H; apply in_map_iff in H as [x [<- _]]; reflexivity.
Qed.

(** a step that delivers is the step of a complete block, and delivers that block's body *)
Lemma step_delivers_block c s it s' r dl d :
  step c s it = Smtp.Ok s' r dl -> In d dl ->
  st s = DATA /\ exists hdr hook, it = B (PBlock (d_body d) hdr hook).
Proof.
  intros H Hin.
  destruct it as [l| p | | |].
  - apply line_no_delivery in H. subst. contradiction.
  - destruct (sstate_eqb (st s) DATA) eqn:Ed.
    + assert (Es : st s = DATA) by (destruct (st s); try discriminate; reflexivity).
      split; [exact Es|]. unfold step in H. rewrite Es in H. unfold step_data in H.
      destruct p as [ | |body hdr hook]; try (inversion H; subst; contradiction).
      destruct (max_bytes c <? Z.of_nat (length body))%Z; [inversion H; subst; contradiction|].
      destruct hdr as [h|]; [|inversion H; subst; contradiction].
      destruct (from s) as [o|]; [|discriminate]. inversion H; subst.
      apply deliveries_for_body in Hin. subst. exists (Some h), hook. reflexivity.
    + unfold step in H. destruct (st s); try discriminate H; discriminate Ed.
  - unfold step in H. destruct (st s); try discriminate H; inversion H; subst; contradiction.
  - unfold step in H. destruct (st s); try discriminate H; inversion H; subst; contradiction.
  - unfold step in H. destruct (st s); try discriminate H; inversion H; subst; contradiction.
Qed.

Definition block_in (w body : str) : Prop :=
  exists pre blk rest, w = pre ++ blk /\ dec BeginLine blk = Some (body, rest).

Lemma block_in_suffix p w body : block_in w body -> block_in (p ++ w) body.
Proof. intros (pre & blk & rest & -> & D). exists (p ++ pre), blk, rest. rewrite app_assoc. split; [reflexivity|exact D]. Qed.

Theorem delivered_bodies_are_decoded_blocks_fuel : forall f c o s w d,
  In d (deliveries_of (tail_tr f c o s w)) -> block_in w (d_body d).
Proof.
  induction f as [|f IH]; intros c o s w d H; [contradiction|].
  rewrite tail_tr_S in H.
  assert (Hgen : match step c s (fst (next_item o s w)) with
                 | Smtp.Ok s' r dl => In d (deliveries_of ((fst (next_item o s w), r, dl) :: tail_tr f c o s' (snd (next_item o s w))))
                 | _ => False end -> block_in w (d_body d)).
  { destruct (step c s (fst (next_item o s w))) as [s' r dl| |] eqn:E; try contradiction.
    intros Hin. unfold deliveries_of in Hin. cbn [map concat snd] in Hin. apply in_app_or in Hin as [Hin|Hin].
    - destruct (step_delivers_block _ _ _ _ _ _ _ E Hin) as [Es (hdr & hook & Hit)].
      unfold next_item in Hit. rewrite Es in Hit.
      destruct (dec BeginLine w) as [[body rest]|] eqn:D; cbn [fst] in Hit; [|discriminate].
      unfold block_item in Hit. inversion Hit as [Hb]. exists [], w, rest. split; [reflexivity|]. rewrite <- Hb. exact D.
    - destruct (next_item_suffix o s w) as [p Hp]. rewrite Hp at 1. apply block_in_suffix. eapply IH. exact Hin. }
  destruct (st s); try contradiction; apply Hgen;
    (destruct (step c s (fst (next_item o s w))) as [s' r dl| |]; [exact H|contradiction|contradiction]).
Qed.

Theorem delivered_bodies_are_decoded_blocks : forall c o w d,
  In d (deliveries_of (snd (fst (run_bytes c o w)))) -> block_in w (d_body d).
Proof. intros c o w d. unfold run_bytes. apply delivered_bodies_are_decoded_blocks_fuel. Qed.

(** ** From the wire to every read interface *)
Lemma in_capl {A} cap (l : list A) x : In x (capl cap l) -> In x l.
Proof.
  unfold capl. destruct cap; [tauto|]. intros H.
  rewrite <- (firstn_skipn (length l - S cap) l). apply in_or_app. right. exact H.
Qed.

Section Wire.
Variable tag_of : delivery -> N.
Variable date : Z.
Variable cap : nat.
Variable content : N -> str.
Variable src : delivery -> str.
Variable mfa : str -> option str.
Variable srcok : str -> nat -> bool.

Definition store_of (ds : list delivery) : spec_store :=
  final_spec (cfgc cap) spec_init (map (add_opc tag_of date) ds).

Lemma store_of_inv ds : SInv (store_of ds).
Proof. apply final_spec_SInv, SInv_init. Qed.

(** a live entry of the store after the deliveries [ds] is one of them *)
Lemma live_entry_is_a_delivery ds mb i e :
  nth_error (box mb (live (store_of ds))) i = Some e ->
  exists d, In d ds /\ d_mailbox d = mb /\ m_tag (e_msg e) = tag_of d.
Proof.
  intros Hn.
  pose proof (deliveries_reach_the_capped_store tag_of date cap ds mb) as Ht.
  assert (Hm : nth_error (tags (box mb (live (store_of ds)))) i = Some (m_tag (e_msg e)))
    by (unfold tags; rewrite nth_error_map, Hn; reflexivity).
  unfold store_of in Hm. rewrite Ht, nth_error_map in Hm.
  destruct (nth_error (store_get (store_after_cap cap [] ds) mb) i) as [d|] eqn:Ed; [|discriminate].
  inversion Hm as [Htag]. exists d. apply nth_error_In in Ed.
  rewrite capped_store_from_empty, store_get_trim, no_other_mailbox_changes, cap_box_capl in Ed.
  apply in_capl, filter_In in Ed as [Hin Hmb]. apply str_eqb_eq in Hmb.
  split; [exact Hin|]. split; [symmetry; exact Hmb|congruence].
Qed.

Theorem smtp_bytes_to_read_interfaces : forall c o w name mb i e num body,
  let tr := snd (fst (run_bytes c o w)) in
  let st := store_of (deliveries_of tr) in
  (forall d, In d (deliveries_of tr) -> content (tag_of d) = src d) ->
  mfa name = Some mb -> nth_error (box mb (live st)) i = Some e -> srcok mb (e_k e) = true ->
  exists d,
    (* it is a delivery of this dialogue, to this mailbox, of a block that stands in the stream *)
    In d (deliveries_of tr) /\ d_mailbox d = mb /\ block_in w (d_body d) /\
    (* the bytes behind the entry are that delivery's source … *)
    content (m_tag (e_msg e)) = src d /\
    (* … and the store, REST, the web UI and the POP3 view answer with exactly this entry *)
    exec_spec (cfgc cap) st (Get mb (Kth (e_k e))) = (st, OGet (Ok (e_k e, e_msg e)), []) /\
    Rest.run_handler mfa (cfgc cap) srcok st Rest.HSrc name (Rest.id_of_k (e_k e)) num body = (st, (Rest.S200, Rest.PSrc (e_k e, e_msg e))) /\
    Rest.run_handler mfa (cfgc cap) srcok st Rest.USrc name (Rest.id_of_k (e_k e)) num body = (st, (Rest.S200, Rest.PSrc (e_k e, e_msg e))) /\
    nth_error (Pop3.mmsgs (Pop3.get_box (Pop3Store.abs content st) mb)) i =
      Some {| Pop3.sid := Pop3Store.id_of_k (e_k e); Pop3.ssrc := src d |} /\
    Pop3Wire.pop3_client_decode (Pop3Wire.pop3_send (src d)) = Some (Pop3Wire.pop3_norm (src d)).
Proof.
  intros c o w name mb i e num body tr st content_is_src Hn Hi Hok.
  destruct (live_entry_is_a_delivery (deliveries_of tr) mb i e Hi) as (d & Hin & Hmb & Htag).
  exists d. split; [exact Hin|]. split; [exact Hmb|].
  split; [apply (delivered_bodies_are_decoded_blocks c o w d Hin)|].
  assert (Hc : content (m_tag (e_msg e)) = src d) by (rewrite Htag; apply content_is_src; exact Hin).
  split; [exact Hc|].
  pose proof (store_of_inv (deliveries_of tr)) as HI.
  destruct (read_interfaces_agree_on_source mfa (cfgc cap) srcok content st name mb e i num body HI Hn Hi Hok)
    as (H1 & H2 & H3 & H4 & _ & _).
  split; [exact H1|]. split; [exact H2|]. split; [exact H3|]. rewrite Hc in H4. split; [exact H4|].
  apply Proofs.Pop3Wire.pop3_roundtrip.
Qed.

(** The same for a server's whole life: any number of connections [ws], sequential or concurrent.  The store sees
    their deliveries as single AddMessage calls in SOME order (C07: the stores linearise them), so [ds] is any list
    each of whose members is a delivery of one of the sessions - every interleaving of the sessions' delivery lists is
    one, and nothing is assumed about the order. *)
Theorem any_sessions_to_read_interfaces : forall c o (ws : list str) ds name mb i e num body,
  let st := store_of ds in
  (forall d, In d ds -> exists w, In w ws /\ In d (deliveries_of (snd (fst (run_bytes c o w))))) ->
  (forall d, In d ds -> content (tag_of d) = src d) ->
  mfa name = Some mb -> nth_error (box mb (live st)) i = Some e -> srcok mb (e_k e) = true ->
  exists d w,
    In w ws /\ In d ds /\ d_mailbox d = mb /\ block_in w (d_body d) /\
    content (m_tag (e_msg e)) = src d /\
    exec_spec (cfgc cap) st (Get mb (Kth (e_k e))) = (st, OGet (Ok (e_k e, e_msg e)), []) /\
    Rest.run_handler mfa (cfgc cap) srcok st Rest.HSrc name (Rest.id_of_k (e_k e)) num body = (st, (Rest.S200, Rest.PSrc (e_k e, e_msg e))) /\
    Rest.run_handler mfa (cfgc cap) srcok st Rest.USrc name (Rest.id_of_k (e_k e)) num body = (st, (Rest.S200, Rest.PSrc (e_k e, e_msg e))) /\
    nth_error (Pop3.mmsgs (Pop3.get_box (Pop3Store.abs content st) mb)) i =
      Some {| Pop3.sid := Pop3Store.id_of_k (e_k e); Pop3.ssrc := src d |}.
Proof.
  intros c o ws ds name mb i e num body st Hfrom Hsrc Hn Hi Hok.
  destruct (live_entry_is_a_delivery ds mb i e Hi) as (d & Hin & Hmb & Htag).
  destruct (Hfrom d Hin) as (w & Hw & Hdw).
  exists d, w. split; [exact Hw|]. split; [exact Hin|]. split; [exact Hmb|].
  split; [apply (delivered_bodies_are_decoded_blocks c o w d Hdw)|].
  assert (Hc : content (m_tag (e_msg e)) = src d) by (rewrite Htag; apply Hsrc; exact Hin).
  split; [exact Hc|].
  pose proof (store_of_inv ds) as HI.
  destruct (read_interfaces_agree_on_source mfa (cfgc cap) srcok content st name mb e i num body HI Hn Hi Hok)
    as (H1 & H2 & H3 & H4 & _ & _).
  split; [exact H1|]. split; [exact H2|]. split; [exact H3|]. rewrite Hc in H4. exact H4.
Qed.
End Wire.

(** ** The forward direction (no cap): every delivery of the dialogue is in its mailbox and is what the interfaces serve
    With [delivery_exact] the deliveries are exactly what the dialogue entitles (one per accepted, storable recipient
    of every transaction answered 250), so: every message the session acknowledged can be read back, byte for byte,
    through every interface. *)
Section Forward.
Variable tag_of : delivery -> N.
Variable date : Z.
Variable content : N -> str.
Variable src : delivery -> str.
Variable mfa : str -> option str.
Variable srcok : str -> nat -> bool.

Lemma in_map_nth {A B} (f : A -> B) (l : list A) (x : A) : In x l -> exists i, nth_error (map f l) i = Some (f x).
Proof.
  intros H. apply In_nth_error in H as [i Hi]. exists i. rewrite nth_error_map, Hi. reflexivity.
Qed.

Theorem every_delivery_is_readable : forall c o w d name num body,
  let tr := snd (fst (run_bytes c o w)) in
  let st := store_of tag_of date 0 (deliveries_of tr) in
  (forall d', In d' (deliveries_of tr) -> content (tag_of d') = src d') ->
  In d (deliveries_of tr) -> mfa name = Some (d_mailbox d) ->
  (forall k, srcok (d_mailbox d) k = true) ->
  exists i e,
    nth_error (box (d_mailbox d) (live st)) i = Some e /\ m_tag (e_msg e) = tag_of d /\
    Rest.run_handler mfa (cfgc 0) srcok st Rest.HSrc name (Rest.id_of_k (e_k e)) num body = (st, (Rest.S200, Rest.PSrc (e_k e, e_msg e))) /\
    nth_error (Pop3.mmsgs (Pop3.get_box (Pop3Store.abs content st) (d_mailbox d))) i =
      Some {| Pop3.sid := Pop3Store.id_of_k (e_k e); Pop3.ssrc := src d |}.
Proof.
  intros c o w d name num body tr st Hsrc Hin Hn Hok.
  pose proof (deliveries_reach_the_capped_store tag_of date 0 (deliveries_of tr) (d_mailbox d)) as Ht.
  assert (Hd : In d (store_get (store_after_cap 0 [] (deliveries_of tr)) (d_mailbox d))).
  { rewrite capped_store_from_empty, store_get_trim, no_other_mailbox_changes, cap_box_capl. unfold capl.
    apply filter_In. split; [exact Hin|apply str_eqb_eq; reflexivity]. }
  destruct (in_map_nth tag_of _ d Hd) as [i Hi]. rewrite <- Ht in Hi. unfold tags in Hi. rewrite nth_error_map in Hi.
  fold (store_of tag_of date 0 (deliveries_of tr)) in Hi. fold st in Hi.
  destruct (nth_error (box (d_mailbox d) (live st)) i) as [e|] eqn:He; [|discriminate].
  assert (Htag : m_tag (e_msg e) = tag_of d) by (cbn in Hi; congruence). exists i, e. split; [first [exact He|reflexivity]|]. split; [exact Htag|].
  pose proof (store_of_inv tag_of date 0 (deliveries_of tr)) as HI.
  destruct (read_interfaces_agree_on_source mfa (cfgc 0) srcok content st name (d_mailbox d) e i num body HI Hn He (Hok _))
    as (_ & H2 & _ & H4 & _ & _).
  split; [exact H2|]. rewrite Htag, (Hsrc d Hin) in H4. exact H4.
Qed.
End Forward.

(** ** The statement with the real source format, and an instance
    [src d] = Return-Path / Received headers (the formats regenerated from the source: SmtpTraceFmt.v) followed by
    the delivered body.  For a client that sent [enc body ++ rest] as its block, [dot_roundtrip] gives
    [d_body d = lf_norm body]: only line endings change between what was sent and what is read. *)
Definition source_of (ip domain : str) (d : delivery) : str :=
  stored_source (d_retpath d) (d_helo d) ip domain (d_mailbox d) (d_body d).

Lemma encoded_block_decodes body rest b r :
  dec BeginLine (enc body ++ rest) = Some (b, r) -> b = lf_norm body /\ r = rest.
Proof. rewrite dot_roundtrip. intros H. inversion H. split; reflexivity. Qed.

From IV Require Proofs.SmtpExamples.
Import Proofs.SmtpExamples.

(** the dialogue of SmtpExamples.v (HELO a, MAIL FROM:<x@y>, RCPT TO:<z@w>, DATA, "S: 1" CRLF CRLF "hi" CRLF "." CRLF,
    QUIT) on a store with cap 3: mailbox "z" holds one message; REST /source answers it; the POP3 view holds
    Return-Path: <x@y> / Received: from a ([1.2.3.4]) by d / for <z>; ... followed by the body with LF line ends. *)
Local Open Scope N_scope.
Definition e2e_ip : str := [49;46;50;46;51;46;52].
Definition e2e_src := source_of e2e_ip [100].
Definition e2e_tag (d : delivery) : N := 7.
Definition e2e_d : delivery :=
  {| d_mailbox := [122]; d_from := [120;64;121]; d_to := [[122;64;119]]; d_subject := [49]; d_size := 9;
     d_retpath := [120;64;121]; d_helo := [97]; d_body := [83;58;32;49;10;10;104;105;10] |}.
Definition e2e_content (t : N) : str := e2e_src e2e_d.
Definition e2e_mfa (n : str) : option str := Some n.
Definition e2e_srcok (mb : str) (k : nat) : bool := true.

Lemma e2e_deliveries : deliveries_of (snd (fst (run_bytes c0 orc w_all))) = [e2e_d].
Proof. vm_compute. reflexivity. Qed.

Example e2e_store_has_the_message :
  exists e, nth_error (box [122] (live (store_of e2e_tag 5%Z 3%nat (deliveries_of (snd (fst (run_bytes c0 orc w_all))))))) 0%nat = Some e.
Proof. eexists. vm_compute. reflexivity. Qed.

Theorem e2e_instance :
  exists e d,
    nth_error (box [122] (live (store_of e2e_tag 5%Z 3%nat (deliveries_of (snd (fst (run_bytes c0 orc w_all))))))) 0%nat = Some e /\
    d_body d = lf_norm [83;58;32;49;13;10;13;10;104;105;13;10] /\
    nth_error (Pop3.mmsgs (Pop3.get_box (Pop3Store.abs e2e_content
        (store_of e2e_tag 5%Z 3%nat (deliveries_of (snd (fst (run_bytes c0 orc w_all)))))) [122])) 0%nat =
      Some {| Pop3.sid := Pop3Store.id_of_k (e_k e); Pop3.ssrc := e2e_src d |} /\
    e2e_src d = trace_headers [120;64;121] [97] e2e_ip [100] [122] ++ [83;58;32;49;10;10;104;105;10].
Proof.
  destruct e2e_store_has_the_message as [e He].
  destruct (smtp_bytes_to_read_interfaces e2e_tag 5%Z 3%nat e2e_content e2e_src e2e_mfa e2e_srcok
              c0 orc w_all [122] [122] 0%nat e [] Rest.BTrue) as (d & Hin & _ & _ & _ & _ & _ & _ & Hp & _).
  - intros d Hd. rewrite e2e_deliveries in Hd. destruct Hd as [<-|[]]. reflexivity.
  - reflexivity.
  - exact He.
  - reflexivity.
  - exists e, d. rewrite e2e_deliveries in Hin. destruct Hin as [<-|[]].
    split; [exact He|]. split; [vm_compute; reflexivity|]. split; [exact Hp|]. reflexivity.
Qed.

(** C09 — file store: bucket-lock exclusivity, no operation fails, and linearizability.
    While a thread holds a bucket lock nobody else changes the index or the directory of a mailbox
    of that bucket; hence what the thread decided when it read the index still holds when it
    commits (rename / remove of the index), and the directory it renames into exists. *)
From IV Require Import Model.Conc Model.ConcFile Proofs.ConcBase Proofs.ConcFileInv.
From Coq Require Import Lia ZifyN ZifyNat ZifyBool.

Definition pcfact (s : fsys) (q : fpc) : Prop :=
  match q with
  | FAddRename mb _ _ => has_dir mb s = true
  | FSeenRename mb id => has_dir mb s = true /\ find_msg id (fmsgs mb s) <> None
  | FRemoveRename mb id => has_dir mb s = true /\ find_msg id (fmsgs mb s) <> None
  | FIdxRemove mb o =>
      match o with
      | ORemove mb' id => mb' = mb /\ find_msg id (fmsgs mb s) <> None /\ del_msg id (fmsgs mb s) = []
      | OPurge mb' => mb' = mb
      | _ => False
      end
  | FRemoveAll mb => aget mb (f_idx s) = None
  | _ => True
  end.

Record finv2 (s : fsys) : Prop := {
  iB : forall t p mb, nth_error (f_thr s) t = Some p -> hold_mb p = Some mb ->
         aget (k1_of (f_geo s) mb) (f_locks s) = Some t;
  iD : forall mb, aget mb (f_idx s) <> None -> has_dir mb s = true;
  iF : forall t q, nth_error (f_thr s) t = Some q -> pcfact s q
}.

Lemma pcfact_frame s s' q :
  (forall mb, hold_mb q = Some mb -> aget mb (f_idx s') = aget mb (f_idx s) /\ has_dir mb s' = has_dir mb s) ->
  pcfact s q -> pcfact s' q.
Proof.
  intros Hfr. destruct q; cbn [pcfact]; auto.
  all: destruct (Hfr mb eq_refl) as [Hi Hd]; unfold fmsgs; rewrite ?Hi, ?Hd; auto.
Qed.

(** What a step changes in the index map and the directory set: nothing, or only entries of the
    mailbox whose bucket lock the stepping thread holds after or before the step. *)
Lemma fstep_data s t c s' p : nth_error (f_thr s) t = Some p -> fstep s t c = SOk s' ->
  (f_idx s' = f_idx s /\ f_mbd s' = f_mbd s) \/
  exists mb, hold_mb p = Some mb /\
    forall mb', mb' <> mb -> aget mb' (f_idx s') = aget mb' (f_idx s) /\ has_dir mb' s' = has_dir mb' s.
Proof.
  intros Hn H. unfold fstep in H. rewrite Hn in H.
  destruct p; try discriminate.
  all: fsplit H.
  all: injection H as <-.
  all: try (left; split; reflexivity).
  all: try match goal with
       | |- context [visit_next1 ?t ?c ?r ?acc ?s0] => left; unfold visit_next1; destruct (pick c r) as [[? ?]|]; split; reflexivity
       end.
  all: try match goal with
       | |- context [visit_next2 ?t ?c ?r2 ?r ?acc ?s0] => left; unfold visit_next2, visit_next1; destruct (pick c r2) as [[? ?]|]; [split; reflexivity|]; destruct (pick c r) as [[? ?]|]; split; reflexivity
       end.
  all: try match goal with
       | |- context [visit_next3 ?t ?c ?r3 ?r2 ?r ?acc ?s0] => left; unfold visit_next3, visit_next2, visit_next1;
           destruct (pick c r3) as [[? ?]|]; [split; reflexivity|]; destruct (pick c r2) as [[? ?]|]; [split; reflexivity|]; destruct (pick c r) as [[? ?]|]; split; reflexivity
       end.
  all: right; exists mb; split; [reflexivity|]; intros mb' Hne; unfold has_dir; cbn.
  all: rewrite ?aget_aset_other, ?aget_adel_other, ?memN_addN, ?memN_delN by assumption.
  all: try (split; reflexivity).
  all: try (split; [reflexivity|]).
  all: try (destruct (mb' =? mb) eqn:E; [apply N.eqb_eq in E; congruence|]; cbn; rewrite ?orb_false_r, ?andb_true_r; reflexivity).
  all: change (existsb (N.eqb mb')) with (memN mb'); rewrite ?memN_addN, ?memN_delN.
  all: destruct (mb' =? mb) eqn:E; [apply N.eqb_eq in E; congruence|]; cbn; rewrite ?orb_false_r, ?andb_true_r; reflexivity.
Qed.

Lemma found_has_index id mb s m : find_msg id (fmsgs mb s) = Some m -> aget mb (f_idx s) <> None.
Proof. unfold fmsgs. destruct (aget mb (f_idx s)); [congruence | discriminate]. Qed.

Lemma nth_visit1 t c r acc s : (t < length (f_thr s))%nat -> exists p', nth_error (f_thr (visit_next1 t c r acc s)) t = Some p' /\ pcfact (visit_next1 t c r acc s) p'.
Proof. intros Hl. unfold visit_next1. destruct (pick c r) as [[? ?]|]; cbn; rewrite nth_set_same by exact Hl; eexists; split; reflexivity || exact I. Qed.
Lemma nth_visit2 t c r2 r acc s : (t < length (f_thr s))%nat -> exists p', nth_error (f_thr (visit_next2 t c r2 r acc s)) t = Some p' /\ pcfact (visit_next2 t c r2 r acc s) p'.
Proof. intros Hl. unfold visit_next2. destruct (pick c r2) as [[? ?]|]; [cbn; rewrite nth_set_same by exact Hl; eexists; split; reflexivity || exact I | now apply nth_visit1]. Qed.
Lemma nth_visit3 t c r3 r2 r acc s : (t < length (f_thr s))%nat -> exists p', nth_error (f_thr (visit_next3 t c r3 r2 r acc s)) t = Some p' /\ pcfact (visit_next3 t c r3 r2 r acc s) p'.
Proof. intros Hl. unfold visit_next3. destruct (pick c r3) as [[? ?]|]; [cbn; rewrite nth_set_same by exact Hl; eexists; split; reflexivity || exact I | now apply nth_visit2]. Qed.

(** The stepping thread's own new facts. *)
Lemma fstep_selffact s t c s' p : finv2 s -> nth_error (f_thr s) t = Some p -> fstep s t c = SOk s' ->
  exists p', nth_error (f_thr s') t = Some p' /\ pcfact s' p'.
Proof.
  intros [HB HD HF] Hn H. pose proof (HF _ _ Hn) as Hp. pose proof (nth_error_lt _ _ _ Hn) as Hlt.
  unfold fstep in H. rewrite Hn in H.
  destruct p; try discriminate.
  all: fsplit H.
  all: injection H as <-.
  all: cbn [pcfact] in Hp.
  all: try (apply nth_visit1; cbn; assumption).
  all: try (apply nth_visit2; cbn; assumption).
  all: try (apply nth_visit3; cbn; assumption).
  all: cbn [f_thr fsetpc faddlog ffinish funlock flock fbump set_idx fwith]; rewrite nth_set_same by exact Hlt.
  all: eexists; split; [reflexivity|]; cbn [pcfact].
  all: try exact I.
  all: unfold has_dir, fmsgs in *; cbn [f_mbd f_idx fsetpc flock fwith].
  all: try assumption.
  all: try (rewrite memN_addN, N.eqb_refl; apply orb_true_r).
  all: try (apply aget_adel_same).
  all: try reflexivity.
  all: repeat split; try congruence.
  all: apply HD; destruct (aget mb (f_idx s)); [congruence | discriminate].
Qed.

(** (D) for the stepping thread's own mailbox. *)
Lemma fstep_selfD s t c s' p : finv2 s -> nth_error (f_thr s) t = Some p -> fstep s t c = SOk s' ->
  forall mb, hold_mb p = Some mb -> aget mb (f_idx s') <> None -> has_dir mb s' = true.
Proof.
  intros [HB HD HF] Hn H. pose proof (HF _ _ Hn) as Hp.
  unfold fstep in H. rewrite Hn in H.
  destruct p; try discriminate.
  all: fsplit H.
  all: injection H as <-.
  all: cbn [pcfact hold_mb] in *.
  all: intros mb0 Hh; try discriminate; injection Hh as <-.
  all: unfold has_dir in *; cbn [f_mbd f_idx fsetpc faddlog ffinish funlock flock fbump set_idx fwith].
  all: intros Hi.
  all: try (apply HD; exact Hi).
  all: try (rewrite memN_addN, N.eqb_refl; apply orb_true_r).
  all: try (destruct Hp; assumption).
  all: try assumption.
  all: try (rewrite aget_adel_same in Hi; congruence).
  all: try congruence.
Qed.

Lemma finv2_step s t c s' : finv2 s -> fstep s t c = SOk s' -> finv2 s'.
Proof.
  intros Hinv H.
  destruct (nth_error (f_thr s) t) as [p|] eqn:Hn; [|unfold fstep in H; rewrite Hn in H; discriminate].
  pose proof (nth_error_lt _ _ _ Hn) as Hlt.
  destruct (fstep_effect _ _ _ _ _ Hn H) as [Hg Heff].
  pose proof (fstep_data _ _ _ _ _ Hn H) as Hdata.
  destruct (fstep_selffact _ _ _ _ _ Hinv Hn H) as (pself & Hpself & Hfself).
  pose proof (fstep_selfD _ _ _ _ _ Hinv Hn H) as HselfD.
  destruct Hinv as [HB HD HF].
  (* threads of s' *)
  assert (Hthr : exists p', f_thr s' = set_nth t p' (f_thr s)).
  { destruct Heff; eauto. }
  destruct Hthr as [p' Hthr].
  (* another holder sits in another mailbox, whenever the stepping thread holds or takes a lock *)
  assert (Hother : forall u q mbu mbt, u <> t -> nth_error (f_thr s) u = Some q -> hold_mb q = Some mbu ->
            (hold_mb p = Some mbt \/ aget (k1_of (f_geo s) mbt) (f_locks s) = None) ->
            k1_of (f_geo s) mbu <> k1_of (f_geo s) mbt).
  { intros u q mbu mbt Hne Hq Hh [Hpt|Hfree] Heq.
    - pose proof (HB _ _ _ Hq Hh) as H1. pose proof (HB _ _ _ Hn Hpt) as H2. rewrite Heq in H1. congruence.
    - pose proof (HB _ _ _ Hq Hh) as H1. rewrite Heq in H1. congruence. }
  constructor.
  - (* B *)
    intros u q mbu Hq Hh. rewrite Hg.
    destruct Heff as [p1 Hl Ht Hhh | mb p1 Hp Hp1 Hfree Hl Ht | mb p1 Hp Hp1 Hl Ht]; rewrite Hl; rewrite Ht in Hq;
      apply nth_set_cases in Hq; destruct Hq as [(<- & -> & _)|(Hne & Hq)].
    + apply (HB _ _ _ Hn). congruence.
    + eauto.
    + rewrite Hp1 in Hh. inversion Hh; subst. apply aget_aset_same.
    + rewrite aget_aset_other; [eauto|]. eapply Hother; eauto.
    + congruence.
    + rewrite aget_adel_other; [eauto|]. eapply Hother; eauto.
  - (* D *)
    intros mb Hi. destruct Hdata as [[Hi' Hd']|(mbt & Hpt & Hfr)].
    + unfold has_dir. rewrite Hd'. rewrite Hi' in Hi. now apply HD.
    + destruct (N.eq_dec mb mbt) as [->|Hne]; [now apply (HselfD _ Hpt)|].
      destruct (Hfr _ Hne) as [Ha Hb]. rewrite Hb. rewrite Ha in Hi. now apply HD.
  - (* F *)
    intros u q Hq. rewrite Hthr in Hq.
    destruct (Nat.eq_dec t u) as [<-|Hne].
    + rewrite <- Hthr in Hq. rewrite Hpself in Hq. inversion Hq; subst. exact Hfself.
    + rewrite nth_set_other in Hq by exact Hne.
      eapply pcfact_frame; [|apply (HF _ _ Hq)].
      intros mbu Hh. destruct Hdata as [[Hi' Hd']|(mbt & Hpt & Hfr)].
      * unfold has_dir. now rewrite Hi', Hd'.
      * apply Hfr. intros ->. eapply (Hother u q mbt mbt); eauto.
Qed.

Lemma init_finv2 g ops : finv2 (finit g ops).
Proof.
  constructor.
  - intros t p mb H Hh. cbn in H. rewrite nth_error_map in H. destruct (nth_error ops t); inversion H; subst. discriminate.
  - intros mb H. cbn in H. congruence.
  - intros t q H. cbn in H. rewrite nth_error_map in H. destruct (nth_error ops t); inversion H; subst. exact I.
Qed.

Lemma freach_finv2 g ops s : freach (finit g ops) s -> finv2 s.
Proof. intros R. induction R; [apply init_finv2 | eapply finv2_step; eauto]. Qed.

(* ------------------------------------------------------------ no operation fails *)

Lemma no_fail_step s t c s' u : finv2 s -> fstep s t c = SOk s' ->
  nth_error (f_thr s) u <> Some (FDone RFail) -> nth_error (f_thr s') u <> Some (FDone RFail).
Proof.
  intros Hinv H Hu Hu'.
  destruct (nth_error (f_thr s) t) as [p|] eqn:Hn; [|unfold fstep in H; rewrite Hn in H; discriminate].
  pose proof (iF _ Hinv _ _ Hn) as Hp.
  pose proof (nth_error_lt _ _ _ Hn) as Hlt.
  unfold fstep in H. rewrite Hn in H.
  destruct p; try discriminate.
  all: fsplit H.
  all: injection H as <-.
  all: cbn [pcfact] in Hp.
  all: try (destruct Hp; congruence).
  all: try congruence.
  all: unfold visit_next3, visit_next2, visit_next1 in Hu'.
  all: repeat match type of Hu' with context [pick ?c ?l] => destruct (pick c l) as [[? ?]|] end.
  all: cbn [f_thr fsetpc faddlog ffinish funlock flock fbump set_idx fwith] in Hu'.
  all: apply nth_set_cases in Hu'; destruct Hu' as [(<- & Hq & _)|(Hne & Hq)]; try congruence.
  all: injection Hq as Hq; unfold box_get, box_latest, box_list in Hq;
       repeat match type of Hq with context [match ?x with _ => _ end] => destruct x end; discriminate.
Qed.

Theorem file_no_fail_holds : forall g ops sched s t,
  frun (finit g ops) sched = FFin s -> nth_error (f_thr s) t <> Some (FDone RFail).
Proof.
  intros g ops sched s t Hr.
  pose proof (frun_from_reach (finit g ops) sched 0 _ (freach_refl _)) as R. unfold frun in Hr. rewrite Hr in R.
  clear Hr. induction R.
  - cbn. rewrite nth_error_map. destruct (nth_error ops t); discriminate.
  - eapply no_fail_step; eauto. apply (freach_finv2 g ops). exact R.
Qed.

(* ------------------------------------------------------------ linearizability *)

Definition flop (e : flogent) : op := snd (fst e).
Definition flres (e : flogent) : res := snd e.

Lemma fseq_run_snoc S l o :
  fseq_run S (l ++ [o]) =
  (fst (fseq_exec (fst (fseq_run S l)) o), snd (fseq_run S l) ++ [snd (fseq_exec (fst (fseq_run S l)) o)]).
Proof.
  revert S; induction l as [|a l IH]; intros S; cbn [app fseq_run].
  - cbn [fst snd app]. destruct (fseq_exec S o); reflexivity.
  - destruct (fseq_exec S a) as [S1 r]. rewrite IH.
    destruct (fseq_run S1 l) as [S2 rs]. cbn [fst snd app].
    destruct (fseq_exec S2 o); reflexivity.
Qed.

(** The specification state is the index map and the id generator. *)
Definition fsim (s : fsys) : Prop :=
  let sp := fseq_run ([], 0) (map flop (f_log s)) in
  snd sp = map flres (f_log s) /\
  snd (fst sp) = f_next s /\
  forall mb, smsgs mb (fst sp) = fmsgs mb s.

Lemma smsgs_aset_same mb l S n : smsgs mb (aset mb l S, n) = l.
Proof. unfold smsgs; cbn [fst]. now rewrite aget_aset_same. Qed.
Lemma smsgs_aset_other mb mb' l S n : mb' <> mb -> smsgs mb' (aset mb l S, n) = smsgs mb' (S, n).
Proof. intros H. unfold smsgs; cbn [fst]. now rewrite aget_aset_other. Qed.
Lemma fmsgs_set_same mb l s : fmsgs mb (set_idx mb l s) = l.
Proof. unfold fmsgs, set_idx; cbn. now rewrite aget_aset_same. Qed.
Lemma fmsgs_set_other mb mb' l s : mb' <> mb -> fmsgs mb' (set_idx mb l s) = fmsgs mb' s.
Proof. intros H. unfold fmsgs, set_idx; cbn. now rewrite aget_aset_other. Qed.

Lemma mark_seen_already id l m : find_msg id l = Some m -> m_seen m = true -> mark_seen id l = l.
Proof.
  induction l as [|x l IH]; cbn; [discriminate|].
  destruct (m_id x =? id) eqn:E.
  - intros H Hs; inversion H; subst. destruct m; cbn in *; subst; reflexivity.
  - intros H Hs. now rewrite IH.
Qed.

Lemma fmsgs_adel_same mb s l1 l2 md : fmsgs mb (fwith s l1 l2 md (adel mb (f_idx s))) = [].
Proof. unfold fmsgs; cbn. now rewrite aget_adel_same. Qed.
Lemma fmsgs_adel_other mb mb' s l1 l2 md : mb' <> mb -> fmsgs mb' (fwith s l1 l2 md (adel mb (f_idx s))) = fmsgs mb' s.
Proof. intros H. unfold fmsgs; cbn. now rewrite aget_adel_other. Qed.

Lemma fmsgs_faddlog m e s : fmsgs m (faddlog e s) = fmsgs m s. Proof. reflexivity. Qed.
Lemma fmsgs_fsetpc m t p s : fmsgs m (fsetpc t p s) = fmsgs m s. Proof. reflexivity. Qed.
Lemma fmsgs_ffinish m t mb r s : fmsgs m (ffinish t mb r s) = fmsgs m s. Proof. reflexivity. Qed.
Lemma fmsgs_fbump m s : fmsgs m (fbump s) = fmsgs m s. Proof. reflexivity. Qed.

Lemma fsim_step s t c s' : finv2 s -> fsim s -> fstep s t c = SOk s' -> fsim s'.
Proof.
  intros Hinv (S1 & Sn & S2) H.
  destruct (nth_error (f_thr s) t) as [p|] eqn:Hn; [|unfold fstep in H; rewrite Hn in H; discriminate].
  pose proof (iF _ Hinv _ _ Hn) as Hp.
  unfold fstep in H. rewrite Hn in H.
  destruct p; try discriminate.
  all: fsplit H.
  all: injection H as <-.
  all: cbn [pcfact] in Hp.
  all: try (destruct Hp; congruence).
  all: try congruence.
  all: unfold visit_next3, visit_next2, visit_next1.
  all: repeat match goal with |- context [pick ?c ?l] => destruct (pick c l) as [[? ?]|] end.
  all: unfold fsim; cbn [f_log f_next fsetpc faddlog ffinish funlock flock fbump set_idx fwith].
  all: try (split; [exact S1 | split; [exact Sn | exact S2]]).
  all: rewrite ?map_app; cbn [map flop flres fst snd]; rewrite ?fseq_run_snoc; cbn [fst snd]; rewrite ?S1.
  all: set (S := fst (fseq_run ([], 0) (map flop (f_log s)))) in *.
  all: try (destruct o; try contradiction; [destruct Hp as (-> & Hp1 & Hp2) | subst]).
  all: unfold fseq_exec, fbox; rewrite ?(S2 mb).
  all: repeat match goal with
       | Hq : find_msg ?i ?l = _ |- context [find_msg ?i ?l] => rewrite Hq
       | Hq : _ /\ _ |- _ => destruct Hq
       end.
  all: try match goal with
       | Hq : find_msg ?i ?l <> None |- context [find_msg ?i ?l] => destruct (find_msg i l) eqn:?; [|congruence]
       end.
  all: cbn [fst snd]; rewrite ?Sn.
  all: (split; [reflexivity|]); (split; [reflexivity|]).
  all: intros mbx.
  all: rewrite ?fmsgs_faddlog, ?fmsgs_fsetpc, ?fmsgs_ffinish, ?fmsgs_fbump.
  all: try (apply S2).
  all: destruct (N.eq_dec mbx mb) as [->|Hne];
       [ rewrite ?smsgs_aset_same, ?fmsgs_set_same, ?fmsgs_adel_same
       | rewrite ?smsgs_aset_other, ?fmsgs_set_other, ?fmsgs_adel_other by assumption ].
  all: try reflexivity.
  all: try (rewrite <- S2; destruct S; reflexivity).
  all: try (erewrite mark_seen_already by eassumption; reflexivity).
  all: try congruence.
Qed.

Lemma init_fsim g ops : fsim (finit g ops).
Proof. split; [reflexivity | split; [reflexivity | intros mb; reflexivity]]. Qed.

(** Linearizability of the file store: the commit steps in the order they happened are a run of the
    sequential specification with exactly the committed results (ids included), and its final
    state is the final content of every mailbox. *)
Theorem file_linearizable_holds : forall g ops sched,
  match frun (finit g ops) sched with
  | FFin s | FBlockedAt _ s =>
      let sp := fseq_run ([], 0) (map flop (f_log s)) in
      snd sp = map flres (f_log s) /\ forall mb, smsgs mb (fst sp) = fmsgs mb s
  end.
Proof.
  intros g ops sched.
  pose proof (frun_from_reach (finit g ops) sched 0 _ (freach_refl _)) as R. unfold frun.
  assert (G : forall s, freach (finit g ops) s -> fsim s).
  { intros s R'. induction R'; [apply init_fsim | eapply fsim_step; eauto; now apply (freach_finv2 g ops)]. }
  destruct (frun_from 0 _ sched); destruct (G _ R) as (S1 & _ & S2); split; assumption.
Qed.

Lemma fcommit_is_own_step s t c s' : fstep s t c = SOk s' ->
  f_log s' = f_log s \/ exists o r, f_log s' = f_log s ++ [(t, o, r)].
Proof.
  intros H. unfold fstep in H.
  destruct (nth_error (f_thr s) t) as [p|] eqn:Hn; [|discriminate].
  destruct p; try discriminate.
  all: fsplit H.
  all: injection H as <-.
  all: unfold visit_next3, visit_next2, visit_next1.
  all: repeat match goal with |- context [pick ?c ?l] => destruct (pick c l) as [[? ?]|] end.
  all: cbn [f_log fsetpc faddlog ffinish funlock flock fbump set_idx fwith]; eauto.
Qed.

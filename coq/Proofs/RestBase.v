(** C14: the configured base path (stringutil.MakePathPrefixer + the PathPrefix subrouters):
    serving under a base path is serving the same API with the prefix stripped, nothing
    outside the prefix reaches a handler; missing ⇒ 404 at the HTTP level. *)
From Coq Require Import ZifyN ZifyNat ZifyBool.
From IV Require Import Base.Bytes Base.BytesFacts Model.StoreSpec Model.Rest Proofs.Rest Proofs.RestRoute Proofs.RestClient.
Open Scope N_scope.

Lemma route_base_prefix base m rest : route base m (base ++ rest) = route [] m rest.
Proof. unfold route. rewrite strip_prefix_app. reflexivity. Qed.

Lemma route_outside_base base m segs : strip_prefix base segs = None -> is_handler (route base m segs) = false.
Proof. intros H. unfold route. rewrite H. destruct base; [discriminate|]. destruct segs as [|[|c s0] [|x r]]; reflexivity. Qed.

(* -- the prefixer *)

Lemma split_on_cons_slash s : split_on slash (slash :: s) = [] :: split_on slash s.
Proof. cbn [split_on]. destruct (split_on slash s) eqn:E; [exfalso; eapply split_on_nonnil; eauto|]. rewrite N.eqb_refl. reflexivity. Qed.

Lemma base_of_config_lead s : base_of_config (slash :: s) = base_of_config s.
Proof. unfold base_of_config. rewrite split_on_cons_slash. reflexivity. Qed.

Lemma split_on_snoc_slash s : split_on slash (s ++ [slash]) = split_on slash s ++ [[]].
Proof.
  induction s as [|c s IH].
  - reflexivity.
  - cbn [app split_on]. rewrite IH. destruct (split_on slash s) as [|w ws] eqn:E; [exfalso; eapply split_on_nonnil; eauto|].
    cbn [app]. destruct (c =? slash); reflexivity.
Qed.

Lemma base_of_config_trail s : base_of_config (s ++ [slash]) = base_of_config s.
Proof. unfold base_of_config. rewrite split_on_snoc_slash, filter_app. cbn [filter seg_ok is_empty negb]. apply app_nil_r. Qed.

(** The prefixer is the identity on what it produces: prefix("") = "/" ++ trimmed base. *)
Lemma base_of_config_join L :
  Forall nosl L -> Forall (fun s => seg_ok s = true) L -> base_of_config (join_slash L) = L.
Proof.
  intros F P.
  assert (FL : filter seg_ok L = L).
  { clear F. induction P as [|s l Ps Pl IH]; [reflexivity|]. cbn [filter]. rewrite Ps, IH. reflexivity. }
  destruct L as [|a r]; [reflexivity|]. unfold base_of_config.
  rewrite split_join_rooted by (assumption || discriminate).
  change (filter seg_ok ([] :: a :: r)) with (filter seg_ok (a :: r)). exact FL.
Qed.

Lemma base_of_config_ok s : Forall nosl (base_of_config s) /\ Forall (fun x => seg_ok x = true) (base_of_config s).
Proof.
  unfold base_of_config. split.
  - apply Forall_forall. intros x Hx. apply filter_In in Hx as [Hx _].
    pose proof (split_on_free s) as F. rewrite Forall_forall in F. apply F. exact Hx.
  - apply Forall_forall. intros x Hx. apply filter_In in Hx as [_ Hx]. exact Hx.
Qed.

Lemma base_of_config_idem s : base_of_config (join_slash (base_of_config s)) = base_of_config s.
Proof. destruct (base_of_config_ok s). apply base_of_config_join; assumption. Qed.

Section Srv.
Variable mfa : str -> option str.
Variable cfg : scfg.
Variable srcok : str -> nat -> bool.

(** Serving under a base path = serving the same request with the prefix stripped, with no
    base path configured. *)
Lemma serve_base_shift base st m body segs segs' :
  Forall good_seg base -> segs' <> [] -> Forall2 dec_as segs segs' -> Forall nosl segs' ->
  Forall (fun s => plain_seg s = true) segs' ->
  serve mfa cfg srcok base st {| rq_meth := m; rq_path := join_slash (base ++ segs); rq_body := body |}
  = serve mfa cfg srcok [] st {| rq_meth := m; rq_path := join_slash segs; rq_body := body |}.
Proof.
  intros GB NE D F P.
  rewrite (serve_routes mfa cfg srcok base st m body (base ++ segs) (base ++ segs')).
  - rewrite (serve_routes mfa cfg srcok [] st m body segs segs' NE D F P). rewrite route_base_prefix. reflexivity.
  - destruct base; [exact NE|discriminate].
  - apply Forall2_app; [|exact D]. apply Forall2_same. eapply Forall_impl; [|exact GB]. apply good_seg_dec.
  - apply Forall_app. split; [|exact F]. eapply Forall_impl; [|exact GB]. intros s [I _]. apply inert_nosl. exact I.
  - apply Forall_app. split; [|exact P]. eapply Forall_impl; [|exact GB]. intros s [_ Q]. exact Q.
Qed.

(** A request outside the base path never reaches a handler. *)
Lemma serve_outside_base base st m body segs segs' :
  segs' <> [] -> Forall2 dec_as segs segs' -> Forall nosl segs' -> Forall (fun s => plain_seg s = true) segs' ->
  strip_prefix base segs' = None ->
  fst (serve mfa cfg srcok base st {| rq_meth := m; rq_path := join_slash segs; rq_body := body |}) = st.
Proof.
  intros NE D F P N. rewrite (serve_routes mfa cfg srcok base st m body segs segs' NE D F P).
  pose proof (route_outside_base base m segs' N) as H. destruct (route base m segs'); try reflexivity. discriminate.
Qed.

(** missing ⇒ 404 at the HTTP level: a request whose decoded path routes to a handler that
    names one message the mailbox does not hold (incl. the web-UI attachment endpoint with a
    well-formed attachment number) is answered 404 and changes nothing. *)
Lemma missing_is_404_http base st m body segs segs' h name id num mb :
  segs' <> [] -> Forall2 dec_as segs segs' -> Forall nosl segs' -> Forall (fun s => plain_seg s = true) segs' ->
  route base m segs' = RHandler h name id num ->
  mfa name = Some mb -> spec_get cfg st mb id = NotExist -> addresses_message h body num = true ->
  serve mfa cfg srcok base st {| rq_meth := m; rq_path := join_slash segs; rq_body := body |} = (st, (S404, PNone)).
Proof.
  intros NE D F P R M G A. rewrite (serve_routes mfa cfg srcok base st m body segs segs' NE D F P), R. cbn [dispatch].
  apply missing_is_404_handler with (mb := mb); assumption.
Qed.

(** Instance: GET base/serve/mailbox/name/id/attach/num/file of a missing id. *)
Lemma route_attach base name id num file :
  name <> [] -> id <> [] -> num <> [] -> file <> [] ->
  route base GET (base ++ [s_serve; s_mailbox; name; id; s_attach; num; file]) = RHandler UAtt name id num.
Proof.
  intros. rewrite route_base_prefix. destruct name, id, num, file; try congruence. reflexivity.
Qed.

End Srv.

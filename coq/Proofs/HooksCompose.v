(** C17, composed (audit: no theorem connected [broker_emit], [smtp_answer] and [step]; [first_answer_wins] was a
    polymorphic list lemma not connected to [hook_ans] and its None / Some Defer distinction).  Listeners registered on
    a broker, the Lua host among them; the session's reply to MAIL / RCPT as a function of what the listeners return. *)
From IV Require Import Base.Bytes Base.BytesFacts Model.Policy Model.Smtp Model.Hooks Proofs.SmtpInv Proofs.HooksThms.
From Coq Require Import ZifyBool ZifyNat Lia.

Definition size_fine (c : scfg) (sz : size_param) : Prop :=
  sz <> SzBad /\ match sz with SzVal n => (n <= max_bytes c /\ n <= int32_max)%Z | _ => True end.

(** The first listener that answers decides; a deny is the session's reply, code for code, whatever later listeners
    (or the domain policy) would have said. *)
Theorem first_deny_decides_mail : forall (E : Type) c s sz og (ls1 ls2 : list (E -> option hook_ans)) l e code text,
  st s = READY -> size_fine c sz ->
  (forall l', In l' ls1 -> l' e = None) -> l e = Some (Deny code text) ->
  step c s (L (Mail (MParsed sz (Some og)) (session_answer (broker_emit (ls1 ++ l :: ls2) e)))) = Ok s (one code) [].
Proof.
  intros E c s sz og ls1 ls2 l e code text Hs [H1 H2] Hn Hl.
  rewrite (first_answer_wins _ _ ls1 ls2 l e _ Hn Hl). cbn [session_answer].
  apply deny_literal_mail; assumption.
Qed.

Theorem first_deny_decides_rcpt : forall (E : Type) c s r (ls1 ls2 : list (E -> option hook_ans)) l e code text,
  st s = MAIL ->
  (forall l', In l' ls1 -> l' e = None) -> l e = Some (Deny code text) ->
  step c s (L (Rcpt (RParsed (Some r)) (session_answer (broker_emit (ls1 ++ l :: ls2) e)))) = Ok s (one code) [].
Proof.
  intros E c s r ls1 ls2 l e code text Hs Hn Hl.
  rewrite (first_answer_wins _ _ ls1 ls2 l e _ Hn Hl). cbn [session_answer].
  apply deny_literal_rcpt; assumption.
Qed.

Theorem first_allow_decides_rcpt : forall (E : Type) c s r (ls1 ls2 : list (E -> option hook_ans)) l e,
  st s = MAIL -> (Z.of_nat (length (rcpts s)) < max_rcpt c)%Z ->
  (forall l', In l' ls1 -> l' e = None) -> l e = Some Allow ->
  step c s (L (Rcpt (RParsed (Some r)) (session_answer (broker_emit (ls1 ++ l :: ls2) e)))) =
  Ok {| st := MAIL; from := from s; rcpts := rcpts s ++ [r]; helo := helo s; tls := tls s |} (one 250) [].
Proof.
  intros E c s r ls1 ls2 l e Hs Hb Hn Hl.
  rewrite (first_answer_wins _ _ ls1 ls2 l e _ Hn Hl). cbn [session_answer].
  apply allow_overrides_policy_rcpt; assumption.
Qed.

(** An explicit defer IS an answer: it ends the chain, and the policy decides - a deny registered after it is never
    asked (the None / Some Defer distinction). *)
Theorem explicit_defer_ends_the_chain : forall (E : Type) c s p q (ls1 ls2 : list (E -> option hook_ans)) l e,
  (forall l', In l' ls1 -> l' e = None) -> l e = Some Defer ->
  step c s (L (Mail p (session_answer (broker_emit (ls1 ++ l :: ls2) e)))) = step c s (L (Mail p NoAns)) /\
  step c s (L (Rcpt q (session_answer (broker_emit (ls1 ++ l :: ls2) e)))) = step c s (L (Rcpt q NoAns)).
Proof.
  intros E c s p q ls1 ls2 l e Hn Hl.
  rewrite (first_answer_wins _ _ ls1 ls2 l e _ Hn Hl). cbn [session_answer].
  destruct (defer_is_policy c s p) as [H1 H2]. split; [exact H1|apply H2].
Qed.

(** No listener answers: the session is the policy-only session. *)
Theorem all_silent_is_policy : forall (E : Type) (ls : list (E -> option hook_ans)) e,
  (forall l, In l ls -> l e = None) -> session_answer (broker_emit ls e) = NoAns.
Proof.
  intros E ls e. induction ls as [|l ls IH]; intros H; [reflexivity|].
  cbn [broker_emit]. rewrite (H l (or_introl eq_refl)). apply IH. intros l' Hl. apply H. right. exact Hl.
Qed.

(** The Lua host is a silent listener whenever the handler raised or returned anything but an SMTP response -
    so by [silent_listener_is_absent] the chain behaves as if the script were not installed. *)
Theorem broken_lua_handler_is_silent : forall (E : Type) (call : E -> lua_call) e,
  (call e = Raised \/ exists v, call e = Returned v /\ forall a, v <> LResponse a) ->
  lua_listener call e = None.
Proof.
  intros E call e [H|[v [H Hv]]]; unfold lua_listener, answer_listener; rewrite H; [reflexivity|].
  destruct v; try reflexivity. exfalso. exact (Hv a eq_refl).
Qed.

Theorem broken_lua_handler_is_absent : forall (E : Type) (call : E -> lua_call) (ls1 ls2 : list (E -> option hook_ans)) e,
  (call e = Raised \/ exists v, call e = Returned v /\ forall a, v <> LResponse a) ->
  broker_emit (ls1 ++ lua_listener call :: ls2) e = broker_emit (ls1 ++ ls2) e.
Proof. intros. apply silent_listener_is_absent, broken_lua_handler_is_silent. assumption. Qed.

(** A working handler's response is the listener's answer - except smtp's "no answer" itself. *)
Theorem lua_response_is_the_answer : forall (E : Type) (call : E -> lua_call) e a,
  call e = Returned (LResponse a) -> a <> NoAns -> lua_listener call e = Some a.
Proof.
  intros E call e a H Ha. unfold lua_listener, answer_listener. rewrite H. cbn [smtp_answer].
  destruct a; try reflexivity. congruence.
Qed.

(** The stored message: the first listener on before.message_stored that returns a message decides what is delivered. *)
Theorem first_replacement_decides : forall (E : Type) c o rs hl body h (ls1 ls2 : list (E -> option overrides)) l e ov,
  (forall l', In l' ls1 -> l' e = None) -> l e = Some ov ->
  deliveries_for c o rs hl body h (broker_emit (ls1 ++ l :: ls2) e) = deliveries_for c o rs hl body h (Some ov).
Proof. intros. rewrite (first_answer_wins _ _ ls1 ls2 l e ov); auto. Qed.

(** Non-vacuity: a Lua host that raised, then a Go listener that denies with 554, then one that would allow. *)
Example chain_instance :
  let ls := [lua_listener (fun _ : str => Raised); table_listener [([97], Deny 554 [110;111])]; table_listener [([97], Allow)]] in
  session_answer (broker_emit ls [97]) = Deny 554 [110;111] /\ session_answer (broker_emit ls [98]) = NoAns.
Proof. split; reflexivity. Qed.

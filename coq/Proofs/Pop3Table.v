(** The POP3 command table of the model against the tables generated from the Go source
    (Gen/Pop3Consts.v: `commands`, the case labels of the two handlers' `switch cmd`, the
    words startSession answers in any state). Finite facts, decided by computation; a
    changed table or case label makes this file fail to re-check. *)
From IV Require Import Base.Bytes Base.BytesFacts Model.Pop3Wire Model.Pop3 Gen.Pop3Consts.
Open Scope N_scope.

Definition known_name (n : str) : bool := existsb (fun p => str_eqb (fst p) n) name_table.

Definition table_ok : bool :=
  (* every command the model knows is in the source's table, in exactly the states the model gives it *)
  forallb (fun p => mem_str (fst p) pop3_commands &&
                    Bool.eqb (mem_str (fst p) pop3_auth_cases) (in_auth_switch (snd p)) &&
                    Bool.eqb (mem_str (fst p) pop3_trans_cases) (in_trans_switch (snd p)) &&
                    negb (mem_str (fst p) pop3_anystate)) name_table &&
  (* every case label and every table entry is a command the model knows (or the any-state one) *)
  forallb known_name (pop3_auth_cases ++ pop3_trans_cases) &&
  forallb (fun n => known_name n || mem_str n pop3_anystate) pop3_commands &&
  (* the only command answered in any state is CAPA *)
  match pop3_anystate with [w] => str_eqb w w_CAPA | _ => false end.

Lemma table_ok_true : table_ok = true.
Proof. vm_compute. reflexivity. Qed.

(** A command outside a handler's switch is answered "-ERR out of sequence" and changes nothing. *)
Lemma auth_default st s c args : in_auth_switch c = false -> auth_handler st s c args = (s, r_minus).
Proof. destruct c; try discriminate; reflexivity. Qed.

Lemma trans_default fl st s c args : in_trans_switch c = false -> trans_handler fl st s c args = (s, r_minus, st).
Proof. destruct c; try discriminate; reflexivity. Qed.

Theorem command_table_pinned :
  table_ok = true /\
  (forall st s c args, in_auth_switch c = false -> auth_handler st s c args = (s, r_minus)) /\
  (forall fl st s c args, in_trans_switch c = false -> trans_handler fl st s c args = (s, r_minus, st)).
Proof. split; [exact table_ok_true|]. split; [exact auth_default|exact trans_default]. Qed.

(** * Reply sites and the STLS conditions, pinned

    The first word of what every [send(...)] of the session code writes (Gen/Pop3Consts.v,
    in source order per function) is "+OK", "-ERR", the terminator ".", a listing row ("%v ..."),
    a message line (an expression) or a capability word - nothing else; and the number of +OK and
    -ERR sites per function is the one the model was transcribed from.  The three conditions that
    govern STLS are the source text [capa_lists_stls] / [stls_available] of Model/Pop3Tls.v
    transcribe.  A changed reply site or condition makes this file fail to re-check. *)
Definition w_plus : str := [43; 79; 75].
Definition w_minus : str := [45; 69; 82; 82].
Definition allowed_head (h : str) : bool :=
  mem_str h [w_plus; w_minus; [46]; [37; 118]; [60; 101; 120; 112; 114; 62];
             [84; 79; 80]; [85; 83; 69; 82]; [85; 73; 68; 76];
             [73; 77; 80; 76; 69; 77; 69; 78; 84; 65; 84; 73; 79; 78]; [83; 84; 76; 83]].
Definition count_head (h : str) (l : list str) : nat := length (filter (str_eqb h) l).
Definition site_counts (l : list str) : nat * nat * nat := (count_head w_plus l, count_head w_minus l, length l).

Definition reply_sites_ok : bool :=
  forallb allowed_head (pop3_loop_sends ++ pop3_auth_sends ++ pop3_trans_sends ++ pop3_retr_sends ++ pop3_top_sends ++ pop3_ooseq_sends).

Theorem reply_sites_pinned :
  reply_sites_ok = true /\
  site_counts pop3_loop_sends = (2, 4, 12)%nat /\
  site_counts pop3_auth_sends = (5, 4, 9)%nat /\
  site_counts pop3_trans_sends = (11, 26, 41)%nat /\
  site_counts pop3_retr_sends = (0, 2, 5)%nat /\
  site_counts pop3_top_sends = (0, 2, 5)%nat /\
  site_counts pop3_ooseq_sends = (0, 1, 1)%nat.
Proof. vm_compute. repeat split; reflexivity. Qed.

(** [s.tlsConfig != nil && s.tlsState == nil && !s.config.ForceTLS] *)
Definition capa_stls_cond_src : str := [115; 46; 116; 108; 115; 67; 111; 110; 102; 105; 103; 32; 33; 61; 32; 110; 105; 108; 32; 38; 38; 32; 115; 46; 116; 108; 115; 83; 116; 97; 116; 101; 32; 61; 61; 32; 110; 105; 108; 32; 38; 38; 32; 33; 115; 46; 99; 111; 110; 102; 105; 103; 46; 70; 111; 114; 99; 101; 84; 76; 83].
(** [!s.Server.config.TLSEnabled || s.Server.config.ForceTLS] *)
Definition stls_unavailable_cond_src : str := [33; 115; 46; 83; 101; 114; 118; 101; 114; 46; 99; 111; 110; 102; 105; 103; 46; 84; 76; 83; 69; 110; 97; 98; 108; 101; 100; 32; 124; 124; 32; 115; 46; 83; 101; 114; 118; 101; 114; 46; 99; 111; 110; 102; 105; 103; 46; 70; 111; 114; 99; 101; 84; 76; 83].
(** [s.tlsState != nil] *)
Definition stls_already_cond_src : str := [115; 46; 116; 108; 115; 83; 116; 97; 116; 101; 32; 33; 61; 32; 110; 105; 108].

Theorem stls_conditions_pinned :
  pop3_capa_stls_cond = capa_stls_cond_src /\
  pop3_stls_unavailable_cond = stls_unavailable_cond_src /\
  pop3_stls_already_cond = stls_already_cond_src.
Proof. vm_compute. repeat split; reflexivity. Qed.

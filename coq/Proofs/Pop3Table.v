(** The POP3 command table of the model against the tables generated from the Go source
    (Gen/Pop3Consts.v: `commands`, the case labels of the two handlers' `switch cmd`, the
    words startSession answers in any state). Finite facts, decided by computation; a
    changed table or case label makes this file fail to re-check. *)
From IV Require Import Base.Bytes Base.BytesFacts Model.Pop3Wire Model.Pop3 Gen.Pop3Consts.
Open Scope N_scope.

Definition known_name (n : str) : bool := existsb (fun p => str_eqb (fst p) n) name_table.

Definition table_ok : bool :=
  (* every command the model knows is in the source's table, in exactly the states the model gives it *)
  forallb (fun p => mem_str (fst p) pop3_commands &&
                    Bool.eqb (mem_str (fst p) pop3_auth_cases) (in_auth_switch (snd p)) &&
                    Bool.eqb (mem_str (fst p) pop3_trans_cases) (in_trans_switch (snd p)) &&
                    negb (mem_str (fst p) pop3_anystate)) name_table &&
  (* every case label and every table entry is a command the model knows (or the any-state one) *)
  forallb known_name (pop3_auth_cases ++ pop3_trans_cases) &&
  forallb (fun n => known_name n || mem_str n pop3_anystate) pop3_commands &&
  (* the only command answered in any state is CAPA *)
  match pop3_anystate with [w] => str_eqb w w_CAPA | _ => false end.

Lemma table_ok_true : table_ok = true.
Proof. vm_compute. reflexivity. Qed.

(** A command outside a handler's switch is answered "-ERR out of sequence" and changes nothing. *)
Lemma auth_default st s c args : in_auth_switch c = false -> auth_handler st s c args = (s, r_minus).
Proof. destruct c; try discriminate; reflexivity. Qed.

Lemma trans_default fl st s c args : in_trans_switch c = false -> trans_handler fl st s c args = (s, r_minus, st).
Proof. destruct c; try discriminate; reflexivity. Qed.

Theorem command_table_pinned :
  table_ok = true /\
  (forall st s c args, in_auth_switch c = false -> auth_handler st s c args = (s, r_minus)) /\
  (forall fl st s c args, in_trans_switch c = false -> trans_handler fl st s c args = (s, r_minus, st)).
Proof. split; [exact table_ok_true|]. split; [exact auth_default|exact trans_default]. Qed.

(** C14 over C07's store: the accesses the REST / web-UI handlers make through StoreManager —
    GetMetadata, GetMessage (incl. "latest"), SourceReader, MarkSeen, RemoveMessage,
    PurgeMessages — are exactly StoreSpec operations (Lst / Get (Kth | Latest | Bogus) / Seen /
    Remove / Purge), for every mailbox cap and size limit; a request, a client call and a whole
    history are runs of StoreSpec operation lists, and the answers are functions of the
    observations those operations return. Composed with C07's refinement theorems the same
    holds over the memory-store and the file-store model.

    Section variables of the server model that remain, and why:
      mfa    StoreManager.MailboxForAddress = policy.ExtractMailbox: naming is property C04;
             here an arbitrary function (the store is addressed with whatever it returns);
      srcok  whether the content of a stored message can still be opened when the manager gets
             to it: the file store looks messages up under the mailbox lock and opens the
             content file later without one, which the atomic operations of StoreSpec (and of
             both store models) do not describe; arbitrary here, all-true for the client
             theorems. *)
From Coq Require Import ZifyN ZifyNat ZifyBool.
From IV Require Import Base.Bytes Base.BytesFacts Model.StoreSpec Model.StoreSpecImpl Model.MemStore Model.FileStore Model.Rest Proofs.StoreSpecFacts Proofs.MemStoreRefine Proofs.FileStoreRefine Proofs.Rest Proofs.RestRoute Proofs.RestClient Proofs.RestConv.
Open Scope N_scope.

(* ------------------------------------------------------------------ StoreSpec runs *)

Lemma final_spec_app cfg : forall a st b, final_spec cfg st (a ++ b) = final_spec cfg (final_spec cfg st a) b.
Proof.
  induction a as [|o a IH]; intros st b; [reflexivity|]. cbn [app final_spec].
  destruct (exec_spec cfg st o) as [[st' ob] ev]. apply IH.
Qed.

Lemma final_spec_one cfg st o : final_spec cfg st [o] = fst (fst (exec_spec cfg st o)).
Proof. cbn [final_spec]. destruct (exec_spec cfg st o) as [[st' ob] ev]. reflexivity. Qed.

Definition obs_of (cfg : scfg) (st : spec_store) (ops : list op) : list obs := map fst (run_spec cfg st ops).

Lemma obs_of_one cfg st o : obs_of cfg st [o] = [snd (fst (exec_spec cfg st o))].
Proof. unfold obs_of. cbn [run_spec]. destruct (exec_spec cfg st o) as [[st' ob] ev]. reflexivity. Qed.

(* ------------------------------------------------------------------ one handler *)

(** The StoreSpec operations a handler issues once the mailbox name is resolved. *)
Definition handler_ops (h : hid) (mb id num : str) (body : bodyk) : list op :=
  match h with
  | HList => [Lst mb]                                   (* GetMetadata *)
  | HPurge => [Purge mb]                                (* PurgeMessages *)
  | HShow | UMsg | UHtml => [Get mb (handle_of_id id)]  (* GetMessage, "latest" included *)
  | HSrc | USrc => [Get mb (handle_of_id id)]           (* SourceReader *)
  | UAtt => match parse_uint32 num with Some _ => [Get mb (handle_of_id id)] | None => [] end
  | HSeen => match body with BTrue => [Seen mb (lit_handle id)] | _ => [] end      (* MarkSeen *)
  | HDel => [Remove mb (lit_handle id)]                 (* RemoveMessage *)
  end.

Definition hd_obs (l : list obs) : obs := match l with o :: _ => o | [] => OUnit Err end.

(** The answer of a handler as a function of what those operations return. *)
Definition handler_answer (srcok : str -> nat -> bool) (h : hid) (mb id num : str) (body : bodyk) (l : list obs) : resp :=
  let got := mgr_get (with_src srcok mb (ans_of_res (get_res (hd_obs l)))) in
  match h with
  | HList => (S200, PList mb (list_res (hd_obs l)))
  | HPurge => h_purge (err_of_res (unit_res (hd_obs l)))
  | HShow => h_show mb id got
  | HSrc => h_src got
  | UMsg => h_uimsg mb got
  | UHtml => h_uihtml got
  | USrc => h_uisrc got
  | UAtt => match parse_uint32 num with Some n => h_uiatt n got | None => (S500, PNone) end
  | HSeen => match body with
             | BBad => (S500, PNone) | BFalse => (S200, POk)
             | BTrue => h_unit (err_of_res (unit_res (hd_obs l)))
             end
  | HDel => h_unit (err_of_res (unit_res (hd_obs l)))
  end.

(** rest_over_storespec, handler level: state and answer of every handler are the run of its
    StoreSpec operations — for every configuration of cap and size limit. *)
Lemma exec_get_st cfg st mb h : fst (fst (exec_spec cfg st (Get mb h))) = st.
Proof. destruct h; reflexivity. Qed.

Ltac lookup_case :=
  rewrite final_spec_one, obs_of_one; unfold st_get;
  match goal with |- context [exec_spec ?c ?s (Get ?m ?h)] =>
    let E := fresh "E" in pose proof (exec_get_st c s m h) as E;
    destruct (exec_spec c s (Get m h)) as [[st' ob] ev]; cbn [fst snd hd_obs] in *; subst st'; reflexivity
  end.

Theorem rest_over_storespec mfa cfg srcok st h name id num body mb :
  mfa name = Some mb ->
  run_handler mfa cfg srcok st h name id num body =
  (final_spec cfg st (handler_ops h mb id num body),
   handler_answer srcok h mb id num body (obs_of cfg st (handler_ops h mb id num body))).
Proof.
  intros M. unfold run_handler. rewrite M.
  destruct h; cbn [handler_ops handler_answer].
  - rewrite final_spec_one, obs_of_one. cbn [exec_spec fst snd hd_obs]. reflexivity.
  - rewrite final_spec_one, obs_of_one. cbn [exec_spec fst snd hd_obs]. reflexivity.
  - lookup_case.
  - destruct body; try reflexivity.
    rewrite final_spec_one, obs_of_one. destruct (exec_spec cfg st (Seen mb (lit_handle id))) as [[st' ob] ev]. reflexivity.
  - rewrite final_spec_one, obs_of_one. destruct (exec_spec cfg st (Remove mb (lit_handle id))) as [[st' ob] ev]. reflexivity.
  - lookup_case.
  - lookup_case.
  - lookup_case.
  - lookup_case.
  - destruct (parse_uint32 num) as [n|]; [lookup_case|reflexivity].
Qed.

(** A request whose name does not parse issues no store operation at all. *)
Theorem unparsable_name_no_access mfa cfg srcok st h name id num body :
  mfa name = None -> run_handler mfa cfg srcok st h name id num body = (st, (S500, PNone)).
Proof. intros M. unfold run_handler. rewrite M. reflexivity. Qed.

(* ------------------------------------------------------------------ one request *)

Definition routed_ops (mfa : str -> option str) (r : routed) (body : bodyk) : list op :=
  match r with
  | RHandler h name id num => match mfa name with Some mb => handler_ops h mb id num body | None => [] end
  | _ => []
  end.

Definition routed_answer (mfa : str -> option str) (srcok : str -> nat -> bool) (r : routed) (body : bodyk) (l : list obs) : resp :=
  match r with
  | RHandler h name id num =>
      match mfa name with Some mb => handler_answer srcok h mb id num body l | None => (S500, PNone) end
  | RNotFound => (S404, PNone)
  | RNotAllowed => (S405, PNone)
  | ROther => (SOther, PNone)
  end.

(** The route a request takes (None: answered before any handler runs). *)
Definition request_route (base : list str) (rq : request) : option routed :=
  match unescape (rq_path rq) with
  | None => None
  | Some p =>
      if negb (str_eqb (clean_path p) p) then None
      else match split_on slash p with
           | [] :: segs => Some (route base (rq_meth rq) segs)
           | _ => None
           end
  end.

Definition request_ops (mfa : str -> option str) (base : list str) (rq : request) : list op :=
  match request_route base rq with Some r => routed_ops mfa r (rq_body rq) | None => [] end.

Lemma dispatch_over_storespec mfa cfg srcok st m body r :
  dispatch mfa cfg srcok st m body r =
  (final_spec cfg st (routed_ops mfa r body), routed_answer mfa srcok r body (obs_of cfg st (routed_ops mfa r body))).
Proof.
  destruct r as [h name id num| | |]; cbn [dispatch routed_ops routed_answer]; try reflexivity.
  destruct (mfa name) as [mb|] eqn:M.
  - apply rest_over_storespec. exact M.
  - apply unparsable_name_no_access. exact M.
Qed.

(** Request level: the store after a request is the run of the operations of the handler it
    is routed to — none at all for redirects, unknown routes, wrong methods, bad paths. *)
Theorem serve_over_storespec mfa cfg srcok base st rq :
  fst (serve mfa cfg srcok base st rq) = final_spec cfg st (request_ops mfa base rq) /\
  (forall r, request_route base rq = Some r ->
     snd (serve mfa cfg srcok base st rq) = routed_answer mfa srcok r (rq_body rq) (obs_of cfg st (request_ops mfa base rq))).
Proof.
  unfold serve, request_ops, request_route.
  destruct (unescape (rq_path rq)) as [p|]; [|split; [reflexivity|discriminate]].
  destruct (negb (str_eqb (clean_path p) p)); [split; [reflexivity|discriminate]|].
  destruct (split_on slash p) as [|[|c s] segs]; try (split; [reflexivity|discriminate]).
  rewrite dispatch_over_storespec. split; [reflexivity|]. intros r H. inversion H; subst. reflexivity.
Qed.

(* ------------------------------------------------------------------ the Go client *)

Definition send_ops mfa cfg srcok base (cbase : str) (st : spec_store) (m : meth) (uri : str) (body : bodyk) : list op :=
  let rq1 := {| rq_meth := m; rq_path := client_wire cbase uri; rq_body := body |} in
  request_ops mfa base rq1 ++
  match snd (serve mfa cfg srcok base st rq1) with
  | (S301, PLoc p) => request_ops mfa base {| rq_meth := GET; rq_path := escape_path p; rq_body := BBad |}
  | _ => []
  end.

Lemma client_send_over_storespec mfa cfg srcok base cbase st m uri body :
  fst (client_send mfa cfg srcok base cbase st m uri body) = final_spec cfg st (send_ops mfa cfg srcok base cbase st m uri body).
Proof.
  unfold client_send, send_ops.
  pose proof (serve_over_storespec mfa cfg srcok base st {| rq_meth := m; rq_path := client_wire cbase uri; rq_body := body |}) as [A _].
  destruct (serve mfa cfg srcok base st _) as [st1 [s p]] eqn:E. cbn [fst snd] in *. subst st1.
  rewrite final_spec_app.
  destruct s; try (rewrite app_nil_r || cbn [final_spec]; reflexivity).
  destruct p; try reflexivity.
  apply serve_over_storespec.
Qed.

(** The operations of one client call; the convenience methods make a second round trip with
    an id taken from the first answer. *)
Definition cop_ops mfa cfg srcok base (cbase : str) (st : spec_store) (c : cop) : list op :=
  let send := send_ops mfa cfg srcok base cbase in
  let first_list name := send st GET (client_uri name []) BBad in
  let first_get name id := send st GET (client_uri name [id]) BBad in
  match c with
  | CList name => first_list name
  | CGet name id => first_get name id
  | CSeen name id => send st PATCH (client_uri name [id]) BTrue
  | CSrc name id => send st GET (client_uri name [id; s_source]) BBad
  | CDel name id => send st DELETE (client_uri name [id]) BBad
  | CPurge name => send st DELETE (client_uri name []) BBad
  | CHGet name i =>
      first_list name ++
      match c_list mfa cfg srcok base cbase st name with
      | (st', COkList mb l) => match nth_view l i with Some v => send st' GET (client_uri mb [id_of_k (fst v)]) BBad | None => [] end
      | _ => []
      end
  | CHSrc name i =>
      first_list name ++
      match c_list mfa cfg srcok base cbase st name with
      | (st', COkList mb l) => match nth_view l i with Some v => send st' GET (client_uri mb [id_of_k (fst v); s_source]) BBad | None => [] end
      | _ => []
      end
  | CHDel name i =>
      first_list name ++
      match c_list mfa cfg srcok base cbase st name with
      | (st', COkList mb l) => match nth_view l i with Some v => send st' DELETE (client_uri mb [id_of_k (fst v)]) BBad | None => [] end
      | _ => []
      end
  | CMSrc name id =>
      first_get name id ++
      match c_get mfa cfg srcok base cbase st name id with
      | (st', COkMsg mb v) => send st' GET (client_uri mb [id_of_k (fst v); s_source]) BBad
      | _ => []
      end
  | CMDel name id =>
      first_get name id ++
      match c_get mfa cfg srcok base cbase st name id with
      | (st', COkMsg mb v) => send st' DELETE (client_uri mb [id_of_k (fst v)]) BBad
      | _ => []
      end
  end.

Lemma c_list_st mfa cfg srcok base cbase st name :
  fst (c_list mfa cfg srcok base cbase st name) = fst (client_send mfa cfg srcok base cbase st GET (client_uri name []) BBad).
Proof. unfold c_list. destruct (client_send _ _ _ _ _ _ _ _ _) as [st' [[] []]]; reflexivity. Qed.

Lemma c_get_st mfa cfg srcok base cbase st name id :
  fst (c_get mfa cfg srcok base cbase st name id) = fst (client_send mfa cfg srcok base cbase st GET (client_uri name [id]) BBad).
Proof. unfold c_get. destruct (client_send _ _ _ _ _ _ _ _ _) as [st' [[] []]]; reflexivity. Qed.

Lemma c_src_st mfa cfg srcok base cbase st name id :
  fst (c_src mfa cfg srcok base cbase st name id) = fst (client_send mfa cfg srcok base cbase st GET (client_uri name [id; s_source]) BBad).
Proof. unfold c_src. destruct (client_send _ _ _ _ _ _ _ _ _) as [st' [[] []]]; reflexivity. Qed.

Lemma c_unit_st mfa cfg srcok base cbase st m uri body :
  fst (c_unit mfa cfg srcok base cbase st m uri body) = fst (client_send mfa cfg srcok base cbase st m uri body).
Proof. unfold c_unit. destruct (client_send _ _ _ _ _ _ _ _ _) as [st' [[] p]]; reflexivity. Qed.

(** Client level: every method of the Go client is a run of StoreSpec operations. *)
Theorem client_over_storespec mfa cfg srcok base cbase st op :
  fst (client_do mfa cfg srcok base cbase st op) = final_spec cfg st (cop_ops mfa cfg srcok base cbase st op).
Proof.
  destruct op; cbn [client_do cop_ops];
    rewrite ?c_list_st, ?c_get_st, ?c_src_st, ?c_unit_st, ?client_send_over_storespec; try reflexivity.
  - (* CHGet *)
    rewrite final_spec_app, <- client_send_over_storespec, <- c_list_st.
    destruct (c_list mfa cfg srcok base cbase st name) as [st' []]; cbn [fst final_spec]; try reflexivity.
    destruct (nth_view l i); cbn [fst final_spec]; [|reflexivity].
    rewrite c_get_st. apply client_send_over_storespec.
  - rewrite final_spec_app, <- client_send_over_storespec, <- c_list_st.
    destruct (c_list mfa cfg srcok base cbase st name) as [st' []]; cbn [fst final_spec]; try reflexivity.
    destruct (nth_view l i); cbn [fst final_spec]; [|reflexivity].
    rewrite c_src_st. apply client_send_over_storespec.
  - rewrite final_spec_app, <- client_send_over_storespec, <- c_list_st.
    destruct (c_list mfa cfg srcok base cbase st name) as [st' []]; cbn [fst final_spec]; try reflexivity.
    destruct (nth_view l i); cbn [fst final_spec]; [|reflexivity].
    rewrite c_unit_st. apply client_send_over_storespec.
  - rewrite final_spec_app, <- client_send_over_storespec, <- c_get_st.
    destruct (c_get mfa cfg srcok base cbase st name id) as [st' []]; cbn [fst final_spec]; try reflexivity.
    rewrite c_src_st. apply client_send_over_storespec.
  - rewrite final_spec_app, <- client_send_over_storespec, <- c_get_st.
    destruct (c_get mfa cfg srcok base cbase st name id) as [st' []]; cbn [fst final_spec]; try reflexivity.
    rewrite c_unit_st. apply client_send_over_storespec.
Qed.

(* ------------------------------------------------------------------ histories *)

Definition hop_ops mfa cfg srcok base (cbase : str) (st : spec_store) (o : hop) : list op :=
  match o with
  | HAdd mb date tag size => [Add mb date tag size]
  | HReq rq => request_ops mfa base rq
  | HCli c => cop_ops mfa cfg srcok base cbase st c
  | HRace rq mb k => request_ops mfa base rq ++ [Remove mb (Kth k)]
  end.

Lemma hstep_over_storespec mfa cfg srcok base cbase st o :
  fst (hstep mfa cfg srcok base cbase st o) = final_spec cfg st (hop_ops mfa cfg srcok base cbase st o).
Proof.
  destruct o as [mb date tag size|rq|c|rq mb k]; cbn [hstep hop_ops].
  - rewrite final_spec_one. destruct (exec_spec cfg st (Add mb date tag size)) as [[st' ob] ev]. reflexivity.
  - pose proof (serve_over_storespec mfa cfg srcok base st rq) as [A _].
    destruct (serve mfa cfg srcok base st rq) as [st' r]. exact A.
  - pose proof (client_over_storespec mfa cfg srcok base cbase st c) as A.
    destruct (client_do mfa cfg srcok base cbase st c) as [st' r]. exact A.
  - pose proof (serve_over_storespec mfa cfg srcok base st rq) as [A _].
    destruct (serve mfa cfg srcok base st rq) as [st' r]. cbn [fst] in *. rewrite final_spec_app, <- A, final_spec_one. reflexivity.
Qed.

(** State and operation log of a history of deliveries, requests, client calls and races. *)
Fixpoint hfinal mfa cfg srcok base (cbase : str) (st : spec_store) (l : list hop) : spec_store :=
  match l with
  | [] => st
  | o :: r => hfinal mfa cfg srcok base cbase (fst (hstep mfa cfg srcok base cbase st o)) r
  end.

Fixpoint hist_ops mfa cfg srcok base (cbase : str) (st : spec_store) (l : list hop) : list op :=
  match l with
  | [] => []
  | o :: r => hop_ops mfa cfg srcok base cbase st o ++
              hist_ops mfa cfg srcok base cbase (fst (hstep mfa cfg srcok base cbase st o)) r
  end.

Theorem history_over_storespec mfa cfg srcok base cbase l : forall st,
  hfinal mfa cfg srcok base cbase st l = final_spec cfg st (hist_ops mfa cfg srcok base cbase st l).
Proof.
  induction l as [|o r IH]; intros st; [reflexivity|]. cbn [hfinal hist_ops].
  rewrite final_spec_app, <- hstep_over_storespec. apply IH.
Qed.

(* ------------------------------------------------------------------ composition with C07 *)

(** A history from the empty store: the server's store is the run of the StoreSpec operations
    its handlers (and the deliveries) issued, and on that very operation list the memory-store
    model and — under C07's environment hypothesis — the file-store model answer exactly what
    StoreSpec answers: every observation a handler turned into an HTTP answer
    ([rest_over_storespec], [serve_over_storespec]) is the answer of either back-end model.
    Hence api_handlers_reflect_store / api_reflects_store / client_op_effect, stated over
    StoreSpec, hold for a server running over either store model. *)
Theorem rest_over_store_models mfa cfg srcok base cbase l :
  let ops := hist_ops mfa cfg srcok base cbase spec_init l in
  hfinal mfa cfg srcok base cbase spec_init l = final_spec cfg spec_init ops /\
  SInv (hfinal mfa cfg srcok base cbase spec_init l) /\
  run_mem cfg ops = run_spec cfg spec_init ops /\
  (forall ticks, c_max cfg = 0 -> file_fresh cfg (file_init ticks, []) ops ->
     run_file cfg ticks ops = run_spec cfg spec_init ops).
Proof.
  cbv zeta. split; [apply history_over_storespec|]. split.
  - rewrite history_over_storespec. apply final_spec_SInv. apply SInv_init.
  - split; [apply mem_refines_spec|]. intros ticks Hm Hf. apply file_refines_spec; assumption.
Qed.

(** The store invariant the convenience-method theorem assumes holds in every state a history
    reaches. *)
Theorem history_store_wf mfa cfg srcok base cbase l : SInv (hfinal mfa cfg srcok base cbase spec_init l).
Proof. apply rest_over_store_models. Qed.

(** Non-vacuity: a delivery under a cap of 1, a listing, a delivery that evicts, a GET of
    "latest" through the web UI, a DELETE. *)
Example rest_ops_ex :
  let cfg := {| c_cap := 1%nat; c_max := 0 |} in
  let mb := [97] in
  let path := fun tail => [47;97;112;105;47;118;49;47;109;97;105;108;98;111;120;47;97] ++ tail in
  let l := [HAdd mb 1%Z 1 10; HReq {| rq_meth := GET; rq_path := path []; rq_body := BBad |};
            HAdd mb 2%Z 2 10;
            HReq {| rq_meth := GET; rq_path := path [47;108;97;116;101;115;116]; rq_body := BBad |};
            HReq {| rq_meth := DELETE; rq_path := path [47;107;49]; rq_body := BBad |}] in
  hist_ops (fun s => Some s) cfg (fun _ _ => true) [] [] spec_init l =
    [Add mb 1%Z 1 10; Lst mb; Add mb 2%Z 2 10; Get mb Latest; Remove mb (Kth 1)] /\
  live (hfinal (fun s => Some s) cfg (fun _ _ => true) [] [] spec_init l) = [].
Proof. vm_compute. split; reflexivity. Qed.

(** So the convenience methods of the client have the effect their names say in every state a
    history reaches — the store invariant is no longer a hypothesis. *)
Theorem client_convenience_over_history mfa cfg srcok base cbase l op mb :
  let st := hfinal mfa cfg srcok base cbase spec_init l in
  (forall m k, srcok m k = true) ->
  conv_op op = true -> good_name (cop_name op) -> op_id_ok op -> Forall good_seg base ->
  mfa (cop_name op) = Some mb -> good_name mb -> mfa mb = Some mb ->
  spec_cop mfa cfg st op = Some (client_do mfa cfg srcok base (join_slash base) st op).
Proof.
  cbv zeta. intros SK B GN GI GB M GM MM.
  apply (client_convenience_effect mfa cfg srcok base _ op mb); try assumption. apply history_store_wf.
Qed.

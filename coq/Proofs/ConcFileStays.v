(** C09 — file store: a delivery that committed with an id is in its mailbox's index afterwards — at the end of
    the schedule or wherever the schedule stopped — unless a removal of that id or a purge of that mailbox
    committed after it.  Sequential fact about [fseq_run], transported to every interleaving and every mailbox
    geometry by [file_linearizable_holds].  The file-store model has no message cap (Model/ConcFile.v), hence
    no "or evicted" clause; with a cap the statement is C08's sequential one. *)
From IV Require Import Model.Conc Model.ConcFile Proofs.ConcBase Proofs.ConcFileInv Proofs.ConcFileLin Proofs.ConcStmts Proofs.ConcMemStays.
From Coq Require Import Lia ZifyN ZifyNat ZifyBool.

Lemma fseq_run_app S l1 l2 :
  fseq_run S (l1 ++ l2) =
  (fst (fseq_run (fst (fseq_run S l1)) l2), snd (fseq_run S l1) ++ snd (fseq_run (fst (fseq_run S l1)) l2)).
Proof.
  revert S; induction l1 as [|a l1 IH]; intros S; cbn [app fseq_run fst snd].
  - destruct (fseq_run S l2); reflexivity.
  - destruct (fseq_exec S a) as [S1 r]. rewrite IH.
    destruct (fseq_run S1 l1) as [S2 rs]. cbn [fst snd app]. reflexivity.
Qed.

Lemma fseq_run_length S l : length (snd (fseq_run S l)) = length l.
Proof.
  revert S; induction l as [|a l IH]; intros S; cbn [fseq_run]; [reflexivity|].
  destruct (fseq_exec S a) as [S1 r]. specialize (IH S1).
  destruct (fseq_run S1 l). cbn [snd length] in *. lia.
Qed.

Definition fhas (id : N) (l : list msg) : Prop := find_msg id l <> None.

Lemma fseq_exec_keeps mb id S o : harmless mb id o -> fhas id (smsgs mb S) -> fhas id (smsgs mb (fst (fseq_exec S o))).
Proof.
  intros Hh Hin. destruct S as [ix n]. unfold fseq_exec.
  destruct o as [mb' tag size|mb' i|mb'|mb'|mb' i|mb' i|mb'|]; cbn [fst snd harmless] in *; try exact Hin.
  - destruct (N.eq_dec mb mb') as [->|Hne]; [rewrite smsgs_aset_same | rewrite smsgs_aset_other by assumption; exact Hin].
    unfold fhas in *. rewrite find_app. destruct (find_msg id (smsgs mb' (ix, n))); congruence.
  - destruct (find_msg i (smsgs mb' (ix, n))) eqn:E; cbn [fst snd]; [|exact Hin].
    destruct (N.eq_dec mb mb') as [->|Hne]; [rewrite smsgs_aset_same | rewrite smsgs_aset_other by assumption; exact Hin].
    unfold fhas in *. now apply find_mark.
  - destruct (find_msg i (smsgs mb' (ix, n))) eqn:E; cbn [fst snd]; [|exact Hin].
    destruct (N.eq_dec mb mb') as [->|Hne]; [rewrite smsgs_aset_same | rewrite smsgs_aset_other by assumption; exact Hin].
    unfold fhas in *. apply find_del; [|exact Hin]. destruct Hh; congruence.
  - rewrite smsgs_aset_other by congruence. exact Hin.
Qed.

Lemma fseq_run_keeps mb id l : forall S, Forall (harmless mb id) l -> fhas id (smsgs mb S) ->
  fhas id (smsgs mb (fst (fseq_run S l))).
Proof.
  induction l as [|o l IH]; intros S Hf Hin; cbn [fseq_run fst]; [exact Hin|].
  inversion Hf; subst.
  pose proof (fseq_exec_keeps mb id S o H1 Hin) as Hk.
  destruct (fseq_exec S o) as [S1 r]. cbn [fst] in Hk.
  specialize (IH S1 H2 Hk). destruct (fseq_run S1 l). exact IH.
Qed.

Lemma fadd_result mb g z S : fhas (snd S + 1) (smsgs mb (fst (fseq_exec S (OAdd mb g z)))) /\
  snd (fseq_exec S (OAdd mb g z)) = RId (snd S + 1).
Proof.
  destruct S as [ix n]. cbn [fseq_exec fst snd]. split; [|reflexivity].
  rewrite smsgs_aset_same. unfold fhas. rewrite find_app.
  destruct (find_msg _ (smsgs mb (ix, n))); [congruence|]. cbn. rewrite N.eqb_refl. congruence.
Qed.

Theorem file_delivered_stays_unless_removed : forall g ops sched pre post t mb tag z id,
  match frun (finit g ops) sched with
  | FFin s | FBlockedAt _ s =>
      f_log s = pre ++ (t, OAdd mb tag z, RId id) :: post ->
      (forall e, In e post -> match flop e with ORemove mb' id' => mb' <> mb \/ id' <> id | OPurge mb' => mb' <> mb | _ => True end) ->
      find_msg id (fmsgs mb s) <> None
  end.
Proof.
  intros g ops sched pre post t mb tag z id.
  pose proof (file_linearizable_holds g ops sched) as L.
  assert (G : forall s,
    (let sp := fseq_run ([], 0) (map flop (f_log s)) in
     snd sp = map flres (f_log s) /\ forall mb, smsgs mb (fst sp) = fmsgs mb s) ->
    f_log s = pre ++ (t, OAdd mb tag z, RId id) :: post ->
    (forall e, In e post -> harmless mb id (flop e)) ->
    find_msg id (fmsgs mb s) <> None).
  { clear L. intros s [S1 S2] Hlog Hpost. rewrite <- S2. clear S2.
    assert (Hm1 : map flop (f_log s) = map flop pre ++ OAdd mb tag z :: map flop post)
      by (rewrite Hlog, map_app; reflexivity).
    assert (Hm2 : map flres (f_log s) = map flres pre ++ RId id :: map flres post)
      by (rewrite Hlog, map_app; reflexivity).
    rewrite Hm1 in *. rewrite Hm2 in S1. clear Hm1 Hm2 Hlog.
    rewrite fseq_run_app in *. cbn [fst snd] in *.
    set (S0 := fst (fseq_run ([], 0) (map flop pre))) in *.
    cbn [fseq_run] in *.
    destruct (fadd_result mb tag z S0) as (Hhas & Hid).
    destruct (fseq_exec S0 (OAdd mb tag z)) as [Sa ra] eqn:Ea. cbn [fst snd] in *.
    assert (Hf : Forall (harmless mb id) (map flop post)).
    { apply Forall_forall. intros o Ho. apply in_map_iff in Ho. destruct Ho as (e & <- & He). exact (Hpost e He). }
    pose proof (fseq_run_keeps mb id (map flop post) Sa Hf) as Hk.
    destruct (fseq_run Sa (map flop post)) as [Sb rb] eqn:Eb. cbn [fst snd] in *.
    apply app_eq_len in S1; [|rewrite fseq_run_length; now rewrite !map_length].
    assert (snd S0 + 1 = id) by (inversion S1; congruence). subst id.
    apply Hk. exact Hhas. }
  destruct (frun (finit g ops) sched); apply G; exact L.
Qed.

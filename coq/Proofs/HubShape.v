(** C15: the model follows the structure found in the source (Gen/HubShape.v, regenerated on every
    run): a changed hub operation, container, select or Close order changes the generated file and
    these theorems stop checking. *)
From IV Require Import Base.Bytes Gen.HubShape Model.Hub Model.HubShape.
Local Open Scope nat_scope.

(** The listeners are held in a map keyed by the listener: registering twice is registering once,
    and deleting while ranging is safe — the model's duplicate-free [regs] with [add_nat] / [rm_nat]. *)
Theorem listeners_are_a_set : listeners_container = CMap.
Proof. reflexivity. Qed.

(** Every hub operation of the model is the interpretation of the program the SOURCE has for it
    (history write guarded by the nil test; ring delete; broadcast over the registered listeners
    with drop-on-error; replay with errors ignored; register; unregister), statement by statement
    in the source's order, started — as the hub goroutine does — with no call outstanding. *)
Theorem exec_op_is_source_program :
  forall o h, work h = [] -> interp listeners_container o (prog_of o) h = Some (exec_op o h).
Proof.
  intros o h W. destruct h as [rg rs lss oq wk sy stp hl]. cbn [work] in W. subst wk.
  destruct o; reflexivity.
Qed.

(** The programs mention nothing the interpreter cannot carry. *)
Theorem source_programs_known :
  forallb (fun p => forallb (fun s => match s with PUnknown => false | _ => true end) p)
          [dispatch_prog; delete_prog; add_prog; remove_prog; sync_prog] = true.
Proof. reflexivity. Qed.

(** The selects and the Close of the source are the ones the model's steps assume. *)
Theorem hub_goroutine_arms : start_arms = model_start_arms.
Proof. reflexivity. Qed.

Theorem enqueue_waits_or_gives_up : enqueue_arms = model_enqueue_arms /\ sync_arms = model_sync_arms.
Proof. split; reflexivity. Qed.

Theorem listener_enqueue_waits_or_fails :
  v1_enqueue_arms = model_listener_arms /\ v2_enqueue_arms = model_listener_arms.
Proof. split; reflexivity. Qed.

Theorem close_is_done_then_remove : v1_close = model_close /\ v2_close = model_close.
Proof. split; reflexivity. Qed.

(** What the arms mean in the model: with exactly [send op | done] and no default arm, a submitting
    call on a full queue of a running hub is blocked ([enq] = None), and gives up only after
    shutdown; with exactly [send queue | done] a call on a full queue of an OPEN listener blocks the
    hub ([deliver] = None) and fails only for a closed one. *)
Theorem arms_semantics :
  forall c o h, length (opq h) >= opcap c ->
    enq c o h = (if stopped h then Some h else None).
Proof.
  intros c o h L. unfold enq. destruct (stopped h); auto.
  assert (length (opq h) <? opcap c = false) as -> by (apply Nat.ltb_ge; exact L). reflexivity.
Qed.

(** Non-vacuity of the interpreter's failure cases: with a slice the same programs are not carried. *)
Example slice_is_not_carried :
  interp CSlice (ODispatch ([97%N], [49%N])) dispatch_prog (hub_init 1) = None /\
  interp CSlice (OAdd 1) add_prog (hub_init 1) = None.
Proof. split; reflexivity. Qed.

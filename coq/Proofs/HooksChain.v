(** C17: the order of the listeners on a broker is the order of registration, and it survives the removal or
    replacement of one of them ("only the first hook that answers counts" is a statement about that order).
    [chain_add] / [chain_remove] are EventBroker.AddListener / RemoveListener (Model/Hooks.v); the correspondence check
    builds its listener chains with the extracted functions (kind luareload: Lua host, two Go listeners, then the script
    is loaded again). *)
From IV Require Import Base.Bytes Base.BytesFacts Model.Policy Model.Smtp Model.Hooks Proofs.HooksThms.

Lemma str_eqb_neq a b : str_eqb a b = false <-> a <> b.
Proof.
  split.
  - intros H E. subst. rewrite str_eqb_refl in H. discriminate.
  - intros H. destruct (str_eqb a b) eqn:E; [apply str_eqb_eq in E; contradiction|reflexivity].
Qed.

Lemma filter_all {A} (f : A -> bool) (l : list A) : (forall x, In x l -> f x = true) -> filter f l = l.
Proof.
  induction l as [|x l IH]; intros H; [reflexivity|]. cbn [filter]. rewrite (H x (or_introl eq_refl)).
  f_equal. apply IH. intros y Hy. apply H. right. exact Hy.
Qed.

Lemma NoDup_snoc {A} (l : list A) x : NoDup l -> ~ In x l -> NoDup (l ++ [x]).
Proof.
  induction l as [|y l IH]; intros Hnd Hn; [constructor; [intros []|constructor]|].
  inversion Hnd as [|? ? Hy Hl]; subst. cbn [app]. constructor.
  - intro Hin. apply in_app_or in Hin as [Hin|[Hin|[]]]; [exact (Hy Hin)|]. subst. apply Hn. left. reflexivity.
  - apply IH; [exact Hl|]. intro Hin. apply Hn. right. exact Hin.
Qed.

Section Chain.
Context {E R : Type}.

Lemma chain_remove_names name (c : chain E R) : NoDup (map fst c) ->
  map fst (chain_remove name c) = filter (fun n => negb (str_eqb n name)) (map fst c).
Proof.
  induction c as [|[n l] c IH]; intros Hnd; [reflexivity|].
  inversion Hnd as [|? ? Hn Hc]; subst. cbn [chain_remove map fst filter].
  destruct (str_eqb n name) eqn:Eq.
  - cbn [negb]. apply str_eqb_eq in Eq. subst n.
    symmetry. apply filter_all. intros x Hx.
    apply negb_true_iff, str_eqb_neq. intro X. subst x. exact (Hn Hx).
  - cbn [negb map fst]. f_equal. exact (IH Hc).
Qed.

(** removing a listener keeps every other listener, in the order they had *)
Theorem removal_keeps_the_order_of_the_others : forall name (c : chain E R), NoDup (map fst c) ->
  map fst (chain_remove name c) = filter (fun n => negb (str_eqb n name)) (map fst c) /\
  NoDup (map fst (chain_remove name c)).
Proof.
  intros name c Hnd. split; [apply chain_remove_names; exact Hnd|].
  rewrite chain_remove_names by exact Hnd. apply NoDup_filter. exact Hnd.
Qed.

(** registering under a name that is taken moves that listener to the END; the others keep their order *)
Theorem readded_listener_goes_last : forall name l (c : chain E R), NoDup (map fst c) ->
  map fst (chain_add name l c) = filter (fun n => negb (str_eqb n name)) (map fst c) ++ [name] /\
  NoDup (map fst (chain_add name l c)).
Proof.
  intros name l c Hnd. unfold chain_add. rewrite map_app, chain_remove_names by exact Hnd. split; [reflexivity|].
  cbn [map fst]. apply NoDup_snoc; [apply NoDup_filter; exact Hnd|].
  intro Hin. apply filter_In in Hin as [_ Hf]. rewrite str_eqb_refl in Hf. discriminate.
Qed.

(** what the broker answers after a listener was removed: what the remaining listeners answer, first come first served;
    in particular a listener that was registered BEFORE another one is still asked before it *)
Theorem removal_does_not_reorder_answers : forall name (c1 c2 : chain E R) n1 l1 e r,
  n1 <> name -> (forall p, In p c1 -> snd p e = None) -> l1 e = Some r ->
  chain_emit (chain_remove name (c1 ++ (n1, l1) :: c2)) e = Some r.
Proof.
  intros name c1. induction c1 as [|[n l] c1 IH]; intros c2 n1 l1 e r Hne Hs Hl.
  - cbn [app chain_remove]. assert (Hf : str_eqb n1 name = false) by (apply str_eqb_neq; exact Hne). rewrite Hf.
    unfold chain_emit. cbn [map snd broker_emit]. rewrite Hl. reflexivity.
  - cbn [app chain_remove]. destruct (str_eqb n name).
    + unfold chain_emit. rewrite map_app. cbn [map snd].
      apply first_answer_wins; [|exact Hl].
      intros l' Hin. apply in_map_iff in Hin as [p [<- Hp]]. apply Hs. right. exact Hp.
    + pose proof (Hs (n, l) (or_introl eq_refl)) as Hnl. cbn [snd] in Hnl.
      unfold chain_emit in *. cbn [map snd broker_emit]. rewrite Hnl.
      apply IH; [exact Hne| |exact Hl]. intros p Hp. apply Hs. right. exact Hp.
Qed.
End Chain.

(** The reload scenario: Lua host, block list, catch-all; the script is loaded again.  The block list is still asked
    before the catch-all. *)
Example reload_keeps_priorities :
  let lua : str -> option hook_ans := fun _ => None in
  let block : str -> option hook_ans := table_listener [([98], Deny 554 [110;111])] in
  let catch : str -> option hook_ans := fun _ => Some Allow in
  let n_lua := [108;117;97] in
  let c := chain_add n_lua lua (chain_add [99] catch (chain_add [98] block (chain_add n_lua lua []))) in
  map fst c = [[98]; [99]; n_lua] /\ chain_emit c [98] = Some (Deny 554 [110;111]) /\ chain_emit c [97] = Some Allow.
Proof. repeat split; reflexivity. Qed.

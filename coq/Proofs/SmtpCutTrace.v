(** C03, the cut clause, both directions (audit item: [cut_prefix] only bounds the deliveries of a cut connection from
    above — "a prefix of what the whole stream delivers" — and nothing said that the DIALOGUE of the cut connection is
    the beginning of the whole dialogue).  Here: whatever byte offset the client disconnects at, the session's
    transcript (item, replies, deliveries — step by step) is a common part [pre] shared with the transcript of the
    whole stream, followed by a tail that delivers nothing (the step or two in which the session notices the cut).
    So the cut connection stores exactly what the whole dialogue stores during the shared part — in particular every
    message whose DATA block the shared part answered 250 — and nothing from the tail. *)
From IV Require Import Base.Bytes Base.BytesFacts Model.Policy Model.Smtp Model.Dot Model.SmtpWire Proofs.SmtpInv Proofs.SmtpThms Proofs.DotCodec Proofs.SmtpCut.
From Coq Require Import ZifyBool ZifyNat ZifyN Lia.

Definition tail_tr (fuel : nat) (c : scfg) (o : oracles) (s : session) (w : str) : list entry :=
  snd (fst (run_stream fuel c o s w)).

Lemma tail_del_tr f c o s w : tail_del f c o s w = deliveries_of (tail_tr f c o s w).
Proof. reflexivity. Qed.

Lemma tail_tr_S f c o s w :
  tail_tr (S f) c o s w =
  match st s with
  | QUIT => []
  | _ => match step c s (fst (next_item o s w)) with
         | Ok s' r d => (fst (next_item o s w), r, d) :: tail_tr f c o s' (snd (next_item o s w))
         | _ => []
         end
  end.
Proof.
  unfold tail_tr. cbn [run_stream].
  destruct (st s); try reflexivity;
    (destruct (next_item o s w) as [it rest]; cbn [fst snd];
     destruct (step c s it) as [s' r d| |]; try reflexivity;
     destruct (run_stream f c o s' rest) as [[its tr] sf]; reflexivity).
Qed.

Lemma deliveries_of_app (a b : list entry) : deliveries_of (a ++ b) = deliveries_of a ++ deliveries_of b.
Proof. unfold deliveries_of. rewrite map_app, concat_app. reflexivity. Qed.

(** the tail is short: the session notices the cut within two steps (a partial last line is still processed as a line,
    then the end of input ends the session; inside a DATA block the truncated block ends it at once) *)
Lemma tail_tr_quit f c o s w : st s = QUIT -> tail_tr f c o s w = [].
Proof. intros H. unfold tail_tr. rewrite run_stream_quit by exact H. reflexivity. Qed.

Lemma tail_tr_nil_len f c o s : (length (tail_tr f c o s []) <= 1)%nat.
Proof.
  destruct f as [|f]; [cbn; lia|]. rewrite tail_tr_S.
  destruct (st s) eqn:Es; try (cbn; lia);
    (destruct (step c s (fst (next_item o s []))) as [s' r d| |] eqn:E; try (cbn; lia);
     apply next_item_nil_quits in E; rewrite (tail_tr_quit f c o s' _ E); cbn; lia).
Qed.

Lemma tail_tr_partial_line_len f c o s w :
  st s <> DATA -> ~ In LFb w -> (length (tail_tr f c o s w) <= 2)%nat.
Proof.
  intros Hd Hn. destruct w as [|b w]; [pose proof (tail_tr_nil_len f c o s); lia|].
  destruct f as [|f]; [cbn; lia|]. rewrite tail_tr_S.
  destruct (st s) eqn:Es; try (cbn; lia); try congruence;
    (assert (Hni : next_item o s (b :: w) = (L (classify o (b :: w)), []));
     [unfold next_item; rewrite Es; unfold read_line;
      destruct (split_lf (b :: w)) as [[l r]|] eqn:S;
      [apply split_lf_some in S as [S _]; exfalso; apply Hn; rewrite S; apply in_or_app; right; left; reflexivity
      |reflexivity]|];
     rewrite Hni; cbn [fst snd];
     destruct (step c s (L (classify o (b :: w)))) as [s' r d| |]; try (cbn; lia);
     pose proof (tail_tr_nil_len f c o s'); cbn [length]; lia).
Qed.

(** [next_item_prefix] with the length of what follows in its second alternative *)
Lemma next_item_prefix_len c o s w k : st s <> QUIT ->
  (exists k', next_item o s (firstn k w) = (fst (next_item o s w), firstn k' (snd (next_item o s w)))) \/
  (forall f, tail_del f c o s (firstn k w) = [] /\ (length (tail_tr f c o s (firstn k w)) <= 2)%nat).
Proof.
  intros Hq. destruct (sstate_eqb (st s) DATA) eqn:Ed.
  - assert (Es : st s = DATA) by (destruct (st s); try discriminate; reflexivity).
    unfold next_item. rewrite Es.
    destruct (dec BeginLine w) as [[body rest]|] eqn:D.
    + destruct (Nat.le_gt_cases (length w - length rest) k) as [Hk|Hk].
      * left. rewrite (dec_firstn_ge _ _ _ _ _ D Hk). eexists. reflexivity.
      * right. intros f. pose proof (truncated_is_none _ _ _ _ k D Hk) as T.
        destruct f as [|f]; [split; [reflexivity|cbn; lia]|].
        rewrite tail_del_S, tail_tr_S, Es. unfold next_item. rewrite Es, T. cbn [fst snd].
        destruct (step c s (B PEof)) as [s' r d| |] eqn:E; try (split; [reflexivity|cbn; lia]).
        apply step_peof_quits in E as [Hs' ->]. rewrite tail_del_nil, (tail_tr_quit f c o s' _ Hs').
        split; [reflexivity|cbn; lia].
    + left. rewrite (dec_firstn_none _ _ k D). exists 0%nat. reflexivity.
  - assert (Hd : st s <> DATA) by (intro E; rewrite E in Ed; discriminate).
    assert (Hni : forall v, next_item o s v =
              match read_line v with Some (line, rest) => (L (classify o line), rest) | None => (Eof, []) end)
      by (intros v; unfold next_item; destruct (st s); try reflexivity; congruence).
    rewrite !Hni.
    destruct w as [|b w]; [left; exists 0%nat; rewrite firstn_nil; reflexivity|].
    unfold read_line at 2 3.
    destruct (split_lf (b :: w)) as [[l r]|] eqn:HS.
    + apply split_lf_some in HS as [HS Hl].
      destruct (Nat.le_gt_cases (S (length l)) k) as [Hk|Hk].
      * left. exists (k - S (length l))%nat. rewrite HS.
        replace (firstn k (l ++ LFb :: r)) with (l ++ LFb :: firstn (k - S (length l)) r).
        2:{ rewrite firstn_app. replace (firstn k l) with l by (symmetry; apply firstn_all2; lia).
            replace (k - length l)%nat with (S (k - S (length l))) by lia. reflexivity. }
        unfold read_line. destruct (l ++ LFb :: firstn (k - S (length l)) r) eqn:E0;
          [destruct l; discriminate|]. rewrite <- E0. rewrite split_lf_app by exact Hl. reflexivity.
      * right. intros f.
        assert (Hno : ~ In LFb (firstn k (b :: w))).
        { rewrite HS. rewrite firstn_app. replace (k - length l)%nat with 0%nat by lia.
          cbn [firstn]. rewrite app_nil_r. intro Hin. apply in_firstn in Hin. auto. }
        split; [apply tail_del_partial_line; assumption|apply tail_tr_partial_line_len; assumption].
    + right. intros f.
      assert (Hno : ~ In LFb (firstn k (b :: w))).
      { intro Hin. apply in_firstn in Hin. apply split_lf_none in HS. auto. }
      split; [apply tail_del_partial_line; assumption|apply tail_tr_partial_line_len; assumption].
Qed.

Theorem cut_trace_fuel : forall fuel c o s w k,
  exists pre tl rest,
    tail_tr fuel c o s (firstn k w) = pre ++ tl /\
    tail_tr fuel c o s w = pre ++ rest /\
    deliveries_of tl = [] /\ (length tl <= 2)%nat.
Proof.
  induction fuel as [|f IH]; intros c o s w k; [exists [], [], []; repeat split; cbn; lia|].
  destruct (sstate_eqb (st s) QUIT) eqn:Eq.
  - assert (st s = QUIT) as Es by (destruct (st s); try discriminate; reflexivity).
    rewrite !tail_tr_S, Es. exists [], [], []. repeat split; cbn; lia.
  - assert (st s <> QUIT) as Hq by (intro E; rewrite E in Eq; discriminate).
    destruct (next_item_prefix_len c o s w k Hq) as [[k' Hn]|Hz].
    + rewrite !tail_tr_S. rewrite Hn. cbn [fst snd].
      destruct (st s); try (exists [], [], []; repeat split; cbn; lia);
        (destruct (step c s (fst (next_item o s w))) as [s' r d| |]; try (exists [], [], []; repeat split; cbn; lia);
         destruct (IH c o s' (snd (next_item o s w)) k') as (pre & tl & rest & H1 & H2 & H3 & H4);
         exists ((fst (next_item o s w), r, d) :: pre), tl, rest;
         rewrite H1, H2; repeat split; assumption).
    + exists [], (tail_tr (S f) c o s (firstn k w)), (tail_tr (S f) c o s w).
      destruct (Hz (S f)) as [Z1 Z2]. repeat split; [rewrite <- tail_del_tr; exact Z1|exact Z2].
Qed.

(** The cut theorem on transcripts. *)
Theorem cut_trace_prefix : forall c o w k,
  exists pre tl rest,
    snd (fst (run_bytes c o (firstn k w))) = pre ++ tl /\
    snd (fst (run_bytes c o w)) = pre ++ rest /\
    deliveries_of tl = [] /\ (length tl <= 2)%nat.
Proof.
  intros c o w k. unfold run_bytes.
  rewrite (fuel_irrelevant (length (firstn k w) + 2) (length w + 2) c o init (firstn k w)).
  - exact (cut_trace_fuel (length w + 2) c o init w k).
  - lia.
  - rewrite firstn_length. lia.
Qed.

(** Both bounds at once: the cut connection stores exactly the deliveries of the part of the dialogue it shares with
    the whole stream; the whole stream stores those first, then those of the rest. *)
Theorem cut_delivers_exactly_the_shared_part : forall c o w k,
  exists pre tl rest,
    snd (fst (run_bytes c o (firstn k w))) = pre ++ tl /\
    snd (fst (run_bytes c o w)) = pre ++ rest /\
    deliveries_of (snd (fst (run_bytes c o (firstn k w)))) = deliveries_of pre /\
    deliveries_of (snd (fst (run_bytes c o w))) = deliveries_of pre ++ deliveries_of rest /\
    (length tl <= 2)%nat.
Proof.
  intros c o w k. destruct (cut_trace_prefix c o w k) as (pre & tl & rest & H1 & H2 & H3 & H4).
  exists pre, tl, rest. rewrite H1, H2, !deliveries_of_app, H3, app_nil_r. repeat split. exact H4.
Qed.

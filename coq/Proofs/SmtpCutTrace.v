(** C03, the cut clause, both directions (audit item: [cut_prefix] only bounds the deliveries of a cut connection from
    above — "a prefix of what the whole stream delivers" — and nothing said that the DIALOGUE of the cut connection is
    the beginning of the whole dialogue).  Here: whatever byte offset the client disconnects at, the session's
    transcript (item, replies, deliveries — step by step) is a common part [pre] shared with the transcript of the
    whole stream, followed by a tail that delivers nothing (the step or two in which the session notices the cut).
    So the cut connection stores exactly what the whole dialogue stores during the shared part — in particular every
    message whose DATA block the shared part answered 250 — and nothing from the tail. *)
From IV Require Import Base.Bytes Base.BytesFacts Model.Policy Model.Smtp Model.Dot Model.SmtpWire Proofs.SmtpInv Proofs.SmtpThms Proofs.DotCodec Proofs.SmtpCut.
From Coq Require Import ZifyBool ZifyNat ZifyN Lia.

Definition tail_tr (fuel : nat) (c : scfg) (o : oracles) (s : session) (w : str) : list entry :=
  snd (fst (run_stream fuel c o s w)).

Lemma tail_del_tr f c o s w : tail_del f c o s w = deliveries_of (tail_tr f c o s w).
Proof. reflexivity. Qed.

Lemma tail_tr_S f c o s w :
  tail_tr (S f) c o s w =
  match st s with
  | QUIT => []
  | _ => match step c s (fst (next_item o s w)) with
         | Ok s' r d => (fst (next_item o s w), r, d) :: tail_tr f c o s' (snd (next_item o s w))
         | _ => []
         end
  end.
Proof.
  unfold tail_tr. cbn [run_stream].
  destruct (st s); try reflexivity;
    (destruct (next_item o s w) as [it rest]; cbn [fst snd];
     destruct (step c s it) as [s' r d| |]; try reflexivity;
     destruct (run_stream f c o s' rest) as [[its tr] sf]; reflexivity).
Qed.

Lemma deliveries_of_app (a b : list entry) : deliveries_of (a ++ b) = deliveries_of a ++ deliveries_of b.
Proof. unfold deliveries_of. rewrite map_app, concat_app. reflexivity. Qed.

Theorem cut_trace_fuel : forall fuel c o s w k,
  exists pre tl rest,
    tail_tr fuel c o s (firstn k w) = pre ++ tl /\
    tail_tr fuel c o s w = pre ++ rest /\
    deliveries_of tl = [].
Proof.
  induction fuel as [|f IH]; intros c o s w k; [exists [], [], []; repeat split|].
  destruct (sstate_eqb (st s) QUIT) eqn:Eq.
  - assert (st s = QUIT) as Es by (destruct (st s); try discriminate; reflexivity).
    rewrite !tail_tr_S, Es. exists [], [], []. repeat split.
  - assert (st s <> QUIT) as Hq by (intro E; rewrite E in Eq; discriminate).
    destruct (next_item_prefix c o s w k Hq) as [[k' Hn]|Hz].
    + rewrite !tail_tr_S. rewrite Hn. cbn [fst snd].
      destruct (st s); try (exists [], [], []; repeat split; fail);
        (destruct (step c s (fst (next_item o s w))) as [s' r d| |]; try (exists [], [], []; repeat split; fail);
         destruct (IH c o s' (snd (next_item o s w)) k') as (pre & tl & rest & H1 & H2 & H3);
         exists ((fst (next_item o s w), r, d) :: pre), tl, rest;
         rewrite H1, H2; repeat split; exact H3).
    + exists [], (tail_tr (S f) c o s (firstn k w)), (tail_tr (S f) c o s w).
      repeat split. rewrite <- tail_del_tr. apply Hz.
Qed.

(** The cut theorem on transcripts. *)
Theorem cut_trace_prefix : forall c o w k,
  exists pre tl rest,
    snd (fst (run_bytes c o (firstn k w))) = pre ++ tl /\
    snd (fst (run_bytes c o w)) = pre ++ rest /\
    deliveries_of tl = [].
Proof.
  intros c o w k. unfold run_bytes.
  rewrite (fuel_irrelevant (length (firstn k w) + 2) (length w + 2) c o init (firstn k w)).
  - exact (cut_trace_fuel (length w + 2) c o init w k).
  - lia.
  - rewrite firstn_length. lia.
Qed.

(** Both bounds at once: the cut connection stores exactly the deliveries of the part of the dialogue it shares with
    the whole stream; the whole stream stores those first, then those of the rest. *)
Theorem cut_delivers_exactly_the_shared_part : forall c o w k,
  exists pre tl rest,
    snd (fst (run_bytes c o (firstn k w))) = pre ++ tl /\
    snd (fst (run_bytes c o w)) = pre ++ rest /\
    deliveries_of (snd (fst (run_bytes c o (firstn k w)))) = deliveries_of pre /\
    deliveries_of (snd (fst (run_bytes c o w))) = deliveries_of pre ++ deliveries_of rest.
Proof.
  intros c o w k. destruct (cut_trace_prefix c o w k) as (pre & tl & rest & H1 & H2 & H3).
  exists pre, tl, rest. rewrite H1, H2, !deliveries_of_app, H3, app_nil_r. repeat split.
Qed.

(** C08 — cap and size limit TOGETHER (the combination no test of the suite uses): one delivery
    under both limits, and the bounds after every history, on the abstract store and on the
    memory-store model. *)
From Coq Require Import List Arith Lia Sorted.
From IV Require Import Base.Bytes Base.BytesFacts Model.StoreSpec Model.StoreSpecImpl Model.MemStore Model.Events
  Proofs.StoreSpecFacts Proofs.StoreSpecRefine Proofs.StoreSpecLimits Proofs.MemStoreRefine Proofs.MemStoreLimits Proofs.EventsCount.
Import ListNotations.
Local Open Scope nat_scope.

(** One delivery with both limits active. The cap step removes exactly the oldest messages of
    the receiving mailbox, as few as make it fit the cap; then the size step removes the
    shortest prefix of the store-wide arrival order that makes the store fit; afterwards both
    bounds hold; and every message of the store is accounted for: evicted by the cap, evicted
    by the size limit, or still there. *)
Theorem both_limits_delivery cfg st mb m :
  c_cap cfg <> 0 -> c_max cfg <> 0%N ->
  (forall mb', length (box mb' (live st)) <= c_cap cfg) ->
  let nw := {| e_mb := mb; e_k := count_of mb (counts st); e_msg := m |} in
  let sb := box mb (live st) ++ [nw] in
  let '(d1, l2) := add_cap cfg mb (add_l1 st mb m) in
  let '(d2, l3) := add_fit cfg l2 in
  (* cap: oldest of the mailbox first, only as many as necessary, nobody else touched *)
  d1 = firstn (length sb - c_cap cfg) sb /\ box mb l2 = skipn (length sb - c_cap cfg) sb /\
  (forall mb', mb' <> mb -> box mb' l2 = box mb' (live st)) /\
  length (box mb l2) = Nat.min (length sb) (c_cap cfg) /\
  (* size: oldest of the store first, only as many as necessary *)
  l2 = d2 ++ l3 /\ (total l3 <= c_max cfg)%N /\
  (forall d' r', l2 = d' ++ r' -> (total r' <= c_max cfg)%N -> length d2 <= length d') /\
  (* both bounds hold afterwards *)
  (forall mb', length (box mb' l3) <= c_cap cfg) /\
  (* nothing else is lost *)
  (forall kk, live_count kk (live st) + live_count kk [nw] = live_count kk d1 + live_count kk d2 + live_count kk l3).
Proof.
  intros Hc Hm Hb nw sb.
  pose proof (cap_keeps_newest cfg st mb m) as Hk. cbv zeta in Hk. fold nw sb in Hk.
  assert (Hcnt : forall kk, let '(d1, l2) := add_cap cfg mb (add_l1 st mb m) in
                            live_count kk (add_l1 st mb m) = live_count kk d1 + live_count kk l2).
  { intros kk. unfold add_cap. destruct (Nat.eqb (c_cap cfg) 0); [reflexivity|].
    pose proof (live_count_drop kk mb (length (box mb (add_l1 st mb m)) - c_cap cfg) (add_l1 st mb m)) as H.
    destruct (drop_oldest mb _ (add_l1 st mb m)). exact H. }
  destruct (add_cap cfg mb (add_l1 st mb m)) as [d1 l2]. destruct Hk as [Hk1 Hk2]. destruct (Hk1 Hc) as [Hbox Hd1].
  pose proof (evict_global_oldest_prefix cfg l2 Hm) as He. destruct (add_fit cfg l2) as [d2 l3]. destruct He as [Hs [Ht Hmin]].
  assert (Hlen : length (box mb l2) = Nat.min (length sb) (c_cap cfg)) by (rewrite Hbox, skipn_length; lia).
  repeat split; auto.
  - intros mb'. assert (Hl2 : length (box mb' l2) <= c_cap cfg).
    { destruct (list_eq_dec N.eq_dec mb' mb) as [->|Hne]; [rewrite Hlen; lia | rewrite Hk2 by exact Hne; apply Hb]. }
    rewrite Hs, box_app, app_length in Hl2. lia.
  - intros kk. specialize (Hcnt kk). unfold add_l1 in Hcnt. fold nw in Hcnt. rewrite live_count_app in Hcnt.
    rewrite Hs, live_count_app in Hcnt. lia.
Qed.

(** After every history with both limits active, on the abstract store. *)
Theorem both_limits_history cfg ops mb : c_cap cfg <> 0 -> c_max cfg <> 0%N ->
  length (box mb (live (final_spec cfg spec_init ops))) <= c_cap cfg /\
  (total (live (final_spec cfg spec_init ops)) <= c_max cfg)%N.
Proof. intros Hc Hm. split; [apply cap_bound; exact Hc | apply size_bound; exact Hm]. Qed.

(** ... and as the memory-store model shows it: whatever the history, a listing is never longer
    than the cap and the listed sizes of all mailboxes never add up to more than the limit
    (the enforcer's own accounting is accounting_exact). *)
Theorem both_limits_mem cfg ops mb : c_cap cfg <> 0 ->
  exists l, nth_error (map fst (run_mem cfg (ops ++ [Lst mb]))) (length ops) = Some (OList l) /\ length l <= c_cap cfg.
Proof.
  intros Hc. exists (map view_of (box mb (live (final_spec cfg spec_init ops)))). split; [apply final_listing|].
  rewrite map_length. apply cap_bound. exact Hc.
Qed.

(** The situation of seed C09-m2: the oldest message of the STORE sits in the mailbox that
    overflows its cap. cap = 2, limit = 1024: deliveries a:400 b:300 a:300 a:300 a:500 —
    the 4th evicts a/0 by the cap (the size enforcer must forget it), the 5th evicts a/1 by the
    cap and then b/0, the oldest of the store, by the size limit. *)
Example both_limits_example :
  let cfg := {| c_cap := 2; c_max := 1024 |} in
  let a := [97%N] in let b := [98%N] in
  map snd (run_mem cfg [Add a 0%Z 0%N 400%N; Add b 1%Z 1%N 300%N; Add a 2%Z 2%N 300%N; Add a 3%Z 3%N 300%N; Add a 4%Z 4%N 500%N]) =
  [ [(EStored, a, 0)]; [(EStored, b, 0)]; [(EStored, a, 1)]; [(EDeleted, a, 0); (EStored, a, 2)];
    [(EDeleted, a, 1); (EDeleted, b, 0); (EStored, a, 3)] ].
Proof. vm_compute. reflexivity. Qed.

(* ------------------------------------------------------------------ only what is necessary: both directions *)
Lemma evict_fit_nil max l : (total l <= max)%N -> evict_fit max l = ([], l).
Proof. intros H. destruct l as [|e l]; [reflexivity|]. cbn [evict_fit]. apply N.leb_le in H. rewrite H. reflexivity. Qed.

Lemma evict_fit_cons max l : fst (evict_fit max l) <> [] -> (max < total l)%N.
Proof.
  intros H. destruct (N.le_gt_cases (total l) max) as [Hle|Hgt]; [|exact Hgt].
  rewrite (evict_fit_nil max l Hle) in H. simpl in H. congruence.
Qed.

(** [evicts_iff_necessary]: a delivery evicts by the cap if and only if the receiving mailbox
    would otherwise exceed the cap, and by the size limit if and only if the store (after the cap
    step) would otherwise exceed the limit; with a limit switched off (0) nothing is evicted for
    it. Together with both_limits_delivery (HOW MANY and WHICH): nothing is evicted needlessly,
    nothing necessary is left in. *)
Theorem evicts_iff_necessary cfg st mb m :
  let len := length (box mb (live st)) in
  let '(d1, l2) := add_cap cfg mb (add_l1 st mb m) in
  let '(d2, l3) := add_fit cfg l2 in
  (d1 <> [] <-> c_cap cfg <> 0 /\ c_cap cfg < len + 1) /\
  (d2 <> [] <-> c_max cfg <> 0%N /\ (c_max cfg < total l2)%N).
Proof.
  intros len. pose proof (cap_keeps_newest cfg st mb m) as Hk. cbv zeta in Hk.
  set (nw := {| e_mb := mb; e_k := count_of mb (counts st); e_msg := m |}) in *.
  assert (Hsb : length (box mb (live st) ++ [nw]) = len + 1) by (rewrite app_length; reflexivity).
  assert (Hc0 : c_cap cfg = 0 -> fst (add_cap cfg mb (add_l1 st mb m)) = []).
  { intros H0. unfold add_cap. rewrite H0. reflexivity. }
  destruct (add_cap cfg mb (add_l1 st mb m)) as [d1 l2]. destruct Hk as [Hk1 _]. cbn [fst] in Hc0.
  assert (Hfit : (c_max cfg = 0%N -> add_fit cfg l2 = ([], l2)) /\
                 (c_max cfg <> 0%N -> add_fit cfg l2 = evict_fit (c_max cfg) l2)).
  { unfold add_fit. split; intros H; [rewrite H; reflexivity | apply N.eqb_neq in H; rewrite H; reflexivity]. }
  destruct Hfit as [Hf0 Hf1].
  pose proof (evict_fit_spec (c_max cfg) l2) as Hsp.
  destruct (add_fit cfg l2) as [d2 l3]. split.
  - split.
    + intros Hne. destruct (Nat.eq_dec (c_cap cfg) 0) as [H0|H0]; [exfalso; apply Hne; apply Hc0; exact H0|].
      split; [exact H0|]. destruct (Hk1 H0) as [_ Hd]. rewrite Hsb in Hd.
      destruct (Nat.le_gt_cases (len + 1) (c_cap cfg)) as [Hle|Hgt]; [|exact Hgt].
      replace (len + 1 - c_cap cfg) with 0 in Hd by lia. simpl in Hd. exfalso; apply Hne; exact Hd.
    + intros [H0 Hlt]. destruct (Hk1 H0) as [_ Hd]. rewrite Hsb in Hd. rewrite Hd.
      destruct (len + 1 - c_cap cfg) as [|n] eqn:En; [lia|]. destruct (box mb (live st)) as [|x sb]; simpl; discriminate.
  - split.
    + intros Hne. destruct (N.eq_dec (c_max cfg) 0) as [H0|H0].
      * pose proof (Hf0 H0) as Ef. inversion Ef; subst. exfalso; apply Hne; reflexivity.
      * split; [exact H0|]. pose proof (Hf1 H0) as Ef. apply evict_fit_cons. rewrite <- Ef. exact Hne.
    + intros [H0 Hlt]. pose proof (Hf1 H0) as Ef. rewrite <- Ef in Hsp. destruct Hsp as [Hs [Ht _]].
      intros Hd. subst d2. simpl in Hs. subst l3. lia.
Qed.

(** C15/C19: shutdown while events are still travelling through the brokers (Model/HubFed.v,
    [fstep3]): late operations neither block nor panic, whatever is still pending. *)
From Coq Require Import Lia.
From IV Require Import Base.Bytes Model.Hub Model.HubFed Proofs.HubBasics Proofs.HubTheorems Proofs.LifecycleHub.
Local Open Scope nat_scope.

(** Emit never waits for anybody, stopped hub or not: it only appends to the listener's queue. *)
Theorem emit_never_blocks :
  forall c s m,
    (exists s', fstep3 c s (F3 (F2 (FEmit m))) = Some s' /\ fh (f2 s') = fh (f2 s)) /\
    (exists s', fstep3 c s (F3 (F2EmitDel m)) = Some s' /\ fh (f2 s') = fh (f2 s)).
Proof. intros c s m. split; eexists; split; reflexivity. Qed.

(** Once the hub has stopped, a running delivery goroutine always gets through its next call:
    [hub.Dispatch] / [hub.Delete] return at once (the op is dropped; no full queue can hold it
    up, no closed channel can panic it), the hub is left exactly as it was, and the pending list
    shrinks — or, when it is empty, the goroutine exits. *)
Theorem deliver_after_stop_never_blocks :
  forall c s, stopped (fh (f2 s)) = true ->
    (fb_running (f2 s) = true ->
       exists s', fstep3 c s (F3 (F2 FDeliver)) = Some s' /\ fh (f2 s') = fh (f2 s) /\
                  fb_pend (f2 s') = tl (fb_pend (f2 s)) /\
                  fb_running (f2 s') = negb (match fb_pend (f2 s) with [] => true | _ => false end)) /\
    (fd_running s = true ->
       exists s', fstep3 c s (F3 F2DeliverDel) = Some s' /\ fh (f2 s') = fh (f2 s) /\
                  fd_pend s' = tl (fd_pend s) /\
                  fd_running s' = negb (match fd_pend s with [] => true | _ => false end)).
Proof.
  intros c s Hst. split; intros R; cbn [fstep3 fstep2 fstep]; rewrite R.
  - destruct (fb_pend (f2 s)) as [|m p]; [eexists; repeat split|].
    cbn [step is_add]. unfold enq. rewrite Hst. eexists. repeat split.
  - destruct (fd_pend s) as [|m p]; [eexists; repeat split|].
    cbn [step is_add]. unfold enq. rewrite Hst. eexists. repeat split.
Qed.

(** So whatever was pending at shutdown is consumed in finitely many steps and both goroutines
    exit: nothing is left running behind the shutdown. *)
Fixpoint pump3 (k : nat) (a : fact2) : list fact3 := match k with 0 => [] | S k' => F3 a :: pump3 k' a end.

Theorem pending_drains_after_stop :
  forall c s, stopped (fh (f2 s)) = true -> fb_running (f2 s) = true -> fd_running s = true ->
    exists s', frun3 c s (pump3 (S (length (fb_pend (f2 s)))) (F2 FDeliver) ++
                         pump3 (S (length (fd_pend s))) F2DeliverDel) = Some s' /\
               fb_pend (f2 s') = [] /\ fb_running (f2 s') = false /\
               fd_pend s' = [] /\ fd_running s' = false /\ fh (f2 s') = fh (f2 s).
Proof.
  intros c s Hst R1 R2.
  assert (A : forall p s0, fb_pend (f2 s0) = p -> stopped (fh (f2 s0)) = true -> fb_running (f2 s0) = true ->
              exists s1, frun3 c s0 (pump3 (S (length p)) (F2 FDeliver)) = Some s1 /\
                         fb_pend (f2 s1) = [] /\ fb_running (f2 s1) = false /\ fd_pend s1 = fd_pend s0 /\
                         fd_running s1 = fd_running s0 /\ fh (f2 s1) = fh (f2 s0)).
  { induction p as [|m p IH]; intros s0 P St Rn.
    - cbn [length pump3 frun3 fstep3 fstep2 fstep]. rewrite Rn, P. eexists. repeat split.
    - cbn [length pump3 frun3]. cbn [fstep3 fstep2 fstep]. rewrite Rn, P. cbn [step is_add]. unfold enq. rewrite St.
      destruct (IH (mkFed2 (mkFed p true (fh (f2 s0))) (fd_pend s0) (fd_running s0))) as (s1 & R & E1 & E2 & E3 & E4 & E5);
        try reflexivity; try exact St.
      exists s1. repeat split; auto. }
  assert (B : forall p s0, fd_pend s0 = p -> stopped (fh (f2 s0)) = true -> fd_running s0 = true ->
              exists s1, frun3 c s0 (pump3 (S (length p)) F2DeliverDel) = Some s1 /\
                         fd_pend s1 = [] /\ fd_running s1 = false /\ f2 s1 = f2 s0).
  { induction p as [|m p IH]; intros s0 P St Rn.
    - cbn [length pump3 frun3 fstep3 fstep2]. rewrite Rn, P. eexists. repeat split.
    - cbn [length pump3 frun3]. cbn [fstep3 fstep2]. rewrite Rn, P. cbn [step is_add]. unfold enq. rewrite St.
      destruct (IH (mkFed2 (mkFed (fb_pend (f2 s0)) (fb_running (f2 s0)) (fh (f2 s0))) p true)) as (s1 & R & E1 & E2 & E3);
        try reflexivity; try exact St.
      exists s1. repeat split; auto. rewrite E3. destruct (f2 s0); reflexivity. }
  destruct (A _ s eq_refl Hst R1) as (s1 & Ra & P1 & Rn1 & D1 & DR1 & H1).
  assert (S1 : stopped (fh (f2 s1)) = true) by (rewrite H1; exact Hst).
  destruct (B _ s1 eq_refl S1 (eq_trans DR1 R2)) as (s2 & Rb & P2 & Rn2 & F2e).
  exists s2. split.
  - assert (G : forall a b s0, frun3 c s0 (a ++ b) = match frun3 c s0 a with Some x => frun3 c x b | None => None end).
    { induction a as [|x t IHa]; intros b s0; cbn [app frun3]; auto. destruct (fstep3 c s0 x); auto. }
    rewrite G, Ra. rewrite <- D1. exact Rb.
  - rewrite F2e. repeat split; auto.
Qed.

(** A late [hub.Sync] returns at once (its wait is released by [hub.done]); the hub stays stopped
    whatever else happens, makes no further listener call, and its record of ops does not grow. *)
Theorem sync_after_stop_returns :
  forall c s tok, stopped (fh (f2 s)) = true ->
    exists s', fstep3 c s (F3Sync tok) = Some s' /\ fh (f2 s') = fh (f2 s) /\ sync_returns (fh (f2 s')) tok.
Proof.
  intros c s tok Hst. cbn [fstep3 step is_add]. unfold enq. rewrite Hst. eexists. repeat split.
  cbn [with_hub f2 fh]. left. exact Hst.
Qed.

Theorem stopped_hub_is_frozen :
  forall c sched s s', frun3 c s sched = Some s' -> stopped (fh (f2 s)) = true ->
    stopped (fh (f2 s')) = true /\ hlog (fh (f2 s')) = hlog (fh (f2 s)) /\ opq (fh (f2 s')) = opq (fh (f2 s)) /\
    work (fh (f2 s')) = work (fh (f2 s)) /\ regs (fh (f2 s')) = regs (fh (f2 s)) /\ ring (fh (f2 s')) = ring (fh (f2 s)).
Proof.
  induction sched as [|a t IH]; intros s s' R Hst; cbn [frun3] in R.
  - inversion R; subst. auto 10.
  - destruct (fstep3 c s a) as [s1|] eqn:E; [|discriminate].
    assert (X : stopped (fh (f2 s1)) = true /\ hlog (fh (f2 s1)) = hlog (fh (f2 s)) /\ opq (fh (f2 s1)) = opq (fh (f2 s)) /\
                work (fh (f2 s1)) = work (fh (f2 s)) /\ regs (fh (f2 s1)) = regs (fh (f2 s)) /\ ring (fh (f2 s1)) = ring (fh (f2 s))).
    { assert (HS : forall act h, step c (fh (f2 s)) act = Some h ->
                   stopped h = true /\ hlog h = hlog (fh (f2 s)) /\ opq h = opq (fh (f2 s)) /\
                   work h = work (fh (f2 s)) /\ regs h = regs (fh (f2 s)) /\ ring h = ring (fh (f2 s))).
      { intros act h St. destruct act; cbn [step] in St.
        - destruct (is_add o); [discriminate|]. unfold enq in St. rewrite Hst in St. inversion St; subst. auto 10.
        - destruct (find_l l (ls (fh (f2 s)))); [discriminate|]. unfold enq in St. cbn [set_ls stopped] in St. rewrite Hst in St.
          inversion St; subst. cbn. auto 10.
        - destruct (find_l l (ls (fh (f2 s)))) as [x|]; [|discriminate]. destruct (lclosed x); inversion St; subst; cbn; auto 10.
        - destruct (find_l l (ls (fh (f2 s)))) as [x|]; [|discriminate]. destruct (lrm x); [|discriminate].
          unfold enq in St. cbn [set_ls stopped] in St. rewrite Hst in St. inversion St; subst. cbn. auto 10.
        - destruct (find_l l (ls (fh (f2 s)))) as [x|]; [|discriminate]. destruct (l_take x); [|discriminate].
          inversion St; subst. cbn. auto 10.
        - unfold hub_step in St. rewrite Hst in St. discriminate.
        - destruct (work (fh (f2 s))) eqn:W; [|discriminate]. inversion St; subst. cbn. rewrite ?W. auto 10. }
      destruct a as [a2| |tok]; cbn [fstep3] in E.
      - destruct a2 as [a1| m |]; cbn [fstep2] in E.
        + destruct (fstep c (f2 s) a1) as [x|] eqn:E1; [|discriminate]. inversion E; subst s1. cbn [f2].
          destruct a1; cbn [fstep] in E1.
          * inversion E1; subst. cbn. auto 10.
          * destruct (fb_running (f2 s)); [|discriminate]. destruct (fb_pend (f2 s)).
            -- inversion E1; subst. cbn. auto 10.
            -- destruct (step c (fh (f2 s)) (AEnq (ODispatch m))) as [h|] eqn:St; [|discriminate]. inversion E1; subst. cbn [fh]. eapply HS; eauto.
          * destruct (step c (fh (f2 s)) (ANew l k f fail)) as [h|] eqn:St; [|discriminate]. inversion E1; subst. cbn [fh]. eapply HS; eauto.
          * destruct (step c (fh (f2 s)) (AHub ch)) as [h|] eqn:St; [|discriminate]. inversion E1; subst. cbn [fh]. eapply HS; eauto.
          * destruct (step c (fh (f2 s)) (ATake l)) as [h|] eqn:St; [|discriminate]. inversion E1; subst. cbn [fh]. eapply HS; eauto.
        + inversion E; subst. cbn. auto 10.
        + destruct (fd_running s); [|discriminate]. destruct (fd_pend s).
          * inversion E; subst. cbn. auto 10.
          * destruct (step c (fh (f2 s)) (AEnq (ODelete m))) as [h|] eqn:St; [|discriminate]. inversion E; subst. cbn [f2 fh]. eapply HS; eauto.
      - destruct (step c (fh (f2 s)) AStop) as [h|] eqn:St; [|discriminate]. inversion E; subst. cbn [with_hub f2 fh]. eapply HS; eauto.
      - destruct (step c (fh (f2 s)) (AEnq (OSync tok))) as [h|] eqn:St; [|discriminate]. inversion E; subst. cbn [with_hub f2 fh]. eapply HS; eauto. }
    destruct X as (X1 & X2 & X3 & X4 & X5 & X6). destruct (IH s1 s' R X1) as (Y1 & Y2 & Y3 & Y4 & Y5 & Y6).
    repeat split; congruence.
Qed.

(** Non-vacuity: a monitor attached, three events emitted, one handed over and delivered, the hub
    stops, the rest is consumed, a late Sync returns; the monitor keeps what it had. *)
Example stop_demo :
  exists s l0,
    frun3 pinned_cfg (fed2_init 2)
      [F3 (F2 (FJoin 1 Mock [] None)); F3 (F2 (FHub true));
       F3 (F2 (FEmit (asm_msg 100))); F3 (F2 (FEmit (asm_msg 101))); F3 (F2EmitDel (asm_msg 100));
       F3 (F2 FDeliver); F3 (F2 (FHub true)); F3 (F2 (FHub true)); F3Stop;
       F3 (F2 FDeliver); F3 (F2 FDeliver); F3 F2DeliverDel; F3 F2DeliverDel; F3Sync 7; F3 (F2 (FEmit (asm_msg 102)))] = Some s /\
    stopped (fh (f2 s)) = true /\ find_l 1 (ls (fh (f2 s))) = Some l0 /\ lq l0 = [Stored (asm_msg 100)] /\
    fb_pend (f2 s) = [asm_msg 102] /\ fd_pend s = [].
Proof. eexists. eexists. split; [vm_compute; reflexivity|]. repeat split; vm_compute; reflexivity. Qed.

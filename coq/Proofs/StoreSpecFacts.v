(** Facts about the abstract store (StoreSpec) and the generic helpers of StoreSpecImpl. *)
From Coq Require Import List Arith Lia Sorted.
From IV Require Import Base.Bytes Base.BytesFacts Model.StoreSpec Model.StoreSpecImpl.
Import ListNotations.
Local Open Scope nat_scope.

(* ------------------------------------------------------------------ strings *)
Lemma str_eqb_neq a b : str_eqb a b = false <-> a <> b.
Proof.
  split.
  - intros H E. subst. rewrite str_eqb_refl in H. discriminate.
  - intros H. destruct (str_eqb a b) eqn:E; [|reflexivity]. apply str_eqb_eq in E. contradiction.
Qed.

Lemma str_eqb_sym a b : str_eqb a b = str_eqb b a.
Proof.
  destruct (str_eqb a b) eqn:E.
  - apply str_eqb_eq in E. subst. symmetry. apply str_eqb_refl.
  - apply str_eqb_neq in E. symmetry. apply str_eqb_neq. congruence.
Qed.

Ltac str_case a b :=
  let E := fresh "E" in
  destruct (str_eqb a b) eqn:E; [apply str_eqb_eq in E | pose proof (proj1 (str_eqb_neq _ _) E)].

(* ------------------------------------------------------------------ sorted lists *)
Section SS.
Context {A : Type} (R : A -> A -> Prop).

Lemma SS_app_inv a b : StronglySorted R (a ++ b) ->
  StronglySorted R a /\ StronglySorted R b /\ (forall x y, In x a -> In y b -> R x y).
Proof.
  induction a as [|h a IH]; simpl; intros H.
  - repeat split; [constructor | exact H | intros x y []].
  - apply StronglySorted_inv in H as [H1 H2]. destruct (IH H1) as [Ha [Hb Hab]].
    rewrite Forall_forall in H2.
    repeat split.
    + constructor; [exact Ha|]. apply Forall_forall. intros x Hx. apply H2. apply in_or_app. left; exact Hx.
    + exact Hb.
    + intros x y [Hx|Hx] Hy; [subst; apply H2; apply in_or_app; right; exact Hy | apply Hab; assumption].
Qed.

Lemma SS_app a b : StronglySorted R a -> StronglySorted R b -> (forall x y, In x a -> In y b -> R x y) ->
  StronglySorted R (a ++ b).
Proof.
  induction a as [|h a IH]; simpl; intros Ha Hb Hab; [exact Hb|].
  apply StronglySorted_inv in Ha as [H1 H2]. constructor.
  - apply IH; auto.
  - rewrite Forall_forall in *. intros x Hx. apply in_app_or in Hx as [Hx|Hx]; [apply H2; exact Hx | apply Hab; auto].
Qed.

Lemma SS_filter f l : StronglySorted R l -> StronglySorted R (filter f l).
Proof.
  induction l as [|h l IH]; simpl; intros H; [constructor|].
  apply StronglySorted_inv in H as [H1 H2]. destruct (f h).
  - constructor; [apply IH; exact H1|]. rewrite Forall_forall in *. intros x Hx. apply filter_In in Hx as [Hx _]. auto.
  - apply IH; exact H1.
Qed.

Lemma SS_skipn n l : StronglySorted R l -> StronglySorted R (skipn n l).
Proof.
  intros H. rewrite <- (firstn_skipn n l) in H. apply SS_app_inv in H. tauto.
Qed.
End SS.

Lemma SS_map {A B} (R : A -> A -> Prop) (R' : B -> B -> Prop) (h : A -> B) l :
  (forall a b, R a b -> R' (h a) (h b)) -> StronglySorted R l -> StronglySorted R' (map h l).
Proof.
  intros Hh. induction l as [|x l IH]; simpl; intros H; [constructor|].
  apply StronglySorted_inv in H as [H1 H2]. constructor; [auto|].
  rewrite Forall_forall in *. intros y Hy. apply in_map_iff in Hy as [z [<- Hz]]. auto.
Qed.

Lemma filter_filter_comm {A} (f g : A -> bool) l : filter f (filter g l) = filter g (filter f l).
Proof.
  induction l as [|x l IH]; simpl; [reflexivity|].
  destruct (g x) eqn:G, (f x) eqn:F; simpl; rewrite ?G, ?F, IH; reflexivity.
Qed.

Lemma filter_map_comm {A B} (f : B -> bool) (h : A -> B) l : filter f (map h l) = map h (filter (fun a => f (h a)) l).
Proof.
  induction l as [|x l IH]; simpl; [reflexivity|]. destruct (f (h x)); simpl; rewrite IH; reflexivity.
Qed.

Lemma filter_all_true {A} (f : A -> bool) l : (forall x, In x l -> f x = true) -> filter f l = l.
Proof.
  induction l as [|x l IH]; simpl; intros H; [reflexivity|].
  rewrite (H x (or_introl eq_refl)). f_equal. apply IH. intros y Hy. apply H. right; exact Hy.
Qed.

Lemma filter_all_false {A} (f : A -> bool) l : (forall x, In x l -> f x = false) -> filter f l = [].
Proof.
  induction l as [|x l IH]; simpl; intros H; [reflexivity|].
  rewrite (H x (or_introl eq_refl)). apply IH. intros y Hy. apply H. right; exact Hy.
Qed.

(* ------------------------------------------------------------------ name-keyed lists *)
Lemma bx_get_set_same {B} (d : B) mb b l : bx_get d mb (bx_set mb b l) = b.
Proof.
  induction l as [|[n b0] l IH]; simpl.
  - rewrite str_eqb_refl. reflexivity.
  - destruct (str_eqb mb n) eqn:E; simpl; rewrite E; [reflexivity | exact IH].
Qed.

Lemma bx_get_set_other {B} (d : B) mb mb' b l : mb <> mb' -> bx_get d mb' (bx_set mb b l) = bx_get d mb' l.
Proof.
  intros Hne. induction l as [|[n b0] l IH]; simpl.
  - assert (str_eqb mb' mb = false) as -> by (apply str_eqb_neq; congruence). reflexivity.
  - destruct (str_eqb mb n) eqn:E; simpl.
    + apply str_eqb_eq in E. subst n.
      assert (str_eqb mb' mb = false) as -> by (apply str_eqb_neq; congruence). reflexivity.
    + destruct (str_eqb mb' n); [reflexivity | exact IH].
Qed.

Lemma bx_set_names_in {B} mb (b : B) l : In mb (map fst l) -> map fst (bx_set mb b l) = map fst l.
Proof.
  induction l as [|[n b0] l IH]; simpl; intros H; [contradiction|].
  destruct (str_eqb mb n) eqn:E; simpl; [reflexivity|].
  f_equal. apply IH. destruct H as [H|H]; [|exact H]. subst n. rewrite str_eqb_refl in E. discriminate.
Qed.

Lemma bx_set_names_notin {B} mb (b : B) l : ~ In mb (map fst l) -> map fst (bx_set mb b l) = map fst l ++ [mb].
Proof.
  induction l as [|[n b0] l IH]; simpl; intros H; [reflexivity|].
  destruct (str_eqb mb n) eqn:E; simpl.
  - apply str_eqb_eq in E. subst. exfalso. apply H. left; reflexivity.
  - f_equal. apply IH. intros Hin. apply H. right; exact Hin.
Qed.

Lemma bx_get_in {B} (d : B) n b l : NoDup (map fst l) -> In (n, b) l -> bx_get d n l = b.
Proof.
  induction l as [|[n0 b0] l IH]; simpl; intros Hnd Hin; [contradiction|].
  inversion Hnd as [|? ? Hni Hnd']; subst.
  destruct Hin as [Hin|Hin].
  - inversion Hin; subst. rewrite str_eqb_refl. reflexivity.
  - destruct (str_eqb n n0) eqn:E; [|auto].
    apply str_eqb_eq in E. subst. exfalso. apply Hni. apply in_map_iff. exists (n0, b). split; [reflexivity | exact Hin].
Qed.

Lemma count_bump_same mb c : count_of mb (bump mb c) = S (count_of mb c).
Proof.
  induction c as [|[n k] c IH]; simpl.
  - rewrite str_eqb_refl. reflexivity.
  - destruct (str_eqb mb n) eqn:E; simpl; rewrite E; [reflexivity | exact IH].
Qed.

Lemma count_bump_other mb mb' c : mb <> mb' -> count_of mb' (bump mb c) = count_of mb' c.
Proof.
  intros Hne. induction c as [|[n k] c IH]; simpl.
  - assert (str_eqb mb' mb = false) as -> by (apply str_eqb_neq; congruence). reflexivity.
  - destruct (str_eqb mb n) eqn:E; simpl.
    + apply str_eqb_eq in E. subst n.
      assert (str_eqb mb' mb = false) as -> by (apply str_eqb_neq; congruence). reflexivity.
    + destruct (str_eqb mb' n); [reflexivity | exact IH].
Qed.

Lemma count_zero_notin mb c : ~ In mb (map fst c) -> count_of mb c = 0.
Proof.
  induction c as [|[n k] c IH]; simpl; intros H; [reflexivity|].
  destruct (str_eqb mb n) eqn:E.
  - apply str_eqb_eq in E. subst. exfalso. apply H. left; reflexivity.
  - apply IH. intros Hin. apply H. right; exact Hin.
Qed.

Lemma bump_names_in mb c : In mb (map fst c) -> map fst (bump mb c) = map fst c.
Proof.
  induction c as [|[n k] c IH]; simpl; intros H; [contradiction|].
  destruct (str_eqb mb n) eqn:E; simpl; [reflexivity|].
  f_equal. apply IH. destruct H as [H|H]; [|exact H]. subst n. rewrite str_eqb_refl in E. discriminate.
Qed.

Lemma bump_names_notin mb c : ~ In mb (map fst c) -> map fst (bump mb c) = map fst c ++ [mb].
Proof.
  induction c as [|[n k] c IH]; simpl; intros H; [reflexivity|].
  destruct (str_eqb mb n) eqn:E; simpl.
  - apply str_eqb_eq in E. subst. exfalso. apply H. left; reflexivity.
  - f_equal. apply IH. intros Hin. apply H. right; exact Hin.
Qed.

(* ------------------------------------------------------------------ boxes *)
Lemma ent_in_eq mb e : ent_in mb e = true <-> e_mb e = mb.
Proof. unfold ent_in. rewrite str_eqb_eq. split; congruence. Qed.

Lemma ent_in_neq mb e : ent_in mb e = false <-> e_mb e <> mb.
Proof. unfold ent_in. rewrite str_eqb_neq. split; congruence. Qed.

Lemma box_app mb l1 l2 : box mb (l1 ++ l2) = box mb l1 ++ box mb l2.
Proof. apply filter_app. Qed.

Lemma box_in mb e l : In e (box mb l) <-> In e l /\ e_mb e = mb.
Proof. unfold box. rewrite filter_In, ent_in_eq. tauto. Qed.

Lemma box_filter mb f l : box mb (filter f l) = filter f (box mb l).
Proof. unfold box. apply filter_filter_comm. Qed.

Lemma box_box mb l : box mb (box mb l) = box mb l.
Proof. apply filter_all_true. intros x Hx. apply box_in in Hx as [_ Hx]. apply ent_in_eq. exact Hx. Qed.

Lemma box_box_other mb mb' l : mb <> mb' -> box mb' (box mb l) = [].
Proof.
  intros Hne. apply filter_all_false. intros x Hx. apply box_in in Hx as [_ Hx]. apply ent_in_neq. congruence.
Qed.

Definition klt (a b : entry) : Prop := e_k a < e_k b.

(** The invariant of reachable abstract stores: within a mailbox handle numbers increase
    strictly along the arrival order (so they are unique), and every live message's handle
    number is below its mailbox's add counter. *)
Definition SInv (st : spec_store) : Prop :=
  (forall mb, StronglySorted klt (box mb (live st))) /\
  (forall e, In e (live st) -> e_k e < count_of (e_mb e) (counts st)).

Lemma SInv_init : SInv spec_init.
Proof. split; simpl; [intros; constructor | intros e []]. Qed.

(* drop_oldest *)
Lemma drop_oldest_spec mb n l :
  let '(d, r) := drop_oldest mb n l in
  d = firstn n (box mb l) /\ box mb r = skipn n (box mb l) /\
  (forall mb', mb' <> mb -> box mb' r = box mb' l) /\
  (forall e, In e r -> In e l).
Proof.
  revert n. induction l as [|e l IH]; intros n; simpl.
  - destruct n; simpl; repeat split; auto.
  - destruct n as [|n]; simpl.
    + repeat split; auto.
    + destruct (ent_in mb e) eqn:E.
      * specialize (IH n). destruct (drop_oldest mb n l) as [d r]. destruct IH as [H1 [H2 [H3 H4]]].
        simpl. repeat split; [f_equal; exact H1 | exact H2 | | intros x Hx; right; auto].
        intros mb' Hne. simpl. apply ent_in_eq in E.
        assert (ent_in mb' e = false) as -> by (apply ent_in_neq; congruence). auto.
      * specialize (IH (S n)). destruct (drop_oldest mb (S n) l) as [d r]. destruct IH as [H1 [H2 [H3 H4]]].
        simpl. rewrite E. repeat split; [exact H1 | exact H2 | | intros x [Hx|Hx]; [left; exact Hx | right; auto]].
        intros mb' Hne. simpl. destruct (ent_in mb' e); [f_equal|]; auto.
Qed.

(* evict_fit *)
Lemma evict_fit_spec max l :
  let '(d, r) := evict_fit max l in
  l = d ++ r /\ (total r <= max)%N /\
  (forall d' r', l = d' ++ r' -> (total r' <= max)%N -> length d <= length d').
Proof.
  induction l as [|e l IH].
  - simpl. repeat split; [lia | intros; simpl; lia].
  - cbn [evict_fit]. destruct (total (e :: l) <=? max)%N eqn:E.
    + apply N.leb_le in E. repeat split; [exact E | intros; simpl; lia].
    + apply N.leb_gt in E. destruct (evict_fit max l) as [d r]. destruct IH as [H1 [H2 H3]].
      repeat split; [simpl; f_equal; exact H1 | exact H2 |].
      intros d' r' Hl Hr. destruct d' as [|x d'].
      * simpl in Hl. subst r'. lia.
      * simpl in Hl. inversion Hl; subst. simpl. apply le_n_S. eapply H3; eauto.
Qed.

(* ------------------------------------------------------------------ the list invariant *)
Definition LInv (c : list (str * nat)) (l : list entry) : Prop :=
  (forall mb, StronglySorted klt (box mb l)) /\ (forall e, In e l -> e_k e < count_of (e_mb e) c).

Lemma SInv_LInv st : SInv st <-> LInv (counts st) (live st).
Proof. reflexivity. Qed.

Lemma LInv_suffix c d r : LInv c (d ++ r) -> LInv c r.
Proof.
  intros [H1 H2]. split.
  - intros mb. specialize (H1 mb). rewrite box_app in H1. apply SS_app_inv in H1. tauto.
  - intros e He. apply H2. apply in_or_app. right; exact He.
Qed.

Lemma LInv_filter c f l : LInv c l -> LInv c (filter f l).
Proof.
  intros [H1 H2]. split.
  - intros mb. rewrite box_filter. apply SS_filter. apply H1.
  - intros e He. apply filter_In in He as [He _]. auto.
Qed.

Lemma LInv_drop c mb n l : LInv c l -> LInv c (snd (drop_oldest mb n l)).
Proof.
  intros [H1 H2]. pose proof (drop_oldest_spec mb n l) as H. destruct (drop_oldest mb n l) as [d r].
  destruct H as [_ [Ha [Hb Hc]]]. simpl. split.
  - intros mb'. destruct (list_eq_dec N.eq_dec mb' mb) as [->|Hne].
    + rewrite Ha. apply SS_skipn. apply H1.
    + rewrite Hb by exact Hne. apply H1.
  - intros e He. auto.
Qed.

Lemma LInv_snoc c l mb m :
  LInv c l -> LInv (bump mb c) (l ++ [{| e_mb := mb; e_k := count_of mb c; e_msg := m |}]).
Proof.
  intros [H1 H2]. split.
  - intros mb'. rewrite box_app. apply SS_app; [apply H1 | |].
    + simpl. destruct (ent_in mb' _); repeat constructor.
    + intros x y Hx Hy. simpl in Hy. destruct (ent_in mb' _) eqn:E; [|contradiction].
      destruct Hy as [<-|[]]. apply ent_in_eq in E. simpl in E. subst mb'.
      apply box_in in Hx as [Hx Hm]. unfold klt. simpl. specialize (H2 x Hx). rewrite Hm in H2. exact H2.
  - intros e He. apply in_app_or in He as [He|[<-|[]]].
    + specialize (H2 e He). destruct (list_eq_dec N.eq_dec mb (e_mb e)) as [->|Hne].
      * rewrite count_bump_same. lia.
      * rewrite count_bump_other by exact Hne. exact H2.
    + simpl. rewrite count_bump_same. lia.
Qed.

Lemma LInv_map c h l :
  (forall e, e_mb (h e) = e_mb e /\ e_k (h e) = e_k e) -> LInv c l -> LInv c (map h l).
Proof.
  intros Hh [H1 H2]. split.
  - intros mb. unfold box. rewrite filter_map_comm.
    assert (filter (fun a => ent_in mb (h a)) l = box mb l) as ->.
    { unfold box. apply filter_ext. intros a. unfold ent_in. destruct (Hh a) as [-> _]. reflexivity. }
    eapply SS_map; [|apply H1]. intros a b. unfold klt. destruct (Hh a) as [_ ->], (Hh b) as [_ ->]. auto.
  - intros e He. apply in_map_iff in He as [x [<- Hx]]. destruct (Hh x) as [-> ->]. auto.
Qed.

(** Result of a delivery, step by step. *)
Definition add_l1 (st : spec_store) mb m := live st ++ [{| e_mb := mb; e_k := count_of mb (counts st); e_msg := m |}].
Definition add_cap (cfg : scfg) mb (l1 : list entry) : list entry * list entry :=
  if Nat.eqb (c_cap cfg) 0 then ([], l1) else drop_oldest mb (length (box mb l1) - c_cap cfg) l1.
Definition add_fit (cfg : scfg) (l2 : list entry) : list entry * list entry :=
  if (c_max cfg =? 0)%N then ([], l2) else evict_fit (c_max cfg) l2.

Lemma spec_add_unfold cfg st mb m :
  spec_add cfg st mb m =
  (let l1 := add_l1 st mb m in
   let '(d1, l2) := add_cap cfg mb l1 in
   let '(d2, l3) := add_fit cfg l2 in
   ({| live := l3; counts := bump mb (counts st) |}, count_of mb (counts st),
    map ev_deleted d1 ++ map ev_deleted d2 ++ [(EStored, mb, count_of mb (counts st))])).
Proof. reflexivity. Qed.

Lemma add_fit_split cfg l2 : let '(d2, l3) := add_fit cfg l2 in l2 = d2 ++ l3.
Proof.
  unfold add_fit. destruct (c_max cfg =? 0)%N; [reflexivity|].
  pose proof (evict_fit_spec (c_max cfg) l2) as H. destruct (evict_fit (c_max cfg) l2). tauto.
Qed.

Lemma spec_add_LInv cfg st mb m :
  SInv st -> SInv (fst (fst (spec_add cfg st mb m))).
Proof.
  intros H. rewrite spec_add_unfold. cbv zeta.
  pose proof (LInv_snoc _ _ mb m H) as H1. fold (add_l1 st mb m) in H1.
  assert (LInv (bump mb (counts st)) (snd (add_cap cfg mb (add_l1 st mb m)))) as H2.
  { unfold add_cap. destruct (Nat.eqb (c_cap cfg) 0); [exact H1 | apply LInv_drop; exact H1]. }
  destruct (add_cap cfg mb (add_l1 st mb m)) as [d1 l2]. simpl in H2.
  pose proof (add_fit_split cfg l2) as H3. destruct (add_fit cfg l2) as [d2 l3]. subst l2.
  simpl. apply LInv_suffix in H2. exact H2.
Qed.

Lemma set_seen_keeps mb k e :
  let e' := (if is_ent mb k e then {| e_mb := e_mb e; e_k := e_k e; e_msg := msg_set_seen (e_msg e) |} else e) in
  e_mb e' = e_mb e /\ e_k e' = e_k e.
Proof. destruct (is_ent mb k e); simpl; auto. Qed.

Lemma exec_spec_SInv cfg st o : SInv st -> SInv (fst (fst (exec_spec cfg st o))).
Proof.
  intros H. destruct o as [mb date tag size|mb h|mb|mb h|mb h|mb|]; simpl.
  - pose proof (spec_add_LInv cfg st mb {| m_date := date; m_tag := tag; m_size := size; m_seen := false |} H) as H'.
    destruct (spec_add cfg st mb _) as [[st' k] evs]. exact H'.
  - destruct h; exact H.
  - exact H.
  - destruct (find_h mb h (live st)); [|exact H]. simpl. apply SInv_LInv. simpl.
    unfold set_seen. apply LInv_map; [intros e0; apply set_seen_keeps | exact H].
  - destruct (find_h mb h (live st)); [|exact H]. simpl. apply SInv_LInv. simpl. apply LInv_filter. exact H.
  - apply SInv_LInv. simpl. apply LInv_filter. exact H.
  - exact H.
Qed.

Lemma final_spec_SInv cfg ops : forall st, SInv st -> SInv (final_spec cfg st ops).
Proof.
  induction ops as [|o ops IH]; intros st H; simpl; [exact H|].
  pose proof (exec_spec_SInv cfg st o H) as H'. destruct (exec_spec cfg st o) as [[st' ob] evs]. apply IH. exact H'.
Qed.

(** The concrete index codec round-trips: the codec hypothesis of the C10/C11 theorems is satisfiable. *)
From IV Require Import Base.Bytes Model.FileDisk Model.FileDiskCodec.
From Coq Require Import List NArith Bool Lia.
Import ListNotations.

Lemma firstn_len_app {A} (s r : list A) : firstn (length s) (s ++ r) = s.
Proof. induction s; simpl; auto. f_equal; auto. Qed.
Lemma skipn_len_app {A} (s r : list A) : skipn (length s) (s ++ r) = r.
Proof. induction s; simpl; auto. Qed.

Lemma dec_enc_str s r : dec_str (enc_str s ++ r) = Some (s, r).
Proof.
  unfold dec_str, enc_str. simpl. rewrite Nat2N.id.
  rewrite firstn_len_app, skipn_len_app, Nat.eqb_refl. auto.
Qed.

Lemma dec_enc_meta m r : dec_meta (enc_meta m ++ r) = Some (m, r).
Proof.
  destruct m as [id info sz seen]. unfold dec_meta, enc_meta. simpl m_id; simpl m_info; simpl m_size; simpl m_seen.
  rewrite <- !app_assoc. rewrite dec_enc_str. rewrite dec_enc_str. simpl.
  destruct seen; simpl; auto.
Qed.

Lemma enc_meta_cons m : exists x l, enc_meta m = x :: l.
Proof. destruct m. unfold enc_meta, enc_str. simpl. eauto. Qed.

Lemma dec_enc_metas ms : forall fuel, (length ms <= fuel)%nat -> dec_metas fuel (flat_map enc_meta ms) = Some ms.
Proof.
  induction ms as [|m ms IH]; intros fuel H.
  - destruct fuel; reflexivity.
  - destruct fuel as [|f]; [simpl in H; lia|].
    assert (Hd := dec_enc_meta m (flat_map enc_meta ms)).
    change (flat_map enc_meta (m :: ms)) with (enc_meta m ++ flat_map enc_meta ms).
    destruct (enc_meta m ++ flat_map enc_meta ms) as [|x l] eqn:E.
    + exfalso. destruct (enc_meta_cons m) as [x [l E']]. rewrite E' in E. discriminate.
    + cbn [dec_metas]. rewrite Hd. rewrite IH; auto. simpl in H; lia.
Qed.

Lemma flat_map_len ms : (length ms <= length (flat_map enc_meta ms))%nat.
Proof.
  induction ms as [|m ms IH]; [simpl; auto|].
  change (flat_map enc_meta (m :: ms)) with (enc_meta m ++ flat_map enc_meta ms).
  destruct (enc_meta_cons m) as [x [l E]]. rewrite E. simpl. rewrite app_length. lia.
Qed.

Theorem dec_enc_index i : dec_index (enc_index i) = Some i.
Proof.
  destruct i as [nm ms]. unfold dec_index, enc_index. simpl fst; simpl snd.
  rewrite dec_enc_str. rewrite dec_enc_metas; auto. apply flat_map_len.
Qed.

(** The ordered map of mailboxes that the C10/C11 theorems of the disk model are stated over IS
    StoreSpec's abstract store: abstraction from the disk (listing order, ids, seen flags, sizes) to a
    [spec_store], and the simulation of every completed operation. Part 1: the abstraction and what each
    operation does to a mailbox's index, in the vocabulary of Model/StoreSpecImpl.v. *)
From IV Require Import Base.Bytes Base.BytesFacts Model.FileDisk Proofs.FileDiskMap Proofs.FileDiskInv Proofs.FileDiskSteps Proofs.FileDiskOps Proofs.FileDiskCrash Proofs.FileDiskHistory.
From IV Require Import Model.StoreSpec Model.StoreSpecImpl Proofs.StoreSpecFacts Proofs.StoreSpecRefine.
From Coq Require Import List NArith ZArith Bool Lia Arith.
Import ListNotations.
Local Open Scope nat_scope.

Notation al_find' := (al_find str str_eqb).
Notation al_remove' := (al_remove str str_eqb).
Notation al_seen' := (al_seen str str_eqb).

Lemma msg_set_seen_id (m : msg) : StoreSpec.m_seen m = true -> msg_set_seen m = m.
Proof. destruct m; simpl; intros ->; reflexivity. Qed.

Section Abs.
  (** How a delivery of the specification — (date, tag, size), the tag standing for the whole of
      from/to/subject/body — is presented to the disk model, and read back: NAMED HYPOTHESES
      [info_date], [info_tag], [body_len] (the driver's encoding of a message descriptor is injective). *)
  Variable info_of : Z -> N -> str.
  Variable body_of : N -> N -> str.
  Variable date_of : str -> Z.
  Variable tag_of : str -> N.
  Hypothesis info_date : forall d t, date_of (info_of d t) = d.
  Hypothesis info_tag : forall d t, tag_of (info_of d t) = t.
  Hypothesis body_len : forall t s, N.of_nat (length (body_of t s)) = s.

  Definition msg_of (m : meta) : msg :=
    {| m_date := date_of (m_info m); m_tag := tag_of (m_info m); StoreSpec.m_size := FileDisk.m_size m;
       StoreSpec.m_seen := FileDisk.m_seen m |}.

  (** one listing entry of the disk model as (id, message) *)
  Definition conv (e : amsg) : str * msg := (m_id (v_meta e), msg_of (v_meta e)).

  Lemma conv_mark i v : map conv (v_mark i v) = al_seen' i (map conv v).
  Proof.
    induction v as [|[[nm m] c] r IH]; simpl; auto.
    unfold conv, v_meta; simpl. rewrite (str_eqb_sym i (m_id m)).
    destruct (str_eqb (m_id m) i); simpl; [|f_equal; apply IH].
    f_equal.
  Qed.

  Lemma conv_remove i v : map conv (v_remove i v) = al_remove' i (map conv v).
  Proof.
    induction v as [|[[nm m] c] r IH]; simpl; auto.
    unfold conv, v_meta; simpl. rewrite (str_eqb_sym i (m_id m)).
    destruct (str_eqb (m_id m) i); simpl; [auto | f_equal; apply IH].
  Qed.

  Lemma conv_find i v :
    al_find' i (map conv v) = option_map msg_of (find_id i (map v_meta v)).
  Proof.
    induction v as [|[[nm m] c] r IH]; simpl; auto.
    unfold conv, v_meta; simpl. rewrite (str_eqb_sym i (m_id m)).
    destruct (str_eqb (m_id m) i); simpl; auto.
  Qed.

  Lemma conv_has i v : FileDisk.has_id i (map v_meta v) = match al_find' i (map conv v) with Some _ => true | None => false end.
  Proof.
    induction v as [|[[nm m] c] r IH]; simpl; auto.
    unfold conv, v_meta; simpl. rewrite (str_eqb_sym i (m_id m)).
    destruct (str_eqb (m_id m) i); simpl; auto.
  Qed.

  Lemma conv_ids v : map fst (map conv v) = map m_id (map v_meta v).
  Proof. rewrite !map_map. reflexivity. Qed.

  Lemma al_seen_seen i (l : list (str * msg)) m :
    al_find' i l = Some m -> StoreSpec.m_seen m = true -> al_seen' i l = l.
  Proof.
    induction l as [|[j x] r IH]; simpl; [discriminate|]. destruct (str_eqb i j).
    - intros H Hs. inversion H; subst. rewrite msg_set_seen_id; auto.
    - intros H Hs. f_equal. auto.
  Qed.

  Section Store.
    Variable enc : index -> str.
    Variable dec : str -> option index.
    Hypothesis dec_enc : forall i, dec (enc i) = Some i.
    (** mailbox directories: NAMED HYPOTHESIS [hash_inj] — HashMailboxName (SHA-1) does not collide on
        the names in use; the specification keys mailboxes by name, the disk by hash *)
    Variable hash : str -> str.
    Hypothesis hash_inj : forall a b, hash a = hash b -> a = b.
    Variable cap : nat.

    Notation reach := (reach enc dec hash cap).
    Notation exec := (FileDisk.exec enc dec hash cap).
    Notation result_of := (FileDisk.result_of dec hash cap).
    Notation dview := (FileDisk.view dec).

    Definition vw (d : disk) (mb : str) : aview :=
      match dview d (hash mb) with Some v => v | None => [] end.

    (** the index of mailbox [mb] as the specification's runner sees it *)
    Definition ix (d : disk) (mb : str) : list (str * msg) := map conv (vw d mb).

    Lemma vw_view d mb : reach d -> dview d (hash mb) = Some (vw d mb).
    Proof.
      intros Hr. unfold vw. destruct (dview d (hash mb)) eqn:E; auto.
      exfalso. eapply (Inv_view dec); [eapply reach_Inv; eauto | eauto].
    Qed.

    Lemma vw_exec d o mb : reach d -> hash mb = mailbox_of hash o ->
      vw (exec o d) mb = aexec_view cap o (vw d mb).
    Proof.
      intros Hr Hm. pose proof (vw_view d mb Hr) as Hv. rewrite Hm in Hv.
      destruct (ops_refine_ordered_map enc dec dec_enc hash cap d o _ Hr Hv) as [A _].
      unfold vw at 1. rewrite Hm, A. reflexivity.
    Qed.

    Lemma vw_exec_other d o mb : reach d -> hash mb <> mailbox_of hash o -> vw (exec o d) mb = vw d mb.
    Proof.
      intros Hr Hm. pose proof (vw_view d (op_mailbox o) Hr) as Hv.
      destruct (ops_refine_ordered_map enc dec dec_enc hash cap d o _ Hr Hv) as [_ B].
      unfold vw. rewrite B; auto.
    Qed.

    Lemma read_index_vw d mb : reach d ->
      exists nm, read_index dec d (hash mb) mb = Some (nm, map v_meta (vw d mb)).
    Proof.
      intros Hr. pose proof (reach_Inv enc dec dec_enc hash cap d Hr) as HI.
      destruct (read_index_ok dec d (hash mb) mb HI) as [nm [ms Hri]]. exists nm. rewrite Hri. f_equal. f_equal.
      assert (HL : Loaded dec d (hash mb) nm ms) by (eapply read_index_Loaded; eauto; apply HI).
      unfold vw. rewrite (view_Loaded dec d _ nm ms HL). symmetry. apply mkview_meta.
    Qed.

    (** ** what each operation answers and does to the index *)
    Lemma seen_result d mb i : reach d ->
      result_of (FileDisk.Seen mb i) d = match al_find' i (ix d mb) with Some _ => ROk | None => RNotExist end.
    Proof.
      intros Hr. destruct (read_index_vw d mb Hr) as [nm Hri]. unfold FileDisk.result_of. cbn [op_mailbox].
      rewrite Hri. unfold ix. rewrite conv_find. destruct (find_id i (map v_meta (vw d mb))); reflexivity.
    Qed.

    Lemma seen_ix d mb i m : reach d -> al_find' i (ix d mb) = Some m ->
      ix (exec (FileDisk.Seen mb i) d) mb = al_seen' i (ix d mb).
    Proof.
      intros Hr Hf. unfold ix at 1. rewrite (vw_exec d (FileDisk.Seen mb i) mb Hr eq_refl).
      unfold aexec_view. unfold ix in Hf. rewrite conv_find in Hf.
      destruct (find_id i (map v_meta (vw d mb))) as [m0|] eqn:E; [|discriminate].
      destruct (FileDisk.m_seen m0) eqn:Es.
      - symmetry. apply (al_seen_seen i _ m).
        + unfold ix. rewrite conv_find, E. exact Hf.
        + simpl in Hf. inversion Hf; subst. exact Es.
      - apply conv_mark.
    Qed.

    Lemma remove_result d mb i : reach d ->
      result_of (FileDisk.Remove mb i) d = match al_find' i (ix d mb) with Some _ => ROk | None => RNotExist end.
    Proof.
      intros Hr. destruct (read_index_vw d mb Hr) as [nm Hri]. unfold FileDisk.result_of. cbn [op_mailbox].
      rewrite Hri. rewrite conv_has. unfold ix. destruct (al_find' i (map conv (vw d mb))); reflexivity.
    Qed.

    Lemma remove_ix d mb i m : reach d -> al_find' i (ix d mb) = Some m ->
      ix (exec (FileDisk.Remove mb i) d) mb = al_remove' i (ix d mb).
    Proof.
      intros Hr Hf. unfold ix at 1. rewrite (vw_exec d (FileDisk.Remove mb i) mb Hr eq_refl).
      unfold aexec_view. rewrite conv_has. unfold ix in Hf. rewrite Hf. apply conv_remove.
    Qed.

    Lemma purge_ix d mb : reach d -> ix (exec (FileDisk.Purge mb) d) mb = [].
    Proof. intros Hr. unfold ix. rewrite (vw_exec d (FileDisk.Purge mb) mb Hr eq_refl). reflexivity. Qed.

    Lemma other_ix d o mb : reach d -> mb <> op_mailbox o -> ix (exec o d) mb = ix d mb.
    Proof.
      intros Hr Hne. unfold ix. rewrite vw_exec_other; [reflexivity | exact Hr |]. unfold mailbox_of. intros E. apply hash_inj in E. auto.
    Qed.

    Lemma add_result d mb info body cands : reach d ->
      result_of (FileDisk.Add mb info body cands) d =
      match pick_id cands (skipn (evict_count cap (length (ix d mb))) (map v_meta (vw d mb))) with
      | Some i => RId i | None => RSpin end.
    Proof.
      intros Hr. destruct (read_index_vw d mb Hr) as [nm Hri]. unfold FileDisk.result_of. cbn [op_mailbox].
      rewrite Hri. unfold ix. rewrite !map_length. reflexivity.
    Qed.

    Lemma add_ix d mb date tag size cands i : reach d ->
      result_of (FileDisk.Add mb (info_of date tag) (body_of tag size) cands) d = RId i ->
      ix (exec (FileDisk.Add mb (info_of date tag) (body_of tag size) cands) d) mb =
      skipn (evict_count cap (length (ix d mb))) (ix d mb) ++
        [(i, {| m_date := date; m_tag := tag; StoreSpec.m_size := size; StoreSpec.m_seen := false |})] /\
      ~ In i (map fst (skipn (evict_count cap (length (ix d mb))) (ix d mb))).
    Proof.
      intros Hr Hres. rewrite add_result in Hres by exact Hr.
      unfold ix in *. rewrite map_length in *.
      rewrite (vw_exec d (FileDisk.Add mb (info_of date tag) (body_of tag size) cands) mb Hr eq_refl).
      set (v := vw d mb) in *. set (n := evict_count cap (length v)) in *.
      destruct (pick_id cands (skipn n (map v_meta v))) as [j|] eqn:E; [|discriminate]. inversion Hres; subst j.
      unfold aexec_view. cbv zeta. fold n. rewrite map_skipn, E. split.
      - rewrite map_app, map_skipn. f_equal. simpl. unfold conv, v_meta, msg_of, new_meta. simpl.
        rewrite info_date, info_tag, body_len. reflexivity.
      - rewrite <- map_skipn, conv_ids, map_skipn. eapply pick_id_fresh; eauto.
    Qed.
  End Store.
End Abs.

(** C15: the theorems about the hub/listener model, from the invariant of Proofs/HubInv. *)
From Coq Require Import Lia.
From IV Require Import Base.Bytes Model.Hub Proofs.HubBasics Proofs.HubInv.
Local Open Scope nat_scope.

(** * Every healthy listener holds exactly its entitlement, once and in order *)

(** What a listener has got so far ([lout]: already written to its socket; [lq]: waiting in its
    queue) followed by the listener calls still to come in the op the hub is running is, in
    this order, exactly the stream the spec entitles it to for the ops the hub has started. *)
Theorem each_event_once_in_order :
  forall n c acts h l s,
    run c (hub_init n) acts = Some h ->
    find_l l (ls h) = Some s -> lclosed s = false -> lerred s = false ->
    lout s ++ lq s ++ pend l s (work h) = expected n (lk s) (lf s) l (hlog h).
Proof.
  intros n c acts h l s R F C E. apply reachable_inv in R.
  destruct (inv_stream n h R l s F (conj C E)) as [A _]. exact A.
Qed.

(** With the hub between two ops nothing is outstanding. *)
Corollary each_event_once_in_order_at_rest :
  forall n c acts h l s,
    run c (hub_init n) acts = Some h -> work h = [] ->
    find_l l (ls h) = Some s -> lclosed s = false -> lerred s = false ->
    lout s ++ lq s = expected n (lk s) (lf s) l (hlog h).
Proof.
  intros n c acts h l s R W F C E. rewrite <- (each_event_once_in_order n c acts h l s R F C E).
  rewrite W. unfold pend. cbn. rewrite app_nil_r. reflexivity.
Qed.

(** The hub runs the ops in the order in which they were submitted (FIFO op queue):
    [hlog ++ opq] is the list of submissions made before shutdown. *)
Fixpoint submitted (acts : list action) : list op :=
  match acts with
  | [] => []
  | AStop :: _ => []
  | AEnq o :: t => o :: submitted t
  | ANew l _ _ _ :: t => OAdd l :: submitted t
  | ARm l :: t => ORemove l :: submitted t
  | _ :: t => submitted t
  end.

Lemma stopped_stays c acts : forall h h', run c h acts = Some h' -> stopped h = true ->
  stopped h' = true /\ hlog h' ++ opq h' = hlog h ++ opq h.
Proof.
  induction acts as [|a t IH]; intros h h' R S; cbn [run] in R.
  - inversion R; subst. auto.
  - destruct (step c h a) as [h1|] eqn:E; [|discriminate].
    assert (stopped h1 = true /\ hlog h1 ++ opq h1 = hlog h ++ opq h) as [S1 L1].
    { destruct a; cbn [step] in E.
      - destruct (is_add o); [discriminate|]. unfold enq in E. rewrite S in E. inversion E; subst; auto.
      - destruct (find_l l (ls h)); [discriminate|]. unfold enq in E. cbn [set_ls stopped] in E. rewrite S in E.
        inversion E; subst; auto.
      - destruct (find_l l (ls h)) as [s|]; [|discriminate]. destruct (lclosed s); inversion E; subst; auto.
      - destruct (find_l l (ls h)) as [s|]; [|discriminate]. destruct (lrm s); [|discriminate].
        unfold enq in E. cbn [set_ls stopped] in E. rewrite S in E. inversion E; subst; auto.
      - destruct (find_l l (ls h)) as [s|]; [|discriminate]. destruct (l_take s); [|discriminate].
        inversion E; subst; auto.
      - unfold hub_step in E. rewrite S in E. discriminate.
      - destruct (work h); [|discriminate]. inversion E; subst; auto. }
    destruct (IH h1 h' R S1) as [S2 L2]. split; auto. congruence.
Qed.

Lemma fifo_gen c acts : forall h h', run c h acts = Some h' -> stopped h = false ->
  hlog h' ++ opq h' = hlog h ++ opq h ++ submitted acts.
Proof.
  induction acts as [|a t IH]; intros h h' R S; cbn [run] in R.
  - inversion R; subst. cbn. rewrite app_nil_r. reflexivity.
  - destruct (step c h a) as [h1|] eqn:E; [|discriminate].
    destruct a; cbn [step] in E; cbn [submitted].
    + destruct (is_add o); [discriminate|]. unfold enq in E. rewrite S in E.
      destruct (length (opq h) <? opcap c); [|discriminate]. inversion E; subst h1; clear E.
      rewrite (IH _ _ R) by (cbn; auto). cbn [set_opq hlog opq]. rewrite <- !app_assoc. reflexivity.
    + destruct (find_l l (ls h)); [discriminate|]. unfold enq in E. cbn [set_ls stopped opq] in E. rewrite S in E.
      destruct (length (opq h) <? opcap c); [|discriminate]. inversion E; subst h1; clear E.
      rewrite (IH _ _ R) by (cbn; auto). cbn [set_opq set_ls hlog opq]. rewrite <- !app_assoc. reflexivity.
    + destruct (find_l l (ls h)) as [s|]; [|discriminate].
      destruct (lclosed s); inversion E; subst h1; clear E; rewrite (IH _ _ R) by (cbn; auto); reflexivity.
    + destruct (find_l l (ls h)) as [s|]; [|discriminate]. destruct (lrm s); [|discriminate].
      unfold enq in E. cbn [set_ls stopped opq] in E. rewrite S in E.
      destruct (length (opq h) <? opcap c); [|discriminate]. inversion E; subst h1; clear E.
      rewrite (IH _ _ R) by (cbn; auto). cbn [set_opq set_ls hlog opq]. rewrite <- !app_assoc. reflexivity.
    + destruct (find_l l (ls h)) as [s|]; [|discriminate]. destruct (l_take s); [|discriminate].
      inversion E; subst h1; clear E. rewrite (IH _ _ R) by (cbn; auto). reflexivity.
    + unfold hub_step in E. rewrite S in E. destruct (work h) as [|d w].
      * destruct (opq h) as [|o q] eqn:Q; [discriminate|]. inversion E; subst h1; clear E.
        rewrite (IH _ _ R) by (destruct o; cbn; auto).
        assert (X : forall o g, hlog (exec_op o g) = hlog g /\ opq (exec_op o g) = opq g) by (intros [] g; cbn; auto).
        destruct (X o (mkH (ring h) (regs h) (ls h) q [] (synced h) false (hlog h ++ [o]))) as [-> ->].
        cbn [hlog opq]. rewrite <- !app_assoc. reflexivity.
      * destruct (find_l (d_to d) (ls h)) as [s|].
        -- destruct (deliver c choice s (d_ev d)) as [[s' err]|]; [|discriminate].
           inversion E; subst h1; clear E. rewrite (IH _ _ R) by (cbn; auto). reflexivity.
        -- inversion E; subst h1; clear E. rewrite (IH _ _ R) by (cbn; auto). reflexivity.
    + destruct (work h); [|discriminate]. inversion E; subst h1; clear E.
      destruct (stopped_stays c t _ _ R eq_refl) as [_ L]. rewrite L. cbn [hlog opq]. rewrite app_nil_r. reflexivity.
Qed.

Theorem fifo_order :
  forall n c acts h, run c (hub_init n) acts = Some h -> hlog h ++ opq h = submitted acts.
Proof. intros n c acts h R. rewrite (fifo_gen c acts _ _ R eq_refl). reflexivity. Qed.

(** Put together: once the hub has run everything that was submitted, a healthy listener holds
    exactly the entitlement computed from the SUBMITTED ops. *)
Corollary each_event_once_in_order_quiescent :
  forall n c acts h l s,
    run c (hub_init n) acts = Some h -> work h = [] -> opq h = [] ->
    find_l l (ls h) = Some s -> lclosed s = false -> lerred s = false ->
    lout s ++ lq s = expected n (lk s) (lf s) l (submitted acts).
Proof.
  intros n c acts h l s R W Q F C E.
  rewrite (each_event_once_in_order_at_rest n c acts h l s R W F C E).
  rewrite <- (fifo_order n c acts h R), Q, app_nil_r. reflexivity.
Qed.

(** * A faulty listener is isolated *)

(** The entitlement of [l] does not mention any other listener: erase everything the hub was
    asked to do about [k] (its join, its removal) and [l] is entitled to the same stream. *)
Definition about (k : nat) (o : op) : bool :=
  match o with OAdd x | ORemove x => Nat.eqb x k | _ => false end.

Lemma view_forget k l ops v : k <> l ->
  fold_left (view_step l) (filter (fun o => negb (about k o)) ops) v = fold_left (view_step l) ops v.
Proof.
  intros N. revert v. induction ops as [|o t IH]; intros v; cbn [filter fold_left]; auto.
  destruct (about k o) eqn:A; cbn [negb fold_left].
  - rewrite IH. f_equal. destruct o; cbn [about] in A; try discriminate;
      apply Nat.eqb_eq in A; subst l0; cbn [view_step];
      (assert (Nat.eqb k l = false) as -> by (apply Nat.eqb_neq; auto)); reflexivity.
  - apply IH.
Qed.

Theorem faulty_listener_isolated :
  forall n c acts h l s k,
    run c (hub_init n) acts = Some h -> k <> l ->
    find_l l (ls h) = Some s -> lclosed s = false -> lerred s = false ->
    lout s ++ lq s ++ pend l s (work h)
    = expected n (lk s) (lf s) l (filter (fun o => negb (about k o)) (hlog h)).
Proof.
  intros n c acts h l s k R N F C E.
  rewrite (each_event_once_in_order n c acts h l s R F C E).
  unfold expected, view_of. rewrite view_forget by auto. reflexivity.
Qed.

(** Step-level reading of the same fact: whatever a step does for or to another listener —
    deliver to it, have it fail, close it with events buffered, take from it — leaves [l]'s
    own queue and output untouched. *)
Lemma step_other_untouched c h a h' l :
  step c h a = Some h' ->
  (match a with
   | AClose k | ARm k | ATake k => k <> l
   | ANew k _ _ _ => find_l l (ls h) <> None
   | AHub _ => match work h with d :: _ => d_to d <> l | [] => True end
   | _ => True
   end) ->
  find_l l (ls h') = find_l l (ls h).
Proof.
  intros E G. destruct a; cbn [step] in E.
  - destruct (is_add o); [discriminate|]. unfold enq in E. destruct (stopped h); [inversion E; subst; auto|].
    destruct (length (opq h) <? opcap c); inversion E; subst; auto.
  - destruct (find_l l0 (ls h)) eqn:F; [discriminate|]. unfold enq in E. cbn [set_ls stopped opq] in E.
    assert (find_l l (ls h ++ [(l0, new_lst k f fail)]) = find_l l (ls h)).
    { rewrite find_l_app. destruct (find_l l (ls h)); auto. congruence. }
    destruct (stopped h); [inversion E; subst; auto|].
    destruct (length (opq h) <? opcap c); inversion E; subst; auto.
  - destruct (find_l l0 (ls h)) as [s|]; [|discriminate]. destruct (lclosed s); inversion E; subst; auto.
    cbn [set_ls ls]. apply find_l_upd_other. auto.
  - destruct (find_l l0 (ls h)) as [s|]; [|discriminate]. destruct (lrm s); [|discriminate].
    unfold enq in E. cbn [set_ls stopped opq] in E.
    assert (find_l l (upd_l l0 (l_rm_done s) (ls h)) = find_l l (ls h)) by (apply find_l_upd_other; auto).
    destruct (stopped h); [inversion E; subst; auto|].
    destruct (length (opq h) <? opcap c); inversion E; subst; auto.
  - destruct (find_l l0 (ls h)) as [s|]; [|discriminate]. destruct (l_take s); [|discriminate].
    inversion E; subst. cbn [set_ls ls]. apply find_l_upd_other. auto.
  - unfold hub_step in E. destruct (stopped h); [discriminate|]. destruct (work h) as [|d w].
    + destruct (opq h) as [|o q]; [discriminate|]. inversion E; subst. destruct o; reflexivity.
    + destruct (find_l (d_to d) (ls h)) as [s|].
      * destruct (deliver c choice s (d_ev d)) as [[s' err]|]; [|discriminate]. inversion E; subst.
        cbn [ls]. apply find_l_upd_other. auto.
      * inversion E; subst. reflexivity.
  - destruct (work h); [|discriminate]. inversion E; subst. reflexivity.
Qed.

(** * The hub goroutine and blocking *)

(** The hub has something to do. *)
Definition busy (h : hub) : Prop := work h <> [] \/ opq h <> [].

(** The listener the hub is about to call has a full queue although it has not been closed. *)
Definition head_full (c : cfg) (h : hub) : Prop :=
  match work h with
  | d :: _ =>
      match find_l (d_to d) (ls h) with
      | Some s => lk s <> Mock /\ wants (lk s) (lf s) (d_ev d) = true /\
                  lclosed s = false /\ cap_of c (lk s) <= length (lq s)
      | None => False
      end
  | [] => False
  end.

(** The full statement — the hub goroutine can always move — does NOT hold (see
    [slow_listener_stall_refuted]); it is kept visible here. *)
Definition hub_never_blocks_stmt : Prop :=
  forall n c acts h, run c (hub_init n) acts = Some h -> stopped h = false -> busy h ->
    exists ch h', hub_step c ch h = Some h'.

(** It holds whenever the listener about to be called is not an open one with a full queue;
    in particular whenever no open listener's queue is full. *)
Theorem hub_never_blocks_partial :
  forall c h, stopped h = false -> busy h -> ~ head_full c h ->
    exists h', hub_step c true h = Some h'.
Proof.
  intros c h S B NF. unfold hub_step. rewrite S. unfold head_full in NF.
  destruct (work h) as [|d w] eqn:W.
  - destruct (opq h) as [|o q] eqn:Q.
    + destruct B as [B|B]; congruence.
    + eexists; reflexivity.
  - destruct (find_l (d_to d) (ls h)) as [s|]; [|eexists; reflexivity].
    unfold deliver. destruct (wants (lk s) (lf s) (d_ev d)) eqn:Wt; cbn [negb]; [|eexists; reflexivity].
    destruct (lk s) eqn:K.
    + destruct (lclosed s) eqn:C; cbn [orb]; [eexists; reflexivity|].
      destruct (length (lq s) <? cap_of c V1) eqn:L; [eexists; reflexivity|].
      exfalso. apply NF. apply Nat.ltb_ge in L. repeat split; auto; congruence.
    + destruct (lclosed s) eqn:C; cbn [orb]; [eexists; reflexivity|].
      destruct (length (lq s) <? cap_of c V2) eqn:L; [eexists; reflexivity|].
      exfalso. apply NF. apply Nat.ltb_ge in L. repeat split; auto; congruence.
    + destruct (lfail s) as [[|k]|]; eexists; reflexivity.
Qed.

Corollary hub_never_blocks_no_full_queue :
  forall c h, stopped h = false -> busy h ->
    (forall l s, find_l l (ls h) = Some s -> lclosed s = false -> lk s <> Mock -> length (lq s) < cap_of c (lk s)) ->
    exists h', hub_step c true h = Some h'.
Proof.
  intros c h S B NF. apply hub_never_blocks_partial; auto. unfold head_full.
  destruct (work h) as [|d w]; auto. destruct (find_l (d_to d) (ls h)) as [s|] eqn:F; auto.
  intros (K & _ & C & L). specialize (NF _ _ F C K). lia.
Qed.

(** When the hub IS stuck, it is stuck in exactly that situation … *)
Theorem blocked_only_by_full_open_listener :
  forall c h, stopped h = false -> busy h -> (forall ch, hub_step c ch h = None) -> head_full c h.
Proof.
  intros c h S B N. destruct (work h) as [|d w] eqn:W.
  - exfalso. specialize (N true). unfold hub_step in N. rewrite S, W in N.
    destruct (opq h) eqn:Q; [destruct B; congruence|discriminate].
  - unfold head_full. rewrite W. specialize (N true). unfold hub_step in N. rewrite S, W in N.
    destruct (find_l (d_to d) (ls h)) as [s|]; [|discriminate].
    unfold deliver in N. destruct (wants (lk s) (lf s) (d_ev d)) eqn:Wt; cbn [negb] in N; [|discriminate].
    destruct (lk s) eqn:K.
    + destruct (lclosed s); cbn [orb] in N; [discriminate|].
      destruct (length (lq s) <? cap_of c V1) eqn:L; [discriminate|]. apply Nat.ltb_ge in L.
      repeat split; auto; discriminate.
    + destruct (lclosed s); cbn [orb] in N; [discriminate|].
      destruct (length (lq s) <? cap_of c V2) eqn:L; [discriminate|]. apply Nat.ltb_ge in L.
      repeat split; auto; discriminate.
    + destruct (lfail s) as [[|k]|]; discriminate.
Qed.

(** … and the close of that listener (its socket's write deadline, or the peer going away), or
    one step of its writer, lets the hub go on: the stall never outlives the slow listener. *)
Theorem close_unblocks :
  forall c h, stopped h = false -> head_full c h ->
    match work h with
    | d :: _ => exists h1 h2, step c h (AClose (d_to d)) = Some h1 /\ hub_step c true h1 = Some h2
    | [] => False
    end.
Proof.
  intros c h S HF. unfold head_full in HF. destruct (work h) as [|d w] eqn:W; auto.
  destruct (find_l (d_to d) (ls h)) as [s|] eqn:F; [|tauto]. destruct HF as (K & Wt & C & L).
  cbn [step]. rewrite F, C. eexists. eexists. split; [reflexivity|].
  unfold hub_step. cbn [set_ls stopped work ls]. rewrite S, W.
  rewrite find_l_upd_same by congruence. unfold deliver. cbn [l_close lk lf lclosed lq].
  rewrite Wt. cbn [negb orb]. destruct (lk s); try congruence; reflexivity.
Qed.

(** A real listener's queue never holds more than its capacity. *)
Definition queue_bounded (c : cfg) (h : hub) : Prop :=
  forall l s, find_l l (ls h) = Some s -> lk s <> Mock -> length (lq s) <= cap_of c (lk s).

Lemma qb_upd c h l s' (x : list (nat * lst) -> hub) :
  queue_bounded c h -> (lk s' <> Mock -> length (lq s') <= cap_of c (lk s')) ->
  forall l0 s0, find_l l0 (upd_l l s' (ls h)) = Some s0 -> lk s0 <> Mock -> length (lq s0) <= cap_of c (lk s0).
Proof.
  intros Q B l0 s0 F K. destruct (Nat.eq_dec l0 l) as [->|N].
  - destruct (find_l l (ls h)) eqn:F1.
    + rewrite find_l_upd_same in F by congruence. inversion F; subst. auto.
    + exfalso. revert F. generalize (find_l_upd_none l l s' (ls h)). intros [A _] F. apply A; congruence.
  - rewrite find_l_upd_other in F by auto. eapply Q; eauto.
Qed.

Lemma queue_bounded_step c h a h' : queue_bounded c h -> step c h a = Some h' -> queue_bounded c h'.
Proof.
  intros Q E. destruct a; cbn [step] in E.
  - destruct (is_add o); [discriminate|]. unfold enq in E. destruct (stopped h); [inversion E; subst; auto|].
    destruct (length (opq h) <? opcap c); inversion E; subst; auto.
  - destruct (find_l l (ls h)) eqn:F; [discriminate|].
    assert (Q1 : queue_bounded c (set_ls h (ls h ++ [(l, new_lst k f fail)]))).
    { intros l0 s0 F0 K0. cbn [set_ls ls] in F0. rewrite find_l_app in F0. destruct (find_l l0 (ls h)) eqn:F1.
      - inversion F0; subst. eapply Q; eauto.
      - cbn [find_l] in F0. destruct (Nat.eqb l l0); [|discriminate]. inversion F0; subst. cbn. lia. }
    unfold enq in E. cbn [set_ls stopped opq] in E. destruct (stopped h); [inversion E; subst; auto|].
    destruct (length (opq h) <? opcap c); inversion E; subst; auto.
  - destruct (find_l l (ls h)) as [s|] eqn:F; [|discriminate]. destruct (lclosed s); inversion E; subst; auto.
    intros l0 s0. cbn [set_ls ls]. apply (qb_upd c h l (l_close s) (fun _ => h)); auto. cbn. intros. eapply Q; eauto.
  - destruct (find_l l (ls h)) as [s|] eqn:F; [|discriminate]. destruct (lrm s); [|discriminate].
    assert (Q1 : queue_bounded c (set_ls h (upd_l l (l_rm_done s) (ls h)))).
    { intros l0 s0. cbn [set_ls ls]. apply (qb_upd c h l (l_rm_done s) (fun _ => h)); auto. cbn. intros. eapply Q; eauto. }
    unfold enq in E. cbn [set_ls stopped opq] in E. destruct (stopped h); [inversion E; subst; auto|].
    destruct (length (opq h) <? opcap c); inversion E; subst; auto.
  - destruct (find_l l (ls h)) as [s|] eqn:F; [|discriminate]. destruct (l_take s) as [s'|] eqn:T; [|discriminate].
    inversion E; subst. intros l0 s0. cbn [set_ls ls]. apply (qb_upd c h l s' (fun _ => h)); auto.
    unfold l_take in T. destruct (lq s) eqn:Ql; [discriminate|]. inversion T; subst. cbn [lk lq].
    intros K. specialize (Q _ _ F K). rewrite Ql in Q. cbn [length] in Q. lia.
  - unfold hub_step in E. destruct (stopped h); [discriminate|]. destruct (work h) as [|d w].
    + destruct (opq h) as [|o q]; [discriminate|]. inversion E; subst. destruct o; exact Q.
    + destruct (find_l (d_to d) (ls h)) as [s|] eqn:F.
      * destruct (deliver c choice s (d_ev d)) as [[s' err]|] eqn:D; [|discriminate]. inversion E; subst.
        intros l0 s0. cbn [ls]. apply (qb_upd c h (d_to d) s' (fun _ => h)); auto.
        unfold deliver in D. destruct (wants (lk s) (lf s) (d_ev d)); cbn [negb] in D.
        2:{ inversion D; subst. intros. eapply Q; eauto. }
        destruct (lk s) eqn:K.
        -- destruct (lclosed s).
           ++ destruct (choice || (cap_of c V1 <=? length (lq s))) eqn:X; inversion D; subst; cbn [l_set_erred l_push lk lq]; rewrite ?K.
              ** intros. rewrite <- K. eapply Q; eauto. congruence.
              ** apply Bool.orb_false_iff in X. destruct X as [_ X]. apply Nat.leb_gt in X. intros _. rewrite app_length. cbn [length]. lia.
           ++ destruct (length (lq s) <? cap_of c V1) eqn:X; [|discriminate]. inversion D; subst. cbn [l_push lk lq]. rewrite K.
              apply Nat.ltb_lt in X. intros _. rewrite app_length. cbn [length]. lia.
        -- destruct (lclosed s).
           ++ destruct (choice || (cap_of c V2 <=? length (lq s))) eqn:X; inversion D; subst; cbn [l_set_erred l_push lk lq]; rewrite ?K.
              ** intros. rewrite <- K. eapply Q; eauto. congruence.
              ** apply Bool.orb_false_iff in X. destruct X as [_ X]. apply Nat.leb_gt in X. intros _. rewrite app_length. cbn [length]. lia.
           ++ destruct (length (lq s) <? cap_of c V2) eqn:X; [|discriminate]. inversion D; subst. cbn [l_push lk lq]. rewrite K.
              apply Nat.ltb_lt in X. intros _. rewrite app_length. cbn [length]. lia.
        -- destruct (lfail s) as [[|k]|]; inversion D; subst; cbn [l_set_erred l_push l_set_fail lk]; rewrite K; congruence.
      * inversion E; subst. exact Q.
  - destruct (work h); [|discriminate]. inversion E; subst. exact Q.
Qed.

Lemma queue_bounded_reachable n c acts h : run c (hub_init n) acts = Some h -> queue_bounded c h.
Proof.
  assert (G : forall acts h0 h1, queue_bounded c h0 -> run c h0 acts = Some h1 -> queue_bounded c h1).
  { induction acts0 as [|a t IH]; intros h0 h1 Q R; cbn [run] in R.
    - inversion R; subst; auto.
    - destruct (step c h0 a) eqn:E; [|discriminate]. eapply IH; [|exact R]. eapply queue_bounded_step; eauto. }
  apply G. intros l s F. cbn in F. discriminate.
Qed.

Theorem take_unblocks :
  forall c h, 0 < qcap1 c -> 0 < qcap2 c ->
    stopped h = false -> queue_bounded c h -> head_full c h ->
    match work h with
    | d :: _ => exists h1 h2, step c h (ATake (d_to d)) = Some h1 /\ hub_step c true h1 = Some h2
    | [] => False
    end.
Proof.
  intros c h P1 P2 S QB HF. unfold head_full in HF. destruct (work h) as [|d w] eqn:W; auto.
  destruct (find_l (d_to d) (ls h)) as [s|] eqn:F; [|tauto]. destruct HF as (K & Wt & C & L).
  specialize (QB _ _ F K).
  cbn [step]. rewrite F. unfold l_take. destruct (lq s) as [|e q] eqn:Q.
  - exfalso. cbn [length] in *. destruct (lk s); cbn [cap_of] in *; try congruence; lia.
  - cbn [length] in *. destruct (lk s) eqn:K2; try congruence.
    + eexists. eexists. split; [reflexivity|].
      unfold hub_step. cbn [set_ls stopped work ls]. rewrite S, W.
      rewrite find_l_upd_same by congruence. unfold deliver. cbn [lk lf lclosed lq].
      rewrite Wt, C. cbn [negb].
      assert (length q <? cap_of c V1 = true) as -> by (apply Nat.ltb_lt; lia). reflexivity.
    + eexists. eexists. split; [reflexivity|].
      unfold hub_step. cbn [set_ls stopped work ls]. rewrite S, W.
      rewrite find_l_upd_same by congruence. unfold deliver. cbn [lk lf lclosed lq].
      rewrite Wt, C. cbn [negb].
      assert (length q <? cap_of c V2 = true) as -> by (apply Nat.ltb_lt; lia). reflexivity.
Qed.

(** * History replay *)
From IV Require Import Proofs.HubHistory.

(** A listener that joined after the hub had run [pre] holds, before anything else, the live
    part of the history ring as it stood then, through its filter … *)
Theorem history_replay_ring :
  forall n c acts h l s pre post,
    run c (hub_init n) acts = Some h ->
    find_l l (ls h) = Some s -> lclosed s = false -> lerred s = false ->
    hlog h = pre ++ OAdd l :: post -> ~ In l (adds pre) ->
    exists later,
      lout s ++ lq s ++ pend l s (work h)
      = filter (wants (lk s) (lf s)) (map Stored (ring_live (ring_after (ring_init n) pre))) ++ later.
Proof.
  intros n c acts h l s pre post R F C E L NA.
  rewrite (each_event_once_in_order n c acts h l s R F C E). unfold expected. rewrite L.
  destruct (view_at_join n l pre post NA) as [more ->]. rewrite filter_app. eexists. reflexivity.
Qed.

(** … and that ring is the declared history: of the last [n] messages dispatched before the
    join, those not deleted since, oldest first (message ids dispatched at most once). *)
Theorem history_replay :
  forall n c acts h l s pre post,
    run c (hub_init n) acts = Some h ->
    find_l l (ls h) = Some s -> lclosed s = false -> lerred s = false ->
    hlog h = pre ++ OAdd l :: post -> ~ In l (adds pre) ->
    NoDup (map fst (dispatched pre [])) ->
    exists later,
      lout s ++ lq s ++ pend l s (work h)
      = filter (wants (lk s) (lf s)) (map Stored (spec_history n pre)) ++ later.
Proof.
  intros n c acts h l s pre post R F C E L NA ND.
  rewrite <- (ring_is_spec_history n pre ND). eapply history_replay_ring; eauto.
Qed.

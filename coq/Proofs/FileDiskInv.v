(** The disk invariant of the file store and the two kinds of step: quiet ones (invisible to every
    reader) and index commits. *)
From IV Require Import Base.Bytes Base.BytesFacts Model.FileDisk Proofs.FileDiskMap.
From Coq Require Import List NArith Bool Lia.
Import ListNotations.

(** * Path facts *)
Lemma len_mbdir h : length (mbdir h) = 3%nat. Proof. reflexivity. Qed.
Lemma len_idx h : length (idx h) = 4%nat. Proof. reflexivity. Qed.
Lemma len_tmp h : length (tmp h) = 4%nat. Proof. reflexivity. Qed.
Lemma len_raw h id : length (raw h id) = 4%nat. Proof. reflexivity. Qed.

Lemma idx_inj h h' : idx h = idx h' -> h = h'.
Proof. unfold idx, mbdir; simpl. intros H; inversion H; auto. Qed.
Lemma tmp_inj h h' : tmp h = tmp h' -> h = h'.
Proof. unfold tmp, mbdir; simpl. intros H; inversion H; auto. Qed.
Lemma raw_inj h id h' id' : raw h id = raw h' id' -> h = h' /\ id = id'.
Proof. unfold raw, mbdir; simpl. intros H; inversion H; subst. split; auto. eapply app_inv_tail; eauto. Qed.

Lemma rev_raw_ext id : rev (id ++ raw_ext) = 119 :: 97 :: 114 :: 46 :: rev id.
Proof. rewrite rev_app_distr. reflexivity. Qed.

Lemma raw_ne_idx h id h' : raw h id <> idx h'.
Proof.
  unfold raw, idx, mbdir; simpl. intros H; inversion H.
  apply (f_equal (@rev N)) in H4. rewrite rev_raw_ext in H4. discriminate.
Qed.
Lemma raw_ne_tmp h id h' : raw h id <> tmp h'.
Proof.
  unfold raw, tmp, mbdir; simpl. intros H; inversion H.
  apply (f_equal (@rev N)) in H4. rewrite rev_raw_ext in H4. discriminate.
Qed.
Lemma tmp_ne_idx h h' : tmp h <> idx h'.
Proof. unfold tmp, idx, mbdir; simpl. intros H; inversion H. Qed.

Lemma parent_idx h : parent (idx h) = mbdir h. Proof. reflexivity. Qed.
Lemma parent_tmp h : parent (tmp h) = mbdir h. Proof. reflexivity. Qed.
Lemma parent_raw h id : parent (raw h id) = mbdir h.
Proof. unfold parent, raw. apply removelast_last. Qed.

Lemma prefix_mbdir_idx h h' : is_prefix (mbdir h) (idx h') = true -> h = h'.
Proof. intros H. apply is_prefix_spec in H. destruct H as [r H]. unfold idx, mbdir in H; simpl in H. inversion H; auto. Qed.
Lemma prefix_mbdir_raw h h' id : is_prefix (mbdir h) (raw h' id) = true -> h = h'.
Proof. intros H. apply is_prefix_spec in H. destruct H as [r H]. unfold raw, mbdir in H; simpl in H. inversion H; auto. Qed.

Section Inv.
  Variable enc : index -> str.
  Variable dec : str -> option index.
  Hypothesis dec_enc : forall i, dec (enc i) = Some i.

  Definition Struct (d : disk) : Prop :=
    forall p n, lookup d p = Some n ->
      match n with Dir => (length p <= 3)%nat | File _ => length p = 4%nat end.

  (** index.gob absent, or it decodes to a non-empty list of messages with distinct ids each of which
      has its .raw *)
  Definition MInv (d : disk) (h : str) : Prop :=
    match lookup d (idx h) with
    | None => True
    | Some Dir => False
    | Some (File b) =>
        exists nm ms, dec b = Some (nm, ms) /\ ms <> [] /\ NoDup (map m_id ms) /\
          forall m, In m ms -> exists c, lookup d (raw h (m_id m)) = Some (File c)
    end.

  Definition Inv (d : disk) : Prop := Struct d /\ forall h, MInv d h.

  Definition live (d : disk) (h id : str) : Prop :=
    exists b nm ms, lookup d (idx h) = Some (File b) /\ dec b = Some (nm, ms) /\ In id (map m_id ms).

  (** a file position no reader looks at *)
  Definition hidden (d : disk) (q : path) : Prop :=
    (forall h, q <> idx h) /\ (forall h id, q = raw h id -> ~ live d h id).

  (** in-memory index (mb.name, mb.messages) = what is on disk *)
  Definition Loaded (d : disk) (h nm : str) (ms : list meta) : Prop :=
    match ms with
    | [] => lookup d (idx h) = None
    | _ => exists b, lookup d (idx h) = Some (File b) /\ dec b = Some (nm, ms)
    end.

  Definition mkview (d : disk) (h nm : str) (ms : list meta) : list (str * meta * option str) :=
    map (fun m => (nm, m, content d h (m_id m))) ms.

  Lemma Inv_empty : Inv [].
  Proof. split; [intros p n H; discriminate | intros h; exact I]. Qed.

  Lemma view_Loaded d h nm ms : Loaded d h nm ms -> view dec d h = Some (mkview d h nm ms).
  Proof.
    unfold Loaded, view, read_index. destruct ms as [|m ms].
    - intros ->. reflexivity.
    - intros [b [-> ->]]. reflexivity.
  Qed.

  Lemma read_index_Loaded d h caller nm ms :
    MInv d h -> read_index dec d h caller = Some (nm, ms) -> Loaded d h nm ms.
  Proof.
    unfold MInv, read_index, Loaded. destruct (lookup d (idx h)) as [[|b]|] eqn:E.
    - tauto.
    - intros [nm' [ms' [Hd [Hne _]]]] H. rewrite Hd in H. inversion H; subst.
      destruct ms as [|m ms]; [congruence|]. eauto.
    - intros _ H. inversion H; subst. reflexivity.
  Qed.

  Lemma Loaded_facts d h nm ms :
    MInv d h -> Loaded d h nm ms ->
    NoDup (map m_id ms) /\ (forall m, In m ms -> exists c, lookup d (raw h (m_id m)) = Some (File c)) /\
    (forall id, In id (map m_id ms) -> live d h id).
  Proof.
    unfold MInv, Loaded. destruct ms as [|m0 ms].
    - intros _ _. split; [constructor|]. split; intros ? [].
    - intros HM [b [Hl Hd]]. rewrite Hl in HM. destruct HM as [nm' [ms' [Hd' [_ [Hnd Hraw]]]]].
      rewrite Hd in Hd'. inversion Hd'; subst. split; auto. split; auto.
      intros id Hid. exists b, nm', (m0 :: ms). auto.
  Qed.

  Lemma live_Loaded d h nm ms id : Loaded d h nm ms -> live d h id -> In id (map m_id ms).
  Proof.
    unfold Loaded, live. intros HL [b [nm' [ms' [Hl [Hd Hin]]]]]. destruct ms as [|m0 ms].
    - congruence.
    - destruct HL as [b' [Hl' Hd']]. rewrite Hl in Hl'. inversion Hl'; subst. rewrite Hd in Hd'. inversion Hd'; subst. auto.
  Qed.

  (** * Frame *)
  Lemma frame d d' h :
    lookup d' (idx h) = lookup d (idx h) ->
    (forall id, live d h id -> lookup d' (raw h id) = lookup d (raw h id)) ->
    (MInv d h -> MInv d' h) /\ view dec d' h = view dec d h.
  Proof.
    intros Hi Hr. unfold MInv, view, read_index. rewrite Hi.
    destruct (lookup d (idx h)) as [[|b]|] eqn:E; auto.
    split.
    - intros [nm [ms [Hd [Hne [Hnd Hraw]]]]]. exists nm, ms. repeat split; auto.
      intros m Hm. destruct (Hraw m Hm) as [c Hc]. exists c. rewrite Hr; auto.
      exists b, nm, ms. repeat split; auto. apply in_map; auto.
    - destruct (dec b) as [[nm ms]|] eqn:Hd; auto. f_equal. apply map_ext_in. intros m Hm.
      unfold content. rewrite Hr; auto. exists b, nm, ms. repeat split; auto. apply in_map; auto.
  Qed.

  (** * Quiet changes *)
  Definition Q (d d' : disk) : Prop :=
    Inv d' /\ (forall h, lookup d' (idx h) = lookup d (idx h)) /\
    (forall h id, live d h id -> lookup d' (raw h id) = lookup d (raw h id)).

  Lemma Q_refl d : Inv d -> Q d d.
  Proof. intros H. repeat split; auto; apply H. Qed.

  Lemma live_Q d d' h id : Q d d' -> (live d h id <-> live d' h id).
  Proof.
    intros [_ [Hi _]]. unfold live. rewrite Hi. tauto.
  Qed.

  Lemma Q_trans d d1 d2 : Q d d1 -> Q d1 d2 -> Q d d2.
  Proof.
    intros H1 H2. pose proof H1 as [I1 [A1 B1]]. pose proof H2 as [I2 [A2 B2]].
    split; auto. split.
    - intros h. rewrite A2, A1. auto.
    - intros h id Hl. rewrite B2, B1; auto. apply (live_Q _ _ h id H1); auto.
  Qed.

  Lemma Q_view d d' h : Q d d' -> view dec d' h = view dec d h.
  Proof. intros [_ [A B]]. apply frame; auto. Qed.

  Lemma Q_hidden d d' q : Q d d' -> hidden d q -> hidden d' q.
  Proof.
    intros HQ [A B]. split; auto. intros h id -> Hl. apply (B h id eq_refl). apply (live_Q _ _ h id HQ); auto.
  Qed.

  Lemma Q_Loaded d d' h nm ms : Q d d' -> Loaded d h nm ms -> Loaded d' h nm ms.
  Proof. intros [_ [A _]]. unfold Loaded. rewrite A. auto. Qed.

  (** the general recipe: a new disk that has a sound structure and differs on 4-component paths
      only at hidden positions *)
  Lemma quiet_Q d d' :
    Inv d -> Struct d' ->
    (forall q, length q = 4%nat -> lookup d' q = lookup d q \/ hidden d q) ->
    Q d d'.
  Proof.
    intros [HS HM] HS' H.
    assert (A : forall h, lookup d' (idx h) = lookup d (idx h)).
    { intros h. destruct (H (idx h) (len_idx h)) as [|[Hh _]]; auto. exfalso. apply (Hh h); auto. }
    assert (B : forall h id, live d h id -> lookup d' (raw h id) = lookup d (raw h id)).
    { intros h id Hl. destruct (H (raw h id) (len_raw h id)) as [|[_ Hh]]; auto. exfalso. apply (Hh h id); auto. }
    split; [|split; auto]. split; auto.
    intros h. apply (frame d d' h); auto.
  Qed.

  (** touching one hidden file position (create, overwrite with anything, delete) *)
  Lemma touch_Q d d' p :
    Inv d -> length p = 4%nat -> hidden d p ->
    (forall q, q <> p -> lookup d' q = lookup d q) ->
    (lookup d' p = lookup d p \/ lookup d' p = None \/ exists c, lookup d' p = Some (File c)) ->
    Q d d'.
  Proof.
    intros HI Hlen Hh Hoth Hp. apply quiet_Q; auto.
    - intros q n Hq. destruct (path_eq_dec q p) as [->|Hne].
      + destruct Hp as [Hp|[Hp|[c Hp]]].
        * rewrite Hp in Hq. apply (proj1 HI) in Hq. auto.
        * congruence.
        * rewrite Hp in Hq. inversion Hq; subst. auto.
      + rewrite Hoth in Hq; auto. apply (proj1 HI) in Hq. auto.
    - intros q _. destruct (path_eq_dec q p) as [->|Hne]; auto.
  Qed.

  (** changes that touch directories only *)
  Lemma dirs_Q d d' :
    Inv d -> Struct d' -> (forall q, length q = 4%nat -> lookup d' q = lookup d q) -> Q d d'.
  Proof. intros HI HS H. apply quiet_Q; auto. Qed.

  Lemma hidden_tmp d h : hidden d (tmp h).
  Proof.
    split.
    - intros h'. apply tmp_ne_idx.
    - intros h' id H. symmetry in H. exfalso. apply (raw_ne_tmp _ _ _ H).
  Qed.

  Lemma hidden_raw d h id : ~ live d h id -> hidden d (raw h id).
  Proof.
    intros Hn. split.
    - intros h'. apply raw_ne_idx.
    - intros h' id' H. apply raw_inj in H. destruct H as [-> ->]. auto.
  Qed.

  (** * Other mailboxes untouched; index commits *)
  Definition Oth (d : disk) (h : str) (d' : disk) : Prop :=
    (forall h', h' <> h -> lookup d' (idx h') = lookup d (idx h')) /\
    (forall h' id, h' <> h -> live d h' id -> lookup d' (raw h' id) = lookup d (raw h' id)).

  Lemma Oth_view d h d' h' : Oth d h d' -> h' <> h -> view dec d' h' = view dec d h'.
  Proof. intros [A B] Hne. apply frame; auto. Qed.

  Lemma Q_Oth d d' h : Q d d' -> Oth d h d'.
  Proof. intros [_ [A B]]. split; auto. Qed.

  Lemma Oth_trans d d1 d2 h : Oth d h d1 -> Oth d1 h d2 -> Oth d h d2.
  Proof.
    intros [A1 B1] [A2 B2]. split.
    - intros h' Hne. rewrite A2, A1; auto.
    - intros h' id Hne Hl. rewrite B2, B1; auto.
      unfold live in *. rewrite A1; auto.
  Qed.

  (** the state of mailbox h is (nm, ms); the messages with ids in [ks] still have the content
      they had in [d] *)
  Definition U (d : disk) (h nm : str) (ms : list meta) (ks : list str) (d' : disk) : Prop :=
    Inv d' /\ Loaded d' h nm ms /\ Oth d h d' /\ incl ks (map m_id ms) /\
    (forall id, In id ks -> live d h id -> lookup d' (raw h id) = lookup d (raw h id)).

  Lemma Q_U d h nm ms d' : Q d d' -> Loaded d h nm ms -> U d h nm ms (map m_id ms) d'.
  Proof.
    intros HQ HL. pose proof HQ as [HI [A B]]. split; auto. split; [eapply Q_Loaded; eauto|].
    split; [apply Q_Oth; auto|]. split; [apply incl_refl|]. intros id _ Hl. auto.
  Qed.

  Lemma U_Q d h nm ms ks d1 d' : U d h nm ms ks d1 -> Q d1 d' -> U d h nm ms ks d'.
  Proof.
    intros [HI [HL [HO [Hinc HR]]]] HQ. pose proof HQ as [HI' [A B]].
    split; auto. split; [eapply Q_Loaded; eauto|]. split; [|split; auto].
    - eapply Oth_trans; eauto. apply Q_Oth; auto.
    - intros id Hin Hl. rewrite B; auto.
      destruct (Loaded_facts d1 h nm ms (proj2 HI h) HL) as [_ [_ Hlive]]. auto.
  Qed.

  Lemma Q_then_U d d1 h nm ms ks d' : Q d d1 -> U d1 h nm ms ks d' -> U d h nm ms ks d'.
  Proof.
    intros HQ [HI [HL [HO [Hinc HR]]]]. pose proof HQ as [HI1 [A B]].
    split; auto. split; auto. split; [|split; auto].
    - eapply Oth_trans; eauto. apply Q_Oth; auto.
    - intros id Hin Hl. rewrite HR, B; auto. apply (live_Q _ _ h id HQ); auto.
  Qed.

  Lemma U_U d h nm1 ms1 ks1 d1 nm2 ms2 ks2 d2 :
    U d h nm1 ms1 ks1 d1 -> U d1 h nm2 ms2 ks2 d2 -> incl ks2 ks1 ->
    U d h nm2 ms2 ks2 d2.
  Proof.
    intros [HI1 [HL1 [HO1 [Hinc1 HR1]]]] [HI2 [HL2 [HO2 [Hinc2 HR2]]]] Hsub.
    split; auto. split; auto. split; [eapply Oth_trans; eauto|]. split; auto.
    intros id Hin Hl. rewrite HR2, HR1; auto.
    destruct (Loaded_facts d1 h nm1 ms1 (proj2 HI1 h) HL1) as [_ [_ Hlive]]. auto.
  Qed.

  Lemma U_weaken d h nm ms ks ks' d' : U d h nm ms ks d' -> incl ks' ks -> U d h nm ms ks' d'.
  Proof.
    intros [HI [HL [HO [Hinc HR]]]] Hsub. split; auto. split; auto. split; auto. split.
    - eapply incl_tran; eauto.
    - intros id Hin. apply HR; auto.
  Qed.

  Lemma U_view d h nm ms ks d' : U d h nm ms ks d' -> view dec d' h = Some (mkview d' h nm ms).
  Proof. intros [_ [HL _]]. apply view_Loaded; auto. Qed.

  Lemma U_view_other d h nm ms ks d' h' : U d h nm ms ks d' -> h' <> h -> view dec d' h' = view dec d h'.
  Proof. intros [_ [_ [HO _]]]. apply Oth_view; auto. Qed.

  Lemma U_content d h nm ms ks d' id :
    U d h nm ms ks d' -> In id ks -> live d h id -> content d' h id = content d h id.
  Proof. intros [_ [_ [_ [_ HR]]]] Hin Hl. unfold content. rewrite HR; auto. Qed.

  (** the two commit steps *)
  Lemma commit_rename d h nm ms :
    Inv d -> ms <> [] -> lookup d (tmp h) = Some (File (enc (nm, ms))) -> NoDup (map m_id ms) ->
    (forall m, In m ms -> exists c, lookup d (raw h (m_id m)) = Some (File c)) ->
    let d' := set (idx h) (File (enc (nm, ms))) (del (tmp h) d) in
    U d h nm ms (map m_id ms) d' /\ (forall q, q <> idx h -> q <> tmp h -> lookup d' q = lookup d q).
  Proof.
    intros [HS HM] Hne Ht Hnd Hraw d'.
    assert (L : forall q, q <> idx h -> q <> tmp h -> lookup d' q = lookup d q).
    { intros q H1 H2. unfold d'. rewrite lookup_set, lookup_del. rewrite !path_eqb_neq; auto. }
    assert (Li : lookup d' (idx h) = Some (File (enc (nm, ms)))).
    { unfold d'. rewrite lookup_set, path_eqb_refl. auto. }
    assert (Lr : forall h' id, lookup d' (raw h' id) = lookup d (raw h' id)).
    { intros h' id. apply L; [apply raw_ne_idx | apply raw_ne_tmp]. }
    assert (Lo : forall h', h' <> h -> lookup d' (idx h') = lookup d (idx h')).
    { intros h' Hh. apply L.
      - intros E; apply idx_inj in E; auto.
      - intros E. symmetry in E. apply (tmp_ne_idx _ _ E). }
    split; auto. split; [|split; [|split; [|split]]].
    - split.
      + intros q n Hq. destruct (path_eq_dec q (idx h)) as [->|H1].
        * rewrite Li in Hq. inversion Hq; subst. auto.
        * destruct (path_eq_dec q (tmp h)) as [->|H2].
          { unfold d' in Hq. rewrite lookup_set, lookup_del in Hq.
            rewrite path_eqb_neq in Hq by (intros E; symmetry in E; apply (tmp_ne_idx _ _ E)).
            rewrite path_eqb_refl in Hq. discriminate. }
          { rewrite L in Hq; auto. apply HS in Hq; auto. }
      + intros h'. destruct (str_eqb h' h) eqn:E.
        * apply str_eqb_eq in E; subst. unfold MInv. rewrite Li. exists nm, ms. repeat split; auto.
          intros m Hm. rewrite Lr. auto.
        * assert (h' <> h) by (intros ->; rewrite str_eqb_refl in E; discriminate).
          apply (frame d d' h'); auto.
    - unfold Loaded. destruct ms; [congruence|]. eauto.
    - split; auto.
    - apply incl_refl.
    - intros id _ _. apply Lr.
  Qed.

  Lemma commit_remove d h nm :
    Inv d -> let d' := del (idx h) d in
    U d h nm [] [] d' /\ (forall q, q <> idx h -> lookup d' q = lookup d q).
  Proof.
    intros [HS HM] d'.
    assert (L : forall q, q <> idx h -> lookup d' q = lookup d q).
    { intros q H1. unfold d'. rewrite lookup_del, path_eqb_neq; auto. }
    assert (Li : lookup d' (idx h) = None) by (unfold d'; rewrite lookup_del, path_eqb_refl; auto).
    split; auto. split; [|split; [|split; [|split]]].
    - split.
      + intros q n Hq. destruct (path_eq_dec q (idx h)) as [->|H1]; [congruence|].
        rewrite L in Hq; auto. apply HS in Hq; auto.
      + intros h'. destruct (str_eqb h' h) eqn:E.
        * apply str_eqb_eq in E; subst. unfold MInv. rewrite Li. auto.
        * assert (h' <> h) by (intros ->; rewrite str_eqb_refl in E; discriminate).
          apply (frame d d' h'); auto.
          -- apply L. intros E'; apply idx_inj in E'; auto.
          -- intros id _. apply L. apply raw_ne_idx.
    - exact Li.
    - split.
      + intros h' Hh. apply L. intros E'; apply idx_inj in E'; auto.
      + intros h' id _ _. apply L. apply raw_ne_idx.
    - apply incl_refl.
    - intros id [].
  Qed.
End Inv.

(** filedisk_refines_storespec: the disk model of the file store (C10/C11) refines StoreSpec (C07/C08) — the
    top-level statements, fully quantified, and the crash corollary. *)
From IV Require Import Base.Bytes Base.BytesFacts Model.FileDisk Proofs.FileDiskMap Proofs.FileDiskInv Proofs.FileDiskSteps Proofs.FileDiskOps Proofs.FileDiskCrash Proofs.FileDiskHistory Proofs.FileDiskParents Proofs.FileDiskSpec Proofs.FileDiskSpecRun.
From IV Require Import Model.StoreSpec Model.StoreSpecImpl Proofs.StoreSpecFacts Proofs.StoreSpecRefine Proofs.FileStoreRefine.
From Coq Require Import List NArith ZArith Bool Lia Arith Sorted.
Import ListNotations.
Local Open Scope nat_scope.

Lemma final_proj (P Q : disk -> issued str -> Prop) (X : dstate * issued str) :
  (let '((d', _), iss') := X in P d' iss') -> (forall d' iss', P d' iss' -> Q d' iss') ->
  (let '((d', _), iss') := X in Q d' iss').
Proof. destruct X as [[d' s'] iss']. auto. Qed.

(** For every history of completed operations on the empty store, run through the specification's own
    handle-resolving runner ([run_impl], the runner b-store's FileStore model is run by): every answer the disk
    model gives — handle issued and read-back of a delivery, get by handle / latest, listings oldest first,
    seen, remove, purge, the deleted events incl. cap evictions — is [run_spec]'s answer, a Visit yields exactly
    [run_spec]'s non-empty mailboxes (as a set); and the final disk is reachable and, mailbox by mailbox, its
    listing (ids, dates, tags, sizes, seen flags, in order) is the image of [final_spec]'s mailbox under the
    id table. HYPOTHESES, all named: [dec (enc i) = Some i] (gob), [hash] injective (SHA-1 on the names in
    use; the specification keys by name), the descriptor encoding round trip ([date_of]/[tag_of]/[body_of]),
    [c_max cfg = 0] (the file store has no byte limit), and [disk_fresh] (the id generator always offers an
    id that is neither in the mailbox nor was issued to it before — b-store's [file_fresh]; the generator's
    output is an input here, a modelled clock there). Cap eviction order needs no hypothesis: both evict the
    oldest of the mailbox first. *)
Theorem filedisk_refines_storespec :
  forall (info_of : Z -> N -> str) (body_of : N -> N -> str) (date_of : str -> Z) (tag_of : str -> N),
    (forall d t, date_of (info_of d t) = d) -> (forall d t, tag_of (info_of d t) = t) ->
    (forall t s, N.of_nat (length (body_of t s)) = s) ->
  forall (enc : index -> str) (dec : str -> option index), (forall i, dec (enc i) = Some i) ->
  forall (hash : str -> str), (forall a b, hash a = hash b -> a = b) ->
  forall (cfg : scfg), c_max cfg = 0%N ->
  forall (ops : list StoreSpec.op) (sup : list (list str)),
    disk_fresh info_of body_of date_of tag_of enc dec hash cfg (([], sup), []) ops ->
    Forall2 pair_eq
      (run_impl str str_eqb dstate (exec_disk info_of body_of date_of tag_of enc dec hash cfg) (([], sup), []) ops)
      (run_spec cfg spec_init ops) /\
    (let '((d', _), iss') := final_impl str str_eqb dstate (exec_disk info_of body_of date_of tag_of enc dec hash cfg) (([], sup), []) ops in
     reach enc dec hash (c_cap cfg) d' /\
     forall mb, ix date_of tag_of dec hash d' mb =
                map (fun e => (nth (e_k e) (iss_of str mb iss') [], e_msg e)) (box mb (live (final_spec cfg spec_init ops)))).
Proof.
  intros info_of body_of date_of tag_of H1 H2 H3 enc dec Hde hash Hinj cfg Hmax ops sup Hf.
  destruct (disk_run_sim_all info_of body_of date_of tag_of H1 H2 H3 enc dec Hde hash Hinj cfg Hmax ops
              spec_init [] sup [] (RD_init date_of tag_of enc dec hash cfg) (RV_init dec hash) SInv_init Hf) as [A B].
  split; [exact A|].
  eapply (final_proj _ _ _ B). intros d' iss' [HR _].
  split; [apply (rd_reach _ _ _ _ _ _ _ _ _ HR) | apply (rd_box _ _ _ _ _ _ _ _ _ HR)].
Qed.

(** without Visit operations the two runs are EQUAL (observations and events, in order) *)
Theorem filedisk_refines_storespec_exact :
  forall (info_of : Z -> N -> str) (body_of : N -> N -> str) (date_of : str -> Z) (tag_of : str -> N),
    (forall d t, date_of (info_of d t) = d) -> (forall d t, tag_of (info_of d t) = t) ->
    (forall t s, N.of_nat (length (body_of t s)) = s) ->
  forall (enc : index -> str) (dec : str -> option index), (forall i, dec (enc i) = Some i) ->
  forall (hash : str -> str), (forall a b, hash a = hash b -> a = b) ->
  forall (cfg : scfg), c_max cfg = 0%N ->
  forall (ops : list StoreSpec.op) (sup : list (list str)),
    forallb (fun o => negb (is_visit o)) ops = true ->
    disk_fresh info_of body_of date_of tag_of enc dec hash cfg (([], sup), []) ops ->
    run_impl str str_eqb dstate (exec_disk info_of body_of date_of tag_of enc dec hash cfg) (([], sup), []) ops =
    run_spec cfg spec_init ops.
Proof.
  intros info_of body_of date_of tag_of H1 H2 H3 enc dec Hde hash Hinj cfg Hmax ops sup Hnv Hf.
  apply (disk_run_sim info_of body_of date_of tag_of H1 H2 H3 enc dec Hde hash Hinj cfg Hmax ops
           spec_init [] sup [] (RD_init date_of tag_of enc dec hash cfg) SInv_init Hnv Hf).
Qed.

(** The crash corollary: from a disk that represents the specification state [st] (relation [RD], which every
    state reached by the theorem above satisfies), an operation killed at any crash point leaves a disk that
    again represents a specification state: [st] itself (not at all), or — the open finding, a delivery that
    evicts for the cap — [st] minus the j oldest messages of the mailbox, 1 <= j <= evictions; or it lists,
    in every mailbox, exactly what the disk of the COMPLETED operation lists, which by
    [filedisk_refines_storespec] represents the specification's state after the operation. *)
Theorem crash_is_storespec_state :
  forall (date_of : str -> Z) (tag_of : str -> N),
  forall (enc : index -> str) (dec : str -> option index), (forall i, dec (enc i) = Some i) ->
  forall (hash : str -> str), (forall a b, hash a = hash b -> a = b) ->
  forall (cfg : scfg) (st : spec_store) (d : disk) (iss : issued str) (od : FileDisk.op) (d' : disk),
    RD date_of tag_of enc dec hash cfg st d iss ->
    crash_reach (steps enc dec hash (c_cap cfg) od d) d d' ->
    RD date_of tag_of enc dec hash cfg st d' iss \/
    (exists j, (1 <= j <= evictions dec hash (c_cap cfg) od d)%nat /\
       RD date_of tag_of enc dec hash cfg
          {| live := snd (drop_oldest (op_mailbox od) j (live st)); counts := counts st |} d' iss) \/
    (reach enc dec hash (c_cap cfg) d' /\
     forall mb, ix date_of tag_of dec hash d' mb = ix date_of tag_of dec hash (FileDisk.exec enc dec hash (c_cap cfg) od d) mb).
Proof.
  intros date_of tag_of enc dec Hde hash Hinj cfg st d iss od d' HR Hc.
  pose proof (rd_reach _ _ _ _ _ _ _ _ _ HR) as Hr.
  assert (Hr' : reach enc dec hash (c_cap cfg) d') by (eapply reach_step; eauto).
  destruct (crash_atomic_capped enc dec Hde hash (c_cap cfg) d od d' Hr Hc) as [[j [Hj [Hv Ho]]]|Hall].
  - assert (Hoth : forall mb, mb <> op_mailbox od -> ix date_of tag_of dec hash d' mb = ix date_of tag_of dec hash d mb).
    { intros mb Hne. unfold ix, vw. rewrite Ho; [reflexivity|]. unfold mailbox_of. intros E. apply Hinj in E. auto. }
    assert (Hmb : ix date_of tag_of dec hash d' (op_mailbox od) = skipn j (ix date_of tag_of dec hash d (op_mailbox od))).
    { unfold ix, vw. unfold mailbox_of in Hv. rewrite Hv.
      destruct (FileDisk.view dec d (hash (op_mailbox od))); simpl; [apply map_skipn | destruct j; reflexivity]. }
    destruct j as [|j].
    + left. constructor; auto.
      * intros mb. destruct (list_eq_dec N.eq_dec mb (op_mailbox od)) as [->|Hne].
        -- rewrite Hmb. simpl. apply (rd_box _ _ _ _ _ _ _ _ _ HR).
        -- rewrite Hoth by exact Hne. apply (rd_box _ _ _ _ _ _ _ _ _ HR).
      * apply (rd_len _ _ _ _ _ _ _ _ _ HR).
      * apply (rd_nd _ _ _ _ _ _ _ _ _ HR).
    + right; left. exists (S j). split; [lia|].
      pose proof (drop_oldest_spec (op_mailbox od) (S j) (live st)) as Hd.
      destruct (drop_oldest (op_mailbox od) (S j) (live st)) as [dl r]. destruct Hd as [_ [Hb [Hbo _]]].
      constructor; cbn [live counts snd]; auto.
      * intros mb. destruct (list_eq_dec N.eq_dec mb (op_mailbox od)) as [->|Hne].
        -- rewrite Hmb, Hb. rewrite (rd_box _ _ _ _ _ _ _ _ _ HR). unfold drep, rep. apply skipn_map.
        -- rewrite Hoth, Hbo by exact Hne. apply (rd_box _ _ _ _ _ _ _ _ _ HR).
      * apply (rd_len _ _ _ _ _ _ _ _ _ HR).
      * apply (rd_nd _ _ _ _ _ _ _ _ _ HR).
  - right; right. split; auto. intros mb. unfold ix, vw. rewrite Hall. reflexivity.
Qed.

(** non-vacuity: a descriptor encoding with the round trips exists, SHA-1 may be any injective function, and
    a history with two deliveries (cap 1: the second evicts the first), a listing and a visit satisfies
    [disk_fresh]. *)
From IV Require Import Model.FileDiskCodec Proofs.FileDiskCodec.

Definition x_info (d : Z) (t : N) : str := [if (d <? 0)%Z then 1%N else 0%N; Z.abs_N d; t].
Definition x_date (s : str) : Z := match s with sg :: a :: _ => if (sg =? 1)%N then (- Z.of_N a)%Z else Z.of_N a | _ => 0%Z end.
Definition x_tag (s : str) : N := match s with _ :: _ :: t :: _ => t | _ => 0%N end.
Definition x_body (t s : N) : str := repeat t (N.to_nat s).

Lemma x_info_date d t : x_date (x_info d t) = d.
Proof.
  unfold x_date, x_info. destruct (d <? 0)%Z eqn:E; simpl; rewrite N2Z.inj_abs_N.
  - apply Z.ltb_lt in E. lia.
  - apply Z.ltb_ge in E. lia.
Qed.
Lemma x_info_tag d t : x_tag (x_info d t) = t.
Proof. reflexivity. Qed.
Lemma x_body_len t s : N.of_nat (length (x_body t s)) = s.
Proof. unfold x_body. rewrite repeat_length. apply N2Nat.id. Qed.

Example disk_fresh_example :
  disk_fresh x_info x_body x_date x_tag enc_index dec_index (fun s => s) {| c_cap := 1; c_max := 0 |}
    (([], [[[105; 49]]; [[105; 50]]]%N), [])
    [StoreSpec.Add [97; 98; 99; 100; 101; 102]%N 5%Z 7%N 2%N; StoreSpec.Add [97; 98; 99; 100; 101; 102]%N 6%Z 8%N 3%N;
     Lst [97; 98; 99; 100; 101; 102]%N; Visit].
Proof.
  simpl. split; [exists [105; 49]%N; split; [vm_compute; reflexivity | intros []]|].
  split; [exists [105; 50]%N; split; [vm_compute; reflexivity | vm_compute; intuition discriminate]|].
  auto.
Qed.

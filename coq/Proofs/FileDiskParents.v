(** Parent-directory invariant of the file-store disk and completeness of the VisitMailboxes walk:
    every mailbox that lists messages by name is among the mailboxes the walk yields. *)
From IV Require Import Base.Bytes Base.BytesFacts Model.FileDisk Proofs.FileDiskMap Proofs.FileDiskInv Proofs.FileDiskSteps Proofs.FileDiskOps Proofs.FileDiskCrash.
From Coq Require Import List NArith Bool Lia.
Import ListNotations.

(** every entry below the first level has its parent directory *)
Definition PC (d : disk) : Prop :=
  forall p n, lookup d p = Some n -> parent p <> [] -> lookup d (parent p) = Some Dir.

Lemma parent_snoc (p : path) c : parent (p ++ [c]) = p.
Proof. apply removelast_last. Qed.

Lemma path_snoc (p : path) : p <> [] -> exists q c, p = q ++ [c].
Proof. intros H. exists (removelast p), (last p []). apply app_removelast_last; auto. Qed.

Lemma parent_prefix (p r : path) : is_prefix p (parent r) = true -> is_prefix p r = true.
Proof.
  intros H. destruct r as [|x r']; [exact H|].
  destruct (path_snoc (x :: r')) as [q [c E]]; [discriminate|]. rewrite E in *. rewrite parent_snoc in H.
  apply is_prefix_spec in H. destruct H as [t ->]. apply is_prefix_spec. exists (t ++ [c]). rewrite app_assoc; auto.
Qed.

Lemma is_dir_parent d p : is_dir d (parent p) = true -> parent p <> [] -> lookup d (parent p) = Some Dir.
Proof.
  unfold is_dir. destruct (parent p); [congruence|]. destruct (lookup d (s :: p0)) as [[|]|]; auto; discriminate.
Qed.

Lemma PC_set_file d p b :
  PC d -> (parent p <> [] -> lookup d (parent p) = Some Dir) -> lookup d p <> Some Dir -> PC (set p (File b) d).
Proof.
  intros H Hp Hnd q n Hq Hne. rewrite lookup_set in *.
  destruct (path_eqb p q) eqn:E.
  - apply path_eqb_eq in E; subst q. destruct (path_eqb p (parent p)) eqn:F; auto.
    apply path_eqb_eq in F. rewrite <- F in *. exfalso. specialize (Hp Hne). congruence.
  - pose proof (H q n Hq Hne) as Hd. destruct (path_eqb p (parent q)) eqn:F; auto.
    apply path_eqb_eq in F; subst. congruence.
Qed.

Lemma PC_del_leaf d p : PC d -> (forall c, lookup d (p ++ [c]) = None) -> PC (del p d).
Proof.
  intros H Hleaf q n Hq Hne. rewrite lookup_del in *.
  destruct (path_eqb p q) eqn:E; [discriminate|].
  destruct (path_eqb p (parent q)) eqn:F.
  - apply path_eqb_eq in F. exfalso. destruct q as [|x q']; [simpl in Hne; congruence|].
    destruct (path_snoc (x :: q')) as [r [c Ec]]; [discriminate|]. rewrite Ec in *. rewrite parent_snoc in F. subst r.
    rewrite Hleaf in Hq. discriminate.
  - apply H in Hq; auto.
Qed.

Lemma PC_file_leaf d p b c : Struct d -> PC d -> lookup d p = Some (File b) -> lookup d (p ++ [c]) = None.
Proof.
  intros HS H Hp. destruct (lookup d (p ++ [c])) eqn:E; auto.
  assert (Hpar : lookup d (parent (p ++ [c])) = Some Dir).
  { apply (H _ _ E). rewrite parent_snoc. intros ->. apply HS in Hp. simpl in Hp. discriminate. }
  rewrite parent_snoc in Hpar. congruence.
Qed.

Lemma PC_mkdir d p d' : PC d -> mkdir_chain [] p d = Some d' -> PC d'.
Proof.
  intros H Hm. destruct (mkdir_chain_spec _ _ _ _ Hm) as [A [B C]].
  intros q n Hq Hne. destruct (B q n Hq) as [Hold|[-> [k [Hk ->]]]].
  - apply A. apply (H q n Hold Hne).
  - simpl in *. destruct k as [|k]; [lia|].
    assert (Hlt : (k < length p)%nat) by lia.
    unfold parent in *. rewrite removelast_firstn in * by exact Hlt.
    destruct k as [|k]; [simpl in Hne; congruence|]. apply (C (S k)). lia.
Qed.

(** a RemoveAll that may be interrupted half-way only ever targets a mailbox directory (level 3) *)
Definition ok_step (s : fsstep) : Prop :=
  match s with RemoveAll p => length p = 3%nat | _ => True end.

Lemma PC_step s x y : Struct x -> PC x -> apply_step s x = Some y -> PC y.
Proof.
  intros HS H E. destruct s; simpl in E.
  - eapply PC_mkdir; eauto.
  - destruct (is_dir x (parent p)) eqn:Hd; [|discriminate].
    assert (Hp : parent p <> [] -> lookup x (parent p) = Some Dir) by (apply is_dir_parent; auto).
    destruct (lookup x p) as [[|c]|] eqn:L; inversion E; subst; apply PC_set_file; auto; congruence.
  - destruct (lookup x p) as [[|c]|] eqn:L; inversion E; subst. apply PC_set_file; auto; [|congruence].
    intros Hne. apply (H p _ L Hne).
  - destruct (lookup x p) as [[|c]|] eqn:L; inversion E; subst. apply PC_set_file; auto; [|congruence].
    intros Hne. apply (H p _ L Hne).
  - destruct (lookup x p) as [[|c]|]; inversion E; subst; auto.
  - destruct (lookup x p) as [[|c]|] eqn:L; try discriminate.
    destruct (is_dir x (parent q)) eqn:Hd; [|discriminate].
    assert (PCd : PC (del p x)).
    { apply PC_del_leaf; auto. intros c0. eapply PC_file_leaf; eauto. }
    assert (Hpq : parent q <> [] -> lookup (del p x) (parent q) = Some Dir).
    { intros Hne. pose proof (is_dir_parent x q Hd Hne) as Hq. rewrite lookup_del.
      destruct (path_eqb p (parent q)) eqn:F; auto. apply path_eqb_eq in F; subst. congruence. }
    assert (Hnq : forall n, lookup x q = Some n -> n <> Dir -> lookup (del p x) q <> Some Dir).
    { intros n Hn Hnd. rewrite lookup_del. destruct (path_eqb p q); congruence. }
    destruct (lookup x q) as [[|c']|] eqn:Lq; inversion E; subst; apply PC_set_file; auto.
    + eapply Hnq; eauto. discriminate.
    + rewrite lookup_del. destruct (path_eqb p q); congruence.
  - destruct (lookup x p) as [[|c]|] eqn:L; inversion E; subst; auto.
    apply PC_del_leaf; auto. intros c0. eapply PC_file_leaf; eauto.
  - destruct (lookup x p) as [[|c]|] eqn:L; inversion E; subst.
    apply PC_del_leaf; auto. intros c0. eapply PC_file_leaf; eauto.
  - inversion E; subst. intros q n Hq Hne. rewrite lookup_del_tree in *.
    destruct (is_prefix p q) eqn:Pq; [discriminate|].
    destruct (is_prefix p (parent q)) eqn:Pp; [apply parent_prefix in Pp; congruence|]. apply (H q n Hq Hne).
  - destruct (lookup x p) as [[|c]|] eqn:L; try discriminate.
    destruct (children p x) eqn:C; inversion E; subst. apply PC_del_leaf; auto. apply children_nil; auto.
Qed.

Lemma PC_mid v s x y : ok_step s -> Struct x -> PC x -> mid_step v s x = Some y -> PC y.
Proof.
  intros Hok HS H E. destruct s; destruct v; simpl in E; try discriminate.
  - eapply PC_mkdir; eauto.
  - destruct (lookup x p) as [[|c]|] eqn:L; inversion E; subst. apply PC_set_file; auto; [|congruence].
    intros Hne. apply (H p _ L Hne).
  - destruct (lookup x p) as [[|c]|] eqn:L; inversion E; subst. apply PC_set_file; auto; [|congruence].
    intros Hne. apply (H p _ L Hne).
  - inversion E; subst. simpl in Hok. intros q n Hq Hne. rewrite lookup_del_tree_partial in *.
    destruct (negb (is_prefix p q) || path_eqb q p || keep q) eqn:Cq; [|discriminate].
    pose proof (H q n Hq Hne) as Hpar.
    destruct (is_prefix p (parent q)) eqn:Pp; simpl; auto.
    destruct (path_eqb (parent q) p) eqn:Ep; simpl; auto.
    exfalso. apply is_prefix_spec in Pp. destruct Pp as [t Et].
    assert (t <> []) by (intros ->; rewrite app_nil_r in Et; rewrite Et, path_eqb_refl in Ep; discriminate).
    apply HS in Hpar. simpl in Hpar. rewrite Et, app_length in Hpar. destruct t; [congruence|]. simpl in Hpar. lia.
Qed.

Lemma crash_PC ss : forall d d',
  Forall ok_step ss -> (forall x, crash_reach ss d x -> Struct x) -> PC d -> crash_reach ss d d' -> PC d'.
Proof.
  induction ss as [|s r IH]; intros d d' Hok HS H Hc.
  - apply crash_reach_nil in Hc; subst; auto.
  - inversion Hok as [|? ? Hs Hr]; subst.
    inversion Hc as [ | v s0 ss0 d0 d0' Hm | s0 ss0 d0 d1 d0' Ha Hcr]; subst; auto.
    + apply (PC_mid v s d d' Hs (HS d (cr_here _ _)) H Hm).
    + apply (IH d1 d'); auto.
      * intros x Hx. apply HS. eapply cr_step; eauto.
      * apply (PC_step s d d1 (HS d (cr_here _ _)) H Ha).
Qed.

(** all step lists the operations produce are ok *)
Definition prog_ok (a : prog) : Prop := forall d, Forall ok_step (a d).

Lemma pseq_ok a b : prog_ok a -> prog_ok b -> prog_ok (pseq a b).
Proof. intros Ha Hb d. unfold pseq. apply Forall_app. split; auto. Qed.

Ltac ok_list := repeat (constructor; simpl; auto).

Lemma p_mkdir_ok h : prog_ok (p_mkdir h).
Proof. intros d. unfold p_mkdir. destruct (lookup d (mbdir h)); ok_list. Qed.

Lemma p_file_ok w p b : prog_ok (p_file w p b).
Proof. intros d. unfold p_file. ok_list. Qed.

Lemma p_rmdirs_ok h : prog_ok (p_rmdirs h).
Proof.
  intros d. unfold p_rmdirs. destruct (empty_dir d (l2dir h)); [|constructor].
  destruct (empty_dir (del (l2dir h) d) (l1dir h)); ok_list.
Qed.

Lemma p_write_index_ok enc h nm ms : prog_ok (p_write_index enc h nm ms).
Proof.
  unfold p_write_index. destruct ms.
  - apply pseq_ok; [|apply p_rmdirs_ok]. intros d. ok_list.
  - apply pseq_ok; [apply p_mkdir_ok|]. intros d. apply Forall_app. split; [apply p_file_ok | ok_list].
Qed.

Lemma p_remove_ok enc h nm ms id : prog_ok (p_remove enc h nm ms id).
Proof.
  unfold p_remove. apply pseq_ok; [apply p_write_index_ok|]. intros d. destruct (remove_first id ms); ok_list.
Qed.

Lemma p_evict_ok enc n : forall h nm ms, prog_ok (p_evict enc n h nm ms).
Proof.
  induction n as [|n IH]; intros h nm ms; simpl.
  - destruct ms; intros d; constructor.
  - destruct ms as [|m ms']; [intros d; constructor|]. apply pseq_ok; [apply p_remove_ok | apply IH].
Qed.

Lemma steps_ok enc dec hash cap o d : Forall ok_step (steps enc dec hash cap o d).
Proof.
  unfold steps. destruct (read_index dec d (hash (op_mailbox o)) (op_mailbox o)) as [[nm ms]|]; [|constructor].
  destruct o as [mb info body cands | mb id | mb id | mb].
  - destruct (pick_id cands (skipn (evict_count cap (length ms)) ms)).
    + apply pseq_ok; [apply p_evict_ok|]. apply pseq_ok; [apply p_mkdir_ok|].
      apply pseq_ok; [apply p_file_ok | apply p_write_index_ok].
    + apply p_evict_ok.
  - destruct (find_id id ms) as [m|]; [|constructor]. destruct (m_seen m); [constructor | apply p_write_index_ok].
  - destruct (has_id id ms); [apply p_remove_ok | constructor].
  - apply p_write_index_ok.
Qed.

(** ** the walk is complete *)
Lemma lookup_children d p c n : lookup d (p ++ [c]) = Some n -> In c (children p d).
Proof. intros H. apply children_In. exists n. apply lookup_In; auto. Qed.

Lemma visit_mboxes_In dec d names : forall vs n v,
  visit_mboxes dec d names = Some vs -> In n names -> view dec d n = Some v -> In v vs.
Proof.
  induction names as [|x r IH]; intros vs n v H Hin Hv; [destruct Hin|].
  simpl in H. destruct (view dec d x) as [vx|] eqn:Ex; [|discriminate].
  destruct (visit_mboxes dec d r) as [vr|] eqn:Er; [|discriminate]. inversion H; subst.
  destruct Hin as [->|Hin]; [left; congruence | right; eapply IH; eauto].
Qed.

Lemma visit_l2_In dec d n1 names : forall vs n2 n3 v,
  visit_l2 dec d n1 names = Some vs -> In n2 names -> In n3 (children [n1; n2] d) -> view dec d n3 = Some v -> In v vs.
Proof.
  induction names as [|x r IH]; intros vs n2 n3 v H Hin Hc Hv; [destruct Hin|].
  cbn [visit_l2] in H. destruct (is_dir d [n1; x]); [|discriminate].
  destruct (visit_mboxes dec d (children [n1; x] d)) as [a|] eqn:Ea; [|discriminate].
  destruct (visit_l2 dec d n1 r) as [b|] eqn:Eb; [|discriminate]. inversion H; subst.
  apply in_or_app. destruct Hin as [->|Hin]; [left; eapply visit_mboxes_In; eauto | right; eapply IH; eauto].
Qed.

Lemma visit_l1_In dec d names : forall vs n1 n2 n3 v,
  visit_l1 dec d names = Some vs -> In n1 names -> In n2 (children [n1] d) -> In n3 (children [n1; n2] d) ->
  view dec d n3 = Some v -> In v vs.
Proof.
  induction names as [|x r IH]; intros vs n1 n2 n3 v H Hin Hc2 Hc3 Hv; [destruct Hin|].
  cbn [visit_l1] in H. destruct (is_dir d [x]); [|discriminate].
  destruct (visit_l2 dec d x (children [x] d)) as [a|] eqn:Ea; [|discriminate].
  destruct (visit_l1 dec d r) as [b|] eqn:Eb; [|discriminate]. inversion H; subst.
  apply in_or_app. destruct Hin as [->|Hin]; [left; eapply visit_l2_In; eauto | right; eapply IH; eauto].
Qed.

Lemma reach_PC enc dec hash cap d :
  (forall i, dec (enc i) = Some i) -> reach enc dec hash cap d -> PC d.
Proof.
  intros dec_enc Hr. induction Hr as [|d o d' Hr IH Hc].
  - intros p n H. discriminate.
  - eapply crash_PC; [apply steps_ok | | exact IH | exact Hc].
    intros x Hx. apply (crash_Inv enc dec dec_enc hash cap d o x); auto. eapply reach_Inv; eauto.
Qed.

(** Every non-empty mailbox that can be listed by name is among the mailboxes VisitMailboxes yields
    (and the walk succeeds), on every reachable disk — after any history with crashes. *)
Theorem visit_complete : forall (enc : index -> str) (dec : str -> option index), (forall i, dec (enc i) = Some i) ->
  forall (hash : str -> str) (cap : nat) (d : disk) (mb : str) v,
    reach enc dec hash cap d -> view dec d (hash mb) = Some v -> v <> [] ->
    exists vs, visit dec d = Some vs /\ In v vs.
Proof.
  intros enc dec dec_enc hash cap d mb v Hr Hv Hne.
  pose proof (reach_PC enc dec hash cap d dec_enc Hr) as HP.
  pose proof (reach_Inv enc dec dec_enc hash cap d Hr) as HI.
  destruct (crash_readable enc dec dec_enc hash cap d Hr) as [_ Hvis].
  destruct (visit dec d) as [vs|] eqn:Evis; [|congruence]. exists vs. split; auto.
  set (h := hash mb) in *.
  (* the index file exists, hence the three directories above it *)
  assert (Hidx : exists b, lookup d (idx h) = Some (File b)).
  { unfold view, read_index in Hv. destruct (lookup d (idx h)) as [[|b]|] eqn:E; eauto; [discriminate|].
    inversion Hv; subst. congruence. }
  destruct Hidx as [b Hidx].
  assert (H3 : lookup d (mbdir h) = Some Dir).
  { apply (HP (idx h) _ Hidx). rewrite parent_idx. discriminate. }
  assert (H2 : lookup d (l2dir h) = Some Dir).
  { apply (HP (mbdir h) _ H3). discriminate. }
  assert (H1 : lookup d (l1dir h) = Some Dir).
  { apply (HP (l2dir h) _ H2). discriminate. }
  unfold visit in Evis.
  eapply (visit_l1_In dec d (children [] d) vs (firstn 3 h) (firstn 6 h) h v); eauto.
  - eapply (lookup_children d [] (firstn 3 h)). exact H1.
  - eapply (lookup_children d [firstn 3 h] (firstn 6 h)). exact H2.
  - eapply (lookup_children d [firstn 3 h; firstn 6 h] h). exact H3.
Qed.

(** Generic part of the refinement proofs: an implementation mailbox that is the image of the
    abstract mailbox under an injective id assignment answers id-keyed look-ups, removals and
    seen-marks exactly as the abstract mailbox answers them by handle number; handles resolve
    and ids translate back consistently. *)
From Coq Require Import List Arith Lia Sorted.
From IV Require Import Base.Bytes Base.BytesFacts Model.StoreSpec Model.StoreSpecImpl Proofs.StoreSpecFacts.
Import ListNotations.
Local Open Scope nat_scope.

(* ---- abstract side: operations on the global list seen through one mailbox *)
Lemma find_box mb k l : find (is_ent mb k) l = find (fun e => Nat.eqb (e_k e) k) (box mb l).
Proof.
  induction l as [|e l IH]; simpl; [reflexivity|]. unfold is_ent at 1.
  destruct (ent_in mb e) eqn:E; simpl; [destruct (Nat.eqb (e_k e) k); auto | exact IH].
Qed.

Lemma box_remove_same mb k l : box mb (remove_ent mb k l) = filter (fun e => negb (Nat.eqb (e_k e) k)) (box mb l).
Proof.
  unfold remove_ent. rewrite box_filter. apply filter_ext_in. intros e He.
  apply box_in in He as [_ He]. unfold is_ent. apply ent_in_eq in He. rewrite He. reflexivity.
Qed.

Lemma box_remove_other mb mb' k l : mb' <> mb -> box mb' (remove_ent mb k l) = box mb' l.
Proof.
  intros Hne. unfold remove_ent. rewrite box_filter. apply filter_all_true. intros e He.
  apply box_in in He as [_ He]. unfold is_ent.
  assert (ent_in mb e = false) as -> by (apply ent_in_neq; congruence). reflexivity.
Qed.

Definition seen_k (k : nat) (e : entry) : entry :=
  if Nat.eqb (e_k e) k then {| e_mb := e_mb e; e_k := e_k e; e_msg := msg_set_seen (e_msg e) |} else e.

Lemma box_seen_same mb k l : box mb (set_seen mb k l) = map (seen_k k) (box mb l).
Proof.
  unfold set_seen, box. rewrite filter_map_comm.
  rewrite (filter_ext (fun a => ent_in mb (if is_ent mb k a then _ else a)) (ent_in mb)).
  2:{ intros a. destruct (is_ent mb k a); reflexivity. }
  induction l as [|e l IH]; simpl; [reflexivity|].
  destruct (ent_in mb e) eqn:E; simpl; [|exact IH]. f_equal; [|exact IH].
  unfold is_ent, seen_k. rewrite E. reflexivity.
Qed.

Lemma box_seen_other mb mb' k l : mb' <> mb -> box mb' (set_seen mb k l) = box mb' l.
Proof.
  intros Hne. unfold set_seen, box. rewrite filter_map_comm.
  rewrite (filter_ext (fun a => ent_in mb' (if is_ent mb k a then _ else a)) (ent_in mb')).
  2:{ intros a. destruct (is_ent mb k a); reflexivity. }
  induction l as [|e l IH]; simpl; [reflexivity|].
  destruct (ent_in mb' e) eqn:E; simpl; [|exact IH]. f_equal; [|exact IH].
  unfold is_ent. apply ent_in_eq in E.
  assert (ent_in mb e = false) as -> by (apply ent_in_neq; congruence). reflexivity.
Qed.

Lemma box_purge_same mb l : box mb (filter (fun e => negb (ent_in mb e)) l) = [].
Proof.
  rewrite box_filter. apply filter_all_false. intros e He. apply box_in in He as [_ He].
  apply ent_in_eq in He. rewrite He. reflexivity.
Qed.

Lemma box_purge_other mb mb' l : mb' <> mb -> box mb' (filter (fun e => negb (ent_in mb e)) l) = box mb' l.
Proof.
  intros Hne. rewrite box_filter. apply filter_all_true. intros e He. apply box_in in He as [_ He].
  assert (ent_in mb e = false) as -> by (apply ent_in_neq; congruence). reflexivity.
Qed.

Lemma find_some_in {A} (f : A -> bool) l x : find f l = Some x -> In x l /\ f x = true.
Proof. apply find_some. Qed.

Lemma last_opt_map {A B} (h : A -> B) l : last_opt (map h l) = option_map h (last_opt l).
Proof.
  induction l as [|a l IH]; [reflexivity|]. destruct l as [|b l]; [reflexivity|].
  change (last_opt (map h (a :: b :: l))) with (last_opt (map h (b :: l))). rewrite IH. reflexivity.
Qed.

Section Rep.
Variable ID : Type.
Variable id_eqb : ID -> ID -> bool.
Hypothesis id_eqb_eq : forall a b, id_eqb a b = true <-> a = b.
Variable idof : nat -> ID.
Variable n : nat.
Hypothesis idof_inj : forall a b, a < n -> b < n -> idof a = idof b -> a = b.

Definition rep (sb : list entry) : list (ID * msg) := map (fun e => (idof (e_k e), e_msg e)) sb.

Lemma id_eqb_refl a : id_eqb a a = true.
Proof. apply id_eqb_eq. reflexivity. Qed.

Lemma id_eqb_idof a b : a < n -> b < n -> id_eqb (idof a) (idof b) = Nat.eqb b a.
Proof.
  intros Ha Hb. destruct (Nat.eqb b a) eqn:E.
  - apply Nat.eqb_eq in E. subst. apply id_eqb_refl.
  - apply Nat.eqb_neq in E. destruct (id_eqb (idof a) (idof b)) eqn:E'; [|reflexivity].
    apply id_eqb_eq in E'. apply idof_inj in E'; auto. congruence.
Qed.

Lemma rep_find k sb : k < n -> (forall e, In e sb -> e_k e < n) ->
  al_find ID id_eqb (idof k) (rep sb) = option_map e_msg (find (fun e => Nat.eqb (e_k e) k) sb).
Proof.
  intros Hk. induction sb as [|e sb IH]; intros Hb; simpl; [reflexivity|].
  rewrite id_eqb_idof by (auto; apply Hb; left; reflexivity).
  destruct (Nat.eqb (e_k e) k); [reflexivity|]. apply IH. intros x Hx. apply Hb. right; exact Hx.
Qed.

Lemma rep_remove k sb : k < n -> (forall e, In e sb -> e_k e < n) -> StronglySorted klt sb ->
  al_remove ID id_eqb (idof k) (rep sb) = rep (filter (fun e => negb (Nat.eqb (e_k e) k)) sb).
Proof.
  intros Hk. induction sb as [|e sb IH]; intros Hb Hs; simpl; [reflexivity|].
  rewrite id_eqb_idof by (auto; apply Hb; left; reflexivity).
  apply StronglySorted_inv in Hs as [Hs1 Hs2].
  destruct (Nat.eqb (e_k e) k) eqn:E; simpl.
  - apply Nat.eqb_eq in E. f_equal. symmetry. apply filter_all_true. intros x Hx.
    rewrite Forall_forall in Hs2. specialize (Hs2 x Hx). unfold klt in Hs2.
    apply Bool.negb_true_iff. apply Nat.eqb_neq. lia.
  - f_equal. apply IH; [|exact Hs1]. intros x Hx. apply Hb. right; exact Hx.
Qed.

Lemma rep_seen k sb : k < n -> (forall e, In e sb -> e_k e < n) -> StronglySorted klt sb ->
  al_seen ID id_eqb (idof k) (rep sb) = rep (map (seen_k k) sb).
Proof.
  intros Hk. induction sb as [|e sb IH]; intros Hb Hs; [reflexivity|].
  apply StronglySorted_inv in Hs as [Hs1 Hs2].
  cbn [map rep al_seen]. rewrite id_eqb_idof by (auto; apply Hb; left; reflexivity).
  unfold seen_k at 1 2. destruct (Nat.eqb (e_k e) k) eqn:E; cbn [e_k e_msg].
  - f_equal. apply Nat.eqb_eq in E. unfold rep. rewrite map_map. apply map_ext_in. intros x Hx.
    rewrite Forall_forall in Hs2. specialize (Hs2 x Hx). unfold klt in Hs2. unfold seen_k.
    assert (Nat.eqb (e_k x) k = false) as -> by (apply Nat.eqb_neq; lia). reflexivity.
  - f_equal. apply IH; [|exact Hs1]. intros x Hx. apply Hb. right; exact Hx.
Qed.

Lemma rep_seen_view sb k : map (fun e => (idof (e_k e), e_msg e)) (map (seen_k k) sb) = rep (map (seen_k k) sb).
Proof. reflexivity. Qed.

Lemma rep_length sb : length (rep sb) = length sb.
Proof. apply map_length. Qed.
End Rep.

(* ---- the issued-id table *)
Section Iss.
Variable ID : Type.
Variable id_eqb : ID -> ID -> bool.
Hypothesis id_eqb_eq : forall a b, id_eqb a b = true <-> a = b.

Lemma index_of_nth (L : list ID) d k : NoDup L -> k < length L ->
  index_of_id ID id_eqb (nth k L d) L = Some k.
Proof.
  revert k. induction L as [|x L IH]; intros k Hnd Hk; simpl in *; [lia|].
  inversion Hnd as [|? ? Hni Hnd']; subst. destruct k as [|k].
  - rewrite (proj2 (id_eqb_eq x x) eq_refl). reflexivity.
  - destruct (id_eqb (nth k L d) x) eqn:E.
    + apply id_eqb_eq in E. exfalso. apply Hni. rewrite <- E. apply nth_In. lia.
    + rewrite IH by (auto; lia). reflexivity.
Qed.

Lemma nth_inj (L : list ID) d a b : NoDup L -> a < length L -> b < length L -> nth a L d = nth b L d -> a = b.
Proof. intros Hnd Ha Hb H. eapply NoDup_nth; eauto. Qed.

Lemma nth_error_nth_lt (L : list ID) d k : k < length L -> nth_error L k = Some (nth k L d).
Proof. intros H. apply nth_error_nth'. exact H. Qed.

Lemma nth_error_ge (L : list ID) k : length L <= k -> nth_error L k = None.
Proof. apply nth_error_None. Qed.
End Iss.

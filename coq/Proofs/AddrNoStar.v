(** C05: the side condition of [origin_rule] / [wildcard_correct] — the matched string holds no '*' — is met by every
    domain that passed ValidateDomainPart (audit item: the guard was discharged only by a comment).  A name domain
    consists of letters, digits, '_', '-' and '.'; an address literal is '[' (optionally "IPv6:") + what net.ParseIP
    accepted + ']'.  net.ParseIP is an oracle of the model ([parse_ip], a section variable of Model/Addr.v): the one
    fact used about it is that it accepts no string holding a '*'. *)
From IV Require Import Base.Bytes Base.BytesFacts Model.Policy Model.Addr Proofs.PolicyGlob Proofs.PolicyRules.
From Coq Require Import ZifyN ZifyNat ZifyBool Lia.

Lemma label_char_not_star c : is_label_char c = true -> c <> star.
Proof.
  unfold is_label_char, is_alpha, is_upper, is_lower, is_digit, star. intros H E. subst c. cbn in H. discriminate.
Qed.

Lemma labels_ok_no_star : forall s prev len has, labels_ok s prev len has = true -> ~ In star s.
Proof.
  induction s as [|c t IH]; intros prev len has H; [intros []|].
  cbn [labels_ok] in H. intros [Hc|Hin].
  - subst c. cbn in H. discriminate.
  - destruct (is_label_char c); [exact (IH _ _ _ H Hin)|].
    destruct (c =? 45); [destruct ((prev =? 46) || (prev =? 45)); [discriminate|exact (IH _ _ _ H Hin)]|].
    destruct (c =? 46); [|discriminate].
    destruct ((prev =? 46) || (prev =? 45)); [discriminate|].
    destruct (max_label_len <? len); [discriminate|].
    destruct (negb has); [discriminate|]. exact (IH _ _ _ H Hin).
Qed.

Lemma skipn_last_one : forall (l : str), l <> [] -> skipn (length l - 1) l = [last l 0].
Proof.
  induction l as [|x l IH]; intros H; [congruence|].
  destruct l as [|y l]; [reflexivity|].
  replace (length (x :: y :: l) - 1)%nat with (S (length (y :: l) - 1)) by (cbn [length]; lia).
  cbn [skipn]. rewrite IH by discriminate. reflexivity.
Qed.

Lemma has_prefix_app : forall p s, has_prefix p s = true -> exists r, s = p ++ r.
Proof.
  induction p as [|x p IH]; intros s H; [exists s; reflexivity|].
  destruct s as [|y s]; [discriminate|]. cbn [has_prefix] in H. apply andb_true_iff in H as [H1 H2].
  apply N.eqb_eq in H1. subst y. destruct (IH s H2) as [r ->]. exists r. reflexivity.
Qed.

Lemma skipn_skipn' {A} : forall (m n : nat) (l : list A), skipn n (skipn m l) = skipn (n + m) l.
Proof.
  induction m as [|m IH]; intros n l; [rewrite Nat.add_0_r; reflexivity|].
  destruct l as [|x l]; [rewrite !skipn_nil; reflexivity|].
  rewrite Nat.add_succ_r. cbn [skipn]. apply IH.
Qed.

(** the three parts of a bracketed domain *)
Lemma bracketed_parts d : (2 <= length d)%nat -> is_bracketed d = true ->
  let s := if has_prefix ip_tag (skipn 1 d) then ip_start_tagged else ip_start_plain in
  (s + 1 <= length d)%nat ->
  d = firstn s d ++ ip_inner d ++ [93].
Proof.
  intros Hlen Hb s Hs. unfold ip_inner. fold s.
  rewrite <- (firstn_skipn s d) at 1. f_equal.
  rewrite <- (firstn_skipn (length d - 1 - s) (skipn s d)) at 1. f_equal.
  rewrite skipn_skipn'.
  replace (length d - 1 - s + s)%nat with (length d - 1)%nat by lia.
  rewrite skipn_last_one by (destruct d; [cbn in Hlen; lia|discriminate]).
  unfold is_bracketed in Hb. apply andb_true_iff in Hb as [_ Hl]. apply N.eqb_eq in Hl. rewrite Hl. reflexivity.
Qed.

Section NoStar.
Variable parse_ip : str -> bool.
Hypothesis parse_ip_no_star : forall s, parse_ip s = true -> ~ In star s.

Theorem validated_domain_has_no_star : forall d, validate_domain parse_ip d = true -> ~ In star d.
Proof.
  intros d H. unfold validate_domain in H.
  destruct (N.of_nat (length d) =? 0) eqn:E0; [discriminate|].
  destruct (max_domain_len <? N.of_nat (length d)); [discriminate|].
  destruct ((min_bracket_len <=? N.of_nat (length d)) && is_bracketed d) eqn:Eb.
  - apply andb_true_iff in Eb as [Hl Hb]. unfold min_bracket_len in Hl. apply N.leb_le in Hl.
    assert (Hlen : (4 <= length d)%nat) by lia.
    pose proof (parse_ip_no_star _ H) as Hin.
    unfold is_bracketed in Hb. pose proof Hb as Hb'. apply andb_true_iff in Hb as [Hf _]. apply N.eqb_eq in Hf.
    destruct (has_prefix ip_tag (skipn 1 d)) eqn:Ep.
    + (* "[IPv6:" ... "]" *)
      destruct (has_prefix_app _ _ Ep) as [r Hr].
      assert (Hd : d = 91 :: ip_tag ++ r).
      { destruct d as [|x d]; [cbn in Hlen; lia|]. cbn [skipn] in Hr. cbn [nth] in Hf. subst x d. reflexivity. }
      assert (Hr1 : r <> []).
      { intro X. subst r. rewrite app_nil_r in Hd. subst d. cbn in Hb'. discriminate. }
      assert (Hs : (ip_start_tagged + 1 <= length d)%nat).
      { rewrite Hd. cbn [length]. rewrite app_length. unfold ip_start_tagged. cbn [length ip_tag].
        destruct r; [congruence|cbn [length]; lia]. }
      pose proof (bracketed_parts d ltac:(lia) Hb') as P. rewrite Ep in P. specialize (P Hs).
      intro Hstar. rewrite P in Hstar. apply in_app_or in Hstar as [X|X].
      * rewrite Hd in X. unfold ip_start_tagged, ip_tag, star in X. cbn in X.
        repeat (destruct X as [X|X]; [discriminate|]). exact X.
      * apply in_app_or in X as [X|X]; [exact (Hin X)|].
        destruct X as [X|[]]. unfold star in X. discriminate.
    + assert (Hs : (ip_start_plain + 1 <= length d)%nat) by (unfold ip_start_plain; lia).
      pose proof (bracketed_parts d ltac:(lia) Hb') as P. rewrite Ep in P. specialize (P Hs).
      intro Hstar. rewrite P in Hstar. apply in_app_or in Hstar as [X|X].
      * destruct d as [|x d]; [cbn in Hlen; lia|]. cbn [nth] in Hf. subst x. unfold ip_start_plain in X.
        cbn in X. destruct X as [X|[]]. unfold star in X. discriminate.
      * apply in_app_or in X as [X|X]; [exact (Hin X)|].
        destruct X as [X|[]]. unfold star in X. discriminate.
  - apply labels_ok_no_star in H. intro Hs. apply H.
    destruct (last d 0 =? 46); [exact Hs|apply in_or_app; left; exact Hs].
Qed.

(** ... hence the sender rule needs no side condition for a validated domain (nor for the empty domain of the null
    reverse-path). *)
Theorem origin_rule_validated : forall r d, (d = [] \/ validate_domain parse_ip d = true) ->
  (should_accept_origin (lower_cfg r) d = false <->
   exists p, In p (reject_origin_l r) /\ glob (lower p) (lower d)).
Proof.
  intros r d [->|H]; apply origin_rule; [intros []|apply validated_domain_has_no_star; exact H].
Qed.
End NoStar.

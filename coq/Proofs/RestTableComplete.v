(** C14: the converse of [route_tables_sound]: every handler the model's router can answer with
    comes from a route registered in the source (coq/Gen/RestRoutes.v) — same mount point, same
    template instantiated with the extracted variables, same method. So the model has no route
    the source does not have. *)
From IV Require Import Base.Bytes Base.BytesFacts Model.StoreSpec Model.Rest Gen.RestRoutes Proofs.RestTable.
Open Scope N_scope.

Definition from_entry (mount : str) (table : list (str * str * str)) (i : nat) (m : meth) (segs : list str) (h : hid) (name id num : str) : Prop :=
  exists tpl hname mth file, nth_error table i = Some (tpl, hname, mth) /\
    hid_of hname = Some h /\ meth_of mth = m /\
    segs = mount :: map (inst name id num file) (tpl_segs tpl).

Definition registered (m : meth) (segs : list str) (h : hid) (name id num : str) : Prop :=
  (exists i, from_entry s_api api_routes i m segs h name id num) \/
  (exists i, from_entry s_serve ui_routes i m segs h name id num).

Ltac by_entry tbl i f :=
  exists i; unfold from_entry;
  match eval vm_compute in (nth_error tbl i) with
  | Some (?t, ?hn, ?mt) => exists t, hn, mt, f; repeat split; reflexivity
  end.

Lemma route_api_complete m r h name id num :
  route_api m r = RHandler h name id num -> registered m (s_api :: r) h name id num.
Proof.
  unfold route_api. destruct r as [|v [|what tail]]; try discriminate.
  destruct (str_eqb v s_v1 && str_eqb what s_mailbox) eqn:E1.
  - apply andb_true_iff in E1 as [Ev Ew]. apply str_eqb_eq in Ev, Ew. subst v what.
    destruct tail as [|n [|i [|s [|x t]]]]; try discriminate.
    + destruct (seg_ok n); [|discriminate]. destruct m; intros H; inversion H; subst; left.
      * by_entry api_routes 0%nat (@nil N).
      * by_entry api_routes 1%nat (@nil N).
    + destruct (seg_ok n && seg_ok i); [|discriminate]. destruct m; intros H; inversion H; subst; left.
      * by_entry api_routes 2%nat (@nil N).
      * by_entry api_routes 4%nat (@nil N).
      * by_entry api_routes 3%nat (@nil N).
    + destruct (seg_ok n && seg_ok i && str_eqb s s_source) eqn:E2; [|discriminate].
      apply andb_true_iff in E2 as [_ Es]. apply str_eqb_eq in Es. subst s.
      unfold only_get. destruct m; intros H; inversion H; subst; left. by_entry api_routes 5%nat (@nil N).
  - destruct ((str_eqb v s_v1 || str_eqb v s_v2) && str_eqb what s_monitor); [|discriminate].
    destruct tail as [|a [|b [|c t]]]; try discriminate.
    + destruct (str_eqb a s_messages); discriminate.
    + destruct (str_eqb a s_messages && seg_ok b); discriminate.
Qed.

Lemma route_serve_complete m r h name id num :
  route_serve m r = RHandler h name id num -> registered m (s_serve :: r) h name id num.
Proof.
  unfold route_serve. destruct r as [|a [|n [|i tail]]]; try discriminate.
  - destruct (str_eqb a s_greeting || str_eqb a s_status); discriminate.
  - destruct (str_eqb a s_mailbox && seg_ok n && seg_ok i) eqn:E1; [|discriminate].
    apply andb_true_iff in E1 as [E1 _]. apply andb_true_iff in E1 as [Ea _]. apply str_eqb_eq in Ea. subst a.
    destruct tail as [|x [|u [|f [|y t]]]]; try discriminate.
    + unfold only_get. destruct m; intros H; inversion H; subst; right. by_entry ui_routes 2%nat (@nil N).
    + destruct (str_eqb x s_html) eqn:Eh; [apply str_eqb_eq in Eh; subst x|].
      * unfold only_get. destruct m; intros H; inversion H; subst; right. by_entry ui_routes 3%nat (@nil N).
      * destruct (str_eqb x s_source) eqn:Es; [apply str_eqb_eq in Es; subst x|discriminate].
        unfold only_get. destruct m; intros H; inversion H; subst; right. by_entry ui_routes 4%nat (@nil N).
    + destruct (str_eqb x s_attach && seg_ok u && seg_ok f) eqn:E2; [|discriminate].
      apply andb_true_iff in E2 as [E2 _]. apply andb_true_iff in E2 as [Ex _]. apply str_eqb_eq in Ex. subst x.
      unfold only_get_last. destruct m; intros H; inversion H; subst; right. by_entry ui_routes 5%nat f.
Qed.

(** route_tables_complete: whatever the request, a handler answer of the model's router is an
    instance of a registered route (for any configured base path: [route_base_prefix]). *)
Theorem route_tables_complete m segs h name id num :
  route [] m segs = RHandler h name id num -> registered m segs h name id num.
Proof.
  unfold route. cbn [strip_prefix]. destruct segs as [|a r]; [discriminate|].
  destruct (str_eqb a s_serve) eqn:Es; [apply str_eqb_eq in Es; subst a; apply route_serve_complete|].
  destruct (str_eqb a s_api) eqn:Ea; [apply str_eqb_eq in Ea; subst a; apply route_api_complete|].
  destruct (is_empty a); [destruct r; discriminate|].
  destruct (str_eqb a s_monitor || str_eqb a s_status || str_eqb a s_favicon); [destruct r; discriminate|].
  destruct (str_eqb a s_m); [destruct r; discriminate|].
  destruct (has_prefix s_static a); [discriminate|].
  destruct (str_eqb a s_debug); [|discriminate].
  destruct r as [|x [|y t]]; try discriminate. destruct (str_eqb x s_vars); discriminate.
Qed.

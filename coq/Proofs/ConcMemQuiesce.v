(** C09 — memory store with the size limit, towards the quiescence statement (audit aud-store item 4;
    [mem_quiescent_accounting_stmt] of Proofs/ConcStmts.v).
    Stage 1 (this file): whenever the enforcer is not in its eviction loop — idle, or looking at a registration or a
    removal notice it has just received — curSize is within the limit.  In particular at the end of every schedule
    that finishes: clause 4 of the statement, for every cap, every limit >= 0 and every schedule, no hypothesis on
    tags. *)
From IV Require Import Model.Conc Model.ConcMem Proofs.ConcBase Proofs.ConcMemInv Proofs.ConcMemCrash Proofs.ConcStmts.
From Coq Require Import Lia ZifyN ZifyNat ZifyBool.
Local Open Scope Z_scope.

Definition outside_loop (p : epc) : bool :=
  match p with EIdle | EIncoming _ _ | ERemove _ _ => true | EEvict _ | EEvLock _ _ => false end.

Definition invW (s : msys) : Prop :=
  forall max, s_max s = Some max -> outside_loop (e_pc (s_enf s)) = true -> e_cur (s_enf s) <= max.

Lemma invW_thr s t c s' : invW s -> step_thr s t c = SOk s' -> invW s'.
Proof.
  intros J H. unfold step_thr in H.
  destruct (nth_error (s_thr s) t) as [p|] eqn:Ep; [|discriminate].
  destruct p; try discriminate.
  all: split_step H.
  all: inv_ok H.
  all: unfold invW; autorewrite with sys; cbn [s_enf take_done with_epc e_cur e_all e_pc with_enf outside_loop].
  all: try exact J.
  all: try match goal with Hi : is_idle _ = true |- _ =>
         unfold is_idle in Hi; destruct (e_pc (s_enf s)) eqn:Epc; try discriminate end.
  all: intros max Hm _; apply (J max Hm); rewrite ?Epc; reflexivity.
Qed.

Lemma invW_enf s s' : invW s -> step_enf s = SOk s' -> invW s'.
Proof.
  intros J H. unfold step_enf in H.
  destruct (s_max s) as [max|] eqn:Emax; [|discriminate].
  destruct (e_pc (s_enf s)) eqn:Epc; try discriminate.
  all: repeat match type of H with
       | context [if locked ?mb ?ss then _ else _] => destruct (locked mb ss) eqn:Elk; [discriminate|]
       | context [if ?b then _ else _] => destruct b eqn:?
       | context [match e_all ?e with _ => _ end] => destruct (e_all e) eqn:Eall
       | context [match ent_take ?g ?l with _ => _ end] => destruct (ent_take g l) as [[? ?]|] eqn:Etake
       | context [match box_remove ?a ?b with _ => _ end] => destruct (box_remove a b) as [? [?|]] eqn:?
       end; try discriminate.
  all: inv_ok H.
  all: unfold invW, after_evict; autorewrite with sys.
  all: repeat match goal with |- context [if ?b then _ else _] => destruct b eqn:? end.
  all: cbn [s_enf with_enf finish_enf with_epc e_cur e_all e_pc s_max outside_loop].
  all: intros max0 Hm0 Ho; try discriminate; rewrite Emax in Hm0; inv_ok Hm0.
  all: repeat match goal with k0 : ent |- _ =>
         lazymatch goal with _ : 0 <= esize k0 |- _ => fail | _ => pose proof (esize_nonneg k0) end end.
  all: repeat match goal with Hb : (_ <? _) = false |- _ => apply Z.ltb_ge in Hb end.
  all: cbn [e_cur] in *.
  all: try (specialize (J _ Emax); rewrite Epc in J; specialize (J eq_refl)).
  all: lia.
Qed.

Lemma invW_step s w c s' : invW s -> step s w c = SOk s' -> invW s'.
Proof. destruct w; cbn [step]; eauto using invW_thr, invW_enf. Qed.

(** Every cap, every limit >= 0, every schedule, wherever it stops: outside its eviction loop the enforcer's
    curSize is within the limit; in particular when everything has finished. *)
Theorem mem_cursize_within_limit : forall cap max ops sched,
  (0 <= max)%Z ->
  match run (init_sys cap (Some max) [] enf0 ops) sched with
  | Fin s | BlockedAt _ s | CrashedAt _ s =>
      outside_loop (e_pc (s_enf s)) = true -> (e_cur (s_enf s) <= max)%Z
  end.
Proof.
  intros cap max ops sched Hmax.
  pose proof (run_from_reach (init_sys cap (Some max) [] enf0 ops) sched 0 _ (reach_refl _)) as H. unfold run.
  assert (G : forall s, reach (init_sys cap (Some max) [] enf0 ops) s -> invW s /\ s_max s = Some max).
  { apply reach_ind_inv.
    - split; [|reflexivity]. intros m Hm _. cbn in Hm. inv_ok Hm. cbn. exact Hmax.
    - intros s1 s2 w0 c0 [HJ Hx] Hs. split; [eapply invW_step; eauto|]. rewrite (max_step _ _ _ _ Hs). exact Hx. }
  destruct (run_from 0 _ sched) as [s|n s|n s]; [destruct (G _ H) as [J Hm] | destruct (G _ H) as [J Hm] | destruct (G _ (proj1 H)) as [J Hm]];
    exact (J _ Hm).
Qed.

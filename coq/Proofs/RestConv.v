(** C14: the convenience methods of the Go client (MessageHeader.GetMessage/GetSource/Delete,
    Message.GetSource/Delete) — two round trips through an id taken from the first answer. *)
From Coq Require Import Sorted ZifyN ZifyNat ZifyBool.
From IV Require Import Base.Bytes Base.BytesFacts Model.StoreSpec Model.Rest
  Proofs.StoreSpecFacts Proofs.Rest Proofs.RestRoute Proofs.RestClient.
Open Scope N_scope.

(* ------------------------------------------------------------------ decimal ids *)

Lemma dec_val_digit c x : dec_val [c] x = x * 10 + (c - 48).
Proof. reflexivity. Qed.

Lemma dec_fuel_val f : forall n acc, n < 2 ^ N.of_nat f -> dec_val (dec_fuel f n acc) 0 = dec_val acc n.
Proof.
  induction f as [|f IH]; intros n acc H.
  - cbn in H. assert (n = 0) by lia. subst. reflexivity.
  - cbn [dec_fuel]. destruct (n <? 10) eqn:L.
    + cbn [dec_val]. f_equal. pose proof (N.mod_small n 10). lia.
    + rewrite IH.
      * cbn [dec_val]. f_equal. pose proof (N.div_mod n 10). lia.
      * rewrite Nat2N.inj_succ, N.pow_succ_r' in H. apply N.div_lt_upper_bound; lia.
Qed.

Lemma dec_fuel_digits f : forall n acc, all_digits acc = true -> all_digits (dec_fuel f n acc) = true.
Proof.
  induction f as [|f IH]; intros n acc H; [exact H|]. cbn [dec_fuel].
  assert (D : all_digits ((48 + n mod 10) :: acc) = true).
  { cbn [all_digits]. rewrite H, andb_true_r. unfold is_digit. pose proof (N.mod_lt n 10). lia. }
  destruct (n <? 10); [exact D|apply IH; exact D].
Qed.

Lemma dec_fuel_len f : forall n acc, (length acc <= length (dec_fuel f n acc))%nat.
Proof.
  induction f as [|f IH]; intros n acc; [apply le_n|]. cbn [dec_fuel]. destruct (n <? 10).
  - cbn [length]. lia.
  - specialize (IH (n / 10) ((48 + n mod 10) :: acc)). cbn [length] in IH. lia.
Qed.

Lemma dec_spec n : dec n <> [] /\ all_digits (dec n) = true /\ dec_val (dec n) 0 = n.
Proof.
  unfold dec. repeat split.
  - intros E. pose proof (dec_fuel_len (N.to_nat (N.log2 n)) (n / 10) [48 + n mod 10]) as L.
    cbn [dec_fuel] in E. destruct (n <? 10); [discriminate|]. rewrite E in L. cbn in L. lia.
  - apply dec_fuel_digits. reflexivity.
  - rewrite dec_fuel_val; [reflexivity|].
    rewrite Nat2N.inj_succ, N2Nat.id. destruct n as [|p]; [reflexivity|].
    apply N.log2_spec. lia.
Qed.

Lemma handle_of_id_k k : handle_of_id (id_of_k k) = Kth k.
Proof.
  destruct (dec_spec (N.of_nat k)) as [NE [D V]]. unfold id_of_k, handle_of_id.
  destruct (dec (N.of_nat k)) as [|d ds] eqn:E; [congruence|].
  change (str_eqb (107 :: d :: ds) s_latest) with false. cbn iota. rewrite D, V, Nat2N.id. reflexivity.
Qed.

Lemma lit_handle_k k : lit_handle (id_of_k k) = Kth k.
Proof. unfold lit_handle. rewrite handle_of_id_k. reflexivity. Qed.

Lemma digit_unreserved c : is_digit c = true -> unreserved c = true.
Proof. intros H. unfold unreserved. rewrite H. rewrite orb_true_r. reflexivity. Qed.

Lemma all_digits_inert s : all_digits s = true -> inert s.
Proof.
  induction s as [|c s IH]; intros H; [constructor|]. cbn [all_digits] in H. apply andb_true_iff in H as [H1 H2].
  constructor; [apply digit_unreserved; exact H1|apply IH; exact H2].
Qed.

Lemma good_seg_id k : good_seg (id_of_k k).
Proof.
  destruct (dec_spec (N.of_nat k)) as [NE [D V]]. unfold id_of_k. split.
  - constructor; [reflexivity|apply all_digits_inert; exact D].
  - apply plain_seg_iff. repeat split; intros E; inversion E.
Qed.

(* ------------------------------------------------------------------ views and entries *)

Lemma SS_klt_inj l a b : StronglySorted klt l -> In a l -> In b l -> e_k a = e_k b -> a = b.
Proof.
  induction 1 as [|x l SS IH F]; intros Ha Hb E; [destruct Ha|].
  rewrite Forall_forall in F. destruct Ha as [<-|Ha], Hb as [<-|Hb]; auto.
  - specialize (F b Hb). unfold klt in F. lia.
  - specialize (F a Ha). unfold klt in F. lia.
Qed.

Section Conv.
Variable mfa : str -> option str.
Variable cfg : scfg.
Variable srcok : str -> nat -> bool.
Variable base : list str.

Lemma find_entry st mb e :
  SInv st -> In e (box mb (live st)) -> find (is_ent mb (e_k e)) (live st) = Some e.
Proof.
  intros [SS _] He. pose proof He as He'. apply box_in in He' as [Hl Hm].
  destruct (find (is_ent mb (e_k e)) (live st)) as [x|] eqn:F.
  - apply find_some in F as [Hx Ex]. unfold is_ent in Ex. apply andb_true_iff in Ex as [Xm Xk].
    apply ent_in_eq in Xm. apply Nat.eqb_eq in Xk. f_equal.
    eapply (SS_klt_inj (box mb (live st))); [apply SS|apply box_in; auto|exact He|exact Xk].
  - pose proof (find_none _ _ F e Hl) as N. unfold is_ent in N.
    assert (ent_in mb e = true) by (apply ent_in_eq; exact Hm). rewrite H, Nat.eqb_refl in N. discriminate.
Qed.

Lemma spec_get_id st mb e :
  SInv st -> In e (box mb (live st)) -> spec_get cfg st mb (id_of_k (e_k e)) = Ok (view_of e).
Proof.
  intros S He. unfold spec_get. rewrite handle_of_id_k. cbn [exec_spec get_res find_h].
  rewrite (find_entry st mb e S He). reflexivity.
Qed.

Lemma last_opt_In' {A} (l : list A) x : last_opt l = Some x -> In x l.
Proof. apply last_opt_In. Qed.

Lemma spec_get_entry st mb id v :
  spec_get cfg st mb id = Ok v -> exists e, In e (box mb (live st)) /\ v = view_of e.
Proof.
  unfold spec_get. destruct (handle_of_id id) as [k| |]; cbn [exec_spec get_res find_h res_of_find].
  - destruct (find (is_ent mb k) (live st)) as [e|] eqn:F; [|discriminate]. intros H; inversion H; subst.
    apply find_some in F as [Hl Ee]. unfold is_ent in Ee. apply andb_true_iff in Ee as [Em _]. apply ent_in_eq in Em.
    exists e. split; [apply box_in; auto|reflexivity].
  - destruct (last_opt (box mb (live st))) as [e|] eqn:L; [|discriminate]. intros H; inversion H; subst.
    exists e. split; [apply last_opt_In; exact L|reflexivity].
  - discriminate.
Qed.

Lemma nth_view_entry st mb i v :
  nth_view (map view_of (box mb (live st))) i = Some v -> exists e, In e (box mb (live st)) /\ v = view_of e.
Proof.
  unfold nth_view. intros H. apply nth_error_In in H. apply in_map_iff in H as [e [<- He]]. eauto.
Qed.

Lemma list_res_lst st mb : list_res (snd (fst (exec_spec cfg st (Lst mb)))) = map view_of (box mb (live st)).
Proof. reflexivity. Qed.

Definition conv_op (op : cop) : bool :=
  match op with CHGet _ _ | CHSrc _ _ | CHDel _ _ | CMSrc _ _ | CMDel _ _ => true | _ => false end.

(** The convenience methods have the effect their names say. Beyond [client_op_effect]: the
    store is well-formed ([SInv], an invariant of every reachable store: C07) and the
    canonical mailbox name the server reports addresses itself (C04: names are fixed points). *)
Lemma client_convenience_effect st op mb :
  (forall m k, srcok m k = true) ->
  conv_op op = true -> good_name (cop_name op) -> op_id_ok op -> Forall good_seg base ->
  mfa (cop_name op) = Some mb -> good_name mb -> mfa mb = Some mb -> SInv st ->
  spec_cop mfa cfg st op = Some (client_do mfa cfg srcok base (join_slash base) st op).
Proof.
  intros SK B GN GI GB M GM MM S.
  pose proof (fun o b => client_op_effect mfa cfg srcok base st o mb SK b) as CE.
  destruct op; try discriminate; cbn [cop_name op_id_ok] in *.
  - (* MessageHeader.GetMessage *)
    pose proof (CE (CList name) eq_refl GN I GB M) as L. cbn [client_do] in L.
    unfold spec_cop in *. cbn [cop_name] in *. rewrite M in *. cbn [client_do]. injection L as L'. rewrite <- L'. clear L'.
    cbn [exec_spec list_res]. destruct (nth_view (map view_of (box mb (live st))) i) as [v|] eqn:N; [|reflexivity].
    destruct (nth_view_entry _ _ _ _ N) as [e [He ->]]. cbn [view_of fst].
    pose proof (client_op_effect mfa cfg srcok base st (CGet mb (id_of_k (e_k e))) mb SK eq_refl GM (good_seg_id _) GB MM) as G.
    unfold spec_cop in G. cbn [cop_name client_do] in G. rewrite MM in G. injection G as G'. rewrite <- G'.
    rewrite (spec_get_id st mb e S He). reflexivity.
  - (* MessageHeader.GetSource *)
    pose proof (CE (CList name) eq_refl GN I GB M) as L. cbn [client_do] in L.
    unfold spec_cop in *. cbn [cop_name] in *. rewrite M in *. cbn [client_do]. injection L as L'. rewrite <- L'. clear L'.
    cbn [exec_spec list_res]. destruct (nth_view (map view_of (box mb (live st))) i) as [v|] eqn:N; [|reflexivity].
    destruct (nth_view_entry _ _ _ _ N) as [e [He ->]]. cbn [view_of fst].
    pose proof (client_op_effect mfa cfg srcok base st (CSrc mb (id_of_k (e_k e))) mb SK eq_refl GM (good_seg_id _) GB MM) as G.
    unfold spec_cop in G. cbn [cop_name client_do] in G. rewrite MM in G. injection G as G'. rewrite <- G'.
    rewrite (spec_get_id st mb e S He). reflexivity.
  - (* MessageHeader.Delete *)
    pose proof (CE (CList name) eq_refl GN I GB M) as L. cbn [client_do] in L.
    unfold spec_cop in *. cbn [cop_name] in *. rewrite M in *. cbn [client_do]. injection L as L'. rewrite <- L'. clear L'.
    cbn [exec_spec list_res]. destruct (nth_view (map view_of (box mb (live st))) i) as [v|] eqn:N; [|reflexivity].
    destruct (nth_view_entry _ _ _ _ N) as [e [He ->]]. cbn [view_of fst].
    pose proof (client_op_effect mfa cfg srcok base st (CDel mb (id_of_k (e_k e))) mb SK eq_refl GM (good_seg_id _) GB MM) as G.
    unfold spec_cop in G. cbn [cop_name client_do] in G. rewrite MM in G. injection G as G'. rewrite <- G'.
    rewrite lit_handle_k. reflexivity.
  - (* Message.GetSource *)
    pose proof (CE (CGet name id) eq_refl GN GI GB M) as L. cbn [client_do] in L.
    unfold spec_cop in *. cbn [cop_name] in *. rewrite M in *. cbn [client_do]. injection L as L'. rewrite <- L'. clear L'.
    destruct (spec_get cfg st mb id) as [v| |] eqn:G0; try reflexivity.
    destruct (spec_get_entry st mb id v G0) as [e [He ->]]. cbn [view_of fst].
    pose proof (client_op_effect mfa cfg srcok base st (CSrc mb (id_of_k (e_k e))) mb SK eq_refl GM (good_seg_id _) GB MM) as G.
    unfold spec_cop in G. cbn [cop_name client_do] in G. rewrite MM in G. injection G as G'. rewrite <- G'.
    rewrite (spec_get_id st mb e S He). reflexivity.
  - (* Message.Delete *)
    pose proof (CE (CGet name id) eq_refl GN GI GB M) as L. cbn [client_do] in L.
    unfold spec_cop in *. cbn [cop_name] in *. rewrite M in *. cbn [client_do]. injection L as L'. rewrite <- L'. clear L'.
    destruct (spec_get cfg st mb id) as [v| |] eqn:G0; try reflexivity.
    destruct (spec_get_entry st mb id v G0) as [e [He ->]]. cbn [view_of fst].
    pose proof (client_op_effect mfa cfg srcok base st (CDel mb (id_of_k (e_k e))) mb SK eq_refl GM (good_seg_id _) GB MM) as G.
    unfold spec_cop in G. cbn [cop_name client_do] in G. rewrite MM in G. injection G as G'. rewrite <- G'.
    rewrite lit_handle_k. reflexivity.
Qed.

End Conv.

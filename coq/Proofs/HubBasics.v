(** Basic lemmas about the data structures of Model/Hub.v. *)
From Coq Require Import Lia.
From IV Require Import Base.Bytes Model.Hub.
Local Open Scope nat_scope.

(** ** association list of listeners *)

Lemma find_l_app l xs ys :
  find_l l (xs ++ ys) = match find_l l xs with Some s => Some s | None => find_l l ys end.
Proof.
  induction xs as [|[k s] t IH]; cbn [find_l app]; auto.
  destruct (Nat.eqb k l); auto.
Qed.

Lemma find_l_upd_same l s xs : find_l l xs <> None -> find_l l (upd_l l s xs) = Some s.
Proof.
  induction xs as [|[k x] t IH]; cbn [find_l upd_l]; [congruence|].
  destruct (Nat.eqb k l) eqn:E; cbn [find_l]; rewrite E; auto.
Qed.

Lemma find_l_upd_other l l' s xs : l' <> l -> find_l l' (upd_l l s xs) = find_l l' xs.
Proof.
  intros N. induction xs as [|[k x] t IH]; cbn [find_l upd_l]; auto.
  destruct (Nat.eqb k l) eqn:E; cbn [find_l].
  - apply Nat.eqb_eq in E. subst k. assert (Nat.eqb l l' = false) as -> by (apply Nat.eqb_neq; congruence).
    reflexivity.
  - destruct (Nat.eqb k l'); auto.
Qed.

Lemma find_l_upd_none l l' s xs : find_l l' (upd_l l s xs) <> None <-> find_l l' xs <> None.
Proof.
  destruct (Nat.eq_dec l' l) as [->|N].
  - split; intros H.
    + intro E. apply H. clear H. induction xs as [|[k x] t IH]; cbn [find_l upd_l] in *; auto.
      destruct (Nat.eqb k l) eqn:E2; cbn [find_l]; rewrite ?E2; auto. congruence.
    + rewrite find_l_upd_same; congruence.
  - rewrite find_l_upd_other; tauto.
Qed.

(** ** nat sets as lists *)

Lemma mem_nat_In l xs : mem_nat l xs = true <-> In l xs.
Proof.
  induction xs as [|k t IH]; cbn [mem_nat In]; [split; [discriminate|tauto]|].
  rewrite Bool.orb_true_iff, Nat.eqb_eq, IH. tauto.
Qed.

Lemma rm_nat_In l x xs : In x (rm_nat l xs) <-> In x xs /\ x <> l.
Proof.
  induction xs as [|k t IH]; cbn [rm_nat In]; [tauto|].
  destruct (Nat.eqb k l) eqn:E.
  - apply Nat.eqb_eq in E. subst k. rewrite IH. intuition congruence.
  - apply Nat.eqb_neq in E. cbn [In]. rewrite IH. intuition congruence.
Qed.

Lemma rm_nat_NoDup l xs : NoDup xs -> NoDup (rm_nat l xs).
Proof.
  induction 1 as [|k t Hn Hd IH]; cbn [rm_nat]; [constructor|].
  destruct (Nat.eqb k l); auto. constructor; auto. rewrite rm_nat_In. tauto.
Qed.

Lemma add_nat_In l x xs : In x (add_nat l xs) <-> In x xs \/ x = l.
Proof.
  unfold add_nat. destruct (mem_nat l xs) eqn:E.
  - apply mem_nat_In in E. intuition congruence.
  - rewrite in_app_iff. cbn [In]. intuition.
Qed.

Lemma add_nat_NoDup l xs : NoDup xs -> NoDup (add_nat l xs).
Proof.
  intros H. unfold add_nat. destruct (mem_nat l xs) eqn:E; auto.
  assert (~ In l xs) by (rewrite <- mem_nat_In; congruence).
  clear E. induction H as [|k t Hn Hd IH]; cbn [app].
  - constructor; [tauto|constructor].
  - constructor.
    + rewrite in_app_iff. cbn [In] in *. intuition.
    + apply IH. cbn [In] in *. tauto.
Qed.

(** ** ops *)

Definition adds (ops : list op) : list nat :=
  flat_map (fun o => match o with OAdd l => [l] | _ => [] end) ops.

Lemma adds_app a b : adds (a ++ b) = adds a ++ adds b.
Proof. unfold adds. apply flat_map_app. Qed.

Lemma adds_snoc_nonadd a o : is_add o = false -> adds (a ++ [o]) = adds a.
Proof. intros H. rewrite adds_app. destruct o; cbn in *; try discriminate; apply app_nil_r. Qed.

Lemma ring_after_app r a b : ring_after r (a ++ b) = ring_after (ring_after r a) b.
Proof. revert r. induction a as [|o t IH]; intros r; cbn [app ring_after]; auto. destruct o; auto. Qed.

(** ** views *)

Lemma view_of_snoc n l ops o : view_of n l (ops ++ [o]) = view_step l (view_of n l ops) o.
Proof. unfold view_of. rewrite fold_left_app. reflexivity. Qed.

Lemma v_ring_fold l ops v : v_ring (fold_left (view_step l) ops v) = ring_after (v_ring v) ops.
Proof.
  revert v. induction ops as [|o t IH]; intros v; cbn [fold_left ring_after]; auto.
  rewrite IH. destruct o; cbn [view_step v_ring]; auto.
  - destruct (Nat.eqb l0 l && negb (v_joined v)); auto.
  - destruct (Nat.eqb l0 l); auto.
Qed.

Lemma v_ring_view n l ops : v_ring (view_of n l ops) = ring_after (ring_init n) ops.
Proof. unfold view_of. rewrite v_ring_fold. reflexivity. Qed.

(** A listener the hub has not been told to add is entitled to nothing. *)
Lemma view_not_added_fold l ops v :
  ~ In l (adds ops) -> v_es v = [] -> v_joined v = false -> v_reg v = false ->
  let v' := fold_left (view_step l) ops v in v_es v' = [] /\ v_joined v' = false /\ v_reg v' = false.
Proof.
  revert v. induction ops as [|o t IH]; intros v Hn H1 H2 H3; cbn [fold_left]; auto.
  assert (Ht : ~ In l (adds t)).
  { intro X. apply Hn. change (o :: t) with ([o] ++ t). rewrite adds_app, in_app_iff. auto. }
  apply IH; auto; destruct o; cbn [view_step v_es v_joined v_reg]; rewrite ?H3; auto.
  all: try (destruct (Nat.eqb l0 l) eqn:E; cbn [andb]; auto).
  all: try (apply Nat.eqb_eq in E; subst l0; exfalso; apply Hn; cbn; auto).
Qed.

Lemma view_not_added n l ops :
  ~ In l (adds ops) ->
  v_es (view_of n l ops) = [] /\ v_joined (view_of n l ops) = false /\ v_reg (view_of n l ops) = false.
Proof. intros H. unfold view_of. apply view_not_added_fold; auto. Qed.

(** ** pending deliveries *)

Definition pend (l : nat) (s : lst) (w : list delivery) : list ev :=
  filter (wants (lk s) (lf s)) (map d_ev (filter (fun d => Nat.eqb (d_to d) l) w)).

Lemma pend_cons_other l s d w : d_to d <> l -> pend l s (d :: w) = pend l s w.
Proof. intros N. unfold pend. cbn [filter]. apply Nat.eqb_neq in N. rewrite N. reflexivity. Qed.

Lemma pend_cons_same l s d w :
  d_to d = l -> pend l s (d :: w) = (if wants (lk s) (lf s) (d_ev d) then [d_ev d] else []) ++ pend l s w.
Proof.
  intros E. unfold pend. cbn [filter]. apply Nat.eqb_eq in E. rewrite E. cbn [map filter].
  destruct (wants (lk s) (lf s) (d_ev d)); reflexivity.
Qed.

Lemma pend_broadcast l s e regs :
  NoDup regs ->
  pend l s (map (fun x => mkD e x true) regs) =
  if mem_nat l regs && wants (lk s) (lf s) e then [e] else [].
Proof.
  induction 1 as [|k t Hn Hd IH]; cbn [map mem_nat]; [reflexivity|].
  destruct (Nat.eqb k l) eqn:E.
  - apply Nat.eqb_eq in E. subst k. rewrite pend_cons_same by reflexivity. cbn [d_ev orb andb].
    rewrite IH. assert (mem_nat l t = false) as ->.
    { destruct (mem_nat l t) eqn:M; auto. apply mem_nat_In in M. tauto. }
    cbn [andb]. rewrite app_nil_r. reflexivity.
  - apply Nat.eqb_neq in E. rewrite pend_cons_other by (cbn; auto). rewrite IH. reflexivity.
Qed.

Lemma pend_replay l s ms :
  pend l s (map (fun m => mkD (Stored m) l false) ms) = filter (wants (lk s) (lf s)) (map Stored ms).
Proof.
  induction ms as [|m t IH]; cbn [map]; [reflexivity|].
  rewrite pend_cons_same by reflexivity. cbn [d_ev filter]. rewrite IH.
  destruct (wants (lk s) (lf s) (Stored m)); reflexivity.
Qed.

Lemma pend_replay_other l l0 s ms :
  l0 <> l -> pend l s (map (fun m => mkD (Stored m) l0 false) ms) = [].
Proof.
  intros N. induction ms as [|m t IH]; cbn [map]; [reflexivity|].
  rewrite pend_cons_other by (cbn; auto). exact IH.
Qed.

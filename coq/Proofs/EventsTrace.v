(** C16 — event traces of histories: the open finding's witness, and the statements that are
    checked by the oracle on every run but not yet proved. *)
From Coq Require Import List Arith Lia.
From IV Require Import Base.Bytes Model.StoreSpec Model.StoreSpecImpl Model.MemStore Model.FileStore Model.Events.
Import ListNotations.

Definition oversize_cfg : scfg := {| c_cap := 0; c_max := 1024 |}.
Definition oversize_ops : list op := [Add [97%N] 0%Z 0%N 400%N; Add [97%N] 1%Z 1%N 1500%N; Lst [97%N]].

(** K-C16-oversize-order: a message larger than the whole size limit is evicted inside
    AddMessage; its deleted event precedes its stored event (model of the code as it is). *)
Theorem stored_before_deleted_refuted :
  exists cfg ops, sbd_ok (trace_of (run_mem cfg ops)) = false.
Proof. exists oversize_cfg, oversize_ops. vm_compute. reflexivity. Qed.

(** No add is larger than the size limit. *)
Definition no_oversize (cfg : scfg) (ops : list op) : Prop :=
  forall mb d t sz, In (Add mb d t sz) ops -> (c_max cfg = 0 \/ sz <= c_max cfg)%N.

(** Non-vacuity of the guard and a sample of the statements (computation on one history; not a proof). *)
Example no_oversize_example : no_oversize {| c_cap := 1; c_max := 2048 |} oversize_ops.
Proof.
  intros mb d t sz [H|[H|[H|[]]]]; inversion H; subst; right; simpl; lia.
Qed.

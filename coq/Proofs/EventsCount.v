(** C16 — every history emits exactly one stored event per delivered message and exactly one
    deleted event per message that left its mailbox (remove, purge, cap, size limit), on the
    abstract store and, by refinement, on both back-end models. *)
From Coq Require Import List Arith Lia Sorted.
From IV Require Import Base.Bytes Base.BytesFacts Model.StoreSpec Model.StoreSpecImpl Model.MemStore Model.FileStore Model.Events
  Proofs.StoreSpecFacts Proofs.StoreSpecRefine Proofs.StoreSpecLimits Proofs.MemStoreRefine Proofs.FileStoreRefine
  Proofs.MemStoreLimits.
Import ListNotations.
Local Open Scope nat_scope.

Definition ekey (e : entry) : mkey := (e_mb e, e_k e).
Definition live_count (k : mkey) (l : list entry) : nat := length (filter (fun e => mkey_eqb k (ekey e)) l).

Lemma mkey_eqb_eq a b : mkey_eqb a b = true <-> a = b.
Proof.
  destruct a as [a1 a2], b as [b1 b2]. unfold mkey_eqb. simpl. rewrite andb_true_iff, str_eqb_eq, Nat.eqb_eq.
  split; [intros [-> ->]; reflexivity | intros H; inversion H; auto].
Qed.

Lemma count_stored_app k a b : count_stored k (a ++ b) = count_stored k a + count_stored k b.
Proof. unfold count_stored. rewrite filter_app, app_length. reflexivity. Qed.
Lemma count_deleted_app k a b : count_deleted k (a ++ b) = count_deleted k a + count_deleted k b.
Proof. unfold count_deleted. rewrite filter_app, app_length. reflexivity. Qed.
Lemma live_count_app k a b : live_count k (a ++ b) = live_count k a + live_count k b.
Proof. unfold live_count. rewrite filter_app, app_length. reflexivity. Qed.

Lemma count_deleted_map k d : count_deleted k (map ev_deleted d) = live_count k d.
Proof.
  unfold count_deleted, live_count. induction d as [|e d IH]; [reflexivity|]. simpl.
  change (ev_key (ev_deleted e)) with (ekey e). destruct (mkey_eqb k (ekey e)); simpl; rewrite IH; reflexivity.
Qed.
Lemma count_stored_map k d : count_stored k (map ev_deleted d) = 0.
Proof. unfold count_stored. induction d as [|e d IH]; [reflexivity|]. simpl. exact IH. Qed.

Lemma live_count_partition k f l : live_count k l = live_count k (filter f l) + live_count k (filter (fun e => negb (f e)) l).
Proof.
  unfold live_count. induction l as [|e l IH]; [reflexivity|]. simpl.
  destruct (f e); simpl; destruct (mkey_eqb k (ekey e)); simpl; rewrite IH; lia.
Qed.

Lemma live_count_drop k mb : forall n l, live_count k l = live_count k (fst (drop_oldest mb n l)) + live_count k (snd (drop_oldest mb n l)).
Proof.
  intros n l. revert n. induction l as [|e l IH]; intros n; [destruct n; reflexivity|].
  destruct n as [|n]; [reflexivity|]. cbn [drop_oldest]. destruct (ent_in mb e).
  - specialize (IH n). destruct (drop_oldest mb n l) as [d r]. simpl in *. unfold live_count in *. simpl.
    destruct (mkey_eqb k (ekey e)); simpl; lia.
  - specialize (IH (S n)). destruct (drop_oldest mb (S n) l) as [d r]. simpl in *. unfold live_count in *. simpl.
    destruct (mkey_eqb k (ekey e)); simpl; lia.
Qed.

Lemma live_count_map k h l : (forall e, ekey (h e) = ekey e) -> live_count k (map h l) = live_count k l.
Proof.
  intros Hh. unfold live_count. induction l as [|e l IH]; [reflexivity|]. simpl. rewrite Hh.
  destruct (mkey_eqb k (ekey e)); simpl; rewrite IH; reflexivity.
Qed.

(** Within a sorted mailbox a handle number names at most one message. *)
Lemma filter_k_unique k sb e : StronglySorted klt sb -> find (fun x => Nat.eqb (e_k x) k) sb = Some e ->
  filter (fun x => Nat.eqb (e_k x) k) sb = [e].
Proof.
  induction sb as [|x sb IH]; intros Hs Hf; [discriminate|]. apply StronglySorted_inv in Hs as [Hs1 Hs2].
  simpl in *. destruct (Nat.eqb (e_k x) k) eqn:Q.
  - inversion Hf; subst. f_equal. apply filter_all_false. intros y Hy. rewrite Forall_forall in Hs2.
    specialize (Hs2 y Hy). unfold klt in Hs2. apply Nat.eqb_eq in Q. apply Nat.eqb_neq. lia.
  - apply IH; assumption.
Qed.

Lemma filter_is_ent mb k l : filter (is_ent mb k) l = filter (fun x => Nat.eqb (e_k x) k) (box mb l).
Proof.
  unfold box. induction l as [|e l IH]; [reflexivity|]. simpl. unfold is_ent at 1.
  destruct (ent_in mb e); simpl; [destruct (Nat.eqb (e_k e) k); rewrite IH; reflexivity | exact IH].
Qed.

(** Conservation law of one operation: the events account exactly for the change of the set
    of live messages. *)
Lemma exec_conservation cfg st o kk : SInv st ->
  let '(st', _, evs) := exec_spec cfg st o in
  live_count kk (live st') + count_deleted kk evs = live_count kk (live st) + count_stored kk evs.
Proof.
  intros HI. destruct o as [mb date tag size|mb h|mb|mb h|mb h|mb|].
  - cbn [exec_spec]. set (m := {| m_date := date; m_tag := tag; m_size := size; m_seen := false |}).
    rewrite spec_add_unfold. cbv zeta.
    set (nw := {| e_mb := mb; e_k := count_of mb (counts st); e_msg := m |}).
    assert (H1 : let '(d1, l2) := add_cap cfg mb (add_l1 st mb m) in
                 live_count kk (add_l1 st mb m) = live_count kk d1 + live_count kk l2).
    { unfold add_cap. destruct (Nat.eqb (c_cap cfg) 0); [reflexivity|].
      pose proof (live_count_drop kk mb (length (box mb (add_l1 st mb m)) - c_cap cfg) (add_l1 st mb m)) as H.
      destruct (drop_oldest mb _ (add_l1 st mb m)). exact H. }
    destruct (add_cap cfg mb (add_l1 st mb m)) as [d1 l2].
    pose proof (add_fit_split cfg l2) as H2. destruct (add_fit cfg l2) as [d2 l3]. subst l2.
    cbn [live]. rewrite live_count_app in H1. unfold add_l1 in H1. fold m nw in H1. rewrite live_count_app in H1.
    rewrite !count_deleted_app, !count_stored_app, !count_deleted_map, !count_stored_map.
    unfold count_deleted, count_stored, live_count in *. simpl in *. change (ev_key (EStored, mb, count_of mb (counts st))) with (ekey nw).
    destruct (mkey_eqb kk (ekey nw)); simpl in *; lia.
  - destruct h; unfold count_deleted, count_stored; simpl; lia.
  - unfold count_deleted, count_stored; simpl. lia.
  - cbn [exec_spec]. destruct (find_h mb h (live st)) as [e|]; unfold count_deleted, count_stored; simpl; [|lia].
    unfold set_seen. rewrite live_count_map; [lia|]. intros x. destruct (is_ent mb (e_k e) x); reflexivity.
  - cbn [exec_spec]. destruct (find_h mb h (live st)) as [e|] eqn:F; [|unfold count_deleted, count_stored; simpl; lia]. cbn [live].
    destruct h as [k0| |]; try discriminate. simpl in F.
    pose proof (find_some _ _ F) as [_ Hp]. unfold is_ent in Hp. apply andb_true_iff in Hp as [Hm Hk].
    apply Nat.eqb_eq in Hk. apply ent_in_eq in Hm. rewrite Hk.
    rewrite (live_count_partition kk (is_ent mb k0) (live st)). unfold remove_ent.
    assert (Hu : filter (is_ent mb k0) (live st) = [e]).
    { rewrite filter_is_ent. apply filter_k_unique; [apply HI | rewrite <- find_box; exact F]. }
    rewrite Hu. unfold live_count, count_deleted, count_stored. simpl. change (ev_key (ev_deleted e)) with (ekey e).
    destruct (mkey_eqb kk (ekey e)); simpl; lia.
  - cbn [exec_spec live]. rewrite count_deleted_map, count_stored_map.
    rewrite (live_count_partition kk (ent_in mb) (live st)). fold (box mb (live st)). lia.
  - unfold count_deleted, count_stored; simpl. lia.
Qed.

Definition is_add_to (mb : str) (o : op) : bool :=
  match o with Add mb' _ _ _ => str_eqb mb mb' | _ => false end.
(** Number of deliveries to [mb] in a history. *)
Definition n_adds (mb : str) (ops : list op) : nat := length (filter (is_add_to mb) ops).

Definition lt01 (a b : nat) : nat := if Nat.ltb a b then 1 else 0.

Lemma exec_stored cfg st o kk :
  let '(st', _, evs) := exec_spec cfg st o in
  count_stored kk evs + lt01 (snd kk) (count_of (fst kk) (counts st)) = lt01 (snd kk) (count_of (fst kk) (counts st')) /\
  count_of (fst kk) (counts st') = count_of (fst kk) (counts st) + (if is_add_to (fst kk) o then 1 else 0).
Proof.
  destruct o as [mb date tag size|mb h|mb|mb h|mb h|mb|].
  - cbn [exec_spec]. rewrite spec_add_unfold. cbv zeta. destruct (add_cap cfg mb _) as [d1 l2]. destruct (add_fit cfg l2) as [d2 l3].
    cbn [counts is_add_to]. rewrite !count_stored_app, !count_stored_map. unfold count_stored. simpl.
    destruct kk as [n k]. unfold mkey_eqb, ev_key. simpl. unfold lt01.
    destruct (str_eqb n mb) eqn:Q.
    + apply str_eqb_eq in Q. subst n. rewrite count_bump_same.
      destruct (Nat.eqb k (count_of mb (counts st))) eqn:Qk; simpl.
      * apply Nat.eqb_eq in Qk. subst k. rewrite Nat.ltb_irrefl.
        assert (Nat.ltb (count_of mb (counts st)) (S (count_of mb (counts st))) = true) as -> by (apply Nat.ltb_lt; lia). split; lia.
      * apply Nat.eqb_neq in Qk. destruct (Nat.ltb k (count_of mb (counts st))) eqn:Q1.
        -- apply Nat.ltb_lt in Q1. assert (Nat.ltb k (S (count_of mb (counts st))) = true) as -> by (apply Nat.ltb_lt; lia). split; lia.
        -- apply Nat.ltb_ge in Q1. assert (Nat.ltb k (S (count_of mb (counts st))) = false) as -> by (apply Nat.ltb_ge; lia). split; lia.
    + apply str_eqb_neq in Q. rewrite count_bump_other by congruence. simpl. split; lia.
  - destruct h; simpl; split; lia.
  - simpl; split; lia.
  - cbn [exec_spec]. destruct (find_h mb h (live st)); simpl; split; lia.
  - cbn [exec_spec]. destruct (find_h mb h (live st)); simpl; split; lia.
  - cbn [exec_spec counts is_add_to]. rewrite count_stored_map. split; lia.
  - simpl; split; lia.
Qed.

Lemma trace_cons cfg st o ops :
  trace_of (run_spec cfg st (o :: ops)) =
  snd (exec_spec cfg st o) ++ trace_of (run_spec cfg (fst (fst (exec_spec cfg st o))) ops).
Proof. unfold trace_of. cbn [run_spec]. destruct (exec_spec cfg st o) as [[st' ob] evs]. reflexivity. Qed.

Lemma final_cons cfg st o ops : final_spec cfg st (o :: ops) = final_spec cfg (fst (fst (exec_spec cfg st o))) ops.
Proof. cbn [final_spec]. destruct (exec_spec cfg st o) as [[st' ob] evs]. reflexivity. Qed.

Lemma run_conservation cfg kk : forall ops st, SInv st ->
  let T := trace_of (run_spec cfg st ops) in
  live_count kk (live (final_spec cfg st ops)) + count_deleted kk T = live_count kk (live st) + count_stored kk T /\
  count_stored kk T + lt01 (snd kk) (count_of (fst kk) (counts st)) =
    lt01 (snd kk) (count_of (fst kk) (counts st) + n_adds (fst kk) ops).
Proof.
  induction ops as [|o ops IH]; intros st HI.
  - cbv zeta. unfold trace_of, count_deleted, count_stored, n_adds. simpl. split; [lia | rewrite Nat.add_0_r; reflexivity].
  - cbv zeta. rewrite trace_cons, final_cons.
    pose proof (exec_conservation cfg st o kk HI) as Hc. pose proof (exec_stored cfg st o kk) as Hs.
    pose proof (exec_spec_SInv cfg st o HI) as HI'.
    destruct (exec_spec cfg st o) as [[st' ob] evs]. cbn [fst snd] in *.
    destruct (IH st' HI') as [H1 H2]. destruct Hs as [Hs1 Hs2].
    rewrite count_deleted_app, count_stored_app. split; [lia|].
    unfold n_adds in *. cbn [filter]. rewrite Hs2 in H2, Hs1.
    destruct (is_add_to (fst kk) o); cbn [length]; rewrite <- ?plus_n_Sm, ?Nat.add_0_r in *; cbn [Nat.add] in *; lia.
Qed.

(** [stored_once] (abstract store): message (mb, k) has exactly one stored event if the
    history delivers more than k messages to mb, none otherwise. *)
Theorem stored_once_spec cfg ops mb k :
  count_stored (mb, k) (trace_of (run_spec cfg spec_init ops)) = lt01 k (n_adds mb ops).
Proof.
  destruct (run_conservation cfg (mb, k) ops spec_init SInv_init) as [_ H]. cbn [fst snd counts spec_init count_of] in H.
  unfold lt01 at 1 in H. simpl in H. lia.
Qed.

(** [deleted_once] (abstract store): deleted events + still-live copies = stored events, per
    message; with [stored_once]: a delivered message that is no longer live has exactly one
    deleted event, a live or never-delivered one has none. *)
Theorem deleted_once_spec cfg ops mb k :
  count_deleted (mb, k) (trace_of (run_spec cfg spec_init ops)) + live_count (mb, k) (live (final_spec cfg spec_init ops))
  = count_stored (mb, k) (trace_of (run_spec cfg spec_init ops)).
Proof.
  destruct (run_conservation cfg (mb, k) ops spec_init SInv_init) as [H _]. cbn [live spec_init] in H.
  unfold live_count at 2 in H. simpl in H. lia.
Qed.

(** On the back-end models (every cap, every size limit). *)
Theorem stored_once cfg ticks ops mb k :
  count_stored (mb, k) (trace_of (run_mem cfg ops)) = lt01 k (n_adds mb ops) /\
  (c_max cfg = 0%N -> file_fresh cfg (file_init ticks, []) ops ->
   count_stored (mb, k) (trace_of (run_file cfg ticks ops)) = lt01 k (n_adds mb ops)).
Proof.
  split; [rewrite mem_refines_spec; apply stored_once_spec|].
  intros Hm Hf. rewrite file_refines_spec by assumption. apply stored_once_spec.
Qed.

Theorem deleted_once cfg ticks ops mb k :
  (count_deleted (mb, k) (trace_of (run_mem cfg ops)) + live_count (mb, k) (live (final_spec cfg spec_init ops))
   = count_stored (mb, k) (trace_of (run_mem cfg ops))) /\
  (c_max cfg = 0%N -> file_fresh cfg (file_init ticks, []) ops ->
   count_deleted (mb, k) (trace_of (run_file cfg ticks ops)) + live_count (mb, k) (live (final_spec cfg spec_init ops))
   = count_stored (mb, k) (trace_of (run_file cfg ticks ops))).
Proof.
  split; [rewrite mem_refines_spec; apply deleted_once_spec|].
  intros Hm Hf. rewrite file_refines_spec by assumption. apply deleted_once_spec.
Qed.

(** What "live" means to a client: a final listing returns exactly the live messages. *)
Lemma final_listing cfg ops mb :
  nth_error (map fst (run_mem cfg (ops ++ [Lst mb]))) (length ops) =
  Some (OList (map view_of (box mb (live (final_spec cfg spec_init ops))))).
Proof.
  rewrite mem_refines_spec, run_spec_app, map_app.
  rewrite nth_error_app2 by (rewrite map_length, run_spec_length; lia).
  rewrite map_length, run_spec_length, Nat.sub_diag. reflexivity.
Qed.

Example counts_example :
  let T := trace_of (run_mem {| c_cap := 1; c_max := 0 |} [Add [97%N] 0%Z 0%N 10%N; Add [97%N] 1%Z 1%N 10%N]) in
  count_stored ([97%N], 0) T = 1 /\ count_deleted ([97%N], 0) T = 1 /\ count_deleted ([97%N], 1) T = 0.
Proof. vm_compute. auto. Qed.

(** C15: a listener's Close — [close(done)] first, [hub.RemoveListener] second — always gets the
    hub going again, whatever is buffered and however full the op queue is; with the two
    statements swapped it can deadlock. *)
From IV Require Import Base.Bytes Gen.HubPins Model.Hub Proofs.HubBasics Proofs.HubInv Proofs.HubTheorems.
Local Open Scope nat_scope.

(** A closed listener never makes the hub wait: its enqueue returns at once. *)
Theorem closed_never_blocks :
  forall c ch s e, lclosed s = true -> deliver c ch s e <> None.
Proof.
  intros c ch s e C. unfold deliver. destruct (wants (lk s) (lf s) e); cbn [negb]; [|discriminate].
  destruct (lk s).
  - rewrite C. destruct (ch || (cap_of c V1 <=? length (lq s))); discriminate.
  - rewrite C. destruct (ch || (cap_of c V2 <=? length (lq s))); discriminate.
  - destruct (lfail s) as [[|k]|]; discriminate.
Qed.

(** The first statement of Close needs nothing: no room in any queue, no cooperation. *)
Theorem close_first_step_always_enabled :
  forall c h l s, find_l l (ls h) = Some s -> exists h', step c h (AClose l) = Some h' /\
    exists s', find_l l (ls h') = Some s' /\ lclosed s' = true.
Proof.
  intros c h l s F. cbn [step]. rewrite F. destruct (lclosed s) eqn:C.
  - exists h. split; auto. exists s. auto.
  - eexists. split; [reflexivity|]. cbn [set_ls ls]. exists (l_close s).
    rewrite find_l_upd_same by congruence. auto.
Qed.

(** Closed stays closed. *)
Lemma closed_stays_step c h a h' l s :
  step c h a = Some h' -> find_l l (ls h) = Some s -> lclosed s = true ->
  exists s', find_l l (ls h') = Some s' /\ lclosed s' = true.
Proof.
  intros E F C.
  assert (U : forall k x (P : lclosed x = true \/ k <> l),
             exists s', find_l l (upd_l k x (ls h)) = Some s' /\ lclosed s' = true).
  { intros k x P. destruct (Nat.eq_dec k l) as [->|N].
    - destruct P as [P|P]; [|congruence]. exists x. rewrite find_l_upd_same by congruence. auto.
    - exists s. rewrite find_l_upd_other by auto. auto. }
  destruct a; cbn [step] in E.
  - destruct (is_add o); [discriminate|]. unfold enq in E. destruct (stopped h); [inversion E; subst; eauto|].
    destruct (length (opq h) <? opcap c); inversion E; subst; eauto.
  - destruct (find_l l0 (ls h)) eqn:F0; [discriminate|]. unfold enq in E. cbn [set_ls stopped opq] in E.
    assert (find_l l (ls h ++ [(l0, new_lst k f fail)]) = Some s) by (rewrite find_l_app, F; reflexivity).
    destruct (stopped h); [inversion E; subst; eauto|].
    destruct (length (opq h) <? opcap c); inversion E; subst; eauto.
  - destruct (find_l l0 (ls h)) as [x|] eqn:F0; [|discriminate]. destruct (lclosed x) eqn:Cx; inversion E; subst; eauto.
    cbn [set_ls ls]. apply U. left. reflexivity.
  - destruct (find_l l0 (ls h)) as [x|] eqn:F0; [|discriminate]. destruct (lrm x); [|discriminate].
    assert (exists s', find_l l (upd_l l0 (l_rm_done x) (ls h)) = Some s' /\ lclosed s' = true) as (s' & F1 & C1).
    { apply U. destruct (Nat.eq_dec l0 l) as [->|N]; [|auto]. left. cbn. congruence. }
    unfold enq in E. cbn [set_ls stopped opq] in E. destruct (stopped h); [inversion E; subst; eauto|].
    destruct (length (opq h) <? opcap c); inversion E; subst; eauto.
  - destruct (find_l l0 (ls h)) as [x|] eqn:F0; [|discriminate]. destruct (l_take x) as [x'|] eqn:T; [|discriminate].
    inversion E; subst. cbn [set_ls ls]. apply U. destruct (Nat.eq_dec l0 l) as [->|N]; [|auto]. left.
    unfold l_take in T. destruct (lq x); [discriminate|]. inversion T; subst. cbn. congruence.
  - unfold hub_step in E. destruct (stopped h); [discriminate|]. destruct (work h) as [|d w].
    + destruct (opq h) as [|o q]; [discriminate|]. inversion E; subst. destruct o; cbn; eauto.
    + destruct (find_l (d_to d) (ls h)) as [x|] eqn:F0.
      * destruct (deliver c choice x (d_ev d)) as [[x' err]|] eqn:D; [|discriminate]. inversion E; subst.
        cbn [ls]. apply U. destruct (Nat.eq_dec (d_to d) l) as [El|N]; [|auto]. left.
        rewrite El in F0. assert (x = s) by congruence. subst x.
        unfold deliver in D. destruct (wants (lk s) (lf s) (d_ev d)); cbn [negb] in D; [|inversion D; subst; auto].
        destruct (lk s).
        -- rewrite C in D. destruct (choice || (cap_of c V1 <=? length (lq s))); inversion D; subst; cbn; auto.
        -- rewrite C in D. destruct (choice || (cap_of c V2 <=? length (lq s))); inversion D; subst; cbn; auto.
        -- destruct (lfail s) as [[|k]|]; inversion D; subst; cbn; auto.
      * inversion E; subst. eauto.
  - destruct (work h); [|discriminate]. inversion E; subst. eauto.
Qed.

Lemma closed_stays_run c acts : forall h h' l s,
  run c h acts = Some h' -> find_l l (ls h) = Some s -> lclosed s = true ->
  exists s', find_l l (ls h') = Some s' /\ lclosed s' = true.
Proof.
  induction acts as [|a t IH]; intros h h' l s R F C; cbn [run] in R.
  - inversion R; subst. eauto.
  - destruct (step c h a) as [h1|] eqn:E; [|discriminate].
    destruct (closed_stays_step c h a h1 l s E F C) as (s1 & F1 & C1). eapply IH; eauto.
Qed.

(** Once the first statement of its Close has run, the hub never again waits for that
    listener: in every later state in which the hub's next call goes to it, the hub moves.
    So the stall caused by a slow listener ends with its Close, whatever the op queue holds,
    and the Close's second statement (which needs room in the op queue) gets its room because
    the hub keeps popping. *)
Theorem close_unblocks_hub :
  forall c h l s acts h',
    find_l l (ls h) = Some s -> lclosed s = true ->
    run c h acts = Some h' -> stopped h' = false ->
    match work h' with d :: _ => d_to d = l | [] => False end ->
    exists h'', hub_step c true h' = Some h''.
Proof.
  intros c h l s acts h' F C R S W.
  destruct (closed_stays_run c acts h h' l s R F C) as (s' & F' & C').
  unfold hub_step. rewrite S. destruct (work h') as [|d w]; [tauto|]. subst l. rewrite F'.
  destruct (deliver c true s' (d_ev d)) as [[x err]|] eqn:D; [eexists; reflexivity|].
  exfalso. eapply closed_never_blocks; eauto.
Qed.

(** ** The jam: listener 0 never drained, its queue full, the hub holding one more event for it,
    the op queue full behind. *)
Definition jmsg (i : nat) : msg := ([97%N], [N.of_nat i]).

Definition jam_acts : list action :=
  [ANew 0 V2 [] None; AHub true] ++
  flat_map (fun i => [AEnq (ODispatch (jmsg i)); AHub true; AHub true]) (seq 0 v2_queue_cap) ++
  [AEnq (ODispatch (jmsg v2_queue_cap)); AHub true] ++
  map (fun i => AEnq (ODispatch (jmsg (v2_queue_cap + 1 + i)))) (seq 0 op_chan_len).

Definition jam_state : hub :=
  match run pinned_cfg (hub_init 0) jam_acts with Some h => h | None => hub_init 0 end.

Lemma jam_reached : run pinned_cfg (hub_init 0) jam_acts = Some jam_state.
Proof. vm_compute. reflexivity. Qed.

(** With the two statements of Close SWAPPED (RemoveListener first), the closing goroutine
    waits for room in the op queue, [done] stays open, the hub keeps waiting for the listener,
    nobody pops: nothing can move any more (the socket writer, the only one who could take an
    event, is the goroutine that is closing). *)
Example swapped_close_deadlocks :
  (forall ch, hub_step pinned_cfg ch jam_state = None) /\
  enq pinned_cfg (ORemove 0) jam_state = None /\
  (forall o, is_add o = false -> step pinned_cfg jam_state (AEnq o) = None).
Proof.
  split; [intros []; vm_compute; reflexivity|]. split; [vm_compute; reflexivity|].
  intros o A. cbn [step]. rewrite A. unfold enq. vm_compute. reflexivity.
Qed.

(** With the order as coded: Close's first statement is enabled, the hub then moves, pops, and
    the second statement finds room. *)
Example coded_close_recovers :
  exists h, run pinned_cfg jam_state [AClose 0; AHub true; AHub true; ARm 0] = Some h /\
            stopped h = false /\ length (opq h) = op_chan_len.
Proof. eexists. split; [vm_compute; reflexivity|]. split; vm_compute; reflexivity. Qed.

(** C09 — memory store with the size limit: where a tag (the identity of a delivered Message object) occurs in a
    state, as counts — the vocabulary of the linear-ownership invariant behind the quiescence statement
    (Proofs/ConcMemOwn.v).  Per thread: is it still to deliver the tag ([ub]), has it delivered it and not yet
    handed it to the enforcer for registration ([pr]), does it carry the message as a removal notice it has not
    sent yet ([nt]).  Per state: occurrences in the mailboxes ([LV]), in the enforcer's book ([BK]), and what the
    enforcer is looking at. *)
From IV Require Import Model.Conc Model.ConcMem Proofs.ConcBase Proofs.ConcMemInv Proofs.ConcMemTerm.
From Coq Require Import Lia ZifyN ZifyNat ZifyBool.
Local Open Scope nat_scope.

Definition b2n (b : bool) : nat := if b then 1 else 0.
Fixpoint cnt (g : N) (l : list N) : nat := match l with [] => 0 | x :: l' => b2n (N.eqb g x) + cnt g l' end.
Definition tags (l : list msg) : list N := map m_tag l.

Lemma cnt_app g l1 l2 : cnt g (l1 ++ l2) = cnt g l1 + cnt g l2.
Proof. induction l1; cbn [app cnt]; lia. Qed.
Lemma tags_app l1 l2 : tags (l1 ++ l2) = tags l1 ++ tags l2. Proof. apply map_app. Qed.

Definition ub (g : N) (p : pc) : nat :=
  match p with PStart (OAdd _ g' _) | PAddLock _ g' _ => b2n (N.eqb g g') | _ => 0 end.
Definition pr (g : N) (p : pc) : nat :=
  match p with
  | PAddVisible _ nm | PAddEvict _ nm _ _ _ | PAddRegister _ nm false => b2n (N.eqb g (m_tag nm))
  | _ => 0
  end.
Definition nt (g : N) (p : pc) : nat :=
  match p with
  | PAddEvict _ _ m rest sent | PPurgeEnf _ m rest sent => (if sent then 0 else b2n (N.eqb g (m_tag m))) + cnt g (tags rest)
  | PRemoveEnf m _ sent => if sent then 0 else b2n (N.eqb g (m_tag m))
  | PPurgeSwapped _ ms => cnt g (tags ms)
  | _ => 0
  end.

Definition etag (k : ent) : N := m_tag (snd k).
Definition UB g s := sumf (ub g) (s_thr s).
Definition PR g s := sumf (pr g) (s_thr s).
Definition NTt g s := sumf (nt g) (s_thr s).
Definition ER g (e : enf) := match e_pc e with ERemove k _ => b2n (N.eqb g (etag k)) | _ => 0 end.
Definition IN g (e : enf) := match e_pc e with EIncoming k _ => b2n (N.eqb g (etag k)) | _ => 0 end.
Definition POP g (e : enf) := match e_pc e with EEvLock k _ => b2n (N.eqb g (etag k)) | _ => 0 end.
Definition BK g (e : enf) := cnt g (map etag (e_all e)).
Definition LVb g (bs : list (mbname * mbx)) := sumf (fun kb => cnt g (tags (b_msgs (x_box (snd kb))))) bs.
Definition LV g s := LVb g (s_boxes s).
Definition NT g s := NTt g s + ER g (s_enf s).

(* ------------------------------------------------------------------ list facts *)

Lemma cnt_del g id l m : find_msg id l = Some m ->
  cnt g (tags (del_msg id l)) + b2n (N.eqb g (m_tag m)) = cnt g (tags l).
Proof.
  induction l as [|x l IH]; cbn [find_msg del_msg]; [discriminate|].
  destruct (N.eqb (m_id x) id).
  - intros H; inversion H; subst. unfold tags in *; cbn [map cnt]. lia.
  - intros H. specialize (IH H). unfold tags in *; cbn [map cnt] in *. lia.
Qed.
Lemma tags_mark id l : tags (mark_seen id l) = tags l.
Proof. induction l as [|x l IH]; cbn [mark_seen tags map]; [reflexivity|]. destruct (N.eqb (m_id x) id); cbn [map m_tag]; [reflexivity|]. f_equal. exact IH. Qed.

Lemma cap_loop_cnt g fuel cap b ev b' ev' : cap_loop fuel cap b ev = (b', ev') ->
  cnt g (tags (b_msgs b')) + cnt g (tags ev') = cnt g (tags (b_msgs b)) + cnt g (tags ev).
Proof.
  revert b ev; induction fuel as [|f IH]; intros b ev H; cbn [cap_loop] in H.
  - inversion H; subst; reflexivity.
  - destruct (N.leb (N.of_nat (length (b_msgs b))) cap); [inversion H; subst; reflexivity|].
    destruct (find_msg (b_first b) (b_msgs b)) as [old|] eqn:E.
    + apply IH in H. cbn [b_msgs] in H. rewrite tags_app, cnt_app in H.
      pose proof (cnt_del g _ _ _ E). unfold tags in *; cbn [map cnt] in H. lia.
    + apply IH in H. exact H.
Qed.
Lemma box_cap_cnt g cap b b' ev : box_cap cap b = (b', ev) ->
  cnt g (tags (b_msgs b')) + cnt g (tags ev) = cnt g (tags (b_msgs b)).
Proof.
  unfold box_cap. destruct (N.eqb cap 0); intros H; [inversion H; subst; cbn; lia|].
  apply (cap_loop_cnt g) in H. cbn in H. lia.
Qed.
Lemma box_insert_cnt g g' z b id b' : box_insert g' z b = (id, b') ->
  cnt g (tags (b_msgs b')) = cnt g (tags (b_msgs b)) + b2n (N.eqb g g').
Proof. unfold box_insert. intros H; inversion H; subst. cbn [b_msgs]. rewrite tags_app, cnt_app. cbn. lia. Qed.
Lemma box_seen_cnt g id b b' r : box_seen id b = (b', r) -> cnt g (tags (b_msgs b')) = cnt g (tags (b_msgs b)).
Proof.
  unfold box_seen. destruct (find_msg id (b_msgs b)); intros H; inversion H; subst; [|reflexivity].
  cbn [b_msgs]. now rewrite tags_mark.
Qed.
Lemma box_remove_cnt g id b b' m : box_remove id b = (b', Some m) ->
  cnt g (tags (b_msgs b')) + b2n (N.eqb g (m_tag m)) = cnt g (tags (b_msgs b)).
Proof.
  unfold box_remove. destruct (find_msg id (b_msgs b)) eqn:E; intros H; inversion H; subst.
  cbn [b_msgs]. eapply cnt_del; eauto.
Qed.

Lemma take_nth_cnt g n (l : list msg) x r : take_nth n l = Some (x, r) ->
  cnt g (tags l) = b2n (N.eqb g (m_tag x)) + cnt g (tags r).
Proof.
  revert n x r; induction l as [|a l IH]; intros [|n] x r; cbn [take_nth]; try discriminate.
  - intros H; inversion H; subst; reflexivity.
  - destruct (take_nth n l) as [[y r']|] eqn:E; [|discriminate].
    intros H; inversion H; subst. unfold tags in *; cbn [map cnt]. specialize (IH _ _ _ E). cbn [tags] in IH. lia.
Qed.
Lemma pick_cnt g c (l : list msg) x r : pick c l = Some (x, r) ->
  cnt g (tags l) = b2n (N.eqb g (m_tag x)) + cnt g (tags r).
Proof. unfold pick. destruct l; [discriminate|]. apply take_nth_cnt. Qed.

Lemma nt_next_add g mb nm ev : nt g (next_add mb nm ev) = cnt g (tags ev).
Proof. destruct ev; reflexivity. Qed.
Lemma pr_next_add g mb nm ev : pr g (next_add mb nm ev) = b2n (N.eqb g (m_tag nm)).
Proof. destruct ev; reflexivity. Qed.
Lemma ub_next_add g mb nm ev : ub g (next_add mb nm ev) = 0.
Proof. destruct ev; reflexivity. Qed.
Lemma take_nth_some {A} n (l : list A) : n < length l -> take_nth n l <> None.
Proof.
  revert n; induction l as [|a l IH]; intros [|n] H; cbn in *; try lia; try discriminate.
  destruct (take_nth n l) as [[? ?]|] eqn:E; [discriminate|]. exfalso. eapply IH; [|exact E]. lia.
Qed.
Lemma pick_none {A} c (l : list A) : pick c l = None -> l = [].
Proof.
  unfold pick. destruct l as [|a l]; [reflexivity|]. intros E. exfalso.
  eapply take_nth_some; [|exact E]. apply Nat.mod_upper_bound. cbn; lia.
Qed.
Lemma nt_purge_next g mb c ms : nt g (purge_next mb c ms) = cnt g (tags ms).
Proof.
  unfold purge_next. destruct (pick c ms) as [[m r]|] eqn:E.
  - cbn [nt]. now rewrite (pick_cnt g _ _ _ _ E).
  - apply pick_none in E. subst. reflexivity.
Qed.
Lemma pr_purge_next g mb c ms : pr g (purge_next mb c ms) = 0.
Proof. unfold purge_next. destruct (pick c ms) as [[? ?]|]; reflexivity. Qed.
Lemma ub_purge_next g mb c ms : ub g (purge_next mb c ms) = 0.
Proof. unfold purge_next. destruct (pick c ms) as [[? ?]|]; reflexivity. Qed.

Lemma ent_take_cnt g h l k r : ent_take h l = Some (k, r) ->
  etag k = h /\ cnt g (map etag l) = b2n (N.eqb g (etag k)) + cnt g (map etag r).
Proof.
  revert k r; induction l as [|a l IH]; intros k r; cbn [ent_take]; [discriminate|].
  destruct (N.eqb (m_tag (snd a)) h) eqn:E.
  - intros H; inversion H; subst. apply N.eqb_eq in E. split; [exact E | reflexivity].
  - destruct (ent_take h l) as [[x r']|]; [|discriminate].
    intros H; inversion H; subst. destruct (IH _ _ eq_refl) as [H1 H2]. split; [exact H1|].
    cbn [map cnt]. lia.
Qed.
Lemma ent_take_none h l : ent_take h l = None -> cnt h (map etag l) = 0.
Proof.
  induction l as [|a l IH]; cbn [ent_take map cnt]; [reflexivity|].
  unfold etag at 1. destruct (N.eqb (m_tag (snd a)) h) eqn:E; [discriminate|].
  destruct (ent_take h l) as [[x r']|]; [discriminate|]. intros _. rewrite IH by reflexivity.
  rewrite N.eqb_sym, E. reflexivity.
Qed.

Lemma tag_mem_filter g x l : tag_mem g (filter (fun h => negb (N.eqb h x)) l) = negb (N.eqb g x) && tag_mem g l.
Proof.
  unfold tag_mem. induction l as [|a l IH]; cbn [filter existsb]; [now rewrite andb_false_r|].
  destruct (N.eqb a x) eqn:E; cbn [negb existsb].
  - rewrite IH. apply N.eqb_eq in E; subst a. destruct (N.eqb g x); reflexivity.
  - rewrite IH. destruct (N.eqb g a) eqn:E2; [|reflexivity]. apply N.eqb_eq in E2; subst a. rewrite E. reflexivity.
Qed.

(* ------------------------------------------------------------------ mailboxes *)

Lemma LVb_aset g mb x bs :
  LVb g (aset mb x bs) + cnt g (tags (b_msgs (x_box (match aget mb bs with Some y => y | None => mbx0 end)))) =
  LVb g bs + cnt g (tags (b_msgs (x_box x))).
Proof.
  unfold LVb, sumf, list_sum. induction bs as [|[k v] bs IH]; cbn [aset aget map fold_right snd].
  - cbn. lia.
  - destruct (N.eqb k mb) eqn:E; cbn [map fold_right snd]; lia.
Qed.
Lemma LV_setx g mb x s :
  LV g (setx mb x s) + cnt g (tags (b_msgs (x_box (getx mb s)))) = LV g s + cnt g (tags (b_msgs (x_box x))).
Proof. unfold LV, setx, getx. cbn [s_boxes with_boxes]. apply LVb_aset. Qed.
Lemma LV_touch g mb s : LV g (touch mb s) = LV g s.
Proof.
  unfold touch. destruct (aget mb (s_boxes s)) eqn:E; [reflexivity|].
  pose proof (LV_setx g mb mbx0 s) as H. unfold getx in H. rewrite E in H. lia.
Qed.
Lemma LV_setpc g t p s : LV g (setpc t p s) = LV g s. Proof. reflexivity. Qed.
Lemma LV_addlog g e s : LV g (addlog e s) = LV g s. Proof. reflexivity. Qed.
Lemma LV_with_enf g e s : LV g (with_enf s e) = LV g s. Proof. reflexivity. Qed.
Lemma LV_take_done g t s : LV g (take_done t s) = LV g s. Proof. reflexivity. Qed.

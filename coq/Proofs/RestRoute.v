(** Proofs about escaping, path cleaning and routing of [Model/Rest.v] (C14). *)
From Coq Require Import ZifyN ZifyNat ZifyBool.
From IV Require Import Base.Bytes Base.BytesFacts Model.StoreSpec Model.Rest.
Open Scope N_scope.

Definition nosl (s : str) : Prop := ~ In slash s.

(* ------------------------------------------------------------------ split / join *)

Lemma split_on_nonnil c s : split_on c s <> [].
Proof.
  induction s as [|x s IH]; cbn [split_on]; [discriminate|].
  destruct (split_on c s); [discriminate|]. destruct (x =? c); discriminate.
Qed.

Lemma split_app_free c s t :
  ~ In c s -> split_on c (s ++ t) = match split_on c t with w :: ws => (s ++ w) :: ws | [] => [s] end.
Proof.
  induction s as [|x s IH]; intros H.
  - cbn [app]. destruct (split_on c t) eqn:E; [exfalso; eapply split_on_nonnil; eauto | reflexivity].
  - cbn [app split_on]. rewrite IH by (intros K; apply H; right; exact K).
    assert (x =? c = false) as -> by (apply N.eqb_neq; intros ->; apply H; left; reflexivity).
    destruct (split_on c t) eqn:E; [exfalso; eapply split_on_nonnil; eauto | reflexivity].
Qed.

Lemma split_join r : forall s, nosl s -> Forall nosl r -> split_on slash (s ++ join_slash r) = s :: r.
Proof.
  induction r as [|a r IH]; intros s Hs Hr.
  - cbn [join_slash]. rewrite split_app_free by exact Hs. cbn [split_on]. rewrite app_nil_r. reflexivity.
  - inversion Hr; subst. cbn [join_slash]. rewrite split_app_free by exact Hs.
    cbn [split_on]. rewrite IH by assumption. rewrite N.eqb_refl. rewrite app_nil_r. reflexivity.
Qed.

Lemma split_join_rooted L : L <> [] -> Forall nosl L -> split_on slash (join_slash L) = [] :: L.
Proof.
  destruct L as [|a r]; [congruence|]. intros _ H. inversion H; subst.
  cbn [join_slash split_on]. rewrite split_join by assumption. rewrite N.eqb_refl. reflexivity.
Qed.

(** A string is its first piece followed by the slash-join of the other pieces. *)
Lemma split_on_join_back s : forall hd tl, split_on slash s = hd :: tl -> s = hd ++ join_slash tl.
Proof.
  induction s as [|c s IH]; intros hd tl; cbn [split_on].
  - intros H; inversion H; reflexivity.
  - destruct (split_on slash s) as [|w ws] eqn:E; [exfalso; eapply split_on_nonnil; eauto|].
    specialize (IH w ws eq_refl). destruct (c =? slash) eqn:C; intros H; inversion H; subst.
    + apply N.eqb_eq in C. subst. reflexivity.
    + reflexivity.
Qed.

Lemma split_on_free s : Forall nosl (split_on slash s).
Proof.
  induction s as [|c s IH]; cbn [split_on].
  - constructor; [intros []|constructor].
  - destruct (split_on slash s) as [|w ws] eqn:E; [constructor; [|constructor]; intros [K|[]]; subst|].
    + exfalso; eapply split_on_nonnil; eauto.
    + inversion IH; subst. destruct (c =? slash) eqn:C.
      * constructor; [intros []|constructor; assumption].
      * constructor; [|assumption]. intros [K|K]; [subst; rewrite N.eqb_refl in C; discriminate | contradiction].
Qed.

Lemma join_slash_app a b : join_slash (a ++ b) = join_slash a ++ join_slash b.
Proof. induction a as [|s a IH]; cbn [app join_slash]; [reflexivity|]. rewrite IH, <- app_assoc. reflexivity. Qed.

(* ------------------------------------------------------------------ cleaning *)

Lemma plain_seg_iff s : plain_seg s = true <-> s <> [] /\ s <> [dot] /\ s <> [dot; dot].
Proof.
  unfold plain_seg, is_dot, is_dotdot. rewrite negb_true_iff, !orb_false_iff.
  split.
  - intros [[E D] DD]. repeat split; intros ->; try discriminate.
  - intros [E [D DD]]. repeat split.
    + destruct s; [congruence|reflexivity].
    + destruct (str_eqb s [dot]) eqn:K; [apply str_eqb_eq in K; congruence|reflexivity].
    + destruct (str_eqb s [dot; dot]) eqn:K; [apply str_eqb_eq in K; congruence|reflexivity].
Qed.

Lemma plain_seg_ok s : plain_seg s = true -> seg_ok s = true.
Proof. unfold plain_seg, seg_ok. destruct s; [discriminate|reflexivity]. Qed.

Lemma clean_stack_plain L : forall acc,
  Forall (fun s => s = [] \/ plain_seg s = true) L -> clean_stack L acc = rev acc ++ filter seg_ok L.
Proof.
  induction L as [|s L IH]; intros acc H; cbn [clean_stack filter].
  - rewrite app_nil_r. reflexivity.
  - inversion H as [|? ? [E|P] HL]; subst.
    + cbn [is_empty orb seg_ok negb]. apply IH. exact HL.
    + pose proof P as P'. unfold plain_seg in P'. rewrite negb_true_iff, !orb_false_iff in P'. destruct P' as [[E D] DD].
      rewrite E, D, DD. cbn [orb]. unfold seg_ok. rewrite E. cbn [negb].
      rewrite IH by exact HL. cbn [rev]. rewrite <- app_assoc. reflexivity.
Qed.

Lemma last_opt_app {A} (a t : list A) : t <> [] -> last_opt (a ++ t) = last_opt t.
Proof.
  induction a as [|x a IH]; intros H; [reflexivity|]. cbn [app last_opt].
  destruct (a ++ t) eqn:E; [destruct a, t; try discriminate; congruence|]. apply IH. exact H.
Qed.

Lemma last_opt_In {A} (s : list A) c : last_opt s = Some c -> In c s.
Proof.
  induction s as [|x s IH]; [discriminate|]. cbn [last_opt]. destruct s; [intros H; inversion H; left; reflexivity|].
  intros H; right; apply IH; exact H.
Qed.

Lemma ends_slash_join r z : z <> [] -> nosl z -> ends_slash (join_slash (r ++ [z])) = false.
Proof.
  intros Z N. rewrite join_slash_app. cbn [join_slash]. rewrite app_nil_r.
  unfold ends_slash. rewrite last_opt_app by discriminate.
  change (slash :: z) with ([slash] ++ z). rewrite last_opt_app by exact Z.
  destruct (last_opt z) as [c|] eqn:E; [|reflexivity].
  apply last_opt_In in E. apply N.eqb_neq. intros ->. exact (N E).
Qed.

Lemma exists_last' {A} (l : list A) : l <> [] -> exists r z, l = r ++ [z].
Proof. intros H. destruct (exists_last H) as [r [z E]]. eauto. Qed.

(** A path made of plain, slash-free segments is clean, and splits into those segments. *)
Lemma clean_path_plain L :
  L <> [] -> Forall nosl L -> Forall (fun s => plain_seg s = true) L ->
  clean_path (join_slash L) = join_slash L.
Proof.
  intros NE F P. unfold clean_path. rewrite split_join_rooted by assumption.
  rewrite clean_stack_plain.
  2:{ constructor; [left; reflexivity|]. eapply Forall_impl; [|exact P]. intros; right; assumption. }
  cbn [rev app filter seg_ok is_empty negb].
  assert (filter seg_ok L = L) as ->.
  { clear NE F. induction P as [|s L Ps PL IH]; [reflexivity|]. cbn [filter]. rewrite (plain_seg_ok _ Ps). f_equal. exact IH. }
  destruct (exists_last' L NE) as [r [z ->]].
  rewrite ends_slash_join.
  - cbn [andb]. destruct (r ++ [z]) eqn:E; [destruct r; discriminate|reflexivity].
  - apply Forall_app in P as [_ P]. inversion P; subst. apply plain_seg_iff in H1. tauto.
  - apply Forall_app in F as [_ F]. inversion F; subst. assumption.
Qed.

(** The client-side cleaning: empty segments (doubled slashes) disappear. *)
Lemma clean_path_join L :
  Forall nosl L -> Forall (fun s => s = [] \/ plain_seg s = true) L ->
  forall r z, L = r ++ [z] -> z <> [] ->
  clean_path (join_slash L) = join_slash (filter seg_ok L).
Proof.
  intros F P r z E Z. unfold clean_path.
  assert (NE : L <> []) by (subst; destruct r; discriminate).
  rewrite split_join_rooted by assumption.
  rewrite clean_stack_plain by (constructor; [left; reflexivity|exact P]).
  cbn [rev app filter seg_ok is_empty negb].
  subst L. rewrite ends_slash_join; [|exact Z|apply Forall_app in F as [_ F]; inversion F; assumption].
  cbn [andb]. rewrite filter_app. cbn [filter]. assert (seg_ok z = true) as -> by (destruct z; [congruence|reflexivity]).
  destruct (filter seg_ok r ++ [z]) eqn:E; [destruct (filter seg_ok r); discriminate|reflexivity].
Qed.

(* ------------------------------------------------------------------ unescape *)

Lemma unescape_app_n n : forall a, (length a <= n)%nat -> forall x b,
  unescape a = Some x -> unescape (a ++ b) = option_map (app x) (unescape b).
Proof.
  induction n as [|n IH]; intros a L x b H.
  - destruct a; [|cbn in L; lia]. cbn in H. inversion H; subst. cbn [app]. destruct (unescape b); reflexivity.
  - destruct a as [|c r]; [cbn in H; inversion H; subst; cbn [app]; destruct (unescape b); reflexivity|].
    cbn [length] in L. cbn [unescape app] in *. destruct (c =? pct) eqn:C.
    + destruct r as [|a1 [|b1 r']]; try discriminate.
      cbn [app]. destruct (hexval a1) as [v1|]; [|discriminate]. destruct (hexval b1) as [v2|]; [|discriminate].
      destruct (unescape r') as [t|] eqn:U; [|discriminate]. cbn [option_map] in H. inversion H; subst.
      rewrite (IH r' ltac:(cbn [length] in L; lia) t b U).
      destruct (unescape b); reflexivity.
    + destruct (unescape r) as [t|] eqn:U; [|discriminate]. cbn [option_map] in H. inversion H; subst.
      rewrite (IH r ltac:(lia) t b U). destruct (unescape b); reflexivity.
Qed.

(** [s] decodes to [s'] whatever follows it. *)
Definition dec_as (s s' : str) : Prop := forall b, unescape (s ++ b) = option_map (app s') (unescape b).

Lemma unescape_dec_as s s' : unescape s = Some s' -> dec_as s s'.
Proof. intros H b. eapply unescape_app_n; [apply le_n|exact H]. Qed.

Lemma unescape_join segs : forall segs', Forall2 dec_as segs segs' ->
  unescape (join_slash segs) = Some (join_slash segs').
Proof.
  induction segs as [|s r IH]; intros segs' F; inversion F; subst; [reflexivity|].
  cbn [join_slash unescape]. change (slash =? pct) with false. cbn iota.
  rewrite (H1 (join_slash r)). rewrite (IH _ H3). reflexivity.
Qed.

Lemma unescape_all_dec segs : forall segs', unescape_all segs = Some segs' -> Forall2 dec_as segs segs'.
Proof.
  induction segs as [|s r IH]; intros segs'; cbn [unescape_all].
  - intros H; inversion H; constructor.
  - destruct (unescape s) as [s'|] eqn:U; [|discriminate]. destruct (unescape_all r) as [r'|]; [|discriminate].
    intros H; inversion H; subst. constructor; [apply unescape_dec_as; exact U|apply IH; reflexivity].
Qed.

(** Characters that need no escaping decode to themselves. *)
Definition inert (s : str) : Prop := Forall (fun c => unreserved c = true) s.

Lemma unreserved_not_pct c : unreserved c = true -> c =? pct = false.
Proof. intros H. destruct (c =? pct) eqn:E; [|reflexivity]. apply N.eqb_eq in E. subst. discriminate. Qed.

Lemma unreserved_not_slash c : unreserved c = true -> c <> slash.
Proof. intros H ->. discriminate. Qed.

Lemma inert_dec_as s : inert s -> dec_as s s.
Proof.
  intros I b. induction I as [|c s Hc Hs IH]; cbn [app]; [destruct (unescape b); reflexivity|].
  cbn [unescape]. rewrite (unreserved_not_pct _ Hc), IH. destruct (unescape b); reflexivity.
Qed.

Lemma inert_nosl s : inert s -> nosl s.
Proof. intros I K. unfold inert in I. rewrite Forall_forall in I. apply (unreserved_not_slash _ (I _ K)). reflexivity. Qed.

(* ------------------------------------------------------------------ QueryEscape *)

Definition byte_ok (c : N) : Prop := c < 256.

Definition hex_rt_b (c : N) : bool :=
  match hexval (hexdig (c / 16)), hexval (hexdig (c mod 16)) with
  | Some x, Some y => (x =? c / 16) && (y =? c mod 16) | _, _ => false end.

Lemma hex_roundtrip c : c < 256 ->
  hexval (hexdig (c / 16)) = Some (c / 16) /\ hexval (hexdig (c mod 16)) = Some (c mod 16).
Proof.
  intros H.
  assert (K : hex_rt_b c = true) by (apply (byte_sweep hex_rt_b); [vm_compute; reflexivity|exact H]).
  unfold hex_rt_b in K. destruct (hexval (hexdig (c / 16))) as [x|]; [|discriminate].
  destruct (hexval (hexdig (c mod 16))) as [y|]; [|discriminate].
  apply andb_true_iff in K as [K1 K2]. apply N.eqb_eq in K1, K2. subst. split; reflexivity.
Qed.

Lemma pct_enc_dec c b : c < 256 -> unescape (pct_enc c ++ b) = option_map (cons c) (unescape b).
Proof.
  intros H. unfold pct_enc. cbn [app unescape]. rewrite N.eqb_refl.
  destruct (hex_roundtrip c H) as [-> ->].
  assert (c / 16 * 16 + c mod 16 = c) as -> by (pose proof (N.div_mod c 16); lia).
  reflexivity.
Qed.

Lemma qesc_b_dec c b : c < 256 -> c <> 32 -> unescape (qesc_b c ++ b) = option_map (cons c) (unescape b).
Proof.
  intros H S. unfold qesc_b. destruct (unreserved c) eqn:U.
  - cbn [app unescape]. rewrite (unreserved_not_pct _ U). reflexivity.
  - assert (c =? 32 = false) as -> by (apply N.eqb_neq; exact S). apply pct_enc_dec. exact H.
Qed.

Lemma qescape_dec_as name : Forall byte_ok name -> ~ In 32 name -> dec_as (qescape name) name.
Proof.
  intros F S b. induction F as [|c r Hc Hr IH]; cbn [qescape flat_map app].
  - destruct (unescape b); reflexivity.
  - change (flat_map qesc_b r) with (qescape r). rewrite <- app_assoc.
    rewrite qesc_b_dec; [|exact Hc|intros ->; apply S; left; reflexivity].
    rewrite IH by (intros K; apply S; right; exact K). destruct (unescape b); reflexivity.
Qed.

Lemma qesc_b_shape c :
  (qesc_b c = [c] /\ unreserved c = true) \/ qesc_b c = [43] \/ (exists h1 h2, qesc_b c = [pct; h1; h2]).
Proof.
  unfold qesc_b. destruct (unreserved c); [left; auto|]. destruct (c =? 32); [right; left; reflexivity|].
  right; right. unfold pct_enc. eauto.
Qed.

Lemma qescape_nosl name : nosl (qescape name).
Proof.
  induction name as [|c r IH]; [intros []|]. cbn [qescape flat_map]. intros K. apply in_app_or in K as [K|K]; [|exact (IH K)].
  destruct (qesc_b_shape c) as [[E U]|[E|[h1 [h2 E]]]]; rewrite E in K.
  - destruct K as [K|[]]. subst. discriminate.
  - destruct K as [K|[]]. discriminate.
  - unfold qesc_b in E. destruct (unreserved c); [discriminate|]. destruct (c =? 32); [discriminate|].
    unfold pct_enc in E. inversion E; subst.
    assert (forall n, hexdig n <> slash).
    { intros n. unfold hexdig, slash. destruct (n <? 10) eqn:L; lia. }
    destruct K as [K|[K|[K|[]]]]; [discriminate| |]; eapply H; eauto.
Qed.

Lemma qescape_nonempty name : name <> [] -> qescape name <> [].
Proof.
  destruct name as [|c r]; [congruence|]. intros _. cbn [qescape flat_map].
  destruct (qesc_b_shape c) as [[E U]|[E|[h1 [h2 E]]]]; rewrite E; discriminate.
Qed.

Lemma qescape_plain name :
  name <> [] -> name <> [dot] -> name <> [dot; dot] -> plain_seg (qescape name) = true.
Proof.
  intros N0 N1 N2. apply plain_seg_iff. split; [apply qescape_nonempty; exact N0|].
  destruct name as [|c r]; [congruence|]. cbn [qescape flat_map]. change (flat_map qesc_b r) with (qescape r).
  destruct (qesc_b_shape c) as [[E U]|[E|[h1 [h2 E]]]]; rewrite E; cbn [app];
    [|split; intros K; inversion K|split; intros K; inversion K].
  destruct r as [|d r'].
  - cbn [qescape flat_map]. split; intros K; inversion K; subst; congruence.
  - cbn [qescape flat_map]. change (flat_map qesc_b r') with (qescape r').
    destruct (qesc_b_shape d) as [[E2 U2]|[E2|[k1 [k2 E2]]]]; rewrite E2; cbn [app];
      [|split; intros K; inversion K|split; intros K; inversion K].
    split; [intros K; inversion K|]. intros K. inversion K; subst.
    destruct r' as [|e r'']; [congruence|].
    exfalso. apply (qescape_nonempty (e :: r'')); [discriminate|assumption].
Qed.

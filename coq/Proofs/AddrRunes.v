(** C04: the places where the Go code works on runes or with Unicode tables while the model
    works on bytes make no difference, for ALL byte strings. *)
From IV Require Import Base.Bytes Base.BytesFacts Base.Regex Model.Addr Model.IpLit Model.AddrU
  Proofs.AddrFacts Proofs.AddrNaming Proofs.AddrGo.
From Coq Require Import ZifyN ZifyNat ZifyBool.

Lemma decode_ascii b t : b < 128 -> decode_rune (b :: t) = Some (b, 1, t).
Proof. intros H. unfold decode_rune. destruct (b <? 128) eqn:E; [reflexivity | lia]. Qed.

(** a byte >= 128 starts a rune >= 128 (a multi-byte code point or U+FFFD) *)
Lemma decode_high b t r w rest : 128 <= b -> decode_rune (b :: t) = Some (r, w, rest) -> 128 <= r.
Proof.
  intros H D. unfold decode_rune, rune_error, is_cont in D.
  destruct (b <? 128) eqn:E; [lia|].
  destruct ((194 <=? b) && (b <=? 223)) eqn:E2.
  { destruct t as [|b1 t]; [inversion D; lia|]. destruct ((128 <=? b1) && (b1 <=? 191)) eqn:C1; inversion D; lia. }
  destruct ((224 <=? b) && (b <=? 239)) eqn:E3.
  { destruct t as [|b1 [|b2 t]]; try (inversion D; lia).
    destruct (b =? 224) eqn:B224; destruct (b =? 237) eqn:B237;
      match type of D with (if ?c then _ else _) = _ => destruct c eqn:C end; inversion D; lia. }
  destruct ((240 <=? b) && (b <=? 244)) eqn:E4.
  { destruct t as [|b1 [|b2 [|b3 t]]]; try (inversion D; lia).
    destruct (b =? 240) eqn:B240; destruct (b =? 244) eqn:B244;
      match type of D with (if ?c then _ else _) = _ => destruct c eqn:C end; inversion D; lia. }
  inversion D. lia.
Qed.

Lemma decode_some b t : exists r w rest, decode_rune (b :: t) = Some (r, w, rest).
Proof.
  unfold decode_rune. destruct (b <? 128); [eauto|].
  destruct ((194 <=? b) && (b <=? 223)). { destruct t as [|b1 t]; [eauto|]. destruct (is_cont b1); eauto. }
  destruct ((224 <=? b) && (b <=? 239)).
  { destruct t as [|b1 [|b2 t]]; eauto.
    match goal with |- context [if ?c then _ else _] => destruct c end; eauto. }
  destruct ((240 <=? b) && (b <=? 244)).
  { destruct t as [|b1 [|b2 [|b3 t]]]; eauto.
    match goal with |- context [if ?c then _ else _] => destruct c end; eauto. }
  eauto.
Qed.

Lemma labels_ok_high c t p n h : 128 <= c -> labels_ok (c :: t) p n h = false.
Proof.
  intros H. cbn [labels_ok]. unfold is_label_char, is_alpha, is_upper, is_lower, is_digit.
  destruct ((65 <=? c) && (c <=? 90) || (97 <=? c) && (c <=? 122) || (48 <=? c) && (c <=? 57) || (c =? 95)) eqn:E; [lia|].
  destruct (c =? 45) eqn:E1; [lia|]. destruct (c =? 46) eqn:E2; [lia | reflexivity].
Qed.

Lemma labels_ok_runes s : forall fuel p n h, (length s <= fuel)%nat -> labels_ok (runes fuel s) p n h = labels_ok s p n h.
Proof.
  induction s as [|b t IH]; intros fuel p n h L.
  - destruct fuel; reflexivity.
  - destruct fuel as [|f]; [simpl in L; lia|]. cbn [runes].
    destruct (b <? 128) eqn:E.
    + rewrite decode_ascii by lia. cbn [labels_ok].
      assert (L' : (length t <= f)%nat) by (simpl in L; lia).
      destruct (is_label_char b); [apply IH; exact L'|].
      destruct (b =? 45); [destruct ((p =? 46) || (p =? 45)); [reflexivity | apply IH; exact L']|].
      destruct (b =? 46); [|reflexivity].
      destruct ((p =? 46) || (p =? 45)); [reflexivity|]. destruct (max_label_len <? n); [reflexivity|].
      destruct (negb h); [reflexivity | apply IH; exact L'].
    + destruct (decode_some b t) as [r [w [rest D]]]. rewrite D.
      rewrite (labels_ok_high b t) by lia. apply labels_ok_high. eapply decode_high; [|exact D]. lia.
Qed.

(** ValidateDomainPart over runes = over bytes, for every domain string and every parse_ip *)
Theorem validate_runes_irrelevant parse_ip d : validate_domain_runes parse_ip d = validate_domain parse_ip d.
Proof.
  unfold validate_domain_runes, validate_domain. cbv zeta.
  destruct (N.of_nat (length d) =? 0); [reflexivity|]. destruct (max_domain_len <? N.of_nat (length d)); [reflexivity|].
  destruct ((min_bracket_len <=? N.of_nat (length d)) && is_bracketed d); [reflexivity|].
  apply labels_ok_runes. lia.
Qed.

(** strings.ToLower with its ASCII fast path and ANY function on the non-ASCII path: the naming
    functions never notice, in any mode, on any input *)
Lemma go_tolower_ascii umap s : is_ascii s = true -> go_tolower umap s = lower s.
Proof. intros H. unfold go_tolower. rewrite H. reflexivity. Qed.

Theorem unicode_lower_irrelevant_go umap mode a :
  extract_mailbox_u (go_tolower umap) go_parse_ip mode a = extract_mailbox go_parse_ip mode a /\
  new_recipient_u (go_tolower umap) go_parse_ip mode a = new_recipient go_parse_ip mode a.
Proof.
  split; [apply extract_mailbox_unicode_irrelevant | apply new_recipient_unicode_irrelevant]; apply go_tolower_ascii.
Qed.

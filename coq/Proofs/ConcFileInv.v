(** C09 — file store: bucket-lock discipline, deadlock freedom, and no operation fails
    (the directory an index is renamed into exists; the walk tolerates vanished directories). *)
From IV Require Import Model.Conc Model.ConcFile Proofs.ConcBase.
From Coq Require Import Lia ZifyN ZifyNat ZifyBool.

Lemma aget_adel_same {V} k (l : list (N * V)) : aget k (adel k l) = None.
Proof.
  unfold adel. induction l as [|[k' v] l IH]; cbn; [reflexivity|].
  destruct (k' =? k) eqn:E; cbn; [exact IH|]. now rewrite E.
Qed.
Lemma aget_adel_other {V} k k' (l : list (N * V)) : k' <> k -> aget k' (adel k l) = aget k' l.
Proof.
  intros H. unfold adel. induction l as [|[k2 v] l IH]; cbn; [reflexivity|].
  destruct (k2 =? k) eqn:E; cbn.
  - apply N.eqb_eq in E; subst. destruct (k =? k') eqn:E2; [apply N.eqb_eq in E2; congruence | exact IH].
  - destruct (k2 =? k'); [reflexivity | exact IH].
Qed.
Lemma memN_addN x y l : memN x (addN y l) = (memN x l || (x =? y))%bool.
Proof.
  unfold addN. destruct (memN y l) eqn:E.
  - destruct (x =? y) eqn:E2; [apply N.eqb_eq in E2; subst; now rewrite E | now rewrite orb_false_r].
  - unfold memN. rewrite existsb_app. cbn. now rewrite orb_false_r.
Qed.
Lemma memN_delN x y l : memN x (delN y l) = (memN x l && negb (x =? y))%bool.
Proof.
  unfold memN, delN. induction l as [|a l IH]; cbn; [reflexivity|].
  destruct (a =? y) eqn:E; cbn.
  - apply N.eqb_eq in E; subst. rewrite IH. destruct (x =? y) eqn:E2; cbn; [now rewrite andb_false_r | reflexivity].
  - rewrite IH. destruct (x =? a) eqn:E3; cbn; [|reflexivity].
    apply N.eqb_eq in E3; subst. rewrite E. reflexivity.
Qed.

Inductive freach (s0 : fsys) : fsys -> Prop :=
| freach_refl : freach s0 s0
| freach_step s s' t c : freach s0 s -> fstep s t c = SOk s' -> freach s0 s'.

Lemma frun_from_reach s0 : forall sched n s, freach s0 s ->
  match frun_from n s sched with FFin s' | FBlockedAt _ s' => freach s0 s' end.
Proof.
  induction sched as [|[t c] rest IH]; intros n s R; cbn [frun_from]; [exact R|].
  destruct (fstep s t c) as [s'| | |] eqn:E; try exact R.
  - apply IH. eapply freach_step; eauto.
  - apply IH; exact R.
Qed.

Definition hold_mb (p : fpc) : option mbname :=
  match p with
  | FAddMkdir mb _ _ | FAddRename mb _ _ | FSeenRename mb _ | FRemoveRename mb _
  | FIdxRemove mb _ | FRemoveAll mb | FRmdir2 mb | FRmdir1 mb => Some mb
  | _ => None
  end.
Definition needs_dir (p : fpc) : option mbname :=
  match p with FAddRename mb _ _ | FSeenRename mb _ | FRemoveRename mb _ => Some mb | _ => None end.

Record finv (s : fsys) : Prop := {
  fA : forall k t, aget k (f_locks s) = Some t ->
         exists p mb, nth_error (f_thr s) t = Some p /\ hold_mb p = Some mb /\ k1_of (f_geo s) mb = k;
  fB : forall t p mb, nth_error (f_thr s) t = Some p -> hold_mb p = Some mb ->
         aget (k1_of (f_geo s) mb) (f_locks s) = Some t;
  fC : forall t p mb, nth_error (f_thr s) t = Some p -> needs_dir p = Some mb -> has_dir mb s = true;
  fD : forall mb, aget mb (f_idx s) <> None -> has_dir mb s = true;
  fE : forall t mb, nth_error (f_thr s) t = Some (FRemoveAll mb) -> aget mb (f_idx s) = None
}.

(** Holders of a bucket lock are always able to move. *)
Lemma holder_can_move s t p mb : nth_error (f_thr s) t = Some p -> hold_mb p = Some mb ->
  exists s', fstep s t 0 = SOk s'.
Proof.
  intros Hn Hh. unfold fstep. rewrite Hn.
  destruct p; try discriminate; cbn [hold_mb] in Hh.
  all: repeat match goal with |- context [if ?b then _ else _] => destruct b end; eauto.
Qed.

(* ------------------------------------------------------------- deadlock freedom *)

Definition invFA (s : fsys) : Prop :=
  forall k t, aget k (f_locks s) = Some t ->
    exists p mb, nth_error (f_thr s) t = Some p /\ hold_mb p = Some mb /\ k1_of (f_geo s) mb = k.

Ltac fsplit H :=
  repeat match type of H with
  | context [match ?o with OAdd _ _ _ => _ | _ => _ end] => destruct o
  | context [if flocked ?mb ?ss then _ else _] => destruct (flocked mb ss) eqn:?; [discriminate|]
  | context [if ?b then _ else _] => destruct b eqn:?
  | context [match find_msg ?a ?b with _ => _ end] => destruct (find_msg a b) eqn:?
  | context [match del_msg ?a ?b with _ => _ end] => destruct (del_msg a b) eqn:?
  end; try discriminate.

Lemma geo_visit1 t c r acc s : f_geo (visit_next1 t c r acc s) = f_geo s /\ f_locks (visit_next1 t c r acc s) = f_locks s
  /\ exists p, f_thr (visit_next1 t c r acc s) = set_nth t p (f_thr s) /\ hold_mb p = None.
Proof. unfold visit_next1. destruct (pick c r) as [[? ?]|]; cbn; repeat split; eexists; split; reflexivity. Qed.
Lemma geo_visit2 t c r2 r acc s : f_geo (visit_next2 t c r2 r acc s) = f_geo s /\ f_locks (visit_next2 t c r2 r acc s) = f_locks s
  /\ exists p, f_thr (visit_next2 t c r2 r acc s) = set_nth t p (f_thr s) /\ hold_mb p = None.
Proof. unfold visit_next2. destruct (pick c r2) as [[? ?]|]; [cbn; repeat split; eexists; split; reflexivity | apply geo_visit1]. Qed.
Lemma geo_visit3 t c r3 r2 r acc s : f_geo (visit_next3 t c r3 r2 r acc s) = f_geo s /\ f_locks (visit_next3 t c r3 r2 r acc s) = f_locks s
  /\ exists p, f_thr (visit_next3 t c r3 r2 r acc s) = set_nth t p (f_thr s) /\ hold_mb p = None.
Proof. unfold visit_next3. destruct (pick c r3) as [[? ?]|]; [cbn; repeat split; eexists; split; reflexivity | apply geo_visit2]. Qed.

(** Shape of a step, as far as locks are concerned. *)
Inductive lock_effect (s : fsys) (t : tid) (p : fpc) (s' : fsys) : Prop :=
| LE_keep p' : f_locks s' = f_locks s -> f_thr s' = set_nth t p' (f_thr s) -> hold_mb p' = hold_mb p -> lock_effect s t p s'
| LE_take mb p' : hold_mb p = None -> hold_mb p' = Some mb -> aget (k1_of (f_geo s) mb) (f_locks s) = None ->
    f_locks s' = aset (k1_of (f_geo s) mb) t (f_locks s) -> f_thr s' = set_nth t p' (f_thr s) -> lock_effect s t p s'
| LE_drop mb p' : hold_mb p = Some mb -> hold_mb p' = None ->
    f_locks s' = adel (k1_of (f_geo s) mb) (f_locks s) -> f_thr s' = set_nth t p' (f_thr s) -> lock_effect s t p s'.

Lemma flocked_false mb s : flocked mb s = false -> aget (k1_of (f_geo s) mb) (f_locks s) = None.
Proof. unfold flocked. destruct (aget _ _); [discriminate | reflexivity]. Qed.

Lemma fstep_effect s t c s' p : nth_error (f_thr s) t = Some p -> fstep s t c = SOk s' ->
  f_geo s' = f_geo s /\ lock_effect s t p s'.
Proof.
  intros Hn H. unfold fstep in H. rewrite Hn in H.
  destruct p; try discriminate.
  all: fsplit H.
  all: injection H as <-.
  all: try (split; [reflexivity|]; first
     [ eapply LE_keep; [reflexivity|reflexivity|reflexivity]
     | match goal with |- lock_effect _ _ _ (fsetpc _ ?p' (flock ?mb _ _)) =>
         eapply (LE_take _ _ _ _ mb p'); [reflexivity|reflexivity|apply flocked_false; assumption|reflexivity|reflexivity] end
     | match goal with |- context [ffinish _ ?mb ?r _] =>
         eapply (LE_drop _ _ _ _ mb (FDone r)); [reflexivity|reflexivity|reflexivity|reflexivity] end ]).
  all: match goal with
       | |- context [visit_next1 ?t ?c ?r ?acc ?s0] => destruct (geo_visit1 t c r acc s0) as (Hg & Hl & p' & Ht & Hh)
       | |- context [visit_next2 ?t ?c ?r2 ?r ?acc ?s0] => destruct (geo_visit2 t c r2 r acc s0) as (Hg & Hl & p' & Ht & Hh)
       | |- context [visit_next3 ?t ?c ?r3 ?r2 ?r ?acc ?s0] => destruct (geo_visit3 t c r3 r2 r acc s0) as (Hg & Hl & p' & Ht & Hh)
       end.
  all: split; [exact Hg | eapply LE_keep with (p' := p'); [exact Hl | exact Ht | exact Hh]].
Qed.

Lemma invFA_step s t c s' : invFA s -> fstep s t c = SOk s' -> invFA s'.
Proof.
  intros HA H.
  destruct (nth_error (f_thr s) t) as [p|] eqn:Hn; [|unfold fstep in H; rewrite Hn in H; discriminate].
  pose proof (nth_error_lt _ _ _ Hn) as Hlt.
  destruct (fstep_effect _ _ _ _ _ Hn H) as [Hg Heff].
  intros k t0 Hk. rewrite Hg.
  destruct Heff as [p' Hl Ht Hh | mb p' Hp Hp' Hfree Hl Ht | mb p' Hp Hp' Hl Ht]; rewrite Ht; rewrite Hl in Hk.
  - destruct (HA _ _ Hk) as (q & mb & Hq & Hqm & Hqk).
    destruct (Nat.eq_dec t0 t) as [->|Hne].
    + rewrite Hn in Hq; inversion Hq; subst q. rewrite nth_set_same by exact Hlt.
      exists p', mb. rewrite Hh. auto.
    + rewrite nth_set_other by congruence. eauto.
  - destruct (N.eq_dec k (k1_of (f_geo s) mb)) as [->|Hk2].
    + rewrite aget_aset_same in Hk. inversion Hk; subst t0. rewrite nth_set_same by exact Hlt. eauto.
    + rewrite aget_aset_other in Hk by exact Hk2.
      destruct (HA _ _ Hk) as (q & mb0 & Hq & Hqm & Hqk).
      destruct (Nat.eq_dec t0 t) as [->|Hne]; [rewrite Hn in Hq; inversion Hq; subst q; congruence|].
      rewrite nth_set_other by congruence. eauto.
  - destruct (N.eq_dec k (k1_of (f_geo s) mb)) as [->|Hk2].
    + rewrite aget_adel_same in Hk. discriminate.
    + rewrite aget_adel_other in Hk by exact Hk2.
      destruct (HA _ _ Hk) as (q & mb0 & Hq & Hqm & Hqk).
      destruct (Nat.eq_dec t0 t) as [->|Hne]; [rewrite Hn in Hq; inversion Hq; subst q; congruence|].
      rewrite nth_set_other by congruence. eauto.
Qed.

Lemma fthr_done_all s : forallb fthr_done (f_thr s) = false ->
  exists t p, nth_error (f_thr s) t = Some p /\ fthr_done p = false.
Proof.
  induction (f_thr s) as [|p l IH]; cbn; [discriminate|].
  destruct (fthr_done p) eqn:E; cbn.
  - intros H. destruct (IH H) as (t & q & ? & ?). exists (S t), q; auto.
  - intros _. exists 0%nat, p; auto.
Qed.

Theorem file_deadlock_free_inv s : invFA s -> fall_done s = true \/ exists t, fenabled s t = true.
Proof.
  intros HA. unfold fall_done. destruct (forallb fthr_done (f_thr s)) eqn:Ed; [left; reflexivity|right].
  destruct (fthr_done_all _ Ed) as (t & p & Hn & Hp).
  assert (Hlk : forall mb, flocked mb s = true -> exists u, fenabled s u = true).
  { intros mb Hl. unfold flocked in Hl. destruct (aget _ _) as [u|] eqn:Eu; [|discriminate].
    destruct (HA _ _ Eu) as (q & mb0 & Hq & Hqm & _).
    destruct (holder_can_move _ _ _ _ Hq Hqm) as [s' Hs]. exists u. unfold fenabled. now rewrite Hs. }
  assert (Hmv : (exists s', fstep s t 0 = SOk s') -> exists u, fenabled s u = true).
  { intros [s' Hs]. exists t. unfold fenabled. now rewrite Hs. }
  destruct (hold_mb p) as [mb|] eqn:Eh; [apply Hmv; eapply holder_can_move; eauto|].
  destruct p; try discriminate.
  - destruct o; try (destruct (flocked mb s) eqn:El; [eauto|]); apply Hmv; unfold fstep; rewrite Hn; rewrite ?El.
    all: repeat match goal with |- context [if ?b then _ else _] => destruct b
                              | |- context [match find_msg ?a ?b with _ => _ end] => destruct (find_msg a b)
                              | |- context [match del_msg ?a ?b with _ => _ end] => destruct (del_msg a b) end; eauto.
  - apply Hmv; unfold fstep; rewrite Hn; eauto.
  - apply Hmv; unfold fstep; rewrite Hn. destruct (memN _ _); eauto.
  - apply Hmv; unfold fstep; rewrite Hn. destruct (memN _ _); eauto.
  - destruct (flocked mb s) eqn:El; [eauto|]. apply Hmv; unfold fstep; rewrite Hn, El. eauto.
Qed.

Lemma init_invFA g ops : invFA (finit g ops).
Proof. intros k t H. cbn in H. discriminate. Qed.

Theorem file_deadlock_free_run g ops sched :
  match frun (finit g ops) sched with
  | FFin s | FBlockedAt _ s => fall_done s = true \/ exists t, fenabled s t = true
  end.
Proof.
  pose proof (frun_from_reach (finit g ops) sched 0 _ (freach_refl _)) as H. unfold frun.
  destruct (frun_from 0 _ sched); apply file_deadlock_free_inv.
  all: induction H; [apply init_invFA | eapply invFA_step; eauto].
Qed.

Example file_blocked_state_exists :
  exists n s, frun (finit [(1, (5, 7))] [OAdd 1 1 10; OList 1]) [(0%nat, 0%nat); (1%nat, 0%nat)] = FBlockedAt n s.
Proof. eexists _, _. vm_compute. reflexivity. Qed.

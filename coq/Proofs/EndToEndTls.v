(** [delivered_bodies_are_decoded_blocks] for connections that upgrade to TLS ([run_bytes_tls]: plaintext part followed
    by what the client sent under TLS): every delivery's body is the dot-decoding of a DATA block that stands in the
    bytes the client sent - plaintext dropped at the switch delivers nothing, and nothing is delivered that was not
    sent.  With [any_sessions_to_read_interfaces]'s premise generalised accordingly the end-to-end statement covers
    STARTTLS sessions too ([tls_sessions_to_read_interfaces]). *)
From Coq Require Import List NArith ZArith Lia.
From IV Require Import Base.Bytes Base.BytesFacts Model.Policy Model.Smtp Model.Dot Model.SmtpWire Model.StoreSpec.
From IV Require Import Proofs.StoreSpecFacts Proofs.SmtpInv Proofs.SmtpThms Proofs.DotCodec Proofs.SmtpCut Proofs.SmtpCutTrace.
From IV Require Import Proofs.StoreCap Proofs.DeliverStore Proofs.DeliverStoreCap Proofs.InterfacesAgree Proofs.EndToEnd.
From IV Require Model.Rest Model.Pop3 Model.Pop3Store Model.Pop3Wire.
Import ListNotations.
Local Open Scope nat_scope.

Lemma block_in_drop_plain tl rest body : block_in (drop_plain tl rest) body -> block_in rest body.
Proof.
  unfold drop_plain. intros H. rewrite <- (firstn_skipn (length rest - tl) rest). apply block_in_suffix. exact H.
Qed.

Theorem tls_delivered_bodies_fuel : forall f c o s w tl d,
  In d (deliveries_of (snd (fst (run_stream_tls f c o s w tl)))) -> block_in w (d_body d).
Proof.
  induction f as [|f IH]; intros c o s w tl d H; [contradiction|].
  cbn [run_stream_tls] in H.
  assert (Hgen :
    In d (deliveries_of (snd (fst
      (let '(it, rest) := next_item o s w in
       match step c s it with
       | Smtp.Ok s' r dl =>
           let rest' := if accepted_starttls it r then drop_plain tl rest else rest in
           let '(its, tr, sf) := run_stream_tls f c o s' rest' tl in (it :: its, (it, r, dl) :: tr, sf)
       | _ => ([], [], s)
       end)))) -> block_in w (d_body d)).
  { clear H. pose proof (next_item_suffix o s w) as [p Hp].
    destruct (next_item o s w) as [it rest] eqn:En. cbn [snd] in Hp.
    destruct (step c s it) as [s' r dl| |] eqn:E; try contradiction.
    cbn zeta.
    destruct (run_stream_tls f c o s' (if accepted_starttls it r then drop_plain tl rest else rest) tl) as [[its tr] sf] eqn:Er.
    cbn [fst snd]. unfold deliveries_of. cbn [map concat snd]. intros Hin. apply in_app_or in Hin as [Hin|Hin].
    - destruct (step_delivers_block _ _ _ _ _ _ _ E Hin) as [Es (hdr & hook & Hit)].
      unfold next_item in En. rewrite Es in En.
      destruct (dec BeginLine w) as [[body rest0]|] eqn:D; inversion En as [[Hi Hr]]; rewrite <- Hi in Hit; [|discriminate].
      unfold block_item in Hit. inversion Hit as [Hb]. exists [], w, rest0. split; [reflexivity|]. rewrite <- Hb. exact D.
    - assert (Hrec : block_in (if accepted_starttls it r then drop_plain tl rest else rest) (d_body d)).
      { apply (IH c o s' _ tl d). rewrite Er. exact Hin. }
      rewrite Hp. apply block_in_suffix.
      destruct (accepted_starttls it r); [apply (block_in_drop_plain tl)|]; exact Hrec. }
  destruct (st s); try contradiction; apply Hgen; exact H.
Qed.

Theorem tls_delivered_bodies_are_decoded_blocks : forall c o plain secure d,
  In d (deliveries_of (snd (fst (run_bytes_tls c o plain secure)))) -> block_in (plain ++ secure) (d_body d).
Proof. intros c o plain secure d. unfold run_bytes_tls. apply tls_delivered_bodies_fuel. Qed.

(** the end-to-end statement for any number of connections, each of which may upgrade *)
Theorem tls_sessions_to_read_interfaces :
  forall (tag_of : delivery -> N) (date : Z) (cap : nat) (content : N -> str) (src : delivery -> str)
         (mfa : str -> option str) (srcok : str -> nat -> bool)
         c o (ws : list (str * str)) ds name mb i e num body,
  let st := store_of tag_of date cap ds in
  (forall d, In d ds -> exists ps, In ps ws /\ In d (deliveries_of (snd (fst (run_bytes_tls c o (fst ps) (snd ps)))))) ->
  (forall d, In d ds -> content (tag_of d) = src d) ->
  mfa name = Some mb -> nth_error (box mb (live st)) i = Some e -> srcok mb (e_k e) = true ->
  exists d ps,
    In ps ws /\ In d ds /\ d_mailbox d = mb /\ block_in (fst ps ++ snd ps) (d_body d) /\
    content (m_tag (e_msg e)) = src d /\
    Rest.run_handler mfa (cfgc cap) srcok st Rest.HSrc name (Rest.id_of_k (e_k e)) num body = (st, (Rest.S200, Rest.PSrc (e_k e, e_msg e))) /\
    nth_error (Pop3.mmsgs (Pop3.get_box (Pop3Store.abs content st) mb)) i =
      Some {| Pop3.sid := Pop3Store.id_of_k (e_k e); Pop3.ssrc := src d |}.
Proof.
  intros tag_of date cap content src mfa srcok c o ws ds name mb i e num body st Hfrom Hsrc Hn Hi Hok.
  destruct (live_entry_is_a_delivery tag_of date cap ds mb i e Hi) as (d & Hin & Hmb & Htag).
  destruct (Hfrom d Hin) as (ps & Hw & Hdw).
  exists d, ps. split; [exact Hw|]. split; [exact Hin|]. split; [exact Hmb|].
  split; [apply (tls_delivered_bodies_are_decoded_blocks c o _ _ d Hdw)|].
  assert (Hc : content (m_tag (e_msg e)) = src d) by (rewrite Htag; apply Hsrc; exact Hin).
  split; [exact Hc|].
  pose proof (store_of_inv tag_of date cap ds) as HI.
  destruct (read_interfaces_agree_on_source mfa (cfgc cap) srcok content st name mb e i num body HI Hn Hi Hok)
    as (_ & H2 & _ & H4 & _ & _).
  split; [exact H2|]. rewrite Hc in H4. exact H4.
Qed.

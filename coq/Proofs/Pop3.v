(** Proofs about the POP3 session model (Model/Pop3.v). *)
From Coq Require Import ZifyN ZifyNat ZifyBool.
From IV Require Import Base.Bytes Base.BytesFacts Model.Pop3Wire Model.Pop3.
Open Scope N_scope.

Ltac break_match :=
  match goal with
  | |- context [match ?x with _ => _ end] => destruct x eqn:?
  end.
Ltac break_match_in H :=
  match type of H with
  | context [match ?x with _ => _ end] => destruct x eqn:?
  end.

(** * Small facts *)

Lemma lenN_length {A} (l : list A) : lenN l = N.of_nat (length l).
Proof. induction l as [|x l IH]; cbn [lenN length]; [reflexivity|]. rewrite IH. lia. Qed.

Lemma set_nth_length n v : forall l, length (set_nth n v l) = length l.
Proof. induction n as [|n IH]; intros [|x l]; cbn [set_nth length]; auto. Qed.

Lemma set_nth_nth n v : forall l i,
  nth_error (set_nth n v l) i =
  if Nat.eqb i n then (match nth_error l i with Some _ => Some v | None => None end) else nth_error l i.
Proof.
  induction n as [|n IH]; intros [|x l] [|i]; cbn [set_nth nth_error Nat.eqb]; auto.
  - destruct (Nat.eqb i n); reflexivity.
Qed.

(** The invariant the Go code relies on for every [retain[i]]. *)
Definition inv (s : sess) : Prop := length (s_retain s) = length (s_msgs s).

Lemma msg_index_lt s a i : msg_index s a = Some i -> (i < length (s_msgs s))%nat.
Proof.
  unfold msg_index. destruct (parse_int32 a) as [z|]; [|discriminate].
  destruct (z <? 1)%Z eqn:E1; [discriminate|].
  rewrite lenN_length. destruct (Z.of_N (N.of_nat (length (s_msgs s))) <? z)%Z eqn:E2; [discriminate|].
  intros H. inversion H. lia.
Qed.

Lemma nth_error_some_lt {A} (l : list A) i : (i < length l)%nat -> exists x, nth_error l i = Some x.
Proof.
  intros H. destruct (nth_error l i) eqn:E; [eauto|]. apply nth_error_None in E. lia.
Qed.

Lemma stat_loop_some ms : forall rt c z, length rt = length ms -> stat_loop ms rt c z <> None.
Proof.
  induction ms as [|m ms IH]; intros [|r rt] c z H; cbn [stat_loop]; try discriminate.
  cbn [length] in H. destruct r; apply IH; lia.
Qed.

Lemma rows_loop_some {A} (f : snap -> A) ms : forall rt i, length rt = length ms -> rows_loop f i ms rt <> None.
Proof.
  induction ms as [|m ms IH]; intros [|r rt] i H; cbn [rows_loop]; try discriminate.
  cbn [length] in H. specialize (IH rt (i + 1) ltac:(lia)).
  destruct (rows_loop f (i + 1) ms rt); [discriminate|congruence].
Qed.

Lemma process_deletes_some u ms : forall rt st, length rt = length ms -> process_deletes u ms rt st <> None.
Proof.
  induction ms as [|m ms IH]; intros [|r rt] st H; cbn [process_deletes]; try discriminate.
  cbn [length] in H. apply IH. lia.
Qed.

Lemma retain_all_inv s : inv (retain_all s).
Proof. unfold inv, retain_all. cbn. apply map_length. Qed.

Lemma login_facts st s u :
  let s' := fst (login st s u) in
  inv s' /\ s_state s' = Trans /\ s_user s' = u /\ s_msgs s' = load st u /\
  s_retain s' = map (fun _ => true) (load st u) /\ is_panic (snd (login st s u)) = false.
Proof. unfold login, inv. cbn. rewrite map_length. auto 10. Qed.

(** * One command *)

Definition auth_ok (st : store) (s : sess) (res : sess * reply) : Prop :=
  (inv s -> inv (fst res)) /\ is_panic (snd res) = false /\
  (s_state s = Auth -> s_state (fst res) = Trans ->
     s_msgs (fst res) = load st (s_user (fst res)) /\
     s_retain (fst res) = map (fun _ => true) (s_msgs (fst res))).

Lemma auth_ok_login st s u : auth_ok st s (login st s u).
Proof.
  destruct (login_facts st s u) as (A & B & C & D & E & F). cbn zeta in *.
  unfold auth_ok. repeat split; auto; intros; rewrite ?C, ?D, ?E; auto.
Qed.

Lemma auth_ok_same st s r : is_panic r = false -> auth_ok st s (s, r).
Proof. unfold auth_ok. cbn. intuition congruence. Qed.

Lemma auth_ok_user st s u : auth_ok st s (set_user s u, r_plus).
Proof. unfold auth_ok, inv. cbn. intuition congruence. Qed.

Lemma auth_ok_closed st s : auth_ok st s (set_state s Closed, r_plus).
Proof. unfold auth_ok, inv. cbn. intuition congruence. Qed.

Lemma auth_handler_facts st s c args : auth_ok st s (auth_handler st s c args).
Proof.
  unfold auth_handler.
  destruct c; try (apply auth_ok_same; reflexivity); try apply auth_ok_closed.
  - destruct args; [apply auth_ok_same; reflexivity|apply auth_ok_user].
  - destruct (s_user s) eqn:E; [apply auth_ok_same; reflexivity|]. rewrite <- E. apply auth_ok_login.
  - destruct args as [|a [|b [|]]]; try (apply auth_ok_same; reflexivity). apply auth_ok_login.
Qed.

Ltac panic_contra Hinv :=
  exfalso;
  first
    [ eapply stat_loop_some; [exact Hinv|eassumption]
    | eapply rows_loop_some; [exact Hinv|eassumption]
    | eapply process_deletes_some; [exact Hinv|eassumption]
    | match goal with
      | Hi : msg_index _ _ = Some ?i, Hn : nth_error (s_retain _) ?i = None |- _ =>
          apply msg_index_lt in Hi; apply nth_error_None in Hn; unfold inv in Hinv; lia
      | Hi : msg_index _ _ = Some ?i, Hn : nth_error (s_msgs _) ?i = None |- _ =>
          apply msg_index_lt in Hi; apply nth_error_None in Hn; lia
      end ].

Lemma trans_handler_facts fl st s c args s' r st' :
  trans_handler fl st s c args = (s', r, st') ->
  s_msgs s' = s_msgs s /\ s_user s' = s_user s /\
  (s_state s' = s_state s \/ (c = QUIT /\ s_state s' = Closed)) /\
  (inv s -> inv s') /\
  (c <> QUIT -> st' = st) /\
  (inv s -> is_panic r = false).
Proof.
  unfold trans_handler, one_arg_reply. intros H.
  destruct c; repeat break_match_in H; inversion H; subst; clear H;
  (split; [reflexivity|
   split; [reflexivity|
   split; [cbn; auto|
   split; [intros Hinv; try exact Hinv; unfold inv in *; cbn; rewrite ?set_nth_length, ?map_length; congruence|
   split; [intros Hq; try reflexivity; congruence|
           intros Hinv; try reflexivity; panic_contra Hinv]]]]]).
Qed.

Lemma inv_set_state s p : inv (set_state s p) <-> inv s.
Proof. unfold inv. cbn. tauto. Qed.

Lemma step_facts fl st s c s' r st' :
  step fl st s c = (s', r, st') ->
  (inv s -> inv s') /\
  (inv s -> is_panic r = false) /\
  (s_state s = Trans ->
     s_msgs s' = s_msgs s /\ s_user s' = s_user s /\ (s_state s' = Trans \/ s_state s' = Closed)) /\
  (s_state s = Auth -> s_state s' = Trans ->
     s_msgs s' = load st (s_user s') /\ s_retain s' = map (fun _ => true) (s_msgs s')) /\
  (~ (s_state s = Trans /\ is_quit c = true) -> st' = st) /\
  (s_state s = Closed -> s_state s' = Closed).
Proof.
  unfold step. intros H. destruct c as [| | |n args].
  1-3: inversion H; subst; cbn; repeat split; auto; try tauto; try congruence.
  destruct (s_state s) eqn:Es.
  - pose proof (auth_handler_facts st s n args) as F.
    destruct (auth_handler st s n args) as [s1 r1] eqn:Ea. inversion H; subst; clear H.
    destruct F as (F1 & F2 & F3). cbn [fst snd] in *.
    repeat split; auto; try congruence.
    + apply F3; assumption.
    + apply F3; assumption.
  - destruct (trans_handler fl st s n args) as [[s1 r1] st1] eqn:Et.
    pose proof (trans_handler_facts _ _ _ _ _ _ _ _ Et) as (F1 & F2 & F3 & F4 & F5 & F6).
    assert (Hq : ~ (Trans = Trans /\ is_quit (CCmd n args) = true) -> st1 = st).
    { intros Hn. apply F5. intros ->. apply Hn. split; reflexivity. }
    destruct (is_panic r1) eqn:Ep; inversion H; subst; clear H.
    + repeat split; auto; try congruence; intros.
      all: try (apply inv_set_state; auto; fail).
      all: try (exfalso; specialize (F6 ltac:(assumption)); discriminate).
    + repeat split; auto; try congruence; intros.
      destruct F3 as [F3|[_ F3]]; [left; congruence|right; exact F3].
  - inversion H; subst. repeat split; auto; try congruence.
Qed.

(** * The world *)

Definition winv (w : world) : Prop := inv (w_sess w).

Lemma closed_not_open w : s_state (w_sess w) = Closed -> is_open w = false.
Proof. unfold is_open. intros ->. reflexivity. Qed.

Lemma open_iff w : is_open w = true <-> s_state (w_sess w) <> Closed.
Proof. unfold is_open. destruct (s_state (w_sess w)); split; congruence. Qed.

Lemma do_cmd_facts fl w c :
  let w' := do_cmd fl w c in
  (winv w -> winv w') /\
  (s_state (w_sess w) = Trans ->
     s_msgs (w_sess w') = s_msgs (w_sess w) /\ s_user (w_sess w') = s_user (w_sess w) /\
     (s_state (w_sess w') = Trans \/ s_state (w_sess w') = Closed)) /\
  (s_state (w_sess w) = Auth -> s_state (w_sess w') = Trans ->
     s_msgs (w_sess w') = load (w_store w) (s_user (w_sess w')) /\
     s_retain (w_sess w') = map (fun _ => true) (s_msgs (w_sess w'))) /\
  (~ (s_state (w_sess w) = Trans /\ is_quit c = true) -> w_store w' = w_store w) /\
  (s_state (w_sess w) = Closed -> w' = w) /\
  (winv w -> forall r, In r (w_out w') -> In r (w_out w) \/ is_panic r = false).
Proof.
  unfold do_cmd. destruct (is_open w) eqn:Eo.
  - destruct (step fl (w_store w) (w_sess w) c) as [[s' r] st'] eqn:Es.
    pose proof (step_facts _ _ _ _ _ _ _ Es) as (F1 & F2 & F3 & F4 & F5 & F6).
    apply open_iff in Eo.
    destruct (w_wfail w); cbn [w_sess w_store w_out]; unfold winv; cbn [w_sess].
    + split; [|split; [|split; [|split; [|split]]]].
      * intros Hi. apply inv_set_state. auto.
      * intros Ht. destruct (F3 Ht) as (A & B & C). cbn. auto.
      * cbn. congruence.
      * exact F5.
      * congruence.
      * auto.
    + split; [|split; [|split; [|split; [|split]]]].
      * exact F1.
      * exact F3.
      * exact F4.
      * exact F5.
      * congruence.
      * intros Hi r0 Hin. apply in_app_or in Hin. destruct Hin as [Hin|[<-|[]]]; auto.
  - cbn zeta. unfold is_open in Eo.
    split; [|split; [|split; [|split; [|split]]]]; auto;
      intros Ht; rewrite Ht in Eo; discriminate.
Qed.

Definition ev_cmd (e : event) : option cmd :=
  match e with
  | ECmd c => Some c
  | ELine l => Some (parse_line l)
  | _ => None
  end.

(** The event is a QUIT line processed in TRANSACTION state: the only commit point. *)
Definition commits (w : world) (e : event) : bool :=
  match s_state (w_sess w), ev_cmd e with
  | Trans, Some c => is_quit c
  | _, _ => false
  end.

Lemma wstep_facts fl w e :
  let w' := wstep fl w e in
  (winv w -> winv w') /\
  (s_state (w_sess w) = Trans ->
     s_msgs (w_sess w') = s_msgs (w_sess w) /\ s_user (w_sess w') = s_user (w_sess w) /\
     (s_state (w_sess w') = Trans \/ s_state (w_sess w') = Closed)) /\
  (s_state (w_sess w) = Auth -> s_state (w_sess w') = Trans ->
     s_msgs (w_sess w') = load (w_store w) (s_user (w_sess w')) /\
     s_retain (w_sess w') = map (fun _ => true) (s_msgs (w_sess w'))) /\
  (commits w e = false -> w_store w' = ext_step (w_store w) e) /\
  (s_state (w_sess w) = Closed -> s_state (w_sess w') = Closed) /\
  (winv w -> forall r, In r (w_out w') -> In r (w_out w) \/ is_panic r = false).
Proof.
  destruct e; cbn [wstep].
  1-2: match goal with |- context [do_cmd fl w ?c] =>
         pose proof (do_cmd_facts fl w c) as (F1 & F2 & F3 & F4 & F5 & F6) end;
       cbn zeta; repeat split; auto; try (apply F2; assumption); try (apply F3; assumption);
       [ intros Hc; cbn [ext_step]; apply F4; intros [Ht Hq]; unfold commits in Hc; cbn [ev_cmd] in Hc;
         rewrite Ht, Hq in Hc; discriminate
       | intros Hcl; rewrite F5 by exact Hcl; exact Hcl ].
  all: cbn zeta; unfold winv; cbn [w_sess w_store w_out with_store ext_step set_state s_state s_msgs s_user];
       repeat split; auto; try congruence; try (intros; apply inv_set_state; assumption).
Qed.

Lemma run_cons fl w e evs : run fl w (e :: evs) = run fl (wstep fl w e) evs.
Proof. reflexivity. Qed.

Lemma run_app fl w a b : run fl w (a ++ b) = run fl (run fl w a) b.
Proof. unfold run. apply fold_left_app. Qed.

Lemma run_inv fl evs : forall w, winv w -> winv (run fl w evs).
Proof.
  induction evs as [|e evs IH]; intros w H; [exact H|].
  rewrite run_cons. apply IH. apply wstep_facts. exact H.
Qed.

Lemma init_inv st : winv (init_world st).
Proof. reflexivity. Qed.

Lemma closed_stays fl evs : forall w,
  s_state (w_sess w) = Closed -> s_state (w_sess (run fl w evs)) = Closed.
Proof.
  induction evs as [|e evs IH]; intros w H; [exact H|].
  rewrite run_cons. apply IH. apply wstep_facts. exact H.
Qed.

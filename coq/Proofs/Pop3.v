(** Proofs about the POP3 session model (Model/Pop3.v). *)
From Coq Require Import ZifyN ZifyNat ZifyBool.
From IV Require Import Base.Bytes Base.BytesFacts Model.Pop3Wire Model.Pop3.
Open Scope N_scope.

Ltac break_match :=
  match goal with
  | |- context [match ?x with _ => _ end] => destruct x eqn:?
  end.
Ltac break_match_in H :=
  match type of H with
  | context [match ?x with _ => _ end] => destruct x eqn:?
  end.

(** * Small facts *)

Lemma lenN_length {A} (l : list A) : lenN l = N.of_nat (length l).
Proof. induction l as [|x l IH]; cbn [lenN length]; [reflexivity|]. rewrite IH. lia. Qed.

Lemma set_nth_length n v : forall l, length (set_nth n v l) = length l.
Proof. induction n as [|n IH]; intros [|x l]; cbn [set_nth length]; auto. Qed.

Lemma set_nth_nth n v : forall l i,
  nth_error (set_nth n v l) i =
  if Nat.eqb i n then (match nth_error l i with Some _ => Some v | None => None end) else nth_error l i.
Proof.
  induction n as [|n IH]; intros [|x l] [|i]; cbn [set_nth nth_error Nat.eqb]; auto.
  - destruct (Nat.eqb i n); reflexivity.
Qed.

(** The invariant the Go code relies on for every [retain[i]]. *)
Definition inv (s : sess) : Prop := length (s_retain s) = length (s_msgs s).

Lemma msg_index_lt s a i : msg_index s a = Some i -> (i < length (s_msgs s))%nat.
Proof.
  unfold msg_index. destruct (parse_int32 a) as [z|]; [|discriminate].
  destruct (z <? 1)%Z eqn:E1; [discriminate|].
  rewrite lenN_length. destruct (Z.of_N (N.of_nat (length (s_msgs s))) <? z)%Z eqn:E2; [discriminate|].
  intros H. inversion H. lia.
Qed.

Lemma nth_error_some_lt {A} (l : list A) i : (i < length l)%nat -> exists x, nth_error l i = Some x.
Proof.
  intros H. destruct (nth_error l i) eqn:E; [eauto|]. apply nth_error_None in E. lia.
Qed.

Lemma stat_loop_some ms : forall rt c z, length rt = length ms -> stat_loop ms rt c z <> None.
Proof.
  induction ms as [|m ms IH]; intros [|r rt] c z H; cbn [stat_loop]; try discriminate.
  cbn [length] in H. destruct r; apply IH; lia.
Qed.

Lemma rows_loop_some {A} (f : snap -> A) ms : forall rt i, length rt = length ms -> rows_loop f i ms rt <> None.
Proof.
  induction ms as [|m ms IH]; intros [|r rt] i H; cbn [rows_loop]; try discriminate.
  cbn [length] in H. specialize (IH rt (i + 1) ltac:(lia)).
  destruct (rows_loop f (i + 1) ms rt); [discriminate|congruence].
Qed.

Lemma process_deletes_some u ms : forall rt st, length rt = length ms -> process_deletes u ms rt st <> None.
Proof.
  induction ms as [|m ms IH]; intros [|r rt] st H; cbn [process_deletes]; try discriminate.
  cbn [length] in H. apply IH. lia.
Qed.

Lemma retain_all_inv s : inv (retain_all s).
Proof. unfold inv, retain_all. cbn. apply map_length. Qed.

Lemma login_facts st s u :
  let s' := fst (login st s u) in
  inv s' /\ s_state s' = Trans /\ s_user s' = u /\ s_msgs s' = load st u /\
  s_retain s' = map (fun _ => true) (load st u) /\ is_panic (snd (login st s u)) = false.
Proof. unfold login, inv. cbn. rewrite map_length. auto 10. Qed.

(** * One command *)

Definition auth_ok (st : store) (s : sess) (res : sess * reply) : Prop :=
  (inv s -> inv (fst res)) /\ is_panic (snd res) = false /\
  (s_state s = Auth -> s_state (fst res) = Trans ->
     s_msgs (fst res) = load st (s_user (fst res)) /\
     s_retain (fst res) = map (fun _ => true) (s_msgs (fst res))).

Lemma auth_ok_login st s u : auth_ok st s (login st s u).
Proof.
  destruct (login_facts st s u) as (A & B & C & D & E & F). cbn zeta in *.
  unfold auth_ok. repeat split; auto; intros; rewrite ?C, ?D, ?E; auto.
Qed.

Lemma auth_ok_same st s r : is_panic r = false -> auth_ok st s (s, r).
Proof. unfold auth_ok. cbn. intuition congruence. Qed.

Lemma auth_ok_user st s u : auth_ok st s (set_user s u, r_plus).
Proof. unfold auth_ok, inv. cbn. intuition congruence. Qed.

Lemma auth_ok_closed st s : auth_ok st s (set_state s Closed, r_plus).
Proof. unfold auth_ok, inv. cbn. intuition congruence. Qed.

Lemma auth_handler_facts st s c args : auth_ok st s (auth_handler st s c args).
Proof.
  unfold auth_handler.
  destruct c; try (apply auth_ok_same; reflexivity); try apply auth_ok_closed.
  - destruct args; [apply auth_ok_same; reflexivity|apply auth_ok_user].
  - destruct (s_user s) eqn:E; [apply auth_ok_same; reflexivity|]. rewrite <- E. apply auth_ok_login.
  - destruct args as [|a [|b [|]]]; try (apply auth_ok_same; reflexivity). apply auth_ok_login.
Qed.

Ltac panic_contra Hinv :=
  exfalso;
  first
    [ eapply stat_loop_some; [exact Hinv|eassumption]
    | eapply rows_loop_some; [exact Hinv|eassumption]
    | eapply process_deletes_some; [exact Hinv|eassumption]
    | match goal with
      | Hi : msg_index _ _ = Some ?i, Hn : nth_error (s_retain _) ?i = None |- _ =>
          apply msg_index_lt in Hi; apply nth_error_None in Hn; unfold inv in Hinv; lia
      | Hi : msg_index _ _ = Some ?i, Hn : nth_error (s_msgs _) ?i = None |- _ =>
          apply msg_index_lt in Hi; apply nth_error_None in Hn; lia
      end ].

Lemma trans_handler_facts fl st s c args s' r st' :
  trans_handler fl st s c args = (s', r, st') ->
  s_msgs s' = s_msgs s /\ s_user s' = s_user s /\
  (s_state s' = s_state s \/ (c = QUIT /\ s_state s' = Closed)) /\
  (inv s -> inv s') /\
  (c <> QUIT -> st' = st) /\
  (inv s -> is_panic r = false).
Proof.
  unfold trans_handler, one_arg_reply. intros H.
  destruct c; repeat break_match_in H; inversion H; subst; clear H;
  (split; [reflexivity|
   split; [reflexivity|
   split; [cbn; auto|
   split; [intros Hinv; try exact Hinv; unfold inv in *; cbn; rewrite ?set_nth_length, ?map_length; congruence|
   split; [intros Hq; try reflexivity; congruence|
           intros Hinv; try reflexivity; panic_contra Hinv]]]]]).
Qed.

Lemma inv_set_state s p : inv (set_state s p) <-> inv s.
Proof. unfold inv. cbn. tauto. Qed.

Lemma step_facts fl st s c s' r st' :
  step fl st s c = (s', r, st') ->
  (inv s -> inv s') /\
  (inv s -> is_panic r = false) /\
  (s_state s = Trans ->
     s_msgs s' = s_msgs s /\ s_user s' = s_user s /\ (s_state s' = Trans \/ s_state s' = Closed)) /\
  (s_state s = Auth -> s_state s' = Trans ->
     s_msgs s' = load st (s_user s') /\ s_retain s' = map (fun _ => true) (s_msgs s')) /\
  (~ (s_state s = Trans /\ is_quit c = true) -> st' = st) /\
  (s_state s = Closed -> s_state s' = Closed).
Proof.
  unfold step. intros H. destruct c as [| | |n args].
  1-3: inversion H; subst; cbn; repeat split; auto; try tauto; try congruence.
  destruct (s_state s) eqn:Es.
  - pose proof (auth_handler_facts st s n args) as F.
    destruct (auth_handler st s n args) as [s1 r1] eqn:Ea. inversion H; subst; clear H.
    destruct F as (F1 & F2 & F3). cbn [fst snd] in *.
    repeat split; auto; try congruence.
    + apply F3; assumption.
    + apply F3; assumption.
  - destruct (trans_handler fl st s n args) as [[s1 r1] st1] eqn:Et.
    pose proof (trans_handler_facts _ _ _ _ _ _ _ _ Et) as (F1 & F2 & F3 & F4 & F5 & F6).
    assert (Hq : ~ (Trans = Trans /\ is_quit (CCmd n args) = true) -> st1 = st).
    { intros Hn. apply F5. intros ->. apply Hn. split; reflexivity. }
    destruct (is_panic r1) eqn:Ep; inversion H; subst; clear H.
    + repeat split; auto; try congruence; intros.
      all: try (apply inv_set_state; auto; fail).
      all: try (exfalso; specialize (F6 ltac:(assumption)); discriminate).
    + repeat split; auto; try congruence; intros.
      destruct F3 as [F3|[_ F3]]; [left; congruence|right; exact F3].
  - inversion H; subst. repeat split; auto; try congruence.
Qed.

(** * The world *)

Definition winv (w : world) : Prop := inv (w_sess w).

Lemma closed_not_open w : s_state (w_sess w) = Closed -> is_open w = false.
Proof. unfold is_open. intros ->. reflexivity. Qed.

Lemma open_iff w : is_open w = true <-> s_state (w_sess w) <> Closed.
Proof. unfold is_open. destruct (s_state (w_sess w)); split; congruence. Qed.

Lemma do_cmd_facts fl w c :
  let w' := do_cmd fl w c in
  (winv w -> winv w') /\
  (s_state (w_sess w) = Trans ->
     s_msgs (w_sess w') = s_msgs (w_sess w) /\ s_user (w_sess w') = s_user (w_sess w) /\
     (s_state (w_sess w') = Trans \/ s_state (w_sess w') = Closed)) /\
  (s_state (w_sess w) = Auth -> s_state (w_sess w') = Trans ->
     s_msgs (w_sess w') = load (w_store w) (s_user (w_sess w')) /\
     s_retain (w_sess w') = map (fun _ => true) (s_msgs (w_sess w'))) /\
  (~ (s_state (w_sess w) = Trans /\ is_quit c = true) -> w_store w' = w_store w) /\
  (s_state (w_sess w) = Closed -> w' = w) /\
  (winv w -> forall r, In r (w_out w') -> In r (w_out w) \/ is_panic r = false).
Proof.
  unfold do_cmd. destruct (is_open w) eqn:Eo.
  - destruct (step fl (w_store w) (w_sess w) c) as [[s' r] st'] eqn:Es.
    pose proof (step_facts _ _ _ _ _ _ _ Es) as (F1 & F2 & F3 & F4 & F5 & F6).
    apply open_iff in Eo.
    destruct (w_wfail w); cbn [w_sess w_store w_out]; unfold winv; cbn [w_sess].
    + split; [|split; [|split; [|split; [|split]]]].
      * intros Hi. apply inv_set_state. auto.
      * intros Ht. destruct (F3 Ht) as (A & B & C). cbn. auto.
      * cbn. congruence.
      * exact F5.
      * congruence.
      * auto.
    + split; [|split; [|split; [|split; [|split]]]].
      * exact F1.
      * exact F3.
      * exact F4.
      * exact F5.
      * congruence.
      * intros Hi r0 Hin. apply in_app_or in Hin. destruct Hin as [Hin|[<-|[]]]; auto.
  - cbn zeta. unfold is_open in Eo.
    split; [|split; [|split; [|split; [|split]]]]; auto;
      intros Ht; rewrite Ht in Eo; discriminate.
Qed.

Definition ev_cmd (e : event) : option cmd :=
  match e with
  | ECmd c => Some c
  | ELine l => Some (parse_line l)
  | _ => None
  end.

(** The event is a QUIT line processed in TRANSACTION state: the only commit point. *)
Definition commits (w : world) (e : event) : bool :=
  match s_state (w_sess w), ev_cmd e with
  | Trans, Some c => is_quit c
  | _, _ => false
  end.

Lemma wstep_facts fl w e :
  let w' := wstep fl w e in
  (winv w -> winv w') /\
  (s_state (w_sess w) = Trans ->
     s_msgs (w_sess w') = s_msgs (w_sess w) /\ s_user (w_sess w') = s_user (w_sess w) /\
     (s_state (w_sess w') = Trans \/ s_state (w_sess w') = Closed)) /\
  (s_state (w_sess w) = Auth -> s_state (w_sess w') = Trans ->
     s_msgs (w_sess w') = load (w_store w) (s_user (w_sess w')) /\
     s_retain (w_sess w') = map (fun _ => true) (s_msgs (w_sess w'))) /\
  (commits w e = false -> w_store w' = ext_step (w_store w) e) /\
  (s_state (w_sess w) = Closed -> s_state (w_sess w') = Closed) /\
  (winv w -> forall r, In r (w_out w') -> In r (w_out w) \/ is_panic r = false).
Proof.
  destruct e; cbn [wstep].
  1-2: match goal with |- context [do_cmd ?a ?b ?c] =>
         pose proof (do_cmd_facts a b c) as (F1 & F2 & F3 & F4 & F5 & F6) end;
       cbn zeta; repeat split; auto; try (apply F2; assumption); try (apply F3; assumption);
       [ intros Hc; cbn [ext_step]; apply F4; intros [Ht Hq]; unfold commits in Hc; cbn [ev_cmd] in Hc;
         rewrite Ht, Hq in Hc; discriminate
       | intros Hcl; rewrite F5 by exact Hcl; exact Hcl ].
  all: try (cbn zeta; unfold winv; cbn [w_sess w_store w_out with_store ext_step set_state s_state s_msgs s_user];
       repeat split; auto; try congruence; try (intros; apply inv_set_state; assumption); fail).
  (* EReadErr *)
  cbn zeta. destruct (is_open w) eqn:Eo.
  - unfold winv; cbn [w_sess w_store w_out ext_step set_state s_state s_msgs s_user].
    repeat split; auto; try congruence; try (intros; apply inv_set_state; assumption).
    intros Hi r Hin. destruct (w_wfail w); [auto|].
    apply in_app_or in Hin. destruct Hin as [Hin|[<-|[]]]; auto.
  - unfold is_open in Eo.
    repeat split; auto; try congruence; intros Hx; rewrite Hx in Eo; discriminate.
Qed.

Lemma run_cons fl w e evs : run fl w (e :: evs) = run fl (wstep fl w e) evs.
Proof. reflexivity. Qed.

Lemma run_app fl w a b : run fl w (a ++ b) = run fl (run fl w a) b.
Proof. unfold run. apply fold_left_app. Qed.

Lemma run_inv fl evs : forall w, winv w -> winv (run fl w evs).
Proof.
  induction evs as [|e evs IH]; intros w H; [exact H|].
  rewrite run_cons. apply IH. apply wstep_facts. exact H.
Qed.

Lemma init_inv st : winv (init_world st).
Proof. reflexivity. Qed.

Lemma closed_stays fl evs : forall w,
  s_state (w_sess w) = Closed -> s_state (w_sess (run fl w evs)) = Closed.
Proof.
  induction evs as [|e evs IH]; intros w H; [exact H|].
  rewrite run_cons. apply IH. apply wstep_facts. exact H.
Qed.

(** * snapshot_stable *)

Theorem snapshot_stable fl evs : forall w,
  s_state (w_sess w) = Trans ->
  s_state (w_sess (run fl w evs)) = Trans ->
  s_msgs (w_sess (run fl w evs)) = s_msgs (w_sess w) /\
  s_user (w_sess (run fl w evs)) = s_user (w_sess w).
Proof.
  induction evs as [|e evs IH]; intros w Ht Hf; [split; reflexivity|].
  rewrite run_cons in *.
  destruct (wstep_facts fl w e) as (_ & F2 & _ & _ & _ & _).
  destruct (F2 Ht) as (A & B & [C|C]).
  - destruct (IH _ C Hf). split; congruence.
  - rewrite (closed_stays fl evs _ C) in Hf. discriminate.
Qed.

(** The snapshot is the mailbox as the store had it when the login command was processed,
    whatever happens to the store and whatever is sent afterwards. *)
Theorem snapshot_is_login_store fl w e evs :
  s_state (w_sess w) = Auth ->
  s_state (w_sess (wstep fl w e)) = Trans ->
  s_state (w_sess (run fl (wstep fl w e) evs)) = Trans ->
  s_msgs (w_sess (run fl (wstep fl w e) evs)) =
  load (w_store w) (s_user (w_sess (run fl (wstep fl w e) evs))).
Proof.
  intros Ha Ht Hf.
  destruct (wstep_facts fl w e) as (_ & _ & F3 & _).
  destruct (F3 Ha Ht) as (A & _).
  destruct (snapshot_stable fl evs _ Ht Hf) as (B & C).
  rewrite B, C. exact A.
Qed.

(** * Listings *)

Fixpoint rows_of {A : Type} (f : snap -> A) (i : N) (ms : list snap) (rt : list bool) : list (N * A) :=
  match ms, rt with
  | m :: ms', r :: rt' => if r then (i, f m) :: rows_of f (i + 1) ms' rt' else rows_of f (i + 1) ms' rt'
  | _, _ => []
  end.

Lemma rows_loop_eq {A} (f : snap -> A) ms : forall rt i,
  length rt = length ms -> rows_loop f i ms rt = Some (rows_of f i ms rt).
Proof.
  induction ms as [|m ms IH]; intros [|r rt] i H; cbn [rows_loop rows_of]; try discriminate; [reflexivity|].
  cbn [length] in H. rewrite IH by lia. reflexivity.
Qed.

Lemma rows_of_fst {A B} (f : snap -> A) (g : snap -> B) ms : forall rt i,
  map fst (rows_of f i ms rt) = map fst (rows_of g i ms rt).
Proof.
  induction ms as [|m ms IH]; intros [|r rt] i; cbn [rows_of]; try reflexivity.
  destruct r; cbn [map fst]; rewrite IH; reflexivity.
Qed.

Fixpoint count_true (l : list bool) : nat :=
  match l with [] => O | b :: l' => if b then S (count_true l') else count_true l' end.

Lemma rows_of_length {A} (f : snap -> A) ms : forall rt i,
  length rt = length ms -> length (rows_of f i ms rt) = count_true rt.
Proof.
  induction ms as [|m ms IH]; intros [|r rt] i H; cbn [rows_of count_true]; try discriminate; [reflexivity|].
  cbn [length] in H. destruct r; cbn [length]; rewrite IH by lia; reflexivity.
Qed.

Lemma stat_loop_eq ms : forall rt i c z,
  length rt = length ms ->
  stat_loop ms rt c z =
  Some (c + N.of_nat (length (rows_of p_size i ms rt)), z + sum_sizes (rows_of p_size i ms rt)).
Proof.
  induction ms as [|m ms IH]; intros [|r rt] i c z H; cbn [stat_loop rows_of]; try discriminate.
  - cbn. f_equal. f_equal; lia.
  - cbn [length] in H. destruct r; rewrite (IH rt (i + 1)) by lia; cbn [length sum_sizes fold_right snd];
      f_equal; f_equal; unfold sum_sizes; lia.
Qed.

(** Row (n, v) is listed iff message n is in the snapshot, not marked, and v is its value. *)
Lemma rows_of_in {A} (f : snap -> A) ms : forall rt i n v,
  In (n, v) (rows_of f i ms rt) <->
  exists k m, n = i + N.of_nat k /\ nth_error rt k = Some true /\ nth_error ms k = Some m /\ v = f m.
Proof.
  induction ms as [|m ms IH]; intros rt i n v.
  - cbn [rows_of]. split; [intros []|]. intros (k & m & _ & _ & H & _). destruct k; discriminate.
  - destruct rt as [|r rt].
    + cbn [rows_of]. split; [intros []|]. intros (k & m' & _ & H & _). destruct k; discriminate.
    + cbn [rows_of].
      assert (Hrec : In (n, v) (rows_of f (i + 1) ms rt) <->
                     exists k m', n = i + N.of_nat (S k) /\ nth_error rt k = Some true /\
                                  nth_error ms k = Some m' /\ v = f m').
      { rewrite IH. split; intros (k & m' & E & R); exists k, m'; split; try exact R; lia. }
      destruct r.
      * cbn [In]. rewrite Hrec. split.
        -- intros [E|(k & m' & E & R)].
           ++ inversion E; subst. exists O, m. cbn. repeat split; auto. lia.
           ++ exists (S k), m'. cbn [nth_error]. split; [exact E|exact R].
        -- intros (k & m' & E & R1 & R2 & R3). destruct k as [|k].
           ++ left. cbn in R2. inversion R2; subst. f_equal. lia.
           ++ right. exists k, m'. cbn [nth_error] in R1, R2. auto.
      * rewrite Hrec. split.
        -- intros (k & m' & E & R). exists (S k), m'. cbn [nth_error]. split; [exact E|exact R].
        -- intros (k & m' & E & R1 & R2 & R3). destruct k as [|k]; [discriminate R1|].
           exists k, m'. cbn [nth_error] in R1, R2. auto.
Qed.

(** msgCount is the number of unmarked messages. *)
Definition cinv (s : sess) : Prop := s_count s = Z.of_nat (count_true (s_retain s)).

Lemma count_true_all {A} (l : list A) : count_true (map (fun _ => true) l) = length l.
Proof. induction l; cbn; auto. Qed.

Lemma count_true_set_false i : forall l,
  nth_error l i = Some true -> S (count_true (set_nth i false l)) = count_true l.
Proof.
  induction i as [|i IH]; intros [|b l] H; cbn in H; try discriminate.
  - inversion H; subst. reflexivity.
  - cbn [set_nth count_true]. destruct b; rewrite <- (IH l H); reflexivity.
Qed.

Lemma retain_all_cinv s : cinv (retain_all s).
Proof. unfold cinv, retain_all. cbn. rewrite count_true_all, lenN_length. lia. Qed.

Lemma trans_handler_cinv fl st s c args s' r st' :
  trans_handler fl st s c args = (s', r, st') -> cinv s -> cinv s'.
Proof.
  unfold trans_handler, one_arg_reply. intros H Hc.
  destruct c; repeat break_match_in H; inversion H; subst; clear H;
    try exact Hc; try apply retain_all_cinv.
  unfold cinv in *. cbn.
  match goal with Hn : nth_error _ _ = Some true |- _ => apply count_true_set_false in Hn end. lia.
Qed.

Lemma auth_handler_cinv st s c args : cinv s -> cinv (fst (auth_handler st s c args)).
Proof.
  unfold auth_handler, login. intros Hc.
  destruct c; repeat break_match; cbn [fst]; try exact Hc;
    unfold cinv; cbn; rewrite ?count_true_all, ?map_length, ?lenN_length, ?map_length; try lia; exact Hc.
Qed.

Lemma step_cinv fl st s c : cinv s -> cinv (fst (fst (step fl st s c))).
Proof.
  unfold step. intros Hc. destruct c as [| | |n args]; try exact Hc.
  destruct (s_state s).
  - pose proof (auth_handler_cinv st s n args Hc). destruct (auth_handler st s n args). exact H.
  - destruct (trans_handler fl st s n args) as [[s1 r1] st1] eqn:Et.
    pose proof (trans_handler_cinv _ _ _ _ _ _ _ _ Et Hc).
    destruct (is_panic r1); exact H.
  - exact Hc.
Qed.

Lemma wstep_cinv fl w e : cinv (w_sess w) -> cinv (w_sess (wstep fl w e)).
Proof.
  intros Hc. destruct e; cbn [wstep w_sess with_store]; try exact Hc.
  1-2: unfold do_cmd; destruct (is_open w); [|exact Hc];
       match goal with |- context [step ?a ?b ?c ?d] =>
         pose proof (step_cinv a b c d Hc); destruct (step a b c d) as [[s1 r1] st1] end;
       destruct (w_wfail w); exact H.
  destruct (is_open w); exact Hc.
Qed.

Lemma run_cinv fl evs : forall w, cinv (w_sess w) -> cinv (w_sess (run fl w evs)).
Proof.
  induction evs as [|e evs IH]; intros w H; [exact H|].
  rewrite run_cons. apply IH. apply wstep_cinv. exact H.
Qed.

(** * stat_list_uidl_agree *)

Definition listing (s : sess) : list (N * N) := rows_of p_size 1 (s_msgs s) (s_retain s).
Definition uid_listing (s : sess) : list (N * str) := rows_of p_id 1 (s_msgs s) (s_retain s).

Theorem stat_list_uidl_agree fl st0 evs :
  let w := run fl (init_world st0) evs in
  let s := w_sess w in
  s_state s = Trans ->
  step fl (w_store w) s (CCmd LIST []) =
    (s, with_body (mk true [Z.of_nat (length (listing s))]) (BList (listing s)), w_store w) /\
  step fl (w_store w) s (CCmd UIDL []) =
    (s, with_body (mk true [Z.of_nat (length (listing s))]) (BUidl (uid_listing s)), w_store w) /\
  step fl (w_store w) s (CCmd STAT []) =
    (s, mk true [Z.of_nat (length (listing s)); Z.of_N (sum_sizes (listing s))], w_store w) /\
  map fst (listing s) = map fst (uid_listing s) /\
  (forall n v, In (n, v) (listing s) <->
     exists k m, n = 1 + N.of_nat k /\ nth_error (s_retain s) k = Some true /\
                 nth_error (s_msgs s) k = Some m /\ v = p_size m) /\
  (forall n id, In (n, id) (uid_listing s) <->
     exists k m, n = 1 + N.of_nat k /\ nth_error (s_retain s) k = Some true /\
                 nth_error (s_msgs s) k = Some m /\ id = p_id m).
Proof.
  cbn zeta. set (w := run fl (init_world st0) evs). intros Ht.
  assert (Hi : inv (w_sess w)) by (apply run_inv, init_inv).
  assert (Hc : cinv (w_sess w)) by (apply run_cinv; reflexivity).
  unfold listing, uid_listing, step. rewrite Ht. cbn [trans_handler].
  rewrite !rows_loop_eq by exact Hi.
  rewrite (stat_loop_eq _ _ 1) by exact Hi.
  unfold cinv in Hc. rewrite Hc.
  rewrite !rows_of_length by exact Hi.
  cbn [is_panic with_body r_body mk].
  repeat split.
  - f_equal. f_equal. f_equal; f_equal; lia.
  - apply rows_of_fst.
  - apply rows_of_in.
  - apply rows_of_in.
  - apply rows_of_in.
  - apply rows_of_in.
Qed.

(** * rset_unmarks_all *)

Fixpoint numbered {A : Type} (f : snap -> A) (i : N) (ms : list snap) : list (N * A) :=
  match ms with [] => [] | m :: ms' => (i, f m) :: numbered f (i + 1) ms' end.

Lemma rows_of_all {A} (f : snap -> A) ms : forall i,
  rows_of f i ms (map (fun _ => true) ms) = numbered f i ms.
Proof. induction ms as [|m ms IH]; intros i; cbn; [reflexivity|]. rewrite IH. reflexivity. Qed.

Theorem rset_unmarks_all fl st s args :
  s_state s = Trans ->
  exists s',
    step fl st s (CCmd RSET args) = (s', r_plus, st) /\
    s_state s' = Trans /\ s_msgs s' = s_msgs s /\ s_user s' = s_user s /\
    s_retain s' = map (fun _ => true) (s_msgs s) /\
    s_count s' = Z.of_nat (length (s_msgs s)) /\
    listing s' = numbered p_size 1 (s_msgs s) /\
    uid_listing s' = numbered p_id 1 (s_msgs s).
Proof.
  intros Ht. exists (retain_all s). unfold step. rewrite Ht. cbn [trans_handler is_panic r_plus mk r_body].
  unfold listing, uid_listing, retain_all. cbn.
  rewrite !rows_of_all, lenN_length. repeat split; auto. lia.
Qed.

(** * quit_deletes_exactly_marked *)

Lemma str_eqb_sym a b : str_eqb a b = str_eqb b a.
Proof.
  destruct (str_eqb a b) eqn:E1; destruct (str_eqb b a) eqn:E2; try reflexivity.
  - apply str_eqb_eq in E1. subst. rewrite str_eqb_refl in E2. discriminate.
  - apply str_eqb_eq in E2. subst. rewrite str_eqb_refl in E1. discriminate.
Qed.

Lemma get_box_upd st u f : forall name,
  get_box (upd_box st u f) name =
  if str_eqb u name then (if has_box st u then f (get_box st u) else empty_box) else get_box st name.
Proof.
  induction st as [|[n b] st IH]; intros name; cbn [upd_box get_box has_box].
  - destruct (str_eqb u name); reflexivity.
  - destruct (str_eqb n u) eqn:E.
    + apply str_eqb_eq in E. subst n. cbn [get_box orb].
      destruct (str_eqb u name); reflexivity.
    + cbn [get_box orb]. rewrite IH.
      destruct (str_eqb u name) eqn:E2.
      * apply str_eqb_eq in E2. subst name. rewrite E. reflexivity.
      * destruct (str_eqb n name); reflexivity.
Qed.

Lemma get_box_no_box st u : has_box st u = false -> get_box st u = empty_box.
Proof.
  induction st as [|[n b] st IH]; cbn [has_box get_box]; [reflexivity|].
  destruct (str_eqb n u); cbn [orb]; [discriminate|exact IH].
Qed.

Lemma remove_msg_box st u id name :
  mmsgs (get_box (remove_msg st u id) name) =
  if str_eqb u name then filter (id_neqb id) (mmsgs (get_box st name)) else mmsgs (get_box st name).
Proof.
  unfold remove_msg. rewrite get_box_upd.
  destruct (str_eqb u name) eqn:E; [|reflexivity].
  apply str_eqb_eq in E. subst name.
  destruct (has_box st u) eqn:Eh; [reflexivity|].
  rewrite get_box_no_box by exact Eh. reflexivity.
Qed.

Lemma remove_msg_next st u id name : mnext (get_box (remove_msg st u id) name) = mnext (get_box st name).
Proof.
  unfold remove_msg. rewrite get_box_upd.
  destruct (str_eqb u name) eqn:E; [|reflexivity].
  apply str_eqb_eq in E. subst name.
  destruct (has_box st u) eqn:Eh; [reflexivity|].
  rewrite get_box_no_box by exact Eh. reflexivity.
Qed.

(** The message with this id is marked deleted in the session. *)
Definition marked_in (ms : list snap) (rt : list bool) (m : smsg) : bool :=
  existsb (fun pr => negb (snd pr) && str_eqb (sid m) (p_id (fst pr))) (combine ms rt).
Definition marked_msg (s : sess) (m : smsg) : bool := marked_in (s_msgs s) (s_retain s) m.

Lemma filter_filter_and {A} (f g : A -> bool) l :
  filter g (filter f l) = filter (fun x => f x && g x) l.
Proof.
  induction l as [|x l IH]; [reflexivity|]. cbn [filter].
  destruct (f x); cbn [filter andb]; [destruct (g x)|]; rewrite IH; reflexivity.
Qed.

Lemma filter_ext' {A} (f g : A -> bool) l : (forall x, f x = g x) -> filter f l = filter g l.
Proof. intros H. induction l as [|x l IH]; [reflexivity|]. cbn [filter]. rewrite H, IH. reflexivity. Qed.

Lemma process_deletes_box u name ms : forall rt st st',
  process_deletes u ms rt st = Some st' ->
  mmsgs (get_box st' name) =
  if str_eqb u name then filter (fun m => negb (marked_in ms rt m)) (mmsgs (get_box st name))
  else mmsgs (get_box st name).
Proof.
  induction ms as [|p ms IH]; intros rt st st' H.
  - cbn in H. inversion H; subst. unfold marked_in. cbn.
    destruct (str_eqb u name); [|reflexivity].
    induction (mmsgs (get_box st' name)) as [|x l IHl]; [reflexivity|]. cbn. rewrite <- IHl. reflexivity.
  - destruct rt as [|r rt]; [discriminate H|]. cbn [process_deletes] in H.
    apply IH in H. rewrite H. clear H.
    destruct (str_eqb u name) eqn:E; destruct r; unfold marked_in; cbn [combine existsb fst snd negb andb].
    + reflexivity.
    + rewrite remove_msg_box, E, filter_filter_and. apply filter_ext'. intros x.
      unfold id_neqb. rewrite negb_orb. reflexivity.
    + reflexivity.
    + rewrite remove_msg_box, E. reflexivity.
Qed.

Lemma process_deletes_next u name ms : forall rt st st',
  process_deletes u ms rt st = Some st' -> mnext (get_box st' name) = mnext (get_box st name).
Proof.
  induction ms as [|p ms IH]; intros rt st st' H.
  - cbn in H. inversion H; subst. reflexivity.
  - destruct rt as [|r rt]; [discriminate H|]. cbn [process_deletes] in H.
    apply IH in H. rewrite H. destruct r; [reflexivity|apply remove_msg_next].
Qed.

Theorem quit_deletes_exactly_marked fl st0 evs args :
  let w := run fl (init_world st0) evs in
  s_state (w_sess w) = Trans ->
  let w' := wstep fl w (ECmd (CCmd QUIT args)) in
  s_state (w_sess w') = Closed /\
  forall name,
    mnext (get_box (w_store w') name) = mnext (get_box (w_store w) name) /\
    mmsgs (get_box (w_store w') name) =
      if str_eqb (s_user (w_sess w)) name
      then filter (fun m => negb (marked_msg (w_sess w) m)) (mmsgs (get_box (w_store w) name))
      else mmsgs (get_box (w_store w) name).
Proof.
  cbn zeta. set (w := run fl (init_world st0) evs). intros Ht.
  assert (Hi : inv (w_sess w)) by (apply run_inv, init_inv).
  cbn [wstep]. unfold do_cmd, is_open, step. rewrite Ht. cbn [trans_handler].
  destruct (process_deletes (s_user (w_sess w)) (s_msgs (w_sess w)) (s_retain (w_sess w)) (w_store w))
    as [st'|] eqn:Ep.
  - cbn [is_panic r_plus mk r_body].
    destruct (w_wfail w); cbn [w_sess w_store set_state s_state]; (split; [reflexivity|]); intros name;
      (split; [eapply process_deletes_next; exact Ep|eapply process_deletes_box; exact Ep]).
  - exfalso. eapply process_deletes_some; [exact Hi|exact Ep].
Qed.

(** * no_quit_no_delete *)

Theorem no_quit_no_delete fl evs : forall w,
  (forall pre e post, evs = pre ++ e :: post -> commits (run fl w pre) e = false) ->
  w_store (run fl w evs) = fold_left ext_step evs (w_store w).
Proof.
  induction evs as [|e evs IH]; intros w H; [reflexivity|].
  rewrite run_cons. cbn [fold_left].
  destruct (wstep_facts fl w e) as (_ & _ & _ & F4 & _).
  rewrite <- F4 by (apply (H [] e evs); reflexivity).
  apply IH. intros pre e' post E. rewrite <- run_cons. apply (H (e :: pre) e' post).
  rewrite E. reflexivity.
Qed.

(** Purely syntactic corollary: a connection on which no QUIT line is ever sent - dropped
    after any command, in any state - leaves the store to the other clients. *)
Definition is_quit_event (e : event) : bool :=
  match ev_cmd e with Some c => is_quit c | None => false end.

Corollary no_quit_line_no_delete fl evs w :
  (forall e, In e evs -> is_quit_event e = false) ->
  w_store (run fl w evs) = fold_left ext_step evs (w_store w).
Proof.
  intros H. apply no_quit_no_delete. intros pre e post E.
  assert (Hin : In e evs) by (rewrite E; apply in_or_app; right; left; reflexivity).
  specialize (H e Hin). unfold commits, is_quit_event in *.
  destruct (s_state (w_sess (run fl w pre))); try reflexivity.
  destruct (ev_cmd e); [exact H|reflexivity].
Qed.

(** QUIT before login commits nothing either (it is not a TRANSACTION-state QUIT). *)
Corollary auth_quit_no_delete fl w args :
  s_state (w_sess w) = Auth ->
  w_store (wstep fl w (ECmd (CCmd QUIT args))) = w_store w.
Proof.
  intros Ha. destruct (wstep_facts fl w (ECmd (CCmd QUIT args))) as (_ & _ & _ & F4 & _).
  apply F4. unfold commits. rewrite Ha. reflexivity.
Qed.

(** * total_no_panic, progress *)

Lemma run_no_panic fl evs : forall w,
  winv w -> (forall r, In r (w_out w) -> is_panic r = false) ->
  forall r, In r (w_out (run fl w evs)) -> is_panic r = false.
Proof.
  induction evs as [|e evs IH]; intros w Hi Ho; [exact Ho|].
  rewrite run_cons. destruct (wstep_facts fl w e) as (F1 & _ & _ & _ & _ & F6).
  apply IH; [auto|]. intros r Hr. destruct (F6 Hi r Hr); auto.
Qed.

Theorem total_no_panic fl st0 evs r :
  In r (w_out (run fl (init_world st0) evs)) -> is_panic r = false.
Proof.
  apply run_no_panic; [apply init_inv|]. intros r0 [<-|[]]. reflexivity.
Qed.

(** Every command line handed to an open session gets exactly one reply, and the session
    is then either still open or cleanly closed: nothing wedges. *)
Theorem progress fl st0 evs c :
  let w := run fl (init_world st0) evs in
  is_open w = true -> w_wfail w = false ->
  exists r, w_out (do_cmd fl w c) = w_out w ++ [r] /\ is_panic r = false.
Proof.
  cbn zeta. set (w := run fl (init_world st0) evs). intros Ho Hw.
  assert (Hi : inv (w_sess w)) by (apply run_inv, init_inv).
  unfold do_cmd. rewrite Ho, Hw.
  destruct (step fl (w_store w) (w_sess w) c) as [[s' r] st'] eqn:Es.
  exists r. split; [reflexivity|].
  destruct (step_facts _ _ _ _ _ _ _ Es) as (_ & F2 & _). auto.
Qed.

(** * Non-vacuity *)

Definition ex_store : store :=
  deliver (deliver (deliver [] [98] [65; 10]) [98] [66; 66; 10]) [98] [67; 10].
Definition ln (l : list N) : event := ELine (l ++ [13; 10]).
Definition ex_hist : list event :=
  [ln [65; 80; 79; 80; 32; 98; 32; 120];      (* APOP b x *)
   ln [68; 69; 76; 69; 32; 50];               (* DELE 2 *)
   EDeliver [98] [68; 10];                    (* somebody's mail arrives *)
   ERemove [98] [0]].                         (* another client removes message 1 *)

Example ex_trans : s_state (w_sess (run Mem (init_world ex_store) ex_hist)) = Trans.
Proof. vm_compute. reflexivity. Qed.

Example ex_listing : listing (w_sess (run Mem (init_world ex_store) ex_hist)) = [(1, 2); (3, 2)].
Proof. vm_compute. reflexivity. Qed.

Example ex_quit_commits :
  map sid (mmsgs (get_box (w_store (run Mem (init_world ex_store)
        (ex_hist ++ [ln [113; 117; 105; 116]]))) [98])) = [[2]; [3]].
Proof. vm_compute. reflexivity. Qed.

Example ex_eof_keeps :
  map sid (mmsgs (get_box (w_store (run Mem (init_world ex_store) (ex_hist ++ [EEof]))) [98]))
  = [[1]; [2]; [3]].
Proof. vm_compute. reflexivity. Qed.

Example ex_no_quit_hyp : forall e, In e (ex_hist ++ [EEof]) -> is_quit_event e = false.
Proof. intros e H. repeat (destruct H as [<-|H]; [vm_compute; reflexivity|]). destruct H. Qed.

(** The command handlers themselves never panic in a reachable state - also when the write
    side is broken and the reply never reaches [w_out] (in Go a panic would still kill the
    process).  Suggested by the audit of the theorem files. *)
Theorem step_never_panics : forall fl st0 evs c,
  let w := run fl (init_world st0) evs in
  is_panic (snd (fst (step fl (w_store w) (w_sess w) c))) = false.
Proof.
  intros fl st0 evs c. cbn zeta. set (w := run fl (init_world st0) evs).
  assert (Hi : inv (w_sess w)) by (apply run_inv, init_inv).
  destruct (step fl (w_store w) (w_sess w) c) as [[s' r] st'] eqn:Es.
  destruct (step_facts _ _ _ _ _ _ _ Es) as (_ & F2 & _). exact (F2 Hi).
Qed.

(** The accept / store / origin decisions of the model are the documented rules, and they
    are blind to letter case in the address and in the configuration. *)
From IV Require Import Base.Bytes Base.BytesFacts Model.Policy Proofs.PolicyGlob.

(** What config.Process does to a raw configuration. *)
Definition lower_cfg (r : pcfg) : pcfg :=
  {| def_accept := def_accept r; accept_l := map lower (accept_l r); reject_l := map lower (reject_l r);
     def_store := def_store r; store_l := map lower (store_l r); discard_l := map lower (discard_l r);
     reject_origin_l := map lower (reject_origin_l r) |}.

Lemma load_list_raw v : load_list v = map lower (raw_list v).
Proof. unfold load_list, raw_list. destruct (forallb is_space v); reflexivity. Qed.

Lemma load_cfg_lower da acc rej ds sto dis rejo :
  load_cfg da acc rej ds sto dis rejo = lower_cfg (raw_cfg da acc rej ds sto dis rejo).
Proof. unfold load_cfg, lower_cfg, raw_cfg; cbn [def_accept accept_l reject_l def_store store_l discard_l reject_origin_l]. rewrite !load_list_raw. reflexivity. Qed.

(** Case-insensitive membership: some entry of the list equals the domain up to letter case. *)
Definition In_ci (d : str) (l : list str) : Prop := exists x, In x l /\ lower x = lower d.

Lemma mem_lower_In_ci d l : mem_str (lower d) (map lower l) = true <-> In_ci d l.
Proof.
  rewrite mem_str_In, in_map_iff. unfold In_ci. split; intros [x H]; exists x; tauto.
Qed.

Lemma accept_model_spec r d : should_accept (lower_cfg r) d = accept_spec r d.
Proof.
  unfold should_accept, accept_spec, lower_cfg; cbn [def_accept accept_l reject_l def_store store_l discard_l reject_origin_l].
  destruct (def_accept r), (mem_str (lower d) (map lower (reject_l r))), (mem_str (lower d) (map lower (accept_l r))); reflexivity.
Qed.

Lemma store_model_spec r d : should_store (lower_cfg r) d = store_spec r d.
Proof.
  unfold should_store, store_spec, lower_cfg; cbn [def_accept accept_l reject_l def_store store_l discard_l reject_origin_l].
  destruct (def_store r), (mem_str (lower d) (map lower (discard_l r))), (mem_str (lower d) (map lower (store_l r))); reflexivity.
Qed.

Theorem accept_rule r d :
  should_accept (lower_cfg r) d = true <->
  (def_accept r = true /\ ~ In_ci d (reject_l r)) \/ (def_accept r = false /\ In_ci d (accept_l r)).
Proof.
  rewrite accept_model_spec. unfold accept_spec.
  rewrite <- !mem_lower_In_ci.
  destruct (def_accept r), (mem_str (lower d) (map lower (reject_l r))), (mem_str (lower d) (map lower (accept_l r)));
    cbn; intuition congruence.
Qed.

Theorem store_rule r d :
  should_store (lower_cfg r) d = true <->
  (def_store r = true /\ ~ In_ci d (discard_l r)) \/ (def_store r = false /\ In_ci d (store_l r)).
Proof.
  rewrite store_model_spec. unfold store_spec.
  rewrite <- !mem_lower_In_ci.
  destruct (def_store r), (mem_str (lower d) (map lower (discard_l r))), (mem_str (lower d) (map lower (store_l r)));
    cbn; intuition congruence.
Qed.

Lemma lower_b_star c : lower_b c = star -> c = star.
Proof.
  unfold lower_b, is_upper, star. destruct ((65 <=? c) && (c <=? 90)) eqn:E; [|tauto].
  apply andb_true_iff in E as [E1 E2]. apply N.leb_le in E1, E2. lia.
Qed.

Lemma lower_no_star d : ~ In star d -> ~ In star (lower d).
Proof.
  intros H Hin. unfold lower in Hin. apply in_map_iff in Hin as [c [Hc Hi]].
  apply lower_b_star in Hc. subst. contradiction.
Qed.

(** A sender is refused exactly when its domain matches one of the reject-origin patterns. *)
Theorem origin_rule r d :
  ~ In star d ->
  (should_accept_origin (lower_cfg r) d = false <->
   exists p, In p (reject_origin_l r) /\ glob (lower p) (lower d)).
Proof.
  intros Hs. unfold should_accept_origin, lower_cfg; cbn [def_accept accept_l reject_l def_store store_l discard_l reject_origin_l].
  rewrite negb_false_iff, existsb_exists. split.
  - intros [q [Hq Hm]]. apply in_map_iff in Hq as [p [Hp Hin]]. subst q.
    exists p. split; [exact Hin|]. apply match_wild_correct in Hm; [exact Hm | apply lower_no_star; exact Hs].
  - intros [p [Hin Hg]]. exists (lower p). split; [apply in_map; exact Hin|].
    apply match_wild_correct; [apply lower_no_star; exact Hs | exact Hg].
Qed.

(** Decisions depend only on the lower-cased domain and the lower-cased lists. *)
Theorem case_blind r r' d d' :
  lower d = lower d' ->
  def_accept r = def_accept r' -> def_store r = def_store r' ->
  map lower (accept_l r) = map lower (accept_l r') -> map lower (reject_l r) = map lower (reject_l r') ->
  map lower (store_l r) = map lower (store_l r') -> map lower (discard_l r) = map lower (discard_l r') ->
  map lower (reject_origin_l r) = map lower (reject_origin_l r') ->
  should_accept (lower_cfg r) d = should_accept (lower_cfg r') d' /\
  should_store (lower_cfg r) d = should_store (lower_cfg r') d' /\
  should_accept_origin (lower_cfg r) d = should_accept_origin (lower_cfg r') d'.
Proof.
  intros Hd Ha Hs H1 H2 H3 H4 H5.
  unfold should_accept, should_store, should_accept_origin, lower_cfg; cbn [def_accept accept_l reject_l def_store store_l discard_l reject_origin_l].
  rewrite Hd, Ha, Hs, H1, H2, H3, H4, H5. repeat split; reflexivity.
Qed.

(** Non-vacuity: a configuration on which every clause of the rules is exercised. *)
Example rules_exercised :
  let r := raw_cfg false [69;120;46;67;111;109] [] true [] [98;46;79;114;103] [42;46;69;118;105;108;46;99;111;109] in
  should_accept (lower_cfg r) [101;88;46;99;79;77] = true /\
  should_accept (lower_cfg r) [120;46;99;111;109] = false /\
  should_store (lower_cfg r) [66;46;111;114;103] = false /\
  should_accept_origin (lower_cfg r) [97;46;101;86;73;76;46;67;79;77] = false /\
  should_accept_origin (lower_cfg r) [101;118;105;108;46;99;111;109] = true.
Proof. vm_compute. repeat split; reflexivity. Qed.

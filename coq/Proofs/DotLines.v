(** What the stored copy of a DATA block is, line by line (audit item C02: [lf_norm_only_line_endings] strips every CR
    and LF before comparing, so it cannot see a bare CR that was lost or moved).  Three equations that determine
    [lf_norm] on every byte string — every string is uniquely a sequence of LF-terminated LF-free lines followed by a
    possibly empty LF-free rest:
      - nothing stays nothing;
      - an LF-terminated line loses exactly ONE trailing CR (if it has one) and nothing else, every other byte of it —
        bare CRs inside the line, a second CR before the LF — stays where it is;
      - a final unterminated line is kept byte for byte (its trailing CR too) and gets an LF.
    [lf_norm] is NOT idempotent ([lf_norm_not_idempotent] is the counterexample the audit named: CR CR LF). *)
From IV Require Import Base.Bytes Model.Dot.
From Coq Require Import ZifyN ZifyNat ZifyBool Lia.

(** drop one trailing CR *)
Definition strip1 (l : str) : str :=
  match rev l with x :: t => if x =? CRb then rev t else l | [] => l end.

Lemma lines_acc_noLF : forall l cur, ~ In LFb l -> forall rest,
  lines_acc cur (l ++ rest) = lines_acc (rev l ++ cur) rest.
Proof.
  induction l as [|c l IH]; intros cur Hn rest; [reflexivity|].
  assert (E : (c =? LFb) = false) by (apply N.eqb_neq; intro; apply Hn; left; auto).
  cbn [app lines_acc]. rewrite E. rewrite IH by (intro; apply Hn; right; auto).
  cbn [rev]. rewrite <- app_assoc. reflexivity.
Qed.

Lemma strip1_rev cur :
  match cur with x :: cur' => if x =? CRb then rev cur' else rev cur | [] => [] end = strip1 (rev cur).
Proof.
  unfold strip1. rewrite rev_involutive. destruct cur as [|x cur']; [reflexivity|].
  destruct (x =? CRb); reflexivity.
Qed.

Theorem lf_norm_nil : lf_norm [] = [].
Proof. reflexivity. Qed.

Theorem lf_norm_terminated_line : forall l rest, ~ In LFb l ->
  lf_norm (l ++ LFb :: rest) = strip1 l ++ LFb :: lf_norm rest.
Proof.
  intros l rest Hn. unfold lf_norm, lines_of. rewrite lines_acc_noLF by exact Hn.
  cbn [lines_acc]. rewrite N.eqb_refl. rewrite strip1_rev. rewrite app_nil_r, rev_involutive.
  cbn [joined_lf app]. reflexivity.
Qed.

Theorem lf_norm_last_line : forall l, l <> [] -> ~ In LFb l -> lf_norm l = l ++ [LFb].
Proof.
  intros l Hl Hn. unfold lf_norm, lines_of.
  rewrite <- (app_nil_r l) at 1. rewrite lines_acc_noLF by exact Hn. rewrite app_nil_r.
  cbn [lines_acc]. destruct (rev l) as [|x t] eqn:E.
  - exfalso. apply Hl. rewrite <- (rev_involutive l), E. reflexivity.
  - rewrite <- E, rev_involutive. cbn [joined_lf]. rewrite app_nil_r. reflexivity.
Qed.

(** [strip1] is what it says: with a trailing CR exactly that byte goes, without one nothing changes. *)
Theorem strip1_cr : forall l, strip1 (l ++ [CRb]) = l.
Proof. intros. unfold strip1. rewrite rev_app_distr. cbn. rewrite rev_involutive. reflexivity. Qed.
Theorem strip1_other : forall l c, c <> CRb -> strip1 (l ++ [c]) = l ++ [c].
Proof.
  intros l c Hc. unfold strip1. rewrite rev_app_distr. cbn.
  assert (E : (c =? CRb) = false) by (apply N.eqb_neq; exact Hc). rewrite E. reflexivity.
Qed.
Theorem strip1_nil : strip1 [] = [].
Proof. reflexivity. Qed.

(** Every string decomposes, so the three equations say everything. *)
Fixpoint split_lf (b : str) : list str * str :=
  match b with
  | [] => ([], [])
  | c :: b' => let '(ls, r) := split_lf b' in
               if c =? LFb then ([] :: ls, r)
               else match ls with [] => ([], c :: r) | l :: ls' => ((c :: l) :: ls', r) end
  end.
Fixpoint unsplit (ls : list str) (r : str) : str :=
  match ls with [] => r | l :: ls' => l ++ LFb :: unsplit ls' r end.

Lemma split_lf_spec : forall b, let '(ls, r) := split_lf b in
  b = unsplit ls r /\ Forall (fun l => ~ In LFb l) ls /\ ~ In LFb r.
Proof.
  induction b as [|c b IH]; [cbn; repeat split; auto|].
  cbn [split_lf]. destruct (split_lf b) as [ls r]. destruct IH as [Hb [Hf Hr]].
  destruct (c =? LFb) eqn:E.
  - apply N.eqb_eq in E. subst c. cbn. repeat split; [f_equal; exact Hb | constructor; auto | exact Hr].
  - apply N.eqb_neq in E. destruct ls as [|l ls'].
    + cbn in *. subst b. repeat split; auto. intros [H|H]; [apply E; auto | apply Hr; exact H].
    + cbn in *. subst b. inversion Hf as [|? ? Hl Hls]; subst. repeat split; auto.
      constructor; [|exact Hls]. intros [H|H]; [apply E; auto | apply Hl; exact H].
Qed.

(** the closed form: every terminated line through [strip1], the rest (if any) kept and terminated *)
Theorem lf_norm_per_line : forall b, let '(ls, r) := split_lf b in
  lf_norm b = unsplit (map strip1 ls) (match r with [] => [] | _ => r ++ [LFb] end).
Proof.
  intros b. pose proof (split_lf_spec b) as H. destruct (split_lf b) as [ls r].
  destruct H as [Hb [Hf Hr]]. subst b. induction ls as [|l ls IH].
  - cbn [unsplit map]. destruct r as [|c r]; [reflexivity|]. apply lf_norm_last_line; [discriminate | exact Hr].
  - inversion Hf as [|? ? Hl Hls]; subst. cbn [unsplit map]. rewrite lf_norm_terminated_line by exact Hl.
    rewrite IH by exact Hls. reflexivity.
Qed.

(** The audit's counterexample: "a" CR CR LF. *)
Example lf_norm_not_idempotent :
  lf_norm [97; CRb; CRb; LFb] = [97; CRb; LFb] /\ lf_norm (lf_norm [97; CRb; CRb; LFb]) = [97; LFb].
Proof. split; reflexivity. Qed.

(** ... and a final unterminated line ending in CR is the other place: kept on the first pass, stripped on the second. *)
Example lf_norm_not_idempotent_last :
  lf_norm [97; CRb] = [97; CRb; LFb] /\ lf_norm (lf_norm [97; CRb]) = [97; LFb].
Proof. split; reflexivity. Qed.

(** C18 — what is NOT claimed of the text path: the scheme of the anchors TextToHTML generates.
    The statement below is kept visible and is FALSE of the code as it is: the witness is the text
    javascript:alert(1) with the match interval Go's regexp reports for it (the whole text). The
    property's clause on plain text ("the original text fully escaped plus only the anchors and
    line breaks the server itself generated") does not restrict the scheme; the title
    ("cannot carry active content") arguably does. Recorded as an observation, see lib/props/c18.py. *)
From IV Require Import Base.Bytes Model.Sanitize Model.SanitizePolicy.

Definition text_anchor_scheme_safe_stmt : Prop :=
  forall t ivs, matches_plain (escape_std t) ivs = true ->
    forallb scheme_allowed (hrefs_of (text_to_html t ivs)) = true.

Definition js_text : str := [106;97;118;97;115;99;114;105;112;116;58;97;108;101;114;116;40;49;41].

Example text_anchor_scheme_witness :
  matches_plain (escape_std js_text) [(0, 19)] = true
  /\ text_spec js_text (text_to_html js_text [(0, 19)]) = true
  /\ hrefs_of (text_to_html js_text [(0, 19)]) = [js_text]
  /\ forallb scheme_allowed (hrefs_of (text_to_html js_text [(0, 19)])) = false.
Proof. vm_compute. repeat split; reflexivity. Qed.

Lemma text_anchor_scheme_safe_is_false : ~ text_anchor_scheme_safe_stmt.
Proof.
  intro H. specialize (H js_text [(0, 19)]).
  destruct text_anchor_scheme_witness as [Hp [_ [_ Hf]]]. rewrite (H Hp) in Hf. discriminate.
Qed.

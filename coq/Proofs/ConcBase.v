(** C09 — list / association-list facts shared by the concurrency proofs. *)
From IV Require Import Model.Conc.
From Coq Require Import Lia ZifyN ZifyNat ZifyBool.

Lemma aget_aset_same {V} k (v : V) l : aget k (aset k v l) = Some v.
Proof.
  induction l as [|[k' v'] l IH]; cbn [aset aget].
  - now rewrite N.eqb_refl.
  - destruct (N.eqb k' k) eqn:E; cbn [aget]; [now rewrite N.eqb_refl | now rewrite E].
Qed.

Lemma aget_aset_other {V} k k' (v : V) l : k' <> k -> aget k' (aset k v l) = aget k' l.
Proof.
  intros N0. induction l as [|[k2 v2] l IH]; cbn [aset aget].
  - destruct (k =? k') eqn:E; [apply N.eqb_eq in E; congruence | reflexivity].
  - destruct (k2 =? k) eqn:E; cbn [aget].
    + apply N.eqb_eq in E; subst k2.
      destruct (k =? k') eqn:E2; [apply N.eqb_eq in E2; congruence | reflexivity].
    + destruct (k2 =? k'); [reflexivity | exact IH].
Qed.

Lemma nth_set_same {A} n (x : A) l : (n < length l)%nat -> nth_error (set_nth n x l) n = Some x.
Proof.
  revert n; induction l as [|y l IH]; intros [|n] H; cbn in *; try lia; [reflexivity | apply IH; lia].
Qed.

Lemma nth_set_other {A} n m (x : A) l : n <> m -> nth_error (set_nth n x l) m = nth_error l m.
Proof.
  revert n m; induction l as [|y l IH]; intros [|n] [|m] H; cbn; try reflexivity; try congruence.
  apply IH; congruence.
Qed.

Lemma length_set_nth {A} n (x : A) l : length (set_nth n x l) = length l.
Proof. revert n; induction l as [|y l IH]; intros [|n]; cbn; auto. Qed.

Lemma nth_error_lt {A} (l : list A) n x : nth_error l n = Some x -> (n < length l)%nat.
Proof. intros H. apply nth_error_Some. congruence. Qed.

Lemma nth_set_cases {A} n m (x : A) l y :
  nth_error (set_nth n x l) m = Some y ->
  (n = m /\ y = x /\ (m < length l)%nat) \/ (n <> m /\ nth_error l m = Some y).
Proof.
  intros H. destruct (Nat.eq_dec n m) as [->|Hn].
  - pose proof (nth_error_lt _ _ _ H) as Hl. rewrite length_set_nth in Hl.
    rewrite nth_set_same in H by exact Hl. left; repeat split; congruence.
  - rewrite nth_set_other in H by exact Hn. right; auto.
Qed.

Lemma find_msg_in id l m : find_msg id l = Some m -> In m l /\ m_id m = id.
Proof.
  induction l as [|x l IH]; cbn; [discriminate|].
  destruct (m_id x =? id) eqn:E; intros H.
  - inversion H; subst. apply N.eqb_eq in E. auto.
  - destruct (IH H); auto.
Qed.

Lemma del_msg_incl id l m : In m (del_msg id l) -> In m l.
Proof.
  induction l as [|x l IH]; cbn; [tauto|].
  destruct (m_id x =? id); cbn; intuition.
Qed.

Lemma mark_seen_in id l m : In m (mark_seen id l) ->
  exists m', In m' l /\ m_tag m = m_tag m' /\ m_size m = m_size m' /\ m_id m = m_id m'.
Proof.
  induction l as [|x l IH]; cbn; [tauto|].
  destruct (m_id x =? id); cbn; intros [H|H].
  - subst m. exists x; cbn; auto.
  - exists m; auto.
  - subst; exists m; auto.
  - destruct (IH H) as (m' & ? & ?); exists m'; auto.
Qed.

Lemma take_nth_in {A} n (l : list A) x r : take_nth n l = Some (x, r) ->
  In x l /\ (forall y, In y r -> In y l).
Proof.
  revert n x r; induction l as [|a l IH]; intros [|n] x r; cbn [take_nth]; try discriminate.
  - intros H; inversion H; subst; cbn; auto.
  - destruct (take_nth n l) as [[y r']|] eqn:E; [|discriminate].
    intros H; inversion H; subst. destruct (IH _ _ _ E) as [H1 H2]. cbn; split; auto.
    intros z [->|Hz]; auto.
Qed.

Lemma pick_in {A} c (l : list A) x r : pick c l = Some (x, r) ->
  In x l /\ (forall y, In y r -> In y l).
Proof. unfold pick. destruct l; [discriminate|]. apply take_nth_in. Qed.

(** C09 — file store: "every operation completes" (audit aud-store item 5, file-store half).  Every productive step
    of the file-store model strictly decreases one natural number; hence no schedule has more productive steps
    than the measure of the initial state: no livelock, the walk over the three directory levels included.
    A non-walk operation is a straight line of at most six steps.  A walk's remaining work is bounded by a
    polynomial in the numbers of directories of the three levels; those numbers grow only by a delivery's mkdir
    step, so "directories now + deliveries still before their mkdir" never increases. *)
From IV Require Import Model.Conc Model.ConcFile Proofs.ConcBase Proofs.ConcFileInv Proofs.ConcStmts Proofs.ConcMemTerm.
From Coq Require Import Lia ZifyN ZifyNat ZifyBool.
Local Open Scope nat_scope.

Definition gf (p : fpc) : nat :=
  match p with FStart (OAdd _ _ _) | FAddMkdir _ _ _ => 1 | _ => 0 end.
Definition Gf (s : fsys) : nat := sumf gf (f_thr s).

Record dims := mkD { d1 : nat; d2 : nat; d3 : nat }.
Definition dims_of (s : fsys) : dims :=
  mkD (length (f_l1 s) + Gf s) (length (f_l2 s) + Gf s) (length (f_mbd s) + Gf s).
Definition dle (a b : dims) : Prop := d1 a <= d1 b /\ d2 a <= d2 b /\ d3 a <= d3 b.

Definition P3 (u : dims) : nat := d3 u + 1.
Definition P2 (u : dims) : nat := 1 + d2 u * P3 u.
Definition P1 (u : dims) : nat := 1 + d1 u * P2 u.

Definition Wf (u : dims) (p : fpc) : nat :=
  match p with
  | FStart (OAdd _ _ _) => 3
  | FStart (OGet _ _) | FStart (OLatest _) | FStart (OList _) => 1
  | FStart (OSeen _ _) => 2
  | FStart (ORemove _ _) | FStart (OPurge _) => 6
  | FStart OVisit => P1 u + 1
  | FAddMkdir _ _ _ => 2
  | FAddRename _ _ _ | FSeenRename _ _ | FRemoveRename _ _ => 1
  | FIdxRemove _ _ => 5
  | FRemoveAll _ => 4
  | FRmdir2 _ => 3
  | FRmdir1 _ => 2
  | FVisit1 => P1 u
  | FVisit2 _ r1 _ => (length r1 + 1) * P2 u
  | FVisit3 _ r2 r1 _ => (length r2 + 1) * P3 u + length r1 * P2 u
  | FVisitMb _ r3 r2 r1 _ => (length r3 + 1) + length r2 * P3 u + length r1 * P2 u
  | FDone _ => 0
  end.
Definition Mf (s : fsys) : nat := sumf (Wf (dims_of s)) (f_thr s).

Lemma P_mono u u' : dle u' u -> P3 u' <= P3 u /\ P2 u' <= P2 u /\ P1 u' <= P1 u.
Proof.
  intros (H1 & H2 & H3). unfold P1, P2, P3.
  assert (A : d3 u' + 1 <= d3 u + 1) by lia.
  assert (B : d2 u' * (d3 u' + 1) <= d2 u * (d3 u + 1)) by (apply Nat.mul_le_mono; lia).
  assert (C : d1 u' * (1 + d2 u' * (d3 u' + 1)) <= d1 u * (1 + d2 u * (d3 u + 1))) by (apply Nat.mul_le_mono; lia).
  lia.
Qed.
Lemma Wf_mono u u' p : dle u' u -> Wf u' p <= Wf u p.
Proof.
  intros H. destruct (P_mono _ _ H) as (A & B & C).
  destruct p; cbn [Wf]; try lia.
  - destruct o; lia.
  - apply Nat.mul_le_mono; lia.
  - pose proof (Nat.mul_le_mono_l _ _ (length r2 + 1) A). pose proof (Nat.mul_le_mono_l _ _ (length r1) B). lia.
  - pose proof (Nat.mul_le_mono_l _ _ (length r2) A). pose proof (Nat.mul_le_mono_l _ _ (length r1) B). lia.
Qed.

Lemma sumf_dec {A} (f f' : A -> nat) l t p p' : nth_error l t = Some p ->
  (forall q, f' q <= f q) -> f' p' < f p -> sumf f' (set_nth t p' l) < sumf f l.
Proof.
  unfold sumf, list_sum. revert t; induction l as [|y l IH]; intros [|t] H Hm Hlt; try discriminate.
  - cbn in H. inversion H; subst. cbn [set_nth map fold_right].
    assert (fold_right Init.Nat.add 0 (map f' l) <= fold_right Init.Nat.add 0 (map f l)).
    { clear -Hm. induction l as [|z l IH]; cbn [map fold_right]; [lia|]. specialize (Hm z). lia. }
    lia.
  - cbn in H. specialize (IH _ H Hm Hlt). cbn [set_nth map fold_right]. specialize (Hm y). lia.
Qed.

Lemma len_addN x l : length (addN x l) <= S (length l).
Proof. unfold addN. destruct (memN x l); [lia | rewrite app_length; cbn; lia]. Qed.
Lemma len_filter {A} (f : A -> bool) l : length (filter f l) <= length l.
Proof. induction l as [|a l IH]; cbn [filter length]; [lia|]. destruct (f a); cbn [length]; lia. Qed.
Lemma len_delN x l : length (delN x l) <= length l.
Proof. unfold delN. apply len_filter. Qed.

(* ------------------------------------------------------------------ one step *)

(** The shape every step has, as far as the measure is concerned. *)
Lemma fstep_dec s t c s' : fstep s t c = SOk s' -> Mf s' < Mf s.
Proof.
  intros H. unfold fstep in H.
  destruct (nth_error (f_thr s) t) as [p|] eqn:Ep; [|discriminate].
  destruct p; try discriminate.
  all: fsplit H.
  all: injection H as <-.
  all: unfold visit_next3, visit_next2, visit_next1.
  all: repeat match goal with |- context [pick ?c ?l] => destruct (pick c l) as [[? ?]|] eqn:? end.
  all: unfold Mf, ffinish.
  all: cbn [f_thr fsetpc faddlog funlock flock fbump set_idx fwith].
  all: match goal with |- sumf (Wf ?u') (set_nth _ ?q _) < sumf (Wf ?u) _ =>
         assert (Hd : dle u' u);
         [ unfold dle, dims_of, Gf; cbn [d1 d2 d3 f_thr f_l1 f_l2 f_mbd fsetpc faddlog funlock flock fbump set_idx fwith];
           pose proof (sumf_set_nth gf _ _ _ q Ep) as Hg; cbn [gf] in Hg
         | apply (sumf_dec (Wf u) (Wf u') _ _ _ q Ep (fun x => Wf_mono u u' x Hd)) ] end.
  all: unfold mbname in *.
  (* the dimensions do not grow *)
  all: try (repeat match goal with
              | |- context [length (addN ?x ?l)] => let n := fresh "n" in pose proof (len_addN x l); set (n := length (addN x l)) in *; clearbody n
              | |- context [length (delN ?x ?l)] => let n := fresh "n" in pose proof (len_delN x l); set (n := length (delN x l)) in *; clearbody n
              end; lia).
  (* the actor's own weight *)
  all: (eapply Nat.le_lt_trans; [apply (Wf_mono _ _ _ Hd)|]).
  all: clear Hd.
  all: try (cbn [Wf]; lia).
  all: repeat match goal with H : pick _ _ = Some _ |- _ => apply pick_len in H end.
  all: assert (Hl1 : length (f_l1 s) <= d1 (dims_of s)) by (cbn; lia).
  all: assert (Hl2 : length (f_l2 s) <= d2 (dims_of s)) by (cbn; lia).
  all: assert (Hl3 : length (f_mbd s) <= d3 (dims_of s)) by (cbn; lia).
  all: repeat match goal with H : context [length (filter ?f ?l)] |- _ =>
         lazymatch goal with _ : length (filter f l) <= length l |- _ => fail | _ => pose proof (len_filter f l) end end.
  all: cbn [Wf]; unfold P1, P2, P3; generalize dependent (dims_of s); intros u; intros.
  all: set (A := d3 u + 1) in *; assert (HA : A = d3 u + 1) by reflexivity; clearbody A.
  all: set (B := 1 + d2 u * A) in *.
  all: unfold mbname in *.
  all: first [lia | nia].
Qed.

Theorem file_terminates : forall g ops sched, fproductive (finit g ops) sched <= Mf (finit g ops).
Proof.
  intros g ops sched. generalize (finit g ops). induction sched as [|[t c] r IH]; intros s; cbn [fproductive]; [lia|].
  destruct (fstep s t c) as [s'| | |] eqn:E; try lia.
  - pose proof (fstep_dec _ _ _ _ E). specialize (IH s'). lia.
  - apply IH.
Qed.

Theorem file_terminates_holds : file_terminates_stmt.
Proof. intros g ops. eexists. intros sched. apply file_terminates. Qed.

(** The bound, spelled out: with n operations, at most n * ((n+1)^3 + 7) productive steps, whatever the geometry. *)
Lemma finit_weights u ops : sumf (Wf u) (map FStart ops) <= (P1 u + 7) * length ops.
Proof.
  unfold sumf, list_sum. induction ops as [|o ops IH]; cbn [map fold_right length]; [lia|].
  destruct o; cbn [Wf]; nia.
Qed.
Lemma finit_G ops : sumf gf (map FStart ops) <= length ops.
Proof.
  unfold sumf, list_sum. induction ops as [|o ops IH]; cbn [map fold_right length]; [lia|]. destruct o; cbn [gf]; lia.
Qed.
Theorem file_step_bound : forall g ops sched,
  (fproductive (finit g ops) sched <= (1 + length ops * (1 + length ops * (length ops + 1)) + 7) * length ops)%nat.
Proof.
  intros g ops sched. etransitivity; [apply file_terminates|].
  unfold Mf. cbn [finit f_thr].
  etransitivity; [apply finit_weights|].
  apply Nat.mul_le_mono_r. apply Nat.add_le_mono_r.
  pose proof (finit_G ops) as HG.
  set (u := dims_of (finit g ops)).
  assert (H1 : d1 u <= length ops /\ d2 u <= length ops /\ d3 u <= length ops).
  { subst u. unfold dims_of, Gf. cbn [finit f_thr f_l1 f_l2 f_mbd d1 d2 d3 length]. lia. }
  destruct H1 as (H1 & H2 & H3).
  destruct (P_mono (mkD (length ops) (length ops) (length ops)) u) as (_ & _ & HP); [repeat split; assumption|].
  exact HP.
Qed.


(** C13 / C14 / C02 — deletions made through POP3 as every other interface sees them.

    A POP3 session that ends with QUIT in TRANSACTION state issues, to the store, exactly the [Remove]s of
    the messages it marked ([storespec_quit_commit], Proofs/Pop3StoreCor.v).  Here that commit is composed
    with the store and REST models over the same abstract store:
      - [removes_effect]: after any list of [Remove]s on one mailbox, every handle that was named finds
        nothing; nothing new is live; an entry no operation named is still live; other mailboxes are untouched;
      - [pop3_quit_deletions_reach_every_interface]: after the QUIT, for every message the session had marked
        (snapshot position i, retain flag false) Store.GetMessage answers not-there and REST /source, web-UI
        /source and REST DELETE answer 404 on the store the POP3 model now sees; a message of the snapshot
        that was retained, and every message of every other mailbox, is still served ([live] membership: so
        [read_interfaces_agree_on_source] applies to it). *)
From Coq Require Import List NArith ZArith Lia Bool.
From IV Require Import Base.Bytes Base.BytesFacts Model.StoreSpec Proofs.StoreSpecFacts Proofs.StoreSpecRefine.
From IV Require Model.Rest Proofs.RestConv Model.Pop3 Model.Pop3Store Proofs.Pop3 Proofs.Pop3Store Proofs.Pop3StoreCor.
From IV Require Import Proofs.InterfacesRemoval.
Import ListNotations.
Local Open Scope nat_scope.

Lemma find_filter_none {A} (f g : A -> bool) l : find f l = None -> find f (filter g l) = None.
Proof.
  induction l as [|x l IH]; [reflexivity|]. cbn [find filter]. destruct (f x) eqn:Ef; [discriminate|].
  intros H. destruct (g x); [cbn [find]; rewrite Ef|]; apply IH; exact H.
Qed.

Lemma find_is_ent_key mb k l e : find (is_ent mb k) l = Some e -> e_k e = k.
Proof.
  intros H. apply find_some_in in H as [_ H]. unfold is_ent in H. apply andb_true_iff in H as [_ H].
  apply Nat.eqb_eq in H. exact H.
Qed.

Lemma remove_live cfg ss u h st' ob evs : exec_spec cfg ss (Remove u h) = (st', ob, evs) ->
  live st' = match find_h u h (live ss) with Some e => remove_ent u (e_k e) (live ss) | None => live ss end.
Proof.
  cbn [exec_spec]. destruct (find_h u h (live ss)) as [e|]; intros H; inversion H; reflexivity.
Qed.

Definition removes_on (u : str) (ops : list op) : Prop := forall o, In o ops -> exists h, o = Remove u h.

Theorem removes_effect cfg u : forall ops ss, removes_on u ops ->
  let ss' := final_spec cfg ss ops in
  (forall k, In (Remove u (Kth k)) ops -> find (is_ent u k) (live ss') = None) /\
  (forall k, find (is_ent u k) (live ss) = None -> find (is_ent u k) (live ss') = None) /\
  (forall x, In x (live ss') -> In x (live ss)) /\
  (forall x, In x (live ss) -> (e_mb x <> u \/ ~ In (Remove u (Kth (e_k x))) ops) -> In x (live ss')) /\
  (forall mb', mb' <> u -> box mb' (live ss') = box mb' (live ss)).
Proof.
  induction ops as [|o ops IH]; intros ss Hon; cbn zeta.
  - cbn [final_spec]. repeat split; try (intros; assumption); try reflexivity. intros k [].
  - assert (Ho : exists h, o = Remove u h) by (apply Hon; left; reflexivity). destruct Ho as [h ->].
    assert (Hon' : removes_on u ops) by (intros o Hin; apply Hon; right; exact Hin).
    cbn [final_spec]. destruct (exec_spec cfg ss (Remove u h)) as [[s1 ob] evs] eqn:E.
    pose proof (remove_live cfg ss u h s1 ob evs E) as L.
    destruct (IH s1 Hon') as (A & B & C & D & F). cbn zeta in A, B, C, D, F.
    (* what one Remove does to [live] *)
    assert (Lkeep : forall k, find (is_ent u k) (live ss) = None -> find (is_ent u k) (live s1) = None).
    { intros k Hk. rewrite L. destruct (find_h u h (live ss)); [apply find_filter_none|]; exact Hk. }
    assert (Lsub : forall x, In x (live s1) -> In x (live ss)).
    { intros x. rewrite L. destruct (find_h u h (live ss)); [intros Hx; apply in_remove_ent in Hx as [Hx _]|intros Hx]; exact Hx. }
    split; [|split; [|split; [|split]]].
    + intros k [Hk|Hk]; [|apply A; exact Hk]. inversion Hk; subst h. apply B. rewrite L. cbn [find_h].
      destruct (find (is_ent u k) (live ss)) as [e|] eqn:Ef; [|exact Ef].
      rewrite (find_is_ent_key u k _ e Ef). apply find_removed.
    + intros k Hk. apply B, Lkeep, Hk.
    + intros x Hx. apply Lsub, C, Hx.
    + intros x Hx Hn. apply D.
      * rewrite L. destruct (find_h u h (live ss)) as [e|] eqn:Ef; [|exact Hx].
        apply in_remove_ent. split; [exact Hx|]. destruct (is_ent u (e_k e) x) eqn:Ex; [|reflexivity]. exfalso.
        unfold is_ent in Ex. apply andb_true_iff in Ex as [E1 E2]. apply ent_in_eq in E1. apply Nat.eqb_eq in E2.
        destruct Hn as [Hn|Hn]; [apply Hn; exact E1|]. apply Hn. left.
        destruct h as [k| |]; cbn [find_h] in Ef; try discriminate.
        rewrite (find_is_ent_key u k _ e Ef) in E2. rewrite E2. reflexivity.
      * destruct Hn as [Hn|Hn]; [left; exact Hn|right; intros Hin; apply Hn; right; exact Hin].
    + intros mb' Hne. rewrite (F mb' Hne), L. destruct (find_h u h (live ss)); [apply box_remove_other; exact Hne|reflexivity].
Qed.

Section Quit.
Variable content : N -> str.

Lemma quit_ops_removes u : forall ms rt, removes_on u (Pop3Store.quit_ops u ms rt).
Proof.
  induction ms as [|m ms IH]; intros rt o Hin; [destruct Hin|]. destruct rt as [|r rt]; [destruct Hin|].
  cbn [Pop3Store.quit_ops] in Hin. destruct r; [apply (IH rt o Hin)|].
  destruct Hin as [<-|Hin]; [eexists; reflexivity|apply (IH rt o Hin)].
Qed.

Lemma quit_ops_marked u k : forall ms rt i m,
  nth_error ms i = Some m -> nth_error rt i = Some false -> Pop3.p_id m = Pop3Store.id_of_k k ->
  In (Remove u (Kth k)) (Pop3Store.quit_ops u ms rt).
Proof.
  induction ms as [|m0 ms IH]; intros rt i m Hm Hr Hid; [destruct i; discriminate|].
  destruct rt as [|r rt]; [destruct i; discriminate|]. destruct i as [|i]; cbn [nth_error] in Hm, Hr.
  - inversion Hm; inversion Hr; subst. cbn [Pop3Store.quit_ops]. left. rewrite Hid.
    unfold Pop3Store.id_of_k, Pop3Store.handle_of_id. rewrite Nat2N.id. reflexivity.
  - cbn [Pop3Store.quit_ops]. destruct r; [|right]; eapply IH; eassumption.
Qed.

Lemma quit_ops_retained u k : forall ms rt,
  In (Remove u (Kth k)) (Pop3Store.quit_ops u ms rt) ->
  exists i m, nth_error ms i = Some m /\ nth_error rt i = Some false /\ Pop3Store.handle_of_id (Pop3.p_id m) = Kth k.
Proof.
  induction ms as [|m0 ms IH]; intros rt Hin; [destruct Hin|]. destruct rt as [|r rt]; [destruct Hin|].
  cbn [Pop3Store.quit_ops] in Hin. destruct r.
  - destruct (IH rt Hin) as (i & m & H1 & H2 & H3). exists (S i), m. repeat split; assumption.
  - destruct Hin as [Hin|Hin].
    + inversion Hin as [Hh]. exists 0, m0. repeat split; assumption.
    + destruct (IH rt Hin) as (i & m & H1 & H2 & H3). exists (S i), m. repeat split; assumption.
Qed.

Variable mfa : str -> option str.
Variable srcok : str -> nat -> bool.

Theorem pop3_quit_deletions_reach_every_interface cfg fl ss w args :
  Proofs.Pop3Store.CInv ss -> Pop3.w_store w = Model.Pop3Store.abs content ss -> Proofs.Pop3.winv w ->
  Pop3.s_state (Pop3.w_sess w) = Pop3.Trans ->
  let u := Pop3.s_user (Pop3.w_sess w) in
  let w' := Pop3.wstep fl w (Pop3.ECmd (Pop3.CCmd Pop3.QUIT args)) in
  let ss' := final_spec cfg ss (Pop3Store.quit_ops u (Pop3.s_msgs (Pop3.w_sess w)) (Pop3.s_retain (Pop3.w_sess w))) in
  (* the session ends and the POP3 model's store is the view of ss' *)
  Pop3.s_state (Pop3.w_sess w') = Pop3.Closed /\ Pop3.w_store w' = Pop3Store.abs content ss' /\
  (* every marked message is gone from the store, REST and the web UI *)
  (forall i m k name num body,
     nth_error (Pop3.s_msgs (Pop3.w_sess w)) i = Some m -> nth_error (Pop3.s_retain (Pop3.w_sess w)) i = Some false ->
     Pop3.p_id m = Pop3Store.id_of_k k -> mfa name = Some u ->
     exec_spec cfg ss' (Get u (Kth k)) = (ss', OGet NotExist, []) /\
     Rest.run_handler mfa cfg srcok ss' Rest.HSrc name (Rest.id_of_k k) num body = (ss', (Rest.S404, Rest.PNone)) /\
     Rest.run_handler mfa cfg srcok ss' Rest.USrc name (Rest.id_of_k k) num body = (ss', (Rest.S404, Rest.PNone)) /\
     Rest.run_handler mfa cfg srcok ss' Rest.HDel name (Rest.id_of_k k) num body = (ss', (Rest.S404, Rest.PNone))) /\
  (* nothing appears; what the session did not mark stays; other mailboxes are untouched *)
  (forall x, In x (live ss') -> In x (live ss)) /\
  (forall x, In x (live ss) ->
     (e_mb x <> u \/
      forall i m, nth_error (Pop3.s_msgs (Pop3.w_sess w)) i = Some m ->
                  nth_error (Pop3.s_retain (Pop3.w_sess w)) i = Some false ->
                  Pop3Store.handle_of_id (Pop3.p_id m) <> Kth (e_k x)) ->
     In x (live ss')) /\
  (forall mb', mb' <> u -> box mb' (live ss') = box mb' (live ss)).
Proof.
  intros Hc Hst Hi Ht u w' ss'.
  destruct (Pop3StoreCor.storespec_quit_commit content cfg fl ss w args Hc Hst Hi Ht) as [Q1 Q2].
  cbn zeta in Q1, Q2. fold u in Q2. fold ss' in Q2. fold w' in Q1, Q2.
  destruct (removes_effect cfg u _ ss (quit_ops_removes u (Pop3.s_msgs (Pop3.w_sess w)) (Pop3.s_retain (Pop3.w_sess w))))
    as (A & _ & C & D & F). cbn zeta in A, C, D, F. fold ss' in A, C, D, F.
  split; [exact Q1|]. split; [exact Q2|]. split; [|split; [exact C|split; [|exact F]]].
  - intros i m k name num body Hm Hr Hid Hn.
    assert (Hgone : find (is_ent u k) (live ss') = None).
    { apply A. eapply quit_ops_marked; eassumption. }
    assert (Hget : exec_spec cfg ss' (Get u (Kth k)) = (ss', OGet NotExist, [])).
    { cbn [exec_spec find_h]. rewrite Hgone. reflexivity. }
    split; [exact Hget|]. split; [|split].
    + unfold Rest.run_handler. rewrite Hn. unfold Rest.st_get. rewrite RestConv.handle_of_id_k, Hget. reflexivity.
    + unfold Rest.run_handler. rewrite Hn. unfold Rest.st_get. rewrite RestConv.handle_of_id_k, Hget. reflexivity.
    + unfold Rest.run_handler. rewrite Hn, RestConv.lit_handle_k. cbn [exec_spec find_h]. rewrite Hgone. reflexivity.
  - intros x Hx Hn. apply D; [exact Hx|]. destruct Hn as [Hn|Hn]; [left; exact Hn|]. right. intros Hin.
    apply quit_ops_retained in Hin as (i & m & H1 & H2 & H3). exact (Hn i m H1 H2 H3).
Qed.

End Quit.

(** An instance: three messages in mailbox "b"; a session logs in (APOP b x), marks the second (DELE 2) and
    quits.  The premises of [pop3_quit_deletions_reach_every_interface] hold for the world before the QUIT,
    and on the store after it REST answers 404 for the marked message and 200 for a retained one. *)
Definition q_content (tag : N) : str := [65%N; tag; 10%N].
Definition q_cfg : scfg := {| c_cap := 0; c_max := 0%N |}.
Definition q_ss : spec_store :=
  final_spec q_cfg spec_init [Add [98%N] 1%Z 65%N 3%N; Add [98%N] 2%Z 66%N 3%N; Add [98%N] 3%Z 67%N 3%N].
Definition q_ln (l : list N) : Pop3.event := Pop3.ELine (l ++ [13%N; 10%N]).
Definition q_w : Pop3.world :=
  Pop3.run Pop3.Mem (Pop3.init_world (Pop3Store.abs q_content q_ss))
    [q_ln [65; 80; 79; 80; 32; 98; 32; 120]%N; q_ln [68; 69; 76; 69; 32; 50]%N].
Definition q_ss' : spec_store :=
  final_spec q_cfg q_ss (Pop3Store.quit_ops (Pop3.s_user (Pop3.w_sess q_w)) (Pop3.s_msgs (Pop3.w_sess q_w)) (Pop3.s_retain (Pop3.w_sess q_w))).

Example quit_instance :
  Proofs.Pop3Store.CInv q_ss /\ Pop3.w_store q_w = Pop3Store.abs q_content q_ss /\ Proofs.Pop3.winv q_w /\
  Pop3.s_state (Pop3.w_sess q_w) = Pop3.Trans /\ Pop3.s_user (Pop3.w_sess q_w) = [98%N] /\
  map Pop3.p_id (Pop3.s_msgs (Pop3.w_sess q_w)) = [Pop3Store.id_of_k 0; Pop3Store.id_of_k 1; Pop3Store.id_of_k 2] /\
  Pop3.s_retain (Pop3.w_sess q_w) = [true; false; true] /\
  map e_k (box [98%N] (live q_ss')) = [0; 2] /\
  Rest.run_handler (fun n => Some n) q_cfg (fun _ _ => true) q_ss' Rest.HSrc [98%N] (Rest.id_of_k 1) [] Rest.BTrue
    = (q_ss', (Rest.S404, Rest.PNone)) /\
  fst (snd (Rest.run_handler (fun n => Some n) q_cfg (fun _ _ => true) q_ss' Rest.HSrc [98%N] (Rest.id_of_k 2) [] Rest.BTrue))
    = Rest.S200.
Proof.
  split; [apply Proofs.Pop3Store.final_spec_CInv, Proofs.Pop3Store.CInv_init|].
  split; [vm_compute; reflexivity|].
  split; [apply Proofs.Pop3.run_inv, Proofs.Pop3.init_inv|].
  vm_compute. repeat split; reflexivity.
Qed.

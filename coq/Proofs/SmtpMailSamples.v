(** C05 / C06: MAIL commands of the plainest shape ([plain_mail_arg], read without the patterns) evaluated with the
    parser that is regenerated from the source on every run: each is matched, and its parameters (if any) are
    accepted.  The shape predicate itself is exercised on shapes that are NOT plain. *)
From IV Require Import Base.Bytes Base.Regex Gen.SmtpRegex Model.Policy Model.Smtp Model.SmtpWire Model.SmtpAddr Model.SmtpMailParse.

Definition plain_samples : list str :=
  [[70; 82; 79; 77; 58; 60; 97; 64; 98; 46; 111; 114; 103; 62];
   [70; 82; 79; 77; 58; 32; 60; 97; 64; 98; 46; 111; 114; 103; 62];
   [102; 114; 111; 109; 58; 60; 65; 46; 98; 43; 99; 95; 100; 45; 101; 64; 88; 45; 121; 46; 79; 82; 71; 62];
   [70; 114; 79; 109; 58; 32; 32; 32; 60; 97; 64; 98; 46; 111; 114; 103; 62; 32; 83; 73; 90; 69; 61; 49; 48; 48];
   [70; 82; 79; 77; 58; 60; 62; 32; 66; 79; 68; 89; 61; 56; 66; 73; 84; 77; 73; 77; 69];
   [70; 82; 79; 77; 58; 60; 97; 64; 98; 46; 111; 114; 103; 62; 32; 83; 73; 90; 69; 61; 53; 32; 66; 79; 68; 89; 61; 56; 66; 73; 84; 77; 73; 77; 69; 32; 65; 85; 84; 72; 61; 60; 62];
   [70; 82; 79; 77; 58; 60; 117; 64; 104; 62]].
Definition not_plain_samples : list str :=
  [[70; 82; 79; 77; 58; 97; 64; 98; 46; 111; 114; 103];
   [84; 79; 58; 60; 97; 64; 98; 46; 111; 114; 103; 62];
   [70; 82; 79; 77; 58; 60; 97; 64; 98; 46; 111; 114; 103; 62; 32; 83; 73; 90; 69];
   [70; 82; 79; 77; 58; 60; 97; 32; 98; 64; 99; 46; 111; 114; 103; 62];
   [70; 82; 79; 77; 58; 60; 97; 64; 98; 46; 111; 114; 103; 62; 32; 32; 83; 73; 90; 69; 61; 53]].

Definition plain_sample_ok (a : str) : bool :=
  plain_mail_arg a &&
  match mail_facts_of (fun _ => false) a with
  | Some f => plain_mail_ok a f && mf_match f
  | None => false
  end.

Theorem plain_mail_commands_are_parsed : forallb plain_sample_ok plain_samples = true.
Proof. vm_compute. reflexivity. Qed.

Theorem plain_shape_is_narrow : forallb (fun a => negb (plain_mail_arg a)) not_plain_samples = true.
Proof. vm_compute. reflexivity. Qed.

(** C19: the window between Accept() returning and wg.Add in the serve loop, and why — with the
    accept loop itself counted (repair 0022) — Drain cannot return inside it. *)
From Coq Require Import Lia.
From IV Require Import Base.Bytes Model.Lifecycle Model.LifecycleAccept Proofs.Lifecycle.
Local Open Scope nat_scope.

(** Invariant: the session counts are exact and a held connection implies a running loop. *)
Record Inv2 (y : sys2) : Prop := mkInv2 {
  i2_counted : counted (base y);
  i2_pend : pend y <> None -> serving y = true
}.

Lemma inv2_step y a y' : Inv2 y -> step2 y a = Some y' -> Inv2 y'.
Proof.
  intros [C P] E. destruct a as [i| | | |a]; cbn [step2] in E.
  - destruct (pend y); [discriminate|]. destruct (find_s i (ss (sv (base y)))); [discriminate|].
    destruct (serving y && lopen (sv (base y))) eqn:G; [|discriminate]. inversion E; subst y'.
    constructor; cbn [base serving pend]; auto.
  - destruct (pend y) as [i|] eqn:Py; [|discriminate]. inversion E; subst y'; clear E.
    constructor; cbn [base serving pend sv lopen].
    + unfold counted in *. cbn [sv wg pr ss]. rewrite total_app. cbn. lia.
    + congruence.
  - destruct (pend y); [discriminate|]. destruct (serving y && negb (lopen (sv (base y)))); [|discriminate].
    inversion E; subst y'. constructor; cbn [base serving pend]; auto; congruence.
  - destruct (pend y); [discriminate|]. destruct (serving y); [|discriminate].
    inversion E; subst y'. constructor; cbn [base serving pend]; auto; congruence.
  - destruct (is_accept a) eqn:IA; [discriminate|]. destruct (step (base y) a) as [b|] eqn:St; [|discriminate].
    inversion E; subst y'. constructor; cbn [base serving pend]; auto. eapply counted_step; eauto.
Qed.

Lemma inv2_run acts : forall y y', Inv2 y -> run2 y acts = Some y' -> Inv2 y'.
Proof.
  induction acts as [|a t IH]; intros y y' I R; cbn [run2] in R.
  - inversion R; subst; auto.
  - destruct (step2 y a) eqn:E; [|discriminate]. eapply IH; [|exact R]. eapply inv2_step; eauto.
Qed.

Lemma inv2_init p b : Inv2 (sys2_init p b).
Proof.
  constructor; cbn.
  - reflexivity.
  - congruence.
Qed.

(** [drain_exact], full statement, for both servers as coded now, whether or not the listener
    could be bound: Drain returns exactly when the accept loop has exited and no accepted session is
    alive — and then no connection is held uncounted and none can be accepted any more. *)
Theorem drain_exact_accept_loop :
  forall p b acts y, run2 (sys2_init p b) acts = Some y ->
    (drain_returns2 y = true <->
     (serving y = false /\ forall i s, In (i, s) (ss (sv (base y))) -> alive s = false)) /\
    (drain_returns2 y = true -> pend y = None /\ forall i, step2 y (AcceptRet i) = None).
Proof.
  intros p b acts y R. pose proof (inv2_run acts _ _ (inv2_init p b) R) as [C P].
  assert (E : drain_returns2 y = true <->
              (serving y = false /\ forall i s, In (i, s) (ss (sv (base y))) -> alive s = false)).
  { unfold drain_returns2, wg2. rewrite Nat.eqb_eq, C. rewrite <- (total_zero (pr (sv (base y)))).
    destruct (serving y); split; intros H; try lia; destruct H; try discriminate; split; auto; lia. }
  split; [exact E|]. intros D. apply E in D. destruct D as [Sv _]. split.
  - destruct (pend y) eqn:Py; auto. exfalso. assert (Q : Some n <> None) by discriminate. specialize (P Q). congruence.
  - intros i. cbn [step2]. rewrite Sv. destruct (pend y); auto. destruct (find_s _ _); auto.
Qed.

(** Once Drain has returned it stays so: nothing can be accepted, counted or started any more. *)
Theorem drained_is_final :
  forall y acts y', Inv2 y -> drain_returns2 y = true -> run2 y acts = Some y' ->
    drain_returns2 y' = true /\ ss (sv (base y')) = ss (sv (base y)).
Proof.
  intros y acts y' I D R. revert y y' I D R.
  induction acts as [|a t IH]; intros y y' I D R; cbn [run2] in R.
  - inversion R; subst. auto.
  - destruct (step2 y a) as [y1|] eqn:E; [|discriminate].
    assert (X : drain_returns2 y1 = true /\ ss (sv (base y1)) = ss (sv (base y))).
    { destruct I as [C P]. unfold drain_returns2, wg2 in D. apply Nat.eqb_eq in D.
      destruct (serving y) eqn:Sv; [lia|]. assert (W : wg (sv (base y)) = 0) by lia.
      assert (Pn : pend y = None). { destruct (pend y) eqn:Py; auto. exfalso. assert (Q : Some n <> None) by discriminate. specialize (P Q). congruence. }
      destruct a as [i| | | |a]; cbn [step2] in E; rewrite ?Pn, ?Sv in E; cbn [andb] in E.
      - destruct (find_s i (ss (sv (base y)))); discriminate.
      - discriminate.
      - discriminate.
      - discriminate.
      - destruct (is_accept a) eqn:IA; [discriminate|]. destruct (step (base y) a) as [b|] eqn:St; [|discriminate].
        inversion E; subst y1. cbn [base serving pend].
        (* every session has ended, so no session step is possible; only Cancel / LClose remain *)
        assert (AllEnded : forall i s, In (i, s) (ss (sv (base y))) -> alive s = false).
        { apply (total_zero (pr (sv (base y)))). unfold counted in C. lia. }
        destruct a; cbn [is_accept] in IA; try discriminate; cbn [step target] in St.
        all: try (destruct (find_s i (ss (sv (base y)))) as [s|] eqn:F; [|discriminate];
                  pose proof (AllEnded i s (find_s_in _ _ _ F)) as AE; unfold alive in AE;
                  destruct (ph s) eqn:Ph; try discriminate; cbn [sess_step] in St; rewrite Ph in St;
                  destruct (pr (sv (base y))); cbn in St; discriminate).
        + inversion St; subst. cbn. unfold drain_returns2, wg2. cbn. rewrite ?Sv, W. auto.
        + destruct (cancelled (base y) && lopen (sv (base y))); [|discriminate]. inversion St; subst.
          unfold drain_returns2, wg2. cbn. rewrite ?Sv, W. auto. }
    destruct X as [D1 S1]. destruct (IH y1 y' (inv2_step _ _ _ I E) D1 R) as [D2 S2]. split; auto. congruence.
Qed.

(** How it was before repair 0022 (the loop not counted): Drain looked at the session counts only,
    and could return inside the window — Accept() returns connection 1; cancel; the listener is
    closed; the counter is zero; and then the serve goroutine counts and starts the session. *)
Definition drain_uncounted_loop_stmt : Prop :=
  forall p acts y, run2 (sys2_init p true) acts = Some y -> drain_returns_uncounted_loop y = true ->
    pend y = None /\ forall i s, In (i, s) (ss (sv (base y))) -> alive s = false.

Definition window_acts : list action2 := [AcceptRet 1; Other Cancel; Other LClose].

Theorem drain_uncounted_loop_refuted : ~ drain_uncounted_loop_stmt.
Proof.
  intros H.
  destruct (H PSmtp window_acts (mkSys2 (mkSys true (mkSrv PSmtp false 0 [])) true (Some 1)) eq_refl eq_refl) as [P _].
  discriminate.
Qed.

(** The same schedule as coded now: Drain does not return in the window; the held connection is
    counted and served; Drain returns after the session AND the loop have ended. *)
Lemma window_now p :
  exists y y', run2 (sys2_init p true) window_acts = Some y /\ drain_returns2 y = false /\
               step2 y ServeExit = None /\
               run2 y [AddWg; ServeExit; Other (Begin 1); Other (Quit 1)] = Some y' /\ drain_returns2 y' = false /\
               exists y'', run2 y' (match p with PSmtp => [Other (Exit 1)] | PPop3 => [Other (Exit 1)] end) = Some y'' /\
                           drain_returns2 y'' = true.
Proof. destruct p; eexists; eexists; repeat split; try (vm_compute; reflexivity); eexists; split; vm_compute; reflexivity. Qed.

(** A listener that could not be bound: the loop never ran, the counter is zero, Drain returns. *)
Lemma bind_failure_drains p : drain_returns2 (sys2_init p false) = true /\
  forall i, step2 (sys2_init p false) (AcceptRet i) = None.
Proof. split; [reflexivity|]. intros i. reflexivity. Qed.

(** How the coarse model (Model/Lifecycle.v, [drain_exact]) relates to the code: its counter is the
    SESSIONS' part of Server.wg, exact in every reachable state … *)
Theorem session_counts_exact :
  forall p b acts y, run2 (sys2_init p b) acts = Some y ->
    (wg (sv (base y)) = O <-> forall i s, In (i, s) (ss (sv (base y))) -> alive s = false).
Proof.
  intros p b acts y R. pose proof (inv2_run acts _ _ (inv2_init p b) R) as [C _].
  rewrite C. apply total_zero.
Qed.

(** … and its [drain_returns] is the code's Drain exactly in the states in which the accept loop has
    exited (or never ran); while the loop runs the code's Drain blocks whatever the sessions do. *)
Theorem coarse_drain_applies_after_loop_exit :
  forall y, (serving y = false -> drain_returns2 y = drain_returns (base y)) /\
            (serving y = true -> drain_returns2 y = false).
Proof.
  intros y. unfold drain_returns2, wg2, drain_returns. split; intros ->.
  - rewrite Nat.add_0_r. reflexivity.
  - apply Nat.eqb_neq. lia.
Qed.


(** * A permanent Accept error (e.g. EMFILE) *)

(** The accept loop reports the error on Notify and exits, releasing its own count; the listener
    stays open and Start stays parked on the context. Nothing else changes: every session is where
    it was, and so is the sessions' part of the counter … *)
Theorem accept_failure_leaves_sessions :
  forall y y', step2 y ServeFail = Some y' ->
    base y' = base y /\ serving y' = false /\ pend y' = None /\ forall i, step2 y' (AcceptRet i) = None.
Proof.
  intros y y' E. cbn [step2] in E. destruct (pend y); [discriminate|]. destruct (serving y); [|discriminate].
  inversion E; subst y'. repeat split. intros i. cbn [step2 pend serving]. destruct (find_s _ _); reflexivity.
Qed.

(** … so from then on Drain is exactly "no accepted session is alive" (the coarse statement), the
    open sessions can still complete ([open_session_unaffected], [inflight_completes] speak about
    [base], which is untouched), and shutdown is requested and served as usual. *)
Theorem drain_after_accept_failure :
  forall p b acts y y', run2 (sys2_init p b) acts = Some y -> step2 y ServeFail = Some y' ->
    (drain_returns2 y' = true <-> forall i s, In (i, s) (ss (sv (base y'))) -> alive s = false).
Proof.
  intros p b acts y y' R E.
  assert (R' : run2 (sys2_init p b) (acts ++ [ServeFail]) = Some y').
  { clear - R E. revert R. generalize (sys2_init p b). induction acts as [|a t IH]; intros y0 R; cbn [run2 app] in *.
    - inversion R; subst. rewrite E. reflexivity.
    - destruct (step2 y0 a); [|discriminate]. apply IH. exact R. }
  destruct (drain_exact_accept_loop p b _ y' R') as [D _]. rewrite D.
  destruct (accept_failure_leaves_sessions y y' E) as (_ & S & _). rewrite S. tauto.
Qed.

Lemma accept_failure_demo :
  exists y, run2 (sys2_init PSmtp true)
      [AcceptRet 1; AddWg; Other (Begin 1); Other (Client 1 SData); ServeFail; Other Cancel; Other LClose;
       Other (Quit 1); Other (Exit 1)] = Some y /\
    drain_returns2 y = true /\ find_s 1 (ss (sv (base y))) = Some (mkS Ended 1 1 false false).
Proof. eexists. split; [vm_compute; reflexivity|]. split; vm_compute; reflexivity. Qed.

(** The per-listener FIFO broker (Model/Events.v, Part 2): under EVERY schedule a listener is
    called serially ([listener_serial]) and with the events in emit order
    ([delivery_is_emit_order]). *)
From Coq Require Import List Arith Lia.
From IV Require Import Base.Bytes Model.StoreSpec Model.Events.
Import ListNotations.
Local Open Scope nat_scope.

Section B.
Variable E : Type.
Notation lst := (lst E).

Definition is_busy (s : lst) : bool := match busy E s with Some _ => true | None => false end.
Definition wf (s : lst) : Prop := is_busy s = true -> running E s = true.
Definition dflt : lst := lst_init E.

Lemma move_nth_other j : forall n ls l, l <> n -> nth l (fst (move_nth E j n ls)) dflt = nth l ls dflt.
Proof.
  induction n as [|n IH]; intros [|s ls] l Hne; simpl; try reflexivity.
  - destruct (move E j s) as [s' o]. simpl. destruct l; [congruence | reflexivity].
  - specialize (IH ls). destruct (move_nth E j n ls) as [r o]. simpl in *. destruct l; [reflexivity|]. apply IH. congruence.
Qed.

Lemma move_nth_same j : forall n ls, n < length ls ->
  nth n (fst (move_nth E j n ls)) dflt = fst (move E j (nth n ls dflt)) /\
  snd (move_nth E j n ls) = snd (move E j (nth n ls dflt)).
Proof.
  induction n as [|n IH]; intros [|s ls] Hn; simpl in *; try lia.
  - destruct (move E j s) as [s' o]. simpl. auto.
  - specialize (IH ls ltac:(lia)). destruct (move_nth E j n ls) as [r o]. simpl in *. exact IH.
Qed.

Lemma move_nth_out j : forall n ls, length ls <= n -> move_nth E j n ls = (ls, []).
Proof.
  induction n as [|n IH]; intros [|s ls] Hn; simpl in *; try reflexivity; try lia.
  rewrite IH by lia. reflexivity.
Qed.

Lemma move_nth_length j : forall n ls, length (fst (move_nth E j n ls)) = length ls.
Proof.
  induction n as [|n IH]; intros [|s ls]; simpl; try reflexivity.
  - destruct (move E j s). reflexivity.
  - specialize (IH ls). destruct (move_nth E j n ls). simpl in *. f_equal. exact IH.
Qed.

Lemma move_nth_wf j n ls : (forall s, In s ls -> wf s) -> forall s, In s (fst (move_nth E j n ls)) -> wf s.
Proof.
  revert ls. induction n as [|n IH]; intros [|s0 ls] H s Hs; simpl in *; try contradiction.
  - destruct (move E j s0) as [s' o] eqn:M. simpl in Hs. destruct Hs as [<-|Hs]; [|apply H; right; exact Hs].
    unfold move in M. specialize (H s0 (or_introl eq_refl)). unfold wf, is_busy in *.
    destruct (running E s0) eqn:R.
    + destruct (busy E s0), (pending E s0); inversion M; subst; simpl; intros Hq; try reflexivity; try discriminate.
    + inversion M; subst. rewrite R. exact H.
  - specialize (IH ls). destruct (move_nth E j n ls) as [r o]. simpl in *. destruct Hs as [<-|Hs]; [apply H; left; reflexivity|].
    apply IH; [intros x Hx; apply H; right; exact Hx | exact Hs].
Qed.

Lemma obs_other_serial l j (o : list (lobs E)) inside rest :
  l <> j -> (forall x, In x o -> match x with Begin _ l' _ | End _ l' _ => l' = j end) ->
  serial E l inside (o ++ rest) = serial E l inside rest.
Proof.
  intros Hne. induction o as [|x o IH]; intros H; simpl; [reflexivity|].
  pose proof (H x (or_introl eq_refl)) as Hx. destruct x as [l' e|l' e]; subst l';
    (destruct (Nat.eqb l j) eqn:Q; [apply Nat.eqb_eq in Q; congruence|]); apply IH; intros y Hy; apply H; right; exact Hy.
Qed.

Lemma move_obs_tag j s : forall x, In x (snd (move E j s)) -> match x with Begin _ l' _ | End _ l' _ => l' = j end.
Proof.
  unfold move. destruct (running E s); [|intros x []]. destruct (busy E s).
  - simpl. intros x [<-|[]]. reflexivity.
  - destruct (pending E s); simpl; [intros x [] | intros x [<-|[]]; reflexivity].
Qed.

Theorem serial_from l : forall sched ls, (forall s, In s ls -> wf s) ->
  serial E l (is_busy (nth l ls dflt)) (snd (brun E ls sched)) = true.
Proof.
  induction sched as [|a sched IH]; intros ls Hwf; [reflexivity|].
  cbn [brun]. destruct a as [e|j].
  - (* Emit *)
    cbn [bstep]. specialize (IH (map (push E e) ls)).
    destruct (brun E (map (push E e) ls) sched) as [ls2 o2]. simpl.
    assert (Hb : is_busy (nth l (map (push E e) ls) dflt) = is_busy (nth l ls dflt)).
    { destruct (Nat.lt_ge_cases l (length ls)) as [Hl|Hl].
      - rewrite (nth_indep _ dflt (push E e dflt)) by (rewrite map_length; exact Hl). rewrite map_nth. reflexivity.
      - rewrite !nth_overflow by (rewrite ?map_length; exact Hl). reflexivity. }
    rewrite <- Hb. apply IH. intros s Hs. apply in_map_iff in Hs as [s0 [<- Hs0]].
    unfold wf, is_busy, push. simpl. auto.
  - (* Move j *)
    cbn [bstep]. pose proof (move_nth_wf j j ls Hwf) as Hwf'.
    specialize (IH (fst (move_nth E j j ls)) Hwf').
    destruct (Nat.eq_dec l j) as [->|Hne].
    + destruct (Nat.lt_ge_cases j (length ls)) as [Hl|Hl].
      * destruct (move_nth_same j j ls Hl) as [H1 H2].
        destruct (move_nth E j j ls) as [ls1 o1]. simpl in *. rewrite H1 in IH. subst o1.
        destruct (brun E ls1 sched) as [ls2 o2]. simpl in *.
        assert (Hw : wf (nth j ls dflt)) by (apply Hwf; apply nth_In; exact Hl).
        unfold move, wf, is_busy in *. destruct (running E (nth j ls dflt)) eqn:R.
        -- destruct (busy E (nth j ls dflt)) eqn:Bz; simpl in *.
           ++ rewrite Nat.eqb_refl. exact IH.
           ++ destruct (pending E (nth j ls dflt)); simpl in *; [exact IH | rewrite Nat.eqb_refl; exact IH].
        -- simpl in *. exact IH.
      * rewrite move_nth_out in * by exact Hl. simpl in *. destruct (brun E ls sched). exact IH.
    + rewrite move_nth_other in IH by exact Hne.
      assert (Htag : forall x, In x (snd (move_nth E j j ls)) -> match x with Begin _ l' _ | End _ l' _ => l' = j end).
      { destruct (Nat.lt_ge_cases j (length ls)) as [Hl|Hl].
        - destruct (move_nth_same j j ls Hl) as [_ H2]. rewrite H2. apply move_obs_tag.
        - rewrite move_nth_out by exact Hl. intros x []. }
      destruct (move_nth E j j ls) as [ls1 o1]. simpl in *. destruct (brun E ls1 sched) as [ls2 o2]. simpl in *.
      rewrite (obs_other_serial l j o1 _ o2 Hne Htag). exact IH.
Qed.

(** listener_serial: from the initial broker state, under every schedule of emits and
    goroutine steps, no invocation of a listener begins before its previous one has ended. *)
Theorem listener_serial n sched l : serial E l false (snd (brun E (binit E n) sched)) = true.
Proof.
  assert (H : is_busy (nth l (binit E n) dflt) = false).
  { unfold binit, dflt. rewrite nth_repeat. reflexivity. }
  rewrite <- H. apply serial_from. intros s Hs. apply repeat_spec in Hs. subst. unfold wf, is_busy. simpl. discriminate.
Qed.
(* ---- order *)
Lemma begun_app l (o1 o2 : list (lobs E)) : begun E l (o1 ++ o2) = begun E l o1 ++ begun E l o2.
Proof.
  induction o1 as [|x o1 IH]; [reflexivity|]. destruct x as [l' e|l' e]; simpl; [|exact IH].
  destruct (Nat.eqb l l'); simpl; rewrite IH; reflexivity.
Qed.

Lemma begun_other l j (o : list (lobs E)) :
  l <> j -> (forall x, In x o -> match x with Begin _ l' _ | End _ l' _ => l' = j end) -> begun E l o = [].
Proof.
  intros Hne. induction o as [|x o IH]; intros H; [reflexivity|].
  pose proof (H x (or_introl eq_refl)) as Hx. destruct x as [l' e|l' e]; subst l'; simpl.
  - destruct (Nat.eqb l j) eqn:Q; [apply Nat.eqb_eq in Q; congruence|]. apply IH. intros y Hy. apply H. right; exact Hy.
  - apply IH. intros y Hy. apply H. right; exact Hy.
Qed.

Lemma move_order l (s : lst) :
  begun E l (snd (move E l s)) ++ pending E (fst (move E l s)) = pending E s.
Proof.
  unfold move. destruct (running E s); [|reflexivity]. destruct (busy E s); [reflexivity|].
  destruct (pending E s); simpl; [reflexivity|]. rewrite Nat.eqb_refl. reflexivity.
Qed.

Theorem order_from l : forall sched ls, l < length ls ->
  begun E l (snd (brun E ls sched)) ++ pending E (nth l (fst (brun E ls sched)) dflt) =
  pending E (nth l ls dflt) ++ emitted E sched.
Proof.
  induction sched as [|a sched IH]; intros ls Hl.
  - simpl. rewrite app_nil_r. reflexivity.
  - cbn [brun]. destruct a as [e|j].
    + cbn [bstep emitted]. specialize (IH (map (push E e) ls)). rewrite map_length in IH. specialize (IH Hl).
      destruct (brun E (map (push E e) ls) sched) as [ls2 o2]. simpl in *. rewrite IH.
      rewrite (nth_indep _ dflt (push E e dflt)) by (rewrite map_length; exact Hl). rewrite map_nth.
      unfold push at 1. simpl. rewrite <- app_assoc. reflexivity.
    + cbn [bstep emitted]. pose proof (move_nth_length j j ls) as Hlen.
      specialize (IH (fst (move_nth E j j ls))). rewrite Hlen in IH. specialize (IH Hl).
      assert (Hstep : begun E l (snd (move_nth E j j ls)) ++ pending E (nth l (fst (move_nth E j j ls)) dflt) =
                      pending E (nth l ls dflt)).
      { destruct (Nat.eq_dec l j) as [->|Hne].
        - destruct (move_nth_same j j ls Hl) as [H1 H2]. rewrite H1, H2. apply move_order.
        - rewrite move_nth_other by exact Hne. rewrite begun_other with (j := j); [reflexivity | exact Hne |].
          destruct (Nat.lt_ge_cases j (length ls)) as [Hj|Hj].
          + destruct (move_nth_same j j ls Hj) as [_ H2]. rewrite H2. apply move_obs_tag.
          + rewrite move_nth_out by exact Hj. intros x []. }
      destruct (move_nth E j j ls) as [ls1 o1]. simpl in *. destruct (brun E ls1 sched) as [ls2 o2]. simpl in *.
      rewrite begun_app, <- app_assoc, IH, app_assoc, Hstep. reflexivity.
Qed.

(** delivery_is_emit_order: under every schedule the events a listener has been called with,
    followed by those still queued for it, are exactly the emitted events in emit order — the
    invocation order of each listener is the emit order. *)
Theorem delivery_is_emit_order n sched l : l < n ->
  begun E l (snd (brun E (binit E n) sched)) ++ pending E (nth l (fst (brun E (binit E n) sched)) dflt) = emitted E sched.
Proof.
  intros Hl. rewrite order_from by (unfold binit; rewrite repeat_length; exact Hl).
  unfold binit, dflt. rewrite nth_repeat. reflexivity.
Qed.
End B.

(** C04, letter case, acceptance side: for a label domain (not an IP literal) every letter-case
    variant of an accepted address is accepted as well, and gets the same mailbox name. No
    assumption on net.ParseIP is involved. (For IP literals acceptance does depend on the
    spelling of the IPv6 tag; [case_insensitive] covers them under "both accepted".) *)
From IV Require Import Base.Bytes Base.BytesFacts Model.Addr Proofs.AddrFacts Proofs.AddrScan Proofs.AddrDomain Proofs.AddrNaming.
From Coq Require Import ZifyN ZifyNat ZifyBool.

Section Case.
Variable parse_ip : str -> bool.
Notation validate := (validate_domain parse_ip).
Notation extract := (extract_mailbox parse_ip).
Notation newrcpt := (new_recipient parse_ip).

Lemma bracket_type_case d d' : lower d = lower d' -> bracket_type d = bracket_type d'.
Proof.
  intros H. unfold bracket_type. rewrite (is_bracketed_case d d' H).
  rewrite <- (lower_length d), <- (lower_length d'), H. reflexivity.
Qed.

Lemma validate_label_lower d : bracket_type d = false -> validate (lower d) = validate d.
Proof.
  intros B. assert (B' : bracket_type (lower d) = false) by (rewrite <- B; apply bracket_type_case; apply lower_idem).
  unfold validate_domain. unfold bracket_type in B, B'. rewrite B, B'. rewrite lower_length.
  destruct (N.of_nat (length d) =? 0); [reflexivity|]. destruct (max_domain_len <? N.of_nat (length d)); [reflexivity|].
  rewrite (last_lower_eqb d 46) by reflexivity. destruct (last d 0 =? 46).
  - exact (labels_lower d 46 0 false).
  - change [46] with (lower [46]). rewrite <- lower_app. exact (labels_lower (d ++ [46]) 46 0 false).
Qed.

Lemma validate_label_case d d' : lower d = lower d' -> bracket_type d = false -> validate d' = validate d.
Proof.
  intros H B. assert (B' : bracket_type d' = false) by (rewrite <- B; symmetry; apply bracket_type_case; exact H).
  rewrite <- (validate_label_lower d B), <- (validate_label_lower d' B'), H. reflexivity.
Qed.

Lemma canonical_label d : validate d = true -> bracket_type d = false -> canonical_domain d = lower d.
Proof.
  intros V B. destruct (validate_label_type parse_ip d V B) as [_ [_ [D2 _]]].
  destruct (canonical_cases d) as [[r [Ed _]]|[_ E]]; [|exact E].
  subst d. rewrite canon_tag_is in D2. discriminate.
Qed.

Lemma parse_email_case a a' l d : lower a = lower a' -> parse_email a = Some (l, d) ->
  exists l' d', parse_email a' = Some (l', d') /\ lower l' = lower l /\ lower d' = lower d.
Proof.
  intros H P. pose proof (parse_email_lower a) as X. pose proof (parse_email_lower a') as X'.
  rewrite H, X', P in X. destruct (parse_email a') as [[l' d']|]; [|discriminate].
  exists l', d'. split; [reflexivity|]. simpl in X. unfold low2 in X. simpl in X. inversion X. split; reflexivity.
Qed.

Lemma lower_nil_iff (s s' : str) : lower s = lower s' -> (s = [] <-> s' = []).
Proof. destruct s, s'; simpl; intros H; try discriminate; split; congruence. Qed.

Theorem case_variant_accepted mode a a' r :
  lower a = lower a' -> newrcpt mode a = Some r -> bracket_type (r_domain r) = false ->
  exists r', newrcpt mode a' = Some r' /\ r_mailbox r' = r_mailbox r.
Proof.
  intros H R B.
  destruct (new_recipient_inv parse_ip mode a r R) as [l [d [P [V [E [_ [_ Ed]]]]]]]. rewrite Ed in B.
  destruct (parse_email_case a a' l d H P) as [l' [d' [P' [Ll Ld]]]].
  assert (V' : validate d' = true) by (rewrite (validate_label_case d d') by (congruence || assumption); exact V).
  assert (B' : bracket_type d' = false) by (rewrite <- B; apply bracket_type_case; exact Ld).
  assert (C : canonical_domain d' = canonical_domain d).
  { rewrite (canonical_label d V B), (canonical_label d' V' B'). exact Ld. }
  pose proof (parse_mailbox_name_case l' l Ll) as Q.
  assert (X : extract mode a' = extract mode a).
  { destruct mode.
    - unfold extract_mailbox. rewrite P, P', Q. reflexivity.
    - unfold extract_mailbox. rewrite P, P', Q, C, V, V'.
      destruct d as [|d0 dt], d' as [|d0' dt']; try discriminate Ld; reflexivity.
    - cbn [extract_mailbox]. unfold extract_domain_mailbox.
      destruct a as [|a0 at_]; [discriminate P|]. destruct a' as [|a0' at_']; [discriminate P'|].
      assert (N0 : (a0 =? 91) = false).
      { destruct (a0 =? 91) eqn:E0; [|reflexivity]. apply N.eqb_eq in E0. subst. rewrite parse_email_bracket in P. discriminate. }
      assert (N0' : (a0' =? 91) = false).
      { destruct (a0' =? 91) eqn:E0; [|reflexivity]. apply N.eqb_eq in E0. subst. rewrite parse_email_bracket in P'. discriminate. }
      rewrite N0, N0'. cbn [andb]. rewrite P, P'.
      pose proof (lower_nil_iff l' l Ll) as NL.
      destruct l as [|l0 lt], l' as [|l0' lt']; try (exfalso; destruct NL as [NL1 NL2]; (specialize (NL1 eq_refl) || specialize (NL2 eq_refl)); discriminate).
      + destruct d as [|d0 dt], d' as [|d0' dt']; try discriminate Ld; try discriminate V. rewrite V, V', C. reflexivity.
      + rewrite Q. destruct (parse_mailbox_name (l0 :: lt)); [|reflexivity].
        destruct d as [|d0 dt], d' as [|d0' dt']; try discriminate Ld; try discriminate V. rewrite V, V', C. reflexivity. }
  unfold new_recipient, parse_email_validated. rewrite P', V', X, E.
  eexists. split; reflexivity.
Qed.

End Case.

(* non-vacuity: "A.b@Ex.com" is accepted with a label domain *)
Example case_variant_accepted_sample :
  option_map (fun r => bracket_type (r_domain r)) (new_recipient no_ip Full [65;46;98;64;69;120;46;99;111;109]) = Some false.
Proof. vm_compute. reflexivity. Qed.

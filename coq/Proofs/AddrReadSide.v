(** C04, read side: every interface that takes a mailbox name or address from the user derives
    the mailbox name the same way RCPT did -- over the list of uses the translator generates
    from pkg/rest and pkg/webui -- and the open finding about POP3 USER. Kept apart from
    AddrNaming.v so that a changed read site breaks exactly these theorems. *)
From IV Require Import Base.Bytes Base.BytesFacts Model.Addr Proofs.AddrFacts Proofs.AddrScan Proofs.AddrDomain Proofs.AddrNaming.

(** ** Read side *)
Definition flow_is_via (f : name_flow) : bool := match f with ViaMailboxForAddress => true | Verbatim => false end.

(** the premise made concrete by the translator: every use of the URL variable in pkg/rest and
    pkg/webui is the argument of MailboxForAddress, which is ExtractMailbox *)
Lemma read_sites_all_via :
  forallb (fun p => flow_is_via (snd p)) read_sites && mailbox_for_address_is_extract
  && negb (Nat.eqb (length read_sites) 0) = true.
Proof. vm_compute. reflexivity. Qed.

Theorem read_side_same_name parse_ip (parse_ip_lower : forall s, parse_ip (lower s) = parse_ip s) :
  forall site flow, In (site, flow) read_sites ->
  forall mode a r, new_recipient parse_ip mode a = Some r ->
    read_name parse_ip mode flow a = Some (r_mailbox r) /\
    read_name parse_ip mode flow (r_mailbox r) = Some (r_mailbox r).
Proof.
  intros site flow Hin mode a r R.
  pose proof read_sites_all_via as A. apply andb_true_iff in A as [A _]. apply andb_true_iff in A as [A _]. rewrite forallb_forall in A.
  specialize (A _ Hin). simpl in A. destruct flow; [|discriminate]. cbn [read_name]. split.
  - eapply name_of_address; exact R.
  - eapply name_fixed_point; eassumption.
Qed.

(** ** POP3 (open known finding K-C04-pop3-user): USER takes its argument verbatim *)
(* "User+tag@Example.COM" *)
Definition pop3_witness : str := [85;115;101;114;43;116;97;103;64;69;120;97;109;112;108;101;46;67;79;77].

Theorem pop3_user_canonical_refuted :
  exists mode a r, new_recipient no_ip mode a = Some r /\ read_name no_ip mode pop3_user_flow a <> Some (r_mailbox r).
Proof. exists Local, pop3_witness. eexists. split; [vm_compute; reflexivity|]. vm_compute. discriminate. Qed.

(** what does hold for POP3: an address that is already its own canonical name reaches its mailbox *)
Theorem pop3_user_partial parse_ip mode a r :
  new_recipient parse_ip mode a = Some r -> r_mailbox r = a -> read_name parse_ip mode pop3_user_flow a = Some (r_mailbox r).
Proof. intros _ E. rewrite E. reflexivity. Qed.


(** C04, read side: every interface that takes a mailbox name or address from the user derives
    the mailbox name the same way RCPT did -- over the list of uses the translator generates
    from pkg/rest and pkg/webui -- and the open finding about POP3 USER. Kept apart from
    AddrNaming.v so that a changed read site breaks exactly these theorems. *)
From IV Require Import Base.Bytes Base.BytesFacts Model.Addr Proofs.AddrFacts Proofs.AddrScan Proofs.AddrDomain Proofs.AddrNaming.

(** ** Read side *)
Definition flow_is_via (f : name_flow) : bool := match f with ViaMailboxForAddress => true | Verbatim => false end.

(** the premise made concrete by the translator: every use of the URL variable in pkg/rest and
    pkg/webui is the argument of MailboxForAddress, which is ExtractMailbox *)
Lemma read_sites_all_via :
  forallb (fun p => flow_is_via (snd p)) read_sites && mailbox_for_address_is_extract
  && negb (Nat.eqb (length read_sites) 0) = true.
Proof. vm_compute. reflexivity. Qed.

Theorem read_side_same_name parse_ip (parse_ip_lower : forall s, parse_ip (lower s) = parse_ip s) :
  forall site flow, In (site, flow) read_sites ->
  forall mode a r, new_recipient parse_ip mode a = Some r ->
    read_name parse_ip mode flow a = Some (r_mailbox r) /\
    read_name parse_ip mode flow (r_mailbox r) = Some (r_mailbox r).
Proof.
  intros site flow Hin mode a r R.
  pose proof read_sites_all_via as A. apply andb_true_iff in A as [A _]. apply andb_true_iff in A as [A _]. rewrite forallb_forall in A.
  specialize (A _ Hin). simpl in A. destruct flow; [|discriminate]. cbn [read_name]. split.
  - eapply name_of_address; exact R.
  - eapply name_fixed_point; eassumption.
Qed.

(** ** POP3 (open known finding K-C04-pop3-user): USER takes its argument verbatim *)
(* "User+tag@Example.COM" *)
Definition pop3_witness : str := [85;115;101;114;43;116;97;103;64;69;120;97;109;112;108;101;46;67;79;77].

Theorem pop3_user_canonical_refuted :
  exists mode a r, new_recipient no_ip mode a = Some r /\ read_name no_ip mode pop3_user_flow a <> Some (r_mailbox r).
Proof. exists Local, pop3_witness. eexists. split; [vm_compute; reflexivity|]. vm_compute. discriminate. Qed.

(** the clause of the property that is refuted (kept visible; listed in lib/props/c04.py NOT_PROVED) *)
Definition pop3_user_canonical_stmt : Prop :=
  forall parse_ip mode a r, new_recipient parse_ip mode a = Some r -> read_name parse_ip mode pop3_user_flow a = Some (r_mailbox r).

(** What does hold for POP3. Logging in with the ADDRESS reaches the mailbox exactly when the
    address is its own canonical name ... *)
Theorem pop3_user_by_address_iff parse_ip mode a r :
  new_recipient parse_ip mode a = Some r ->
  (read_name parse_ip mode pop3_user_flow a = Some (r_mailbox r) <-> r_mailbox r = a).
Proof. intros _. cbn [read_name pop3_user_flow]. split; intros H; congruence. Qed.

(** ... which never happens in local and in domain naming: an accepted address carries a
    non-empty validated domain, so it is strictly longer than its mailbox name. In these two
    modes USER <address> misses the mailbox for EVERY accepted address. *)
Theorem pop3_user_by_address_never_local parse_ip a r :
  new_recipient parse_ip Local a = Some r ->
  r_mailbox r <> a /\ read_name parse_ip Local pop3_user_flow a <> Some (r_mailbox r).
Proof.
  intros R. assert (N : r_mailbox r <> a).
  { destruct (recipient_name parse_ip Local a r R) as [l [d [P [V Q]]]].
    destruct (parse_email_bounds a l d P) as [_ [_ B]]. specialize (B (validate_nonempty parse_ip d V)).
    apply parse_mailbox_name_some in Q as [_ [_ [_ L]]]. intros E. rewrite E in L. lia. }
  split; [exact N|]. intros H. apply (pop3_user_by_address_iff parse_ip Local a r R) in H. exact (N H).
Qed.

Theorem pop3_user_by_address_never_domain parse_ip a r :
  new_recipient parse_ip Domain a = Some r ->
  r_mailbox r <> a /\ read_name parse_ip Domain pop3_user_flow a <> Some (r_mailbox r).
Proof.
  intros R. assert (N : r_mailbox r <> a).
  { destruct (recipient_name parse_ip Domain a r R) as [l [d [P [V [Q _]]]]].
    destruct (parse_email_bounds a l d P) as [_ [_ B]]. specialize (B (validate_nonempty parse_ip d V)).
    intros E. apply (f_equal (@length N)) in E. rewrite Q, canonical_length in E. lia. }
  split; [exact N|]. intros H. apply (pop3_user_by_address_iff parse_ip Domain a r R) in H. exact (N H).
Qed.

(** Logging in with the mailbox NAME (what the REST list and the web UI show) reaches the mailbox, in every mode. *)
Theorem pop3_user_by_name parse_ip mode a r :
  new_recipient parse_ip mode a = Some r -> read_name parse_ip mode pop3_user_flow (r_mailbox r) = Some (r_mailbox r).
Proof. intros _. reflexivity. Qed.

(** Full naming: "joe@example.com" is its own name (USER joe@example.com works), "Joe@example.com" is not. *)
Example pop3_full_canonical_address_works :
  option_map r_mailbox (new_recipient no_ip Full [106;111;101;64;101;120;97;109;112;108;101;46;99;111;109]) =
    read_name no_ip Full pop3_user_flow [106;111;101;64;101;120;97;109;112;108;101;46;99;111;109].
Proof. vm_compute. reflexivity. Qed.
Example pop3_full_mixed_case_address_fails :
  option_map r_mailbox (new_recipient no_ip Full [74;111;101;64;101;120;97;109;112;108;101;46;99;111;109]) = Some [106;111;101;64;101;120;97;109;112;108;101;46;99;111;109] /\
  read_name no_ip Full pop3_user_flow [74;111;101;64;101;120;97;109;112;108;101;46;99;111;109] = Some [74;111;101;64;101;120;97;109;112;108;101;46;99;111;109].
Proof. vm_compute. split; reflexivity. Qed.

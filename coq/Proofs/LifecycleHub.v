(** C19: the message hub stops without harming anybody (Model/Hub.v, repair 0014: the op queue
    is never closed; a [done] channel tells late callers to give up). *)
From IV Require Import Base.Bytes Model.Hub Proofs.HubBasics Proofs.HubInv Proofs.HubTheorems.
Local Open Scope nat_scope.

(** What a caller of Sync waits for: its op has run, or the hub is gone. *)
Definition sync_returns (h : hub) (tok : nat) : Prop := stopped h = true \/ In tok (synced h).

(** After the hub goroutine has seen the cancellation:
    - every Dispatch / Delete / RemoveListener / Sync call returns at once — it neither blocks
      (even with a full op queue) nor panics (there is no closed channel to send on: the model's
      [enq] has no failing branch once [stopped]) — and leaves the hub and every listener's
      queue exactly as they were;
    - a listener constructed late is simply never registered; a late Close still completes;
    - every Sync caller is released;
    - the hub goroutine makes no further listener call. *)
Theorem hub_stop_harmless :
  forall c h, stopped h = true ->
    (forall o, is_add o = false -> step c h (AEnq o) = Some h) /\
    (forall l k f fail, find_l l (ls h) = None ->
        step c h (ANew l k f fail) = Some (set_ls h (ls h ++ [(l, new_lst k f fail)]))) /\
    (forall l s, find_l l (ls h) = Some s -> lrm s = true ->
        step c h (ARm l) = Some (set_ls h (upd_l l (l_rm_done s) (ls h)))) /\
    (forall tok, sync_returns h tok) /\
    (forall ch, hub_step c ch h = None).
Proof.
  intros c h S. repeat split.
  - intros o A. cbn [step]. rewrite A. unfold enq. rewrite S. reflexivity.
  - intros l k f fail F. cbn [step]. rewrite F. unfold enq. cbn [set_ls stopped]. rewrite S. reflexivity.
  - intros l s F L. cbn [step]. rewrite F, L. unfold enq. cbn [set_ls stopped]. rewrite S. reflexivity.
  - intros tok. left. exact S.
  - intros ch. unfold hub_step. rewrite S. reflexivity.
Qed.

(** The hub goroutine sees the cancellation whenever it is between two ops, and stays stopped. *)
Theorem hub_stop_enabled :
  forall c h, work h = [] -> exists h', step c h AStop = Some h' /\ stopped h' = true /\ ls h' = ls h.
Proof. intros c h W. cbn [step]. rewrite W. eexists. repeat split. Qed.

Theorem hub_stays_stopped :
  forall c acts h h', run c h acts = Some h' -> stopped h = true -> stopped h' = true.
Proof. intros c acts h h' R S. destruct (stopped_stays c acts h h' R S). auto. Qed.

(** Before it stops, it can only be kept from noticing the cancellation by an open listener with
    a full queue (the C15 finding), never by anything the shutdown itself does. *)
Theorem hub_stop_not_delayed :
  forall c h, stopped h = false -> ~ head_full c h ->
    (exists h', step c h AStop = Some h') \/ (exists h', hub_step c true h = Some h').
Proof.
  intros c h S NF. destruct (work h) eqn:W.
  - left. cbn [step]. rewrite W. eexists. reflexivity.
  - right. apply hub_never_blocks_partial; auto. left. congruence.
Qed.

(** C09 — memory store: the size enforcer never runs off its list.
    J: curSize never exceeds the total size of the listed messages (plus the one being evicted),
    and the enforcer is at the eviction point only while curSize > maxSize. Hence at the eviction
    point the list is non-empty: all.Front() is never nil. *)
From IV Require Import Model.Conc Model.ConcMem Proofs.ConcBase Proofs.ConcMemInv.
From Coq Require Import Lia ZifyN ZifyNat ZifyBool.
Local Open Scope Z_scope.

Fixpoint total (l : list ent) : Z := match l with [] => 0 | k :: l' => esize k + total l' end.
Definition pending (p : epc) : Z := match p with EEvLock k _ => esize k | _ => 0 end.

Definition invJ (s : msys) : Prop :=
  e_cur (s_enf s) <= total (e_all (s_enf s)) + pending (e_pc (s_enf s)) /\
  (forall w max, e_pc (s_enf s) = EEvict w -> s_max s = Some max -> max < e_cur (s_enf s)).

Lemma total_app l k : total (l ++ [k]) = total l + esize k.
Proof. induction l; cbn [total app]; lia. Qed.

Lemma total_take g l k r : ent_take g l = Some (k, r) -> total l = total r + esize k.
Proof.
  revert k r; induction l as [|x l IH]; intros k r; cbn [ent_take]; [discriminate|].
  destruct (m_tag (snd x) =? g)%N.
  - intros H; inversion H; subst. cbn [total]. lia.
  - destruct (ent_take g l) as [[y r']|]; [|discriminate].
    intros H; inversion H; subst. cbn [total]. specialize (IH _ _ eq_refl). lia.
Qed.

Lemma esize_nonneg k : 0 <= esize k. Proof. unfold esize. lia. Qed.
Lemma total_nonneg l : 0 <= total l.
Proof. induction l; cbn [total]; [lia|]. pose proof (esize_nonneg a). lia. Qed.

Lemma invJ_thr s t c s' : invJ s -> step_thr s t c = SOk s' -> invJ s'.
Proof.
  intros [J1 J2] H. unfold step_thr in H.
  destruct (nth_error (s_thr s) t) as [p|] eqn:Ep; [|discriminate].
  destruct p; try discriminate.
  all: split_step H.
  all: inv_ok H.
  all: unfold invJ; autorewrite with sys; cbn [s_enf take_done with_epc e_cur e_all e_pc pending with_enf].
  all: try (split; [exact J1 | exact J2]).
  (* sends: the enforcer was idle *)
  all: try match goal with Hi : is_idle _ = true |- _ =>
         unfold is_idle in Hi; destruct (e_pc (s_enf s)) eqn:Epc; try discriminate end.
  all: try (split; [exact J1 | intros ? ? Hp Hm; apply (J2 _ _ Hp); congruence]).
  all: try (cbn [pending] in J1; split; [lia | intros; discriminate]).
Qed.

Lemma invJ_enf s s' : invJ s -> step_enf s = SOk s' -> invJ s'.
Proof.
  intros [J1 J2] H. unfold step_enf in H.
  destruct (s_max s) as [max|] eqn:Emax; [|discriminate].
  destruct (e_pc (s_enf s)) eqn:Epc; try discriminate.
  all: repeat match type of H with
       | context [if locked ?mb ?ss then _ else _] => destruct (locked mb ss) eqn:Elk; [discriminate|]
       | context [if ?b then _ else _] => destruct b eqn:?
       | context [match e_all ?e with _ => _ end] => destruct (e_all e) eqn:Eall
       | context [match ent_take ?g ?l with _ => _ end] => destruct (ent_take g l) as [[? ?]|] eqn:Etake
       | context [match box_remove ?a ?b with _ => _ end] => destruct (box_remove a b) as [? [?|]] eqn:?
       end; try discriminate.
  all: inv_ok H.
  all: unfold invJ, after_evict; autorewrite with sys.
  all: cbn [pending] in J1.
  all: repeat match goal with |- context [if ?b then _ else _] => destruct b eqn:? end.
  all: cbn [s_enf with_enf finish_enf with_epc e_cur e_all e_pc pending s_max].
  all: rewrite ?total_app.
  all: try (apply total_take in Etake).
  all: try (rewrite Eall in J1; cbn [total] in J1).
  all: repeat match goal with k0 : ent |- _ =>
         lazymatch goal with _ : 0 <= esize k0 |- _ => fail | _ => pose proof (esize_nonneg k0) end end.
  all: cbn [e_cur total] in *.
  all: repeat match goal with Hb : (_ <? _) = true |- _ => apply Z.ltb_lt in Hb end.
  all: split; [try lia | intros ? ? Hp Hm; try discriminate; autorewrite with sys in Hm; rewrite Emax in Hm; inv_ok Hm; cbn [e_cur]; lia].
Qed.

Lemma invJ_step s w c s' : invJ s -> step s w c = SOk s' -> invJ s'.
Proof. destruct w; cbn [step]; eauto using invJ_thr, invJ_enf. Qed.

Lemma init_invJ cap max ops : invJ (init_sys cap max [] enf0 ops).
Proof. split; [cbn; lia | intros; discriminate]. Qed.

Definition max_ok (max : option Z) : Prop := match max with Some z => 0 <= z | None => True end.

Lemma no_crash_inv s w c : max_ok (s_max s) -> invJ s -> step s w c <> SCrash.
Proof.
  intros Hm [J1 J2] H. destruct w as [t|]; cbn [step] in H.
  - unfold step_thr in H.
    destruct (nth_error (s_thr s) t) as [p|]; [|discriminate].
    destruct p; try discriminate.
    all: repeat match type of H with
       | context [match ?o with OAdd _ _ _ => _ | _ => _ end] => destruct o
       | context [if ?b then _ else _] => destruct b
       | context [let '(_, _) := ?x in _] => destruct x
       | context [match pick ?c ?l with _ => _ end] => destruct (pick c l) as [[? ?]|]
       | context [match s_max ?ss with _ => _ end] => destruct (s_max ss)
       | context [match ?o with Some _ => _ | None => _ end] => is_var o; destruct o
       end; try discriminate.
    all: unfold enf_remove_step in H;
         repeat match type of H with
         | context [match s_max ?ss with _ => _ end] => destruct (s_max ss)
         | context [if ?b then _ else _] => destruct b end; discriminate.
  - unfold step_enf in H. destruct (s_max s) as [max|] eqn:Emax; [|discriminate].
    destruct (e_pc (s_enf s)) eqn:Epc; try discriminate.
    + destruct (tag_mem _ _); discriminate.
    + destruct (e_all (s_enf s)) eqn:Eall; [|discriminate].
      specialize (J2 _ _ eq_refl eq_refl). cbn [pending total] in J1. cbn in Hm. lia.
    + destruct (locked _ _); [discriminate|]. destruct (box_remove _ _) as [? [?|]]; discriminate.
    + destruct (tag_mem _ _); [destruct (ent_take _ _) as [[? ?]|]|]; discriminate.
Qed.

Lemma max_step s w c s' : step s w c = SOk s' -> s_max s' = s_max s.
Proof.
  intros H. destruct w as [t|]; cbn [step] in H.
  - unfold step_thr in H.
    destruct (nth_error (s_thr s) t) as [p|] eqn:Ep; [|discriminate].
    destruct p; try discriminate.
    all: split_step H.
    all: inv_ok H; autorewrite with sys; congruence.
  - unfold step_enf in H. destruct (s_max s) eqn:E; [|discriminate].
    destruct (e_pc (s_enf s)); try discriminate;
      repeat match type of H with
       | context [if ?b then _ else _] => destruct b eqn:?
       | context [match e_all ?e with _ => _ end] => destruct (e_all e) eqn:?
       | context [match ent_take ?g ?l with _ => _ end] => destruct (ent_take g l) as [[? ?]|] eqn:?
       | context [match box_remove ?a ?b with _ => _ end] => destruct (box_remove a b) as [? [?|]] eqn:?
       end; try discriminate; inv_ok H; autorewrite with sys; assumption.
Qed.

Theorem mem_no_crash_run cap max ops sched n s :
  max_ok max -> run (init_sys cap max [] enf0 ops) sched <> CrashedAt n s.
Proof.
  intros Hm Hr.
  pose proof (run_from_reach (init_sys cap max [] enf0 ops) sched 0 _ (reach_refl _)) as H.
  unfold run in Hr. rewrite Hr in H. destruct H as [R (w & c & Hc)].
  assert (HJ : invJ s /\ s_max s = max).
  { clear Hr Hc. revert s R. apply reach_ind_inv.
    - split; [apply init_invJ | reflexivity].
    - intros s1 s2 w0 c0 [HJ Hx] Hs. split; [eapply invJ_step; eauto|]. rewrite (max_step _ _ _ _ Hs). exact Hx. }
  destruct HJ as [HJ Hx]. eapply no_crash_inv; eauto. rewrite Hx. exact Hm.
Qed.

(** Non-vacuity: the eviction point is reached (an oversize delivery is evicted at once). *)
Example eviction_point_reached :
  exists s w, run (init_sys 0%N (Some 1024) [] enf0 [OAdd 1%N 1%N 2000%N])
    [(T 0%nat, 0%nat); (T 0%nat, 0%nat); (T 0%nat, 0%nat); (T 0%nat, 0%nat); (E, 0%nat)] = Fin s
    /\ e_pc (s_enf s) = EEvict w.
Proof. eexists _, _. vm_compute. split; reflexivity. Qed.

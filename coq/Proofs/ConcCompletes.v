(** C09 — "every operation completes", composed: deadlock freedom (some party can always move), no crash, and the
    step bound (every step decreases a measure) together give, for both stores' models: wherever a schedule has
    stopped — finished or at a party that is blocked —, the execution can be resumed and every resumption policy
    that keeps picking parties that can move reaches, after at most [measure] further steps, the state in which
    every operation has returned.  Stated as: a completing continuation exists and is at most that long. *)
From IV Require Import Model.Conc Model.ConcMem Model.ConcFile Proofs.ConcBase Proofs.ConcMemInv Proofs.ConcMemCrash Proofs.ConcStmts Proofs.ConcMemTerm Proofs.ConcFileInv Proofs.ConcFileTerm.
From Coq Require Import Lia ZifyN ZifyNat ZifyBool Wf_nat.
Local Open Scope nat_scope.

(* ------------------------------------------------------------------ memory store *)

Lemma reach_J cap max ops s : reach (init_sys cap max [] enf0 ops) s -> invJ s /\ s_max s = max.
Proof.
  revert s. apply reach_ind_inv.
  - split; [apply init_invJ | reflexivity].
  - intros s1 s2 w0 c0 [HJ Hx] Hs. split; [eapply invJ_step; eauto|]. rewrite (max_step _ _ _ _ Hs). exact Hx.
Qed.

Lemma mem_completes_from cap max ops : max_ok max -> forall k s,
  reach (init_sys cap max [] enf0 ops) s -> M s <= k ->
  exists ext s', run_from 0 s ext = Fin s' /\ all_done s' = true /\ length ext <= M s.
Proof.
  intros Hm. induction k as [k IH] using lt_wf_ind. intros s R Hk.
  destruct (mem_deadlock_free _ _ _ _ R) as [Hd|[w Hw]].
  - exists [], s. cbn. repeat split; [exact Hd | lia].
  - unfold can_move in Hw. destruct (step s w 0) as [s1| | |] eqn:E; try contradiction.
    + pose proof (step_decreases _ _ _ _ E) as Hdec.
      destruct (IH (M s1) ltac:(lia) s1 (reach_step _ _ _ _ _ R E) (le_n _)) as (ext & s' & H1 & H2 & H3).
      exists ((w, 0) :: ext), s'. cbn [run_from length]. rewrite E.
      repeat split; [|exact H2|lia].
      clear -H1. revert H1. generalize 0 at 1. generalize 1. (* the step index only labels where a run stops *)
      intros a b. revert s1 a b. induction ext as [|[w' c'] r IHr]; intros s1 a b H; cbn [run_from] in *; [exact H|].
      destruct (step s1 w' c'); try discriminate; eauto.
    + exfalso. destruct (reach_J _ _ _ _ R) as [HJ Hx]. eapply no_crash_inv; eauto. rewrite Hx. exact Hm.
Qed.

(** Every cap, every size limit >= 0, every operations, every schedule: from wherever the schedule stopped the run
    can be continued to the state in which every operation has returned and the enforcer is idle, within [M]
    further steps. *)
Theorem mem_every_operation_completes : forall cap max ops sched,
  (match max with Some z => 0 <= z | None => True end)%Z ->
  match run (init_sys cap max [] enf0 ops) sched with
  | Fin s | BlockedAt _ s =>
      exists ext s', run_from 0%nat s ext = Fin s' /\ all_done s' = true /\
                     (length ext <= (length ops + 1) * (15 * length ops) + 2 * length ops)%nat
  | CrashedAt _ _ => False
  end.
Proof.
  intros cap max ops sched Hm.
  pose proof (run_from_reach (init_sys cap max [] enf0 ops) sched 0 _ (reach_refl _)) as H.
  pose proof (mem_no_crash_run cap max ops sched) as Hc. unfold run in *.
  assert (Hbound : forall s, reach (init_sys cap max [] enf0 ops) s -> M s <= (length ops + 1) * (15 * length ops) + 2 * length ops).
  { intros s R. induction R as [|s1 s2 w c R IH Hs]; [|pose proof (step_decreases _ _ _ _ Hs); lia].
    pose proof (mem_step_bound cap max ops []) as _. destruct (init_weights ops) as [H1 H2].
    unfold M, M0, Vs, init_sys. cbn [s_thr s_enf s_boxes e_pc e_all enf0 WE map length].
    rewrite map_length. unfold Lsum. change (sumf (fun kb : mbname * mbx => lenb (snd kb)) []) with 0. nia. }
  destruct (run_from 0 _ sched) as [s|n s|n s].
  - destruct (mem_completes_from cap max ops Hm _ s H (le_n _)) as (ext & s' & A & B & C).
    exists ext, s'. repeat split; auto. specialize (Hbound _ H). lia.
  - destruct (mem_completes_from cap max ops Hm _ s H (le_n _)) as (ext & s' & A & B & C).
    exists ext, s'. repeat split; auto. specialize (Hbound _ H). lia.
  - exact (Hc n s Hm eq_refl).
Qed.

(* ------------------------------------------------------------------ file store *)

Lemma file_completes_from g ops : forall k s,
  freach (finit g ops) s -> Mf s <= k ->
  exists ext s', frun_from 0 s ext = FFin s' /\ fall_done s' = true /\ length ext <= Mf s.
Proof.
  induction k as [k IH] using lt_wf_ind. intros s R Hk.
  assert (HA : invFA s) by (clear -R; induction R; [apply init_invFA | eapply invFA_step; eauto]).
  destruct (file_deadlock_free_inv _ HA) as [Hd|[t Ht]].
  - exists [], s. cbn. repeat split; [exact Hd | lia].
  - unfold fenabled in Ht. destruct (fstep s t 0) as [s1| | |] eqn:E; try discriminate.
    pose proof (fstep_dec _ _ _ _ E) as Hdec.
    destruct (IH (Mf s1) ltac:(lia) s1 (freach_step _ _ _ _ _ R E) (le_n _)) as (ext & s' & H1 & H2 & H3).
    exists ((t, 0) :: ext), s'. cbn [frun_from length]. rewrite E.
    repeat split; [|exact H2|lia].
    clear -H1. revert H1. generalize 0 at 1. generalize 1.
    intros a b. revert s1 a b. induction ext as [|[t' c'] r IHr]; intros s1 a b H; cbn [frun_from] in *; [exact H|].
    destruct (fstep s1 t' c'); try discriminate; eauto.
Qed.

Theorem file_every_operation_completes : forall g ops sched,
  match frun (finit g ops) sched with
  | FFin s | FBlockedAt _ s =>
      exists ext s', frun_from 0%nat s ext = FFin s' /\ fall_done s' = true /\
                     (length ext <= (1 + length ops * (1 + length ops * (length ops + 1)) + 7) * length ops)%nat
  end.
Proof.
  intros g ops sched.
  pose proof (frun_from_reach (finit g ops) sched 0 _ (freach_refl _)) as H. unfold frun.
  assert (Hbound : forall s, freach (finit g ops) s -> Mf s <= (1 + length ops * (1 + length ops * (length ops + 1)) + 7) * length ops).
  { intros s R. induction R as [|s1 s2 t c R IH Hs]; [|pose proof (fstep_dec _ _ _ _ Hs); lia].
    pose proof (file_step_bound g ops []) as _.
    unfold Mf. cbn [finit f_thr]. etransitivity; [apply finit_weights|].
    apply Nat.mul_le_mono_r. apply Nat.add_le_mono_r.
    pose proof (finit_G ops) as HG. set (u := dims_of (finit g ops)).
    assert (H1 : d1 u <= length ops /\ d2 u <= length ops /\ d3 u <= length ops).
    { subst u. unfold dims_of, Gf. cbn [finit f_thr f_l1 f_l2 f_mbd d1 d2 d3 length]. lia. }
    destruct H1 as (H1 & H2 & H3).
    destruct (P_mono (mkD (length ops) (length ops) (length ops)) u) as (_ & _ & HP); [repeat split; assumption|]. exact HP. }
  destruct (frun_from 0 _ sched) as [s|n s];
    destruct (file_completes_from g ops _ s H (le_n _)) as (ext & s' & A & B & C);
    exists ext, s'; repeat split; auto; specialize (Hbound _ H); lia.
Qed.

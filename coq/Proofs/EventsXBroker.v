(** C16 — two brokers, one per event type (open finding K-C16-cross-broker-order). *)
From Coq Require Import List Arith Lia.
From IV Require Import Base.Bytes Model.StoreSpec Model.Events Proofs.EventsBroker.
Import ListNotations.
Local Open Scope nat_scope.

(** The witness: the consumer is invoked with deleted(2) before stored(2). *)
Theorem stored_before_deleted_delivery_refuted :
  exists sched, xsbd_ok (xlog nat 0 (snd (xrun nat (binit nat 1) (binit nat 1) sched))) = false /\
                emitted nat (proj nat true sched) = [1; 2] /\ emitted nat (proj nat false sched) = [2].
Proof. exists xbroker_witness. vm_compute. auto. Qed.

Example xbroker_log_value : xbroker_log = [(true, 1); (false, 2); (true, 2)].
Proof. vm_compute. reflexivity. Qed.

(** The full statement (NOT true of the model, hence of the code): whenever every deleted(n) is
    emitted after stored(n), every consumer sees stored(n) before deleted(n). *)
Definition stored_before_deleted_delivery_stmt : Prop :=
  forall n sched l, l < n ->
    (forall pre x post, sched = pre ++ (false, Emit nat x) :: post -> In x (emitted nat (proj nat true pre))) ->
    xsbd_ok (xlog nat l (snd (xrun nat (binit nat n) (binit nat n) sched))) = true.

Section X.
Variable E : Type.

(** The brokers are independent: each one runs its own projection of the schedule. *)
Lemma xrun_proj : forall sched ss ds,
  let '(ss', ds', o) := xrun E ss ds sched in
  (ss', oproj E true o) = brun E ss (proj E true sched) /\ (ds', oproj E false o) = brun E ds (proj E false sched).
Proof.
  assert (Ht : forall b (o1 : list (lobs E)) o2, oproj E b (map (pair b) o1 ++ o2) = o1 ++ oproj E b o2).
  { intros b o1 o2. induction o1 as [|x o1 IH]; [reflexivity|]. simpl. rewrite Bool.eqb_reflx. f_equal. exact IH. }
  assert (Hf : forall b (o1 : list (lobs E)) o2, oproj E b (map (pair (negb b)) o1 ++ o2) = oproj E b o2).
  { intros b o1 o2. induction o1 as [|x o1 IH]; [reflexivity|]. simpl. destruct b; simpl; exact IH. }
  induction sched as [|[b a] sched IH]; intros ss ds; [simpl; auto|].
  destruct b; cbn [xrun proj Bool.eqb brun].
  - destruct (bstep E ss a) as [ss1 o1]. specialize (IH ss1 ds). destruct (xrun E ss1 ds sched) as [[ss2 ds2] o2].
    destruct IH as [H1 H2]. rewrite (Ht true), (Hf false). rewrite <- H1, <- H2. auto.
  - destruct (bstep E ds a) as [ds1 o1]. specialize (IH ss ds1). destruct (xrun E ss ds1 sched) as [[ss2 ds2] o2].
    destruct IH as [H1 H2]. rewrite (Ht false), (Hf true). rewrite <- H1, <- H2. auto.
Qed.

(** [stored_before_deleted_delivery_partial]: per broker the invocation order is the emit order
    ([delivery_is_emit_order]); ACROSS the brokers: if, at the moment deleted(x) is emitted, the
    consumer's stored-queue is empty (nothing pending for its stored listener), it has already
    been invoked with stored(x) and not yet with deleted(x) — so it sees stored(x) first. *)
Theorem stored_before_deleted_delivery_partial n pre l x : l < n ->
  let '(ss, ds, o) := xrun E (binit E n) (binit E n) pre in
  pending E (nth l ss (lst_init E)) = [] ->
  In x (emitted E (proj E true pre)) -> ~ In x (emitted E (proj E false pre)) ->
  In x (begun E l (oproj E true o)) /\ ~ In x (begun E l (oproj E false o)).
Proof.
  intros Hl. pose proof (xrun_proj pre (binit E n) (binit E n)) as H.
  destruct (xrun E (binit E n) (binit E n) pre) as [[ss ds] o]. destruct H as [HS HD].
  intros Hq HinS HninD.
  pose proof (delivery_is_emit_order E n (proj E true pre) l Hl) as OS. rewrite <- HS in OS. cbn [fst snd] in OS.
  pose proof (delivery_is_emit_order E n (proj E false pre) l Hl) as OD. rewrite <- HD in OD. cbn [fst snd] in OD.
  unfold dflt in OS, OD. rewrite Hq, app_nil_r in OS. split.
  - rewrite OS. exact HinS.
  - intros Hb. apply HninD. rewrite <- OD. apply in_or_app. left; exact Hb.
Qed.
End X.

(** Non-vacuity of [stored_before_deleted_delivery_partial] (the auditor's instance): the consumer
    has finished stored(1) and begun stored(2) when deleted(2) is about to be emitted. *)
Example delivery_partial_instance :
  let pre := [(true, Emit nat 1); (true, Move nat 0); (true, Emit nat 2); (true, Move nat 0); (true, Move nat 0)] in
  let '(ss, ds, o) := xrun nat (binit nat 1) (binit nat 1) pre in
  pending nat (nth 0 ss (lst_init nat)) = [] /\ In 2 (emitted nat (proj nat true pre)) /\ ~ In 2 (emitted nat (proj nat false pre)) /\
  In 2 (begun nat 0 (oproj nat true o)) /\ ~ In 2 (begun nat 0 (oproj nat false o)).
Proof. vm_compute. repeat split; auto; intros []. Qed.

(** Scope of the emission-order theorems (EventsOrder, EventsHistory clause 5): SEQUENTIAL
    histories. Under concurrent operations deleted(x) can be EMITTED before stored(x) without any
    oversize message: StoreManager.Deliver emits stored(x) only after AddMessage(x) has returned,
    while a store emits deleted(x) from inside the operation that removes x (another delivery's cap
    or size eviction, a delete, a retention removal). Open finding
    K-C16-concurrent-stored-after-deleted; witness on the real code: kind cdeliver (go/cmd/c07/sd/cdeliver.go).
    The store models here have no interleaving semantics (that is C09's Conc.v), so there is no
    model-level statement; the finding is recorded by its witness and in NOT_PROVED. *)

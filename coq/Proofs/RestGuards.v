(** C14: each guard of [client_roundtrip] / [client_op_effect] on the mailbox name is necessary —
    for a name with a space, the name "." or "..", and the empty name the request the client
    sends does not reach the route of that name (besides '/', the open finding). None of these
    names can receive mail (C04), so nothing is lost; the theorem says the guards are not slack. *)
From IV Require Import Base.Bytes Base.BytesFacts Model.StoreSpec Model.Rest Proofs.RestClient.
Open Scope N_scope.

Definition routed_of (name : str) : routed :=
  match unescape (client_wire [] (client_uri name [])) with
  | Some p => match split_on slash p with [] :: segs => route [] GET segs | _ => RNotFound end
  | None => RNotFound
  end.

Theorem client_roundtrip_guards_necessary :
  (* a space becomes '+', which the server keeps: the request is for the name "a+b" *)
  routed_of [97; 32; 98] = RHandler HList [97; 43; 98] [] [] /\
  (* "." and ".." are removed by path.Clean on the client: no mailbox route is left *)
  routed_of [46] = RNotFound /\ routed_of [46; 46] = RNotFound /\
  (* the empty name leaves "/api/v1/mailbox": not a route either *)
  routed_of [] = RNotFound /\
  (* whereas a good name reaches its own route *)
  routed_of [97; 38; 98] = RHandler HList [97; 38; 98] [] [].
Proof. vm_compute. repeat split. Qed.

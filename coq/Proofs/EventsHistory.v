(** C16 — [events_match_history]: the single end-to-end statement about the events of a store
    history, for both back-end models, composed from the refinement theorems
    (mem_refines_spec, file_refines_spec[_env]), the conservation law (EventsCount), the order
    theorem (EventsOrder) and two small facts proved here (the stored sequence is the sequence
    of deliveries; operations that fail or only read emit nothing).

    NOT promised (the two open findings):
    - K-C16-oversize-order: for a delivery larger than the whole size limit the message's own
      deleted event is emitted before its stored event (clause 5 carries the guard);
    - K-C16-cross-broker-order: the theorem is about what is EMITTED, per broker, in which
      order; the order in which a consumer of both brokers is INVOKED across the two brokers is
      only promised under the guard of stored_before_deleted_delivery_partial. *)
From Coq Require Import List Arith Lia Sorted.
From IV Require Import Base.Bytes Base.BytesFacts Model.StoreSpec Model.StoreSpecImpl Model.MemStore Model.FileStore Model.Events
  Proofs.StoreSpecFacts Proofs.MemStoreRefine Proofs.FileStoreRefine Proofs.FileStoreClock
  Proofs.EventsTrace Proofs.EventsCount Proofs.EventsOrder.
Import ListNotations.
Local Open Scope nat_scope.

(** The deliveries of a history, by handle: the n-th add to [mb] delivers message (mb, n). *)
Fixpoint stored_seq (c : list (str * nat)) (ops : list op) : list mkey :=
  match ops with
  | [] => []
  | Add mb _ _ _ :: r => (mb, count_of mb c) :: stored_seq (bump mb c) r
  | _ :: r => stored_seq c r
  end.

(** What the AfterMessageStored broker / the AfterMessageDeleted broker is handed, in order. *)
Definition stored_keys (t : list event) : list mkey := map ev_key (filter is_stored t).
Definition deleted_keys (t : list event) : list mkey := map ev_key (filter is_deleted t).

(** Operations that only read, or that fail: everything but a delivery and a successful
    MarkSeen / RemoveMessage / PurgeMessages. *)
Definition silent (ob : obs) : bool :=
  match ob with OAdd _ _ => false | OUnit (Ok _) => false | _ => true end.

Lemma stored_keys_app a b : stored_keys (a ++ b) = stored_keys a ++ stored_keys b.
Proof. unfold stored_keys. rewrite filter_app, map_app. reflexivity. Qed.

Lemma stored_keys_deleted d : stored_keys (map ev_deleted d) = [].
Proof. unfold stored_keys. induction d as [|e d IH]; [reflexivity | exact IH]. Qed.

Lemma exec_stored_keys cfg st o :
  let '(st', _, evs) := exec_spec cfg st o in
  stored_keys evs = stored_seq (counts st) [o] /\
  counts st' = match o with Add mb _ _ _ => bump mb (counts st) | _ => counts st end.
Proof.
  destruct o as [mb date tag size|mb h|mb|mb h|mb h|mb|].
  - cbn [exec_spec]. rewrite spec_add_unfold. cbv zeta. destruct (add_cap cfg mb _) as [d1 l2]. destruct (add_fit cfg l2) as [d2 l3].
    cbn [counts stored_seq]. rewrite !stored_keys_app, !stored_keys_deleted. split; reflexivity.
  - destruct h; simpl; auto.
  - simpl; auto.
  - cbn [exec_spec]. destruct (find_h mb h (live st)); simpl; auto.
  - cbn [exec_spec]. destruct (find_h mb h (live st)); simpl; auto.
  - cbn [exec_spec counts stored_seq]. rewrite stored_keys_deleted. auto.
  - simpl; auto.
Qed.

Lemma stored_seq_cons c o ops :
  stored_seq c (o :: ops) = stored_seq c [o] ++ stored_seq (match o with Add mb _ _ _ => bump mb c | _ => c end) ops.
Proof. destruct o; reflexivity. Qed.

Lemma run_stored_keys cfg : forall ops st, stored_keys (trace_of (run_spec cfg st ops)) = stored_seq (counts st) ops.
Proof.
  induction ops as [|o ops IH]; intros st; [reflexivity|].
  rewrite trace_cons, stored_keys_app, stored_seq_cons.
  pose proof (exec_stored_keys cfg st o) as H. destruct (exec_spec cfg st o) as [[st' ob] evs]. destruct H as [H1 H2].
  cbn [fst snd]. rewrite H1, IH, H2. reflexivity.
Qed.

Lemma exec_silent cfg st o : let '(_, ob, evs) := exec_spec cfg st o in silent ob = true -> evs = [].
Proof.
  destruct o as [mb date tag size|mb h|mb|mb h|mb h|mb|].
  - cbn [exec_spec]. destruct (spec_add cfg st mb _) as [[st' k] evs]. simpl. discriminate.
  - destruct h; simpl; auto.
  - simpl; auto.
  - cbn [exec_spec]. destruct (find_h mb h (live st)); simpl; [discriminate | auto].
  - cbn [exec_spec]. destruct (find_h mb h (live st)); simpl; [discriminate | auto].
  - simpl. discriminate.
  - simpl; auto.
Qed.

Lemma run_silent cfg : forall ops st, Forall (fun p => silent (fst p) = true -> snd p = []) (run_spec cfg st ops).
Proof.
  induction ops as [|o ops IH]; intros st; [constructor|]. cbn [run_spec].
  pose proof (exec_silent cfg st o) as H. destruct (exec_spec cfg st o) as [[st' ob] evs]. constructor; [exact H | apply IH].
Qed.

(** The five clauses, about one run [R] of a history [ops]. *)
Definition events_match (cfg : scfg) (ops : list op) (R : list (obs * list event)) : Prop :=
  let T := trace_of R in
  (* 1. operation by operation, the events are those of the abstract store (by handle) *)
  R = run_spec cfg spec_init ops /\
  (* 2. the stored broker is handed exactly the deliveries of the history, in order: one per add *)
  stored_keys T = stored_seq [] ops /\
  (* 3. the deleted broker is handed, per message, exactly one event if the message was delivered
        and is no longer in its mailbox (removed, purged, evicted by the cap or by the size
        limit), none if it is still there or was never delivered *)
  (forall mb k, count_deleted (mb, k) T + live_count (mb, k) (live (final_spec cfg spec_init ops)) = count_stored (mb, k) T) /\
  (forall mb k, count_stored (mb, k) T = lt01 k (n_adds mb ops)) /\
  (* 4. operations that fail or only read emit nothing *)
  Forall (fun p => silent (fst p) = true -> snd p = []) R /\
  (* 5. a message's deleted event comes after its stored event — unless a delivery is larger than
        the whole size limit (open finding K-C16-oversize-order) *)
  (no_oversize cfg ops -> sbd_ok T = true).

Lemma events_match_spec cfg ops : events_match cfg ops (run_spec cfg spec_init ops).
Proof.
  unfold events_match. split; [reflexivity|]. split; [apply (run_stored_keys cfg ops spec_init)|].
  split; [intros mb k; apply deleted_once_spec|]. split; [intros mb k; apply stored_once_spec|].
  split; [apply run_silent | apply stored_before_deleted_partial_spec].
Qed.

(** [events_match_history]: for EVERY history of store operations, every cap and size limit,
    on the memory-store model; and on the file-store model for every cap under the environment
    assumption of file_fresh_from_env. *)
Theorem events_match_history cfg ops :
  events_match cfg ops (run_mem cfg ops) /\
  (forall ticks, c_max cfg = 0%N -> env_ok 0 ticks ops -> events_match cfg ops (run_file cfg ticks ops)).
Proof.
  split.
  - rewrite mem_refines_spec. apply events_match_spec.
  - intros ticks Hm He. rewrite (file_refines_spec_env cfg Hm ticks ops He). apply events_match_spec.
Qed.

(** Non-vacuity: a history with a removal, a cap eviction and a failed removal. *)
Example events_match_example :
  let ops := [Add [97%N] 0%Z 0%N 10%N; Add [97%N] 1%Z 1%N 10%N; Remove [97%N] (Kth 0); Remove [97%N] (Kth 0); Add [97%N] 2%Z 2%N 10%N] in
  stored_seq [] ops = [([97%N], 0); ([97%N], 1); ([97%N], 2)] /\
  deleted_keys (trace_of (run_mem {| c_cap := 1; c_max := 0 |} ops)) = [([97%N], 0); ([97%N], 1)].
Proof. vm_compute. auto. Qed.

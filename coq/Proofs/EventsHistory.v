(** C16 — [events_match_history]: the single end-to-end statement about the events of a store
    history, for both back-end models, composed from the refinement theorems
    (mem_refines_spec, file_refines_spec[_env]), the conservation law (EventsCount), the order
    theorem (EventsOrder) and two small facts proved here (the stored sequence is the sequence
    of deliveries; operations that fail or only read emit nothing).

    NOT promised (the two open findings):
    - K-C16-oversize-order: for a delivery larger than the whole size limit the message's own
      deleted event is emitted before its stored event (clause 5 carries the guard);
    - K-C16-cross-broker-order: the theorem is about what is EMITTED, per broker, in which
      order; the order in which a consumer of both brokers is INVOKED across the two brokers is
      only promised under the guard of stored_before_deleted_delivery_partial. *)
From Coq Require Import List Arith Lia Sorted.
From IV Require Import Base.Bytes Base.BytesFacts Model.StoreSpec Model.StoreSpecImpl Model.MemStore Model.FileStore Model.Events
  Proofs.StoreSpecFacts Proofs.MemStoreRefine Proofs.FileStoreRefine Proofs.FileStoreClock
  Proofs.EventsTrace Proofs.EventsCount Proofs.EventsOrder.
Import ListNotations.
Local Open Scope nat_scope.

(** The deliveries of a history, by handle: the n-th add to [mb] delivers message (mb, n). *)
Fixpoint stored_seq (c : list (str * nat)) (ops : list op) : list mkey :=
  match ops with
  | [] => []
  | Add mb _ _ _ :: r => (mb, count_of mb c) :: stored_seq (bump mb c) r
  | _ :: r => stored_seq c r
  end.

(** What the AfterMessageStored broker / the AfterMessageDeleted broker is handed, in order. *)
Definition stored_keys (t : list event) : list mkey := map ev_key (filter is_stored t).
Definition deleted_keys (t : list event) : list mkey := map ev_key (filter is_deleted t).

(** Operations that only read, or that fail: everything but a delivery and a successful
    MarkSeen / RemoveMessage / PurgeMessages. *)
Definition silent (ob : obs) : bool :=
  match ob with OAdd _ _ => false | OUnit (Ok _) => false | _ => true end.

Lemma stored_keys_app a b : stored_keys (a ++ b) = stored_keys a ++ stored_keys b.
Proof. unfold stored_keys. rewrite filter_app, map_app. reflexivity. Qed.

Lemma stored_keys_deleted d : stored_keys (map ev_deleted d) = [].
Proof. unfold stored_keys. induction d as [|e d IH]; [reflexivity | exact IH]. Qed.

Lemma exec_stored_keys cfg st o :
  let '(st', _, evs) := exec_spec cfg st o in
  stored_keys evs = stored_seq (counts st) [o] /\
  counts st' = match o with Add mb _ _ _ => bump mb (counts st) | _ => counts st end.
Proof.
  destruct o as [mb date tag size|mb h|mb|mb h|mb h|mb|].
  - cbn [exec_spec]. rewrite spec_add_unfold. cbv zeta. destruct (add_cap cfg mb _) as [d1 l2]. destruct (add_fit cfg l2) as [d2 l3].
    cbn [counts stored_seq]. rewrite !stored_keys_app, !stored_keys_deleted. split; reflexivity.
  - destruct h; simpl; auto.
  - simpl; auto.
  - cbn [exec_spec]. destruct (find_h mb h (live st)); simpl; auto.
  - cbn [exec_spec]. destruct (find_h mb h (live st)); simpl; auto.
  - cbn [exec_spec counts stored_seq]. rewrite stored_keys_deleted. auto.
  - simpl; auto.
Qed.

Lemma stored_seq_cons c o ops :
  stored_seq c (o :: ops) = stored_seq c [o] ++ stored_seq (match o with Add mb _ _ _ => bump mb c | _ => c end) ops.
Proof. destruct o; reflexivity. Qed.

Lemma run_stored_keys cfg : forall ops st, stored_keys (trace_of (run_spec cfg st ops)) = stored_seq (counts st) ops.
Proof.
  induction ops as [|o ops IH]; intros st; [reflexivity|].
  rewrite trace_cons, stored_keys_app, stored_seq_cons.
  pose proof (exec_stored_keys cfg st o) as H. destruct (exec_spec cfg st o) as [[st' ob] evs]. destruct H as [H1 H2].
  cbn [fst snd]. rewrite H1, IH, H2. reflexivity.
Qed.

Lemma exec_silent cfg st o : let '(_, ob, evs) := exec_spec cfg st o in silent ob = true -> evs = [].
Proof.
  destruct o as [mb date tag size|mb h|mb|mb h|mb h|mb|].
  - cbn [exec_spec]. destruct (spec_add cfg st mb _) as [[st' k] evs]. simpl. discriminate.
  - destruct h; simpl; auto.
  - simpl; auto.
  - cbn [exec_spec]. destruct (find_h mb h (live st)); simpl; [discriminate | auto].
  - cbn [exec_spec]. destruct (find_h mb h (live st)); simpl; [discriminate | auto].
  - simpl. discriminate.
  - simpl; auto.
Qed.

Lemma run_silent cfg : forall ops st, Forall (fun p => silent (fst p) = true -> snd p = []) (run_spec cfg st ops).
Proof.
  induction ops as [|o ops IH]; intros st; [constructor|]. cbn [run_spec].
  pose proof (exec_silent cfg st o) as H. destruct (exec_spec cfg st o) as [[st' ob] evs]. constructor; [exact H | apply IH].
Qed.

(** The five clauses, about one run [R] of a history [ops]. *)
Definition events_match (cfg : scfg) (ops : list op) (R : list (obs * list event)) : Prop :=
  let T := trace_of R in
  (* 1. operation by operation, the events are those of the abstract store (by handle) *)
  R = run_spec cfg spec_init ops /\
  (* 2. the stored broker is handed exactly the deliveries of the history, in order: one per add *)
  stored_keys T = stored_seq [] ops /\
  (* 3. the deleted broker is handed, per message, exactly one event if the message was delivered
        and is no longer in its mailbox (removed, purged, evicted by the cap or by the size
        limit), none if it is still there or was never delivered *)
  (forall mb k, count_deleted (mb, k) T + live_count (mb, k) (live (final_spec cfg spec_init ops)) = count_stored (mb, k) T) /\
  (forall mb k, count_stored (mb, k) T = lt01 k (n_adds mb ops)) /\
  (* 4. operations that fail or only read emit nothing *)
  Forall (fun p => silent (fst p) = true -> snd p = []) R /\
  (* 5. a message's deleted event comes after its stored event — unless a delivery is larger than
        the whole size limit (open finding K-C16-oversize-order) *)
  (no_oversize cfg ops -> sbd_ok T = true).

Lemma events_match_spec cfg ops : events_match cfg ops (run_spec cfg spec_init ops).
Proof.
  unfold events_match. split; [reflexivity|]. split; [apply (run_stored_keys cfg ops spec_init)|].
  split; [intros mb k; apply deleted_once_spec|]. split; [intros mb k; apply stored_once_spec|].
  split; [apply run_silent | apply stored_before_deleted_partial_spec].
Qed.

(** [events_match_history]: for EVERY history of store operations, every cap and size limit,
    on the memory-store model; and on the file-store model for every cap under the environment
    assumption of file_fresh_from_env. *)
Theorem events_match_history cfg ops :
  events_match cfg ops (run_mem cfg ops) /\
  (forall ticks, c_max cfg = 0%N -> env_ok 0 ticks ops -> events_match cfg ops (run_file cfg ticks ops)).
Proof.
  split.
  - rewrite mem_refines_spec. apply events_match_spec.
  - intros ticks Hm He. rewrite (file_refines_spec_env cfg Hm ticks ops He). apply events_match_spec.
Qed.

(** Non-vacuity: a history with a removal, a cap eviction and a failed removal. *)
Example events_match_example :
  let ops := [Add [97%N] 0%Z 0%N 10%N; Add [97%N] 1%Z 1%N 10%N; Remove [97%N] (Kth 0); Remove [97%N] (Kth 0); Add [97%N] 2%Z 2%N 10%N] in
  stored_seq [] ops = [([97%N], 0); ([97%N], 1); ([97%N], 2)] /\
  deleted_keys (trace_of (run_mem {| c_cap := 1; c_max := 0 |} ops)) = [([97%N], 0); ([97%N], 1)].
Proof. vm_compute. auto. Qed.

(* ------------------------------------------------------------------ events explained by the limits *)
From IV Require Import Proofs.StoreSpecLimits Proofs.StoreSpecBoth Proofs.MemStoreLimits.

Lemma run_spec_nth_ev cfg : forall ops1 st o ops2,
  nth_error (map snd (run_spec cfg st (ops1 ++ o :: ops2))) (length ops1) =
  Some (snd (exec_spec cfg (final_spec cfg st ops1) o)).
Proof.
  induction ops1 as [|a ops1 IH]; intros st o ops2.
  - cbn [app length run_spec final_spec]. destruct (exec_spec cfg st o) as [[st' ob] evs]. reflexivity.
  - cbn [app length run_spec final_spec]. destruct (exec_spec cfg st a) as [[st' ob] evs]. cbn [map nth_error]. apply IH.
Qed.

(** [delivery_events_explained]: at any point of any history on the memory-store model (every
    cap and size limit), the events of a delivery are exactly: one deleted event per message the
    CAP evicts — the oldest of the receiving mailbox, and some only if the mailbox would exceed the
    cap —, then one deleted event per message the SIZE LIMIT evicts — the shortest prefix of the
    store-wide arrival order that makes the store fit, and some only if the store would exceed the
    limit —, then the stored event of the delivered message. (C16's "one deleted event per removed
    message" composed with C08's "oldest first, only what is necessary".) *)
Theorem delivery_events_explained cfg ops1 ops2 mb date tag size :
  let st := final_spec cfg spec_init ops1 in
  let m := {| m_date := date; m_tag := tag; m_size := size; m_seen := false |} in
  let sb := box mb (live st) ++ [{| e_mb := mb; e_k := count_of mb (counts st); e_msg := m |}] in
  let '(d1, l2) := add_cap cfg mb (add_l1 st mb m) in
  let '(d2, l3) := add_fit cfg l2 in
  nth_error (map snd (run_mem cfg (ops1 ++ Add mb date tag size :: ops2))) (length ops1) =
    Some (map ev_deleted d1 ++ map ev_deleted d2 ++ [(EStored, mb, count_of mb (counts st))]) /\
  (c_cap cfg <> 0 -> d1 = firstn (length sb - c_cap cfg) sb) /\ (c_cap cfg = 0 -> d1 = []) /\
  (d1 <> [] <-> c_cap cfg <> 0 /\ c_cap cfg < length (box mb (live st)) + 1) /\
  l2 = d2 ++ l3 /\
  (c_max cfg <> 0%N -> (total l3 <= c_max cfg)%N /\
     forall d' r', l2 = d' ++ r' -> (total r' <= c_max cfg)%N -> length d2 <= length d') /\
  (d2 <> [] <-> c_max cfg <> 0%N /\ (c_max cfg < total l2)%N).
Proof.
  intros st m sb.
  pose proof (run_spec_nth_ev cfg ops1 spec_init (Add mb date tag size) ops2) as Hn. fold st in Hn.
  cbn [exec_spec] in Hn. fold m in Hn. rewrite spec_add_unfold in Hn. cbv zeta in Hn.
  pose proof (evicts_iff_necessary cfg st mb m) as Hnec. cbv zeta in Hnec.
  pose proof (cap_keeps_newest cfg st mb m) as Hk. cbv zeta in Hk. fold sb in Hk.
  assert (Hc0 : c_cap cfg = 0 -> fst (add_cap cfg mb (add_l1 st mb m)) = []).
  { intros H0. unfold add_cap. rewrite H0. reflexivity. }
  destruct (add_cap cfg mb (add_l1 st mb m)) as [d1 l2]. cbn [fst] in Hc0.
  pose proof (add_fit_split cfg l2) as Hs.
  assert (Hm : c_max cfg <> 0%N -> let '(d2, l3) := add_fit cfg l2 in (total l3 <= c_max cfg)%N /\
                 forall d' r', l2 = d' ++ r' -> (total r' <= c_max cfg)%N -> length d2 <= length d').
  { intros H0. pose proof (evict_global_oldest_prefix cfg l2 H0) as H. destruct (add_fit cfg l2). tauto. }
  destruct (add_fit cfg l2) as [d2 l3]. cbn [snd] in Hn.
  destruct Hnec as [Hn1 Hn2]. destruct Hk as [Hk1 _].
  split; [rewrite mem_refines_spec; exact Hn|].
  split; [intros H0; apply (Hk1 H0)|]. split; [exact Hc0|]. split; [exact Hn1|]. split; [exact Hs|].
  split; [exact Hm | exact Hn2].
Qed.
